// Package ovl builds test binaries of gostatsd packages that cannot be imported (package main of
// cmd/gostatsd and cmd/lambda-extension, or internals of any package) with extra _test.go files laid over
// the package directory by `go test -c -overlay`, without writing anything into the repository.
//
// A check keeps its in-package scenario runner in a sub-directory of its own source tree, e.g.
// checks/c18/overlay_gostatsd/runner_test.go (package main, `//go:build verif`). The runner cannot import
// the verif module: it reads a scenario file named by an environment variable, drives the real code and
// writes what it observed as JSON; the oracle stays in the check, which runs the binary as a child process.
package ovl

import (
	"encoding/json"
	"fmt"
	"os"
	"os/exec"
	"path/filepath"
	"strings"
	"syscall"
)

func cleanEnv() []string {
	env := []string{}
	for _, e := range os.Environ() {
		if strings.HasPrefix(e, "GOFLAGS=") || strings.HasPrefix(e, "GOPROXY=") || strings.HasPrefix(e, "GOTOOLCHAIN=") || strings.HasPrefix(e, "GOSUMDB=") || strings.HasPrefix(e, "GORACE=") || strings.HasPrefix(e, "GOMAXPROCS=") {
			continue
		}
		env = append(env, e)
	}
	return append(env, "GOFLAGS=-mod=mod", "GOPROXY=off")
}

// Build returns the path of a test binary of package pkg (relative to the repository root, "./cmd/gostatsd")
// of the repository under test (VERIF_REPO_DIR) in which every *_test.go file of srcDir appears as
// zz_verif_<name>_<file>. The binary is built once per run: the shards of a check share VERIF_OUT and
// serialise on a lock file. An error means the build failed (the text carries the compiler output).
func Build(name, pkg, srcDir string, race bool) (string, error) {
	repo := os.Getenv("VERIF_REPO_DIR")
	out := os.Getenv("VERIF_OUT")
	if repo == "" || out == "" {
		return "", fmt.Errorf("VERIF_REPO_DIR / VERIF_OUT unset")
	}
	bin := filepath.Join(out, "overlay_"+name+".test")
	lock, err := os.OpenFile(bin+".lock", os.O_CREATE|os.O_RDWR, 0o644)
	if err != nil {
		return "", err
	}
	defer lock.Close()
	if err := syscall.Flock(int(lock.Fd()), syscall.LOCK_EX); err != nil {
		return "", err
	}
	defer syscall.Flock(int(lock.Fd()), syscall.LOCK_UN)
	if _, err := os.Stat(bin + ".ok"); err == nil {
		return bin, nil
	}
	if msg, err := os.ReadFile(bin + ".err"); err == nil {
		return "", fmt.Errorf("%s", msg)
	}
	files, _ := filepath.Glob(filepath.Join(srcDir, "*_test.go"))
	if len(files) == 0 {
		return "", fmt.Errorf("no *_test.go in %s", srcDir)
	}
	replace := map[string]string{}
	for _, f := range files {
		replace[filepath.Join(repo, pkg, "zz_verif_"+name+"_"+filepath.Base(f))] = f
	}
	ov, _ := json.Marshal(map[string]interface{}{"Replace": replace})
	ovFile := bin + ".overlay.json"
	if err := os.WriteFile(ovFile, ov, 0o644); err != nil {
		return "", err
	}
	// private copy of the module files: the repository is never written
	modFile := bin + ".go.mod"
	for _, p := range [][2]string{{"go.mod", modFile}, {"go.sum", bin + ".go.sum"}} {
		b, err := os.ReadFile(filepath.Join(repo, p[0]))
		if err != nil {
			return "", err
		}
		if err := os.WriteFile(p[1], b, 0o644); err != nil {
			return "", err
		}
	}
	args := []string{"test", "-c", "-tags", "verif", "-vet=off", "-modfile=" + modFile, "-overlay", ovFile, "-o", bin}
	if race {
		args = append(args, "-race")
	}
	args = append(args, pkg)
	cmd := exec.Command("go", args...)
	cmd.Dir = repo
	cmd.Env = cleanEnv()
	if outp, err := cmd.CombinedOutput(); err != nil {
		msg := fmt.Sprintf("overlay build of %s failed: %v\n%s", pkg, err, outp)
		_ = os.WriteFile(bin+".err", []byte(msg), 0o644)
		return "", fmt.Errorf("%s", msg)
	}
	_ = os.WriteFile(bin+".ok", nil, 0o644)
	return bin, nil
}

// BuildCmd builds the command pkg ("./cmd/lambda-extension") of the repository under test with the verif tag
// (and the race detector if asked) into VERIF_OUT, once per run (shards serialise on a lock file), and returns
// the path of the executable. The repository is not written: the module files are private copies.
func BuildCmd(name, pkg string, race bool) (string, error) {
	repo := os.Getenv("VERIF_REPO_DIR")
	out := os.Getenv("VERIF_OUT")
	if repo == "" || out == "" {
		return "", fmt.Errorf("VERIF_REPO_DIR / VERIF_OUT unset")
	}
	bin := filepath.Join(out, "cmd_"+name)
	lock, err := os.OpenFile(bin+".lock", os.O_CREATE|os.O_RDWR, 0o644)
	if err != nil {
		return "", err
	}
	defer lock.Close()
	if err := syscall.Flock(int(lock.Fd()), syscall.LOCK_EX); err != nil {
		return "", err
	}
	defer syscall.Flock(int(lock.Fd()), syscall.LOCK_UN)
	if _, err := os.Stat(bin + ".ok"); err == nil {
		return bin, nil
	}
	if msg, err := os.ReadFile(bin + ".err"); err == nil {
		return "", fmt.Errorf("%s", msg)
	}
	modFile := bin + ".go.mod"
	for _, p := range [][2]string{{"go.mod", modFile}, {"go.sum", bin + ".go.sum"}} {
		b, err := os.ReadFile(filepath.Join(repo, p[0]))
		if err != nil {
			return "", err
		}
		if err := os.WriteFile(p[1], b, 0o644); err != nil {
			return "", err
		}
	}
	args := []string{"build", "-tags", "verif", "-modfile=" + modFile, "-o", bin}
	if race {
		args = append(args, "-race")
	}
	args = append(args, pkg)
	cmd := exec.Command("go", args...)
	cmd.Dir = repo
	cmd.Env = cleanEnv()
	if outp, err := cmd.CombinedOutput(); err != nil {
		msg := fmt.Sprintf("build of %s failed: %v\n%s", pkg, err, outp)
		_ = os.WriteFile(bin+".err", []byte(msg), 0o644)
		return "", fmt.Errorf("%s", msg)
	}
	_ = os.WriteFile(bin+".ok", nil, 0o644)
	return bin, nil
}

// Run executes the overlay binary's test function testName once with the extra environment, and returns
// the combined output and the exit error (nil = the test function passed). The race detector log of the
// child goes next to the check's own (GORACE is inherited).
func Run(bin, testName string, env []string, timeoutArg string) ([]byte, error) {
	if timeoutArg == "" {
		timeoutArg = "120s"
	}
	cmd := exec.Command(bin, "-test.run", "^"+testName+"$", "-test.count=1", "-test.timeout", timeoutArg, "-test.v")
	cmd.Dir = filepath.Dir(bin)
	cmd.Env = append(os.Environ(), env...)
	return cmd.CombinedOutput()
}
