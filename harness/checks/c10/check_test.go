//go:build verif

// C10 — static tags, tag de-duplication and filters follow the documented rules.
//
// A real TagHandler (built directly or through the viper constructor) with 0..4 random filters and a
// random static tag list receives random metric maps over a small name / tag alphabet; a capturing
// handler records what leaves the stage. The oracle is an independent model of FILTERING.md and of the
// property statement, followed by the reference fold for series that coincide after tag removal.
package c10

import (
	"context"
	"fmt"
	"math/rand"
	"regexp"
	"sort"
	"strings"
	"sync"
	"testing"

	"github.com/spf13/viper"

	"github.com/atlassian/gostatsd"
	"github.com/atlassian/gostatsd/pkg/statsd"

	"verif/gen"
	"verif/mon"
	"verif/ref"
)

// ---------------------------------------------------------------------------------------------
// the case

type filterSpec struct {
	MatchMetrics   []string `json:"match_metrics"`
	ExcludeMetrics []string `json:"exclude_metrics"`
	MatchTags      []string `json:"match_tags"`
	DropTags       []string `json:"drop_tags"`
	DropMetric     bool     `json:"drop_metric"`
	DropHost       bool     `json:"drop_host"`
}

type eventSpec struct {
	Title  string   `json:"title"`
	Tags   []string `json:"tags"`
	Source string   `json:"source"`
}

type tagCase struct {
	Kind    string            `json:"kind"` // "tags"
	Static  []string          `json:"static"`
	Filters []filterSpec      `json:"filters"`
	Viper   bool              `json:"viper"`
	Maps    [][]ref.Datapoint `json:"maps"`
	Events  []eventSpec       `json:"events"`
}

// ---------------------------------------------------------------------------------------------
// the model: FILTERING.md + the property statement, re-stated

var (
	reMu    sync.Mutex
	reCache = map[string]*regexp.Regexp{}
)

func compiled(expr string) *regexp.Regexp {
	reMu.Lock()
	defer reMu.Unlock()
	re, ok := reCache[expr]
	if !ok {
		re = regexp.MustCompile(expr)
		reCache[expr] = re
	}
	return re
}

// patternMatches: "A match is a case sensitive string with an optional ! prefix to invert the meaning and
// an optional * suffix to indicate a prefix match"; "prefixed with regex: (after the !) the rest is a
// golang regex ... the match is sub-string".
func patternMatches(pattern, s string) bool {
	negated := false
	if len(pattern) > 0 && pattern[0] == '!' {
		negated, pattern = true, pattern[1:]
	}
	var hit bool
	switch {
	case len(pattern) >= 6 && pattern[:6] == "regex:":
		hit = compiled(pattern[6:]).FindStringIndex(s) != nil
	case len(pattern) > 0 && pattern[len(pattern)-1] == '*':
		stem := pattern[:len(pattern)-1]
		hit = len(s) >= len(stem) && s[:len(stem)] == stem
	default:
		hit = s == pattern
	}
	if negated {
		return !hit
	}
	return hit
}

func anyPattern(patterns []string, s string) bool {
	for _, p := range patterns {
		if patternMatches(p, s) {
			return true
		}
	}
	return false
}

// satisfied: the three conditions of a filter block, evaluated on the incoming name and tags.
//   - match-metrics: "If the metric name doesn't match anything in this list, it is excluded from further
//     filtering. If the list is empty, it is not evaluated."
//   - exclude-metrics: "If the metric name matches anything in this list, it is excluded."
//   - match-tags: "If any tag in the metric matches any tag in the list, the metric will be filtered"
//     (an empty list is not evaluated, as for match-metrics: the documented examples rely on it).
func (f *filterSpec) satisfied(name string, tags []string) bool {
	if len(f.MatchMetrics) > 0 && !anyPattern(f.MatchMetrics, name) {
		return false
	}
	if anyPattern(f.ExcludeMetrics, name) {
		return false
	}
	if len(f.MatchTags) > 0 {
		ok := false
		for _, t := range tags {
			if anyPattern(f.MatchTags, t) {
				ok = true
			}
		}
		if !ok {
			return false
		}
	}
	return true
}

type outcome struct {
	dropped     bool
	tags        []string // sorted set
	source      string
	removed     map[string]bool // incoming tags removed by drop-tags
	nSatisfied  int
	hostCleared bool
}

func uniqSorted(in []string) []string {
	set := map[string]bool{}
	for _, t := range in {
		set[t] = true
	}
	out := make([]string, 0, len(set))
	for t := range set {
		out = append(out, t)
	}
	sort.Strings(out)
	return out
}

// model: what the statement promises for one incoming series.
func model(cs *tagCase, name string, tags []string, source string) outcome {
	o := outcome{source: source, removed: map[string]bool{}}
	for i := range cs.Filters {
		f := &cs.Filters[i]
		if !f.satisfied(name, tags) {
			continue
		}
		o.nSatisfied++
		if f.DropMetric {
			o.dropped = true
		}
		for _, t := range tags {
			if anyPattern(f.DropTags, t) {
				o.removed[t] = true
			}
		}
		if f.DropHost {
			o.source = ""
			o.hostCleared = source != ""
		}
	}
	if o.dropped {
		return o
	}
	var keep []string
	for _, t := range tags {
		if !o.removed[t] {
			keep = append(keep, t)
		}
	}
	// every static tag that is not itself being removed from this metric
	for _, t := range cs.Static {
		if !o.removed[t] {
			keep = append(keep, t)
		}
	}
	o.tags = uniqSorted(keep)
	return o
}

// ---------------------------------------------------------------------------------------------
// building the real handler

type capture struct {
	mu     sync.Mutex
	maps   []map[string]*ref.Series
	events []*gostatsd.Event
}

func (h *capture) EstimatedTags() int { return 0 }
func (h *capture) DispatchMetricMap(_ context.Context, mm *gostatsd.MetricMap) {
	flat := ref.FromMap(mm)
	// ref.FromMap sorts the tags; duplicates stay visible
	h.mu.Lock()
	h.maps = append(h.maps, flat)
	h.mu.Unlock()
}
func (h *capture) DispatchEvent(_ context.Context, e *gostatsd.Event) {
	cp := *e
	cp.Tags = append(gostatsd.Tags(nil), e.Tags...)
	h.mu.Lock()
	h.events = append(h.events, &cp)
	h.mu.Unlock()
}
func (h *capture) WaitForEvents() {}

func (h *capture) take() ([]map[string]*ref.Series, []*gostatsd.Event) {
	h.mu.Lock()
	defer h.mu.Unlock()
	m, e := h.maps, h.events
	h.maps, h.events = nil, nil
	return m, e
}

func matchList(p []string) gostatsd.StringMatchList {
	out := make(gostatsd.StringMatchList, 0, len(p))
	for _, s := range p {
		out = append(out, gostatsd.NewStringMatch(s))
	}
	return out
}

func cp(s []string) []string { return append([]string{}, s...) }

func build(cs *tagCase, next gostatsd.PipelineHandler) *statsd.TagHandler {
	static := gostatsd.Tags(cp(cs.Static)) // the constructor may reorder its argument
	if cs.Static == nil {
		static = nil
	}
	if !cs.Viper {
		var filters []statsd.Filter
		for _, f := range cs.Filters {
			filters = append(filters, statsd.Filter{
				MatchMetrics: matchList(f.MatchMetrics), ExcludeMetrics: matchList(f.ExcludeMetrics), MatchTags: matchList(f.MatchTags),
				DropTags: matchList(f.DropTags), DropMetric: f.DropMetric, DropHost: f.DropHost,
			})
		}
		return statsd.NewTagHandler(next, static, filters)
	}
	v := viper.New()
	var names []string
	for i, f := range cs.Filters {
		n := fmt.Sprintf("f%d", i)
		names = append(names, n)
		// every key is set, so that the block exists even for a filter without conditions
		v.Set("filter."+n+".match-metrics", cp(f.MatchMetrics))
		v.Set("filter."+n+".exclude-metrics", cp(f.ExcludeMetrics))
		v.Set("filter."+n+".match-tags", cp(f.MatchTags))
		v.Set("filter."+n+".drop-tags", cp(f.DropTags))
		v.Set("filter."+n+".drop-metric", f.DropMetric)
		v.Set("filter."+n+".drop-host", f.DropHost)
	}
	v.Set("filters", names)
	return statsd.NewTagHandlerFromViper(v, next, static)
}

// mapOfSeries rebuilds a MetricMap holding exactly the given flattened series (used for diagnosis).
func mapOfSeries(ss ...*ref.Series) *gostatsd.MetricMap {
	mm := gostatsd.NewMetricMap(false)
	for _, s := range ss {
		tags := gostatsd.Tags(cp(s.Tags))
		src := gostatsd.Source(s.Source)
		ts := gostatsd.Nanotime(s.Timestamp)
		switch s.Type {
		case 1:
			if mm.Counters[s.Name] == nil {
				mm.Counters[s.Name] = map[string]gostatsd.Counter{}
			}
			mm.Counters[s.Name][s.TagsKey] = gostatsd.Counter{Value: s.Counter, Timestamp: ts, Source: src, Tags: tags}
		case 2:
			if mm.Timers[s.Name] == nil {
				mm.Timers[s.Name] = map[string]gostatsd.Timer{}
			}
			mm.Timers[s.Name][s.TagsKey] = gostatsd.Timer{Values: append([]float64(nil), s.Values...), SampledCount: s.SampledCount, Timestamp: ts, Source: src, Tags: tags}
		case 3:
			if mm.Gauges[s.Name] == nil {
				mm.Gauges[s.Name] = map[string]gostatsd.Gauge{}
			}
			mm.Gauges[s.Name][s.TagsKey] = gostatsd.Gauge{Value: s.Gauge, Timestamp: ts, Source: src, Tags: tags}
		case 4:
			if mm.Sets[s.Name] == nil {
				mm.Sets[s.Name] = map[string]gostatsd.Set{}
			}
			vals := map[string]struct{}{}
			for _, m := range s.Members {
				vals[m] = struct{}{}
			}
			mm.Sets[s.Name][s.TagsKey] = gostatsd.Set{Values: vals, Timestamp: ts, Source: src, Tags: tags}
		}
	}
	return mm
}

// ---------------------------------------------------------------------------------------------
// the monitor

type checker struct {
	r             *mon.Run
	serverSampled bool
	serverMissing int // cases in which an expected series never reached the backend (reproduced)
}

func hasDup(sorted []string) bool {
	for i := 1; i < len(sorted); i++ {
		if sorted[i] == sorted[i-1] {
			return true
		}
	}
	return false
}

func contains(list []string, s string) bool {
	for _, x := range list {
		if x == s {
			return true
		}
	}
	return false
}

type caseStats struct {
	mixed     bool // some series saw at least one satisfied and one unsatisfied filter
	collision bool
}

// checkMap dispatches one map through th and compares with the model. It returns the statistics used
// for the non-trivial rule.
func (c *checker) checkMap(cs *tagCase, th *statsd.TagHandler, h *capture, dps []ref.Datapoint, replay interface{}) caseStats {
	r := c.r
	var st caseStats
	mm := gen.MapOf(dps)
	in := ref.FromMap(mm) // the batch as the stage receives it (the stage may reorder tags of its input in place)
	if r.Guard("tag-stage-panic", replay, func() { th.DispatchMetricMap(context.Background(), mm) }) {
		return st
	}
	r.Eval(1)
	captured, _ := h.take()

	// expected
	want := ref.NewFolded()
	keys := make([]string, 0, len(in))
	for k := range in {
		keys = append(keys, k)
	}
	sort.Strings(keys)
	kept := 0
	for _, k := range keys {
		s := in[k]
		o := model(cs, s.Name, s.Tags, s.Source)
		if o.nSatisfied > 0 && o.nSatisfied < len(cs.Filters) {
			st.mixed = true
		}
		if o.dropped {
			r.Event("metrics_dropped", 1)
			continue
		}
		kept++
		r.Event("tags_removed", len(o.removed))
		if o.hostCleared {
			r.Event("hosts_cleared", 1)
		}
		s2 := *s
		s2.Tags, s2.Source = o.tags, o.source
		s2.TagsKey = ref.TagsKey(o.tags, o.source)
		want.AddSeries(&s2)
	}
	if kept > len(want.Series) {
		st.collision = true
		r.Event("collisions", kept-len(want.Series))
	}
	r.Event("series_in", len(in))
	r.Event("series_out_expected", len(want.Series))

	// observed
	bad := false
	got := map[string]*ref.Series{}
	for _, flat := range captured {
		fk := make([]string, 0, len(flat))
		for k := range flat {
			fk = append(fk, k)
		}
		sort.Strings(fk)
		for _, k := range fk {
			s := flat[k]
			if hasDup(s.Tags) {
				bad = true
				r.Violation("duplicate-tags-on-outgoing-metric", fmt.Sprintf("metric %q leaves the tag stage with tags %q", s.Name, s.Tags), replay)
			}
			id := ref.Key(s.Type, s.Name, ref.TagsKey(s.Tags, s.Source))
			if _, dup := got[id]; dup {
				bad = true
				r.Violation("coinciding-series-not-combined", fmt.Sprintf("two outgoing series are %q", id), replay)
				continue
			}
			s2 := *s
			s2.TagsKey = ref.TagsKey(s.Tags, s.Source)
			got[id] = &s2
		}
	}
	d := ref.Diff(got, want.Series, ref.DiffOpts{IgnoreGauge: true})
	d = append(d, want.CheckGauges(got)...)
	if len(d) > 0 && !bad {
		sig := c.diagnose(cs, in, keys)
		if sig == "" {
			sig = "collision-data-not-combined:" + diffKind(d[0])
		}
		r.Violation(sig, fmt.Sprintf("outgoing map differs from the model: %s", strings.Join(d, " | ")), replay)
	}
	return st
}

func diffKind(d string) string {
	switch {
	case strings.HasPrefix(d, "missing series"):
		return "series-missing"
	case strings.HasPrefix(d, "unexpected series"):
		return "series-unexpected"
	case strings.HasPrefix(d, "gauge "):
		return "gauge"
	}
	if i := strings.Index(d, "\": "); i >= 0 {
		if w := strings.Fields(d[i+3:]); len(w) > 0 {
			return w[0]
		}
	}
	return "other"
}

// diagnose sends every incoming series alone through a fresh handler of the same configuration and names
// the first rule that is broken for a single series; "" when every series alone behaves as the model says
// (then the difference comes from combining coinciding series).
func (c *checker) diagnose(cs *tagCase, in map[string]*ref.Series, keys []string) string {
	for _, k := range keys {
		s := in[k]
		h := &capture{}
		th := build(cs, h)
		panicked := false
		func() {
			defer func() {
				if recover() != nil {
					panicked = true
				}
			}()
			th.DispatchMetricMap(context.Background(), mapOfSeries(s))
		}()
		if panicked {
			return "tag-stage-panic-single-series"
		}
		maps, _ := h.take()
		var out []*ref.Series
		for _, m := range maps {
			for _, x := range m {
				out = append(out, x)
			}
		}
		o := model(cs, s.Name, s.Tags, s.Source)
		switch {
		case o.dropped && len(out) > 0:
			return "metric-kept-although-satisfied-filter-has-drop-metric"
		case !o.dropped && len(out) == 0:
			return "metric-dropped-without-satisfied-drop-metric-filter"
		case o.dropped:
			continue
		case len(out) > 1:
			return "one-series-became-several"
		}
		g := out[0]
		if hasDup(g.Tags) {
			return "duplicate-tags-on-outgoing-metric"
		}
		for _, t := range o.tags {
			if !contains(g.Tags, t) {
				if contains(s.Tags, t) {
					return "tag-removed-although-no-satisfied-drop-tags-matches"
				}
				return "static-tag-missing"
			}
		}
		for _, t := range g.Tags {
			if !contains(o.tags, t) {
				switch {
				case contains(s.Tags, t):
					return "tag-kept-although-satisfied-drop-tags-matches"
				case contains(cs.Static, t):
					return "static-tag-added-although-removed-from-metric"
				}
				return "unknown-tag-added"
			}
		}
		if g.Source != o.source {
			if o.source == "" {
				return "source-kept-although-satisfied-filter-has-drop-host"
			}
			return "source-changed-without-satisfied-drop-host"
		}
		if g.Name != s.Name || g.Type != s.Type {
			return "name-or-type-changed"
		}
	}
	return ""
}

func (c *checker) checkEvent(cs *tagCase, th *statsd.TagHandler, h *capture, ev eventSpec, replay interface{}) {
	r := c.r
	e := &gostatsd.Event{Title: ev.Title, Text: "text", Tags: gostatsd.Tags(cp(ev.Tags)), Source: gostatsd.Source(ev.Source)}
	if r.Guard("tag-stage-event-panic", replay, func() { th.DispatchEvent(context.Background(), e) }) {
		return
	}
	r.Event("events", 1)
	_, evs := h.take()
	if len(evs) != 1 {
		r.Violation("event-not-forwarded-once", fmt.Sprintf("event %q reached the next handler %d times", ev.Title, len(evs)), replay)
		return
	}
	got := append([]string{}, evs[0].Tags...)
	sort.Strings(got)
	if hasDup(got) {
		r.Violation("duplicate-tags-on-outgoing-event", fmt.Sprintf("event leaves the tag stage with tags %q", got), replay)
	}
	// Filters are not asserted on events: only static tags that no drop-tags pattern of the configuration
	// could touch are required, and nothing may be invented.
	for _, t := range cs.Static {
		touchable := false
		for i := range cs.Filters {
			if anyPattern(cs.Filters[i].DropTags, t) {
				touchable = true
			}
		}
		if !touchable && !contains(got, t) {
			r.Violation("static-tag-missing-on-event", fmt.Sprintf("static tag %q is not on the outgoing event (tags %q)", t, got), replay)
		}
	}
	for _, t := range got {
		if !contains(ev.Tags, t) && !contains(cs.Static, t) {
			r.Violation("unknown-tag-added-to-event", fmt.Sprintf("tag %q on the outgoing event is neither an event tag nor static", t), replay)
		}
	}
	if evs[0].Title != ev.Title || string(evs[0].Source) != ev.Source {
		r.Violation("event-fields-changed", fmt.Sprintf("event %+v left as %+v", ev, evs[0]), replay)
	}
}

func kindsOf(cs *tagCase) (kinds, actions int) {
	note := func(list []string) {
		for _, p := range list {
			q := p
			if strings.HasPrefix(q, "!") {
				kinds |= 4
				q = q[1:]
			}
			switch {
			case strings.HasPrefix(q, "regex:"):
				kinds |= 8
			case strings.HasSuffix(q, "*"):
				kinds |= 2
			default:
				kinds |= 1
			}
		}
	}
	for _, f := range cs.Filters {
		note(f.MatchMetrics)
		note(f.ExcludeMetrics)
		note(f.MatchTags)
		note(f.DropTags)
		if f.DropMetric {
			actions |= 1
		}
		if len(f.DropTags) > 0 {
			actions |= 2
		}
		if f.DropHost {
			actions |= 4
		}
	}
	return
}

func (c *checker) run(cs *tagCase) {
	r := c.r
	h := &capture{}
	var th *statsd.TagHandler
	if r.Guard("tag-handler-constructor-panic", cs, func() { th = build(cs, h) }) {
		return
	}
	kinds, actions := kindsOf(cs)
	// the handler is re-used for all maps and events of the case: it must not carry state between them
	for i, dps := range cs.Maps {
		one := *cs
		one.Maps = [][]ref.Datapoint{dps}
		one.Events = nil
		st := c.checkMap(cs, th, h, dps, &one)
		if (len(cs.Filters) >= 2 && st.mixed) || st.collision {
			r.Nontrivial(fmt.Sprintf("k%04b|a%03b|coll=%v|mixed=%v", kinds, actions, st.collision, st.mixed))
			if r.WantSample() && st.collision && st.mixed && len(dps) <= 6 && i == 0 {
				r.Sample(map[string]interface{}{"static": cs.Static, "filters": cs.Filters, "viper": cs.Viper, "datapoints": dps})
			}
		}
	}
	for _, ev := range cs.Events {
		one := *cs
		one.Maps = nil
		one.Events = []eventSpec{ev}
		c.checkEvent(cs, th, h, ev, &one)
	}
}

// ---------------------------------------------------------------------------------------------
// generators

var (
	namePool   = []string{"api.req", "api.err", "db.q", "noisy.a", "noisy.butok.b", "global.x", "abc", "abcd"}
	tagAlpha   = []string{"env:prod", "env:dev", "host:h1", "host:h2", "request_path:/a", "request_path:/b", "bare", "a:1"}
	staticOnly = []string{"cluster:c1", "dc:x"}
	nameRegex  = []string{`^api\.`, `err$`, `noisy`, `^(db|api)\.`, `.*`, `a.c`, `^$`, `[0-9]`, `\.b$`, `^abc$`, `abcd*`, `(?i)API`, `\.butok\.`}
	tagRegex   = []string{`^host:`, `:prod$`, `^env:(prod|dev)$`, `h[12]`, `^bare$`, `path`, `:`, `^a:\d+$`, `^request_path:/a$`, `.*`, `x^`, `cluster|dc`}
)

func genPattern(rng *rand.Rand, pool []string, regexes []string) string {
	var p string
	switch rng.Intn(20) {
	case 0:
		p = []string{"", "*", "nomatch", "nomatch*"}[rng.Intn(4)]
	default:
		base := pool[rng.Intn(len(pool))]
		switch rng.Intn(3) {
		case 0: // exact
			p = base
		case 1: // prefix
			cut := len(base)
			if rng.Intn(2) == 0 {
				if i := strings.IndexAny(base, ".:"); i > 0 {
					cut = i + 1
				} else {
					cut = 1 + rng.Intn(len(base))
				}
			}
			p = base[:cut] + "*"
		default:
			p = "regex:" + regexes[rng.Intn(len(regexes))]
		}
	}
	if rng.Intn(10) < 3 {
		p = "!" + p
	}
	return p
}

func genList(rng *rand.Rand, maxN int, pool []string, regexes []string) []string {
	n := rng.Intn(maxN + 1)
	out := []string{}
	for i := 0; i < n; i++ {
		out = append(out, genPattern(rng, pool, regexes))
	}
	return out
}

func genCase(rng *rand.Rand) *tagCase {
	cs := &tagCase{Kind: "tags", Viper: rng.Intn(2) == 0, Static: []string{}}
	// a sub-alphabet per case, so that metric tags, drop patterns and static tags meet often
	names := append([]string{}, namePool...)
	rng.Shuffle(len(names), func(i, j int) { names[i], names[j] = names[j], names[i] })
	names = names[:2+rng.Intn(3)]
	tags := append([]string{}, tagAlpha...)
	rng.Shuffle(len(tags), func(i, j int) { tags[i], tags[j] = tags[j], tags[i] })
	tags = tags[:3+rng.Intn(3)]

	for i, n := 0, rng.Intn(4); i < n; i++ {
		switch rng.Intn(4) {
		case 0:
			cs.Static = append(cs.Static, staticOnly[rng.Intn(len(staticOnly))])
		default:
			cs.Static = append(cs.Static, tags[rng.Intn(len(tags))]) // equal to possible metric tags, duplicates happen
		}
	}
	nf := rng.Intn(5)
	if rng.Intn(8) == 0 {
		nf = 0
	}
	staticAndTags := append(append([]string{}, tags...), staticOnly...)
	for i := 0; i < nf; i++ {
		f := filterSpec{
			MatchMetrics:   genList(rng, 2, names, nameRegex),
			ExcludeMetrics: genList(rng, 1, names, nameRegex),
			MatchTags:      genList(rng, 2, tags, tagRegex),
			DropTags:       genList(rng, 3, staticAndTags, tagRegex),
			DropMetric:     rng.Intn(6) == 0,
			DropHost:       rng.Intn(3) == 0,
		}
		if rng.Intn(2) == 0 {
			f.MatchMetrics = []string{}
		}
		if rng.Intn(2) == 0 {
			f.MatchTags = []string{}
		}
		cs.Filters = append(cs.Filters, f)
	}
	nm := 1 + rng.Intn(3)
	for m := 0; m < nm; m++ {
		n := 1 + rng.Intn(10)
		dps := gen.Datapoints(rng, gen.MapOpts{Exact: true, Sources: 3, TimeBase: 1000, TimeSpread: 4}, n)
		for i := range dps {
			d := &dps[i]
			d.Name = names[rng.Intn(len(names))]
			d.Tags = nil
			for j, k := 0, rng.Intn(5); j < k; j++ {
				d.Tags = append(d.Tags, tags[rng.Intn(len(tags))]) // duplicates within a metric happen
			}
		}
		cs.Maps = append(cs.Maps, dps)
	}
	for i, n := 0, rng.Intn(2); i < n; i++ {
		ev := eventSpec{Title: fmt.Sprintf("ev%d", rng.Intn(100)), Source: []string{"", "10.0.0.1"}[rng.Intn(2)], Tags: []string{}}
		for j, k := 0, rng.Intn(4); j < k; j++ {
			ev.Tags = append(ev.Tags, tags[rng.Intn(len(tags))])
		}
		cs.Events = append(cs.Events, ev)
	}
	return cs
}

// fixed corpus: the examples of FILTERING.md and the boundary patterns.
func corpus() []*tagCase {
	dp := func(typ int, name string, src string, ts int64, v float64, tags ...string) ref.Datapoint {
		return ref.Datapoint{Type: typ, Name: name, Tags: tags, Source: src, Value: v, Str: fmt.Sprint(v), Rate: 1, Timestamp: ts}
	}
	docFilters := []filterSpec{
		{MatchMetrics: []string{"global.*"}, DropHost: true, DropTags: []string{"host:*"}},
		{DropTags: []string{"request_path:*"}},
		{MatchMetrics: []string{"noisy.*"}, ExcludeMetrics: []string{"noisy.butok.*"}, DropMetric: true},
	}
	var dps []ref.Datapoint
	for typ := 1; typ <= 4; typ++ {
		dps = append(dps,
			dp(typ, "global.x", "10.0.0.1", 1, 1, "host:h1", "env:prod"),
			dp(typ, "global.x", "10.0.0.2", 2, 2, "host:h2", "env:prod"),
			dp(typ, "global.x", "", 3, 3, "env:prod"),
			dp(typ, "api.req", "10.0.0.1", 1, 4, "host:h1", "request_path:/a"),
			dp(typ, "api.req", "10.0.0.1", 5, 5, "host:h1", "request_path:/b"),
			dp(typ, "api.req", "10.0.0.1", 5, 6, "host:h1"),
			dp(typ, "noisy.a", "10.0.0.1", 1, 7),
			dp(typ, "noisy.butok.b", "10.0.0.1", 1, 8, "host:h1", "host:h1"),
		)
	}
	var out []*tagCase
	for _, viaViper := range []bool{false, true} {
		out = append(out, &tagCase{Kind: "tags", Viper: viaViper, Static: []string{"host:h1", "dc:x", "dc:x"}, Filters: docFilters, Maps: [][]ref.Datapoint{dps}})
		for _, pat := range []string{"abc", "abc*", "!abc", "!abc*", "regex:.*abc.*", "!regex:.*abc.*", "!regex:^abc.*", `!regex:.*\.count$`, "", "*", "!", "!*", "regex:", "!regex:", "regex:abc*", "!!abc", "regex:a*"} {
			var d []ref.Datapoint
			for _, n := range []string{"abc", "ABC", "abcd", "xyz", "xyz.abc.123", "xyz.123", "abc.123", "abcd.123", "xyz.abc.count.123", "abc.123.count", "ab", "!abc"} {
				d = append(d, dp(1, n, "h", 1, 1, "abc", "abcd", "xyz"), dp(3, n, "", 1, 1, n))
			}
			out = append(out,
				&tagCase{Kind: "tags", Viper: viaViper, Static: []string{"abc"}, Filters: []filterSpec{{MatchMetrics: []string{pat}, DropHost: true}}, Maps: [][]ref.Datapoint{d}},
				&tagCase{Kind: "tags", Viper: viaViper, Static: []string{"xyz", "abcd"}, Filters: []filterSpec{{DropTags: []string{pat}}}, Maps: [][]ref.Datapoint{d}},
				&tagCase{Kind: "tags", Viper: viaViper, Static: []string{}, Filters: []filterSpec{{MatchTags: []string{pat}, DropMetric: true}, {ExcludeMetrics: []string{pat}, DropTags: []string{"abc*"}}}, Maps: [][]ref.Datapoint{d}},
			)
		}
	}
	return out
}

// ---------------------------------------------------------------------------------------------

func TestCheck(t *testing.T) {
	r := mon.Start(t, "C10")
	defer r.Finish()
	r.Rule("cases: a TagHandler built with NewTagHandler or NewTagHandlerFromViper (half each) from 0..4 filters (match-metrics 0..2, exclude-metrics 0..1, match-tags 0..2, drop-tags 0..3 patterns of the kinds exact, prefix*, !negated, regex: from a pool of valid RE2 expressions, plus the boundary patterns '', '*', '!', '!*'; actions drop-metric, drop-host) and 0..3 static tags (mostly equal to possible metric tags, duplicates allowed) receives 1..3 maps of 1..10 datapoints of all four types over a per-case alphabet of 2..4 names and 3..5 tags (duplicate tags within a metric allowed) and 0..1 events; shard 0 also runs a fixed corpus with the examples of FILTERING.md. One evaluation = one (configuration, map) pair: the outgoing map must equal the model (satisfaction on incoming name/tags; dropped iff a satisfied filter has drop-metric; tags = uniq(incoming - removed) + (static - removed); source cleared iff a satisfied filter has drop-host) folded with the reference merge where series coincide; tags compared as sets. Server phase: the real statsd.Server is run in process (RunWithCustomSocket, standalone) from a configuration text (toml: 0..3 filter blocks, an http server with enable-ingestion) with 0..2 static tags, in three quarters of the cases a fake cloud provider cache (1..3 senders, cached or looked up, found or not, whose instance tags are drawn from the metric tags, the static tags, the filters' targets and cloud-only tags), 0..6 statsd lines in UDP datagrams on a scripted socket and 0..6 datapoints posted as protobuf to /v2/raw, and a capturing backend; every series flushed to the backend must be the model's outcome for a datapoint sent (cloud tags and instance id are part of the metric before static tags and filters are applied, as the README orders the pipeline), without duplicate tags, and every outcome the model keeps must arrive. Non-trivial: at least two filters of which, for some series, one is satisfied and one is not, or a collision after tag removal; distinct by (pattern kinds used, action mask, collision, mixed satisfaction); for the server phase an instance tag meets a static tag, a metric tag or a filter target, or filtered/static-tagged metrics arrive over http, distinct by (cloud, overlap, paths used, pattern kinds, actions, something dropped).")
	r.Assume("Go's regexp package defines what an RE2 expression matches; ref.Folded / ref.FromMap (harness); MetricMap.Receive builds the incoming maps")
	c := &checker{r: r}

	if p := r.ReplayPayload(); p != nil {
		var probe struct {
			Kind string `json:"kind"`
		}
		if mon.ReplayCase(p, &probe) != nil && probe.Kind == "server" {
			var sc serverCase
			mon.ReplayCase(p, &sc)
			for i := 0; i < 3; i++ {
				c.serverCase(&sc)
			}
			r.Nontrivial("replay-a")
			r.Nontrivial("replay-b")
			return
		}
		var cs tagCase
		if mon.ReplayCase(p, &cs) == nil {
			t.Skip("no case in replay file")
		}
		for i := 0; i < 50; i++ { // map iteration order decides the merge order of collisions
			c.run(&cs)
		}
		r.Nontrivial("replay-a")
		r.Nontrivial("replay-b")
		return
	}

	if s, _ := r.Shard(); s == 0 {
		for i, cs := range corpus() {
			r.Case("corpus %d", i)
			c.run(cs)
		}
		r.Event("corpus_cases", len(corpus()))
	}
	// the stage inside a real server (wiring, configuration text, cloud provider, both ingestion paths)
	srng := r.Rand("c10-server")
	nServer := r.N(240, 16000)
	for i := 0; i < nServer; i++ {
		sc := genServerCase(srng)
		r.Case("server case %d: cloud=%v filters=%d static=%q udp=%d http=%d", i, sc.Cloud, len(sc.Filters), sc.Static, len(sc.UDP), len(sc.HTTP))
		c.serverCase(sc)
	}

	rng := r.Rand("c10")
	n := r.N(80000, 12000000)
	for i := 0; i < n; i++ {
		cs := genCase(rng)
		if i%64 == 0 {
			r.Case("case %d: %d filters viper=%v static=%q", i, len(cs.Filters), cs.Viper, cs.Static)
		}
		c.run(cs)
	}
}
