//go:build verif

package c10

// Server phase: "every metric leaving the tag stage" in a real server.
//
// The real statsd.Server is started in process through RunWithCustomSocket (standalone mode) with
//   - a configuration TEXT (toml, read by viper) holding the filter blocks and an http server with
//     enable-ingestion, and static tags in Server.DefaultTags;
//   - an optional fake CachedInstances whose instances carry tags that overlap with static tags, metric
//     tags and the targets of the filters' drop-tags / match-tags patterns;
//   - both ingestion paths: statsd lines in UDP datagrams on a scripted PacketConn, and protobuf
//     RawMessageV2 bodies posted to /v2/raw (what a forwarding gostatsd sends);
//   - a capturing backend.
//
// The oracle is the one of the unit phase, applied to what the backend is flushed: README "the processing
// pipeline (cloud provider, static tags, filtering, etc)" - the tags and source a cloud instance supplies
// are part of the metric when static tags and filters are applied. Every series the backend sees must be
// the model's outcome for some datapoint sent (no duplicate tags, static tags present unless removed from
// that metric, drop-tags / drop-host of satisfied filters honoured, nothing of a metric whose satisfied
// filter has drop-metric), and every outcome the model keeps must arrive.

import (
	"bytes"
	"context"
	"errors"
	"fmt"
	"io"
	"math/rand"
	"net"
	"net/http"
	"os"
	"sort"
	"strconv"
	"strings"
	"sync"
	"sync/atomic"
	"time"

	"github.com/sirupsen/logrus"
	"github.com/spf13/viper"
	"google.golang.org/protobuf/proto"

	"github.com/atlassian/gostatsd"
	"github.com/atlassian/gostatsd/pb"
	"github.com/atlassian/gostatsd/pkg/statsd"

	"verif/mon"
	"verif/ref"
)

const serverWatchdog = 30 * time.Second

// ---------------------------------------------------------------------------------------------
// fakes

type scriptPkt struct {
	msg  []byte
	addr net.Addr
}

// scriptConn is a net.PacketConn whose reads are fed by the harness.
type scriptConn struct {
	ch     chan scriptPkt
	closed chan struct{}
	once   sync.Once
}

func newScriptConn() *scriptConn {
	return &scriptConn{ch: make(chan scriptPkt), closed: make(chan struct{})}
}
func (c *scriptConn) ReadFrom(b []byte) (int, net.Addr, error) {
	select {
	case p := <-c.ch:
		return copy(b, p.msg), p.addr, nil
	case <-c.closed:
		return 0, nil, errors.New("use of closed network connection")
	}
}
func (c *scriptConn) WriteTo([]byte, net.Addr) (int, error) { return 0, errors.New("not supported") }
func (c *scriptConn) Close() error                          { c.once.Do(func() { close(c.closed) }); return nil }
func (c *scriptConn) LocalAddr() net.Addr                   { return &net.UDPAddr{IP: net.IPv4(127, 0, 0, 1), Port: 8125} }
func (c *scriptConn) SetDeadline(time.Time) error           { return nil }
func (c *scriptConn) SetReadDeadline(time.Time) error       { return nil }
func (c *scriptConn) SetWriteDeadline(time.Time) error      { return nil }
func (c *scriptConn) push(ip string, msg string) bool {
	select {
	case c.ch <- scriptPkt{msg: []byte(msg), addr: &net.UDPAddr{IP: net.ParseIP(ip), Port: 40000}}:
		return true
	case <-c.closed:
		return false
	case <-time.After(serverWatchdog):
		return false
	}
}

// seenSeries is one series as the backend was flushed it.
type seenSeries struct {
	Type   int      `json:"type"`
	Name   string   `json:"name"`
	Tags   []string `json:"tags"` // sorted, duplicates kept
	Source string   `json:"source"`
}

type capBackend struct {
	mu      sync.Mutex
	seen    map[string]seenSeries
	flushes atomic.Int64
}

func (b *capBackend) Name() string                                   { return "c10-capture" }
func (b *capBackend) SendEvent(context.Context, *gostatsd.Event) error { return nil }
func (b *capBackend) SendMetricsAsync(_ context.Context, mm *gostatsd.MetricMap, cb gostatsd.SendCallback) {
	flat := ref.FromMap(mm) // synchronously: the map may not be touched later
	b.mu.Lock()
	for _, s := range flat {
		id := fmt.Sprintf("%d|%s|%s|%s", s.Type, s.Name, strings.Join(s.Tags, ","), s.Source)
		if _, ok := b.seen[id]; !ok {
			b.seen[id] = seenSeries{Type: s.Type, Name: s.Name, Tags: s.Tags, Source: s.Source}
		}
	}
	b.mu.Unlock()
	b.flushes.Add(1) // data first, then the counter a waiter polls
	cb(nil)
}
func (b *capBackend) snapshot() map[string]seenSeries {
	b.mu.Lock()
	defer b.mu.Unlock()
	out := make(map[string]seenSeries, len(b.seen))
	for k, v := range b.seen {
		out[k] = v
	}
	return out
}

type srcSpec struct {
	Addr  string   `json:"addr"`
	Mode  string   `json:"mode"` // "hit": answered from the cache; "miss": needs a lookup first
	Found bool     `json:"found"`
	ID    string   `json:"id"`
	Tags  []string `json:"tags"`
}

// instCache is a CachedInstances: "hit" sources are known from the start, "miss" sources after a lookup.
type instCache struct {
	mu     sync.Mutex
	known  map[gostatsd.Source]*gostatsd.Instance // present = cached (nil = negative)
	answer map[gostatsd.Source]*gostatsd.Instance
	sink   chan gostatsd.Source
	info   chan gostatsd.InstanceInfo
}

func newInstCache(srcs []srcSpec) *instCache {
	c := &instCache{known: map[gostatsd.Source]*gostatsd.Instance{}, answer: map[gostatsd.Source]*gostatsd.Instance{}, sink: make(chan gostatsd.Source, 64), info: make(chan gostatsd.InstanceInfo)}
	for _, s := range srcs {
		var inst *gostatsd.Instance
		if s.Found {
			inst = &gostatsd.Instance{ID: gostatsd.Source(s.ID), Tags: append(gostatsd.Tags{}, s.Tags...)}
		}
		c.answer[gostatsd.Source(s.Addr)] = inst
		if s.Mode == "hit" {
			c.known[gostatsd.Source(s.Addr)] = inst
		}
	}
	return c
}
func (c *instCache) Peek(ip gostatsd.Source) (*gostatsd.Instance, bool) {
	c.mu.Lock()
	defer c.mu.Unlock()
	inst, ok := c.known[ip]
	return inst, ok
}
func (c *instCache) IpSink() chan<- gostatsd.Source             { return c.sink }
func (c *instCache) InfoSource() <-chan gostatsd.InstanceInfo   { return c.info }
func (c *instCache) EstimatedTags() int                         { return 2 }
func (c *instCache) run(ctx context.Context) {
	for {
		select {
		case <-ctx.Done():
			return
		case ip := <-c.sink:
			c.mu.Lock()
			inst := c.answer[ip]
			c.known[ip] = inst
			c.mu.Unlock()
			select {
			case c.info <- gostatsd.InstanceInfo{IP: ip, Instance: inst}:
			case <-ctx.Done():
				return
			}
		}
	}
}

// ---------------------------------------------------------------------------------------------
// the case

type serverCase struct {
	Kind    string          `json:"kind"` // "server"
	Static  []string        `json:"static"`
	Filters []filterSpec    `json:"filters"`
	Cloud   bool            `json:"cloud"`
	Sources []srcSpec       `json:"sources"`
	UDP     []ref.Datapoint `json:"udp"`  // one line each; Source = sender address
	HTTP    []ref.Datapoint `json:"http"` // folded into RawMessageV2 bodies; Source = hostname field
	Posts   int             `json:"posts"`
	Parsers int             `json:"parsers"`
	Workers int             `json:"workers"`
}

func tomlList(l []string) string {
	q := make([]string, len(l))
	for i, s := range l {
		q[i] = "'" + s + "'" // literal strings: no escapes; the generators never emit a single quote
	}
	return "[" + strings.Join(q, ", ") + "]"
}

// configText renders the configuration file of the case.
func (sc *serverCase) configText(httpAddr string) string {
	var b strings.Builder
	names := make([]string, len(sc.Filters))
	for i := range sc.Filters {
		names[i] = fmt.Sprintf("f%d", i)
	}
	fmt.Fprintf(&b, "filters=%s\nhttp-servers=['ingest']\n\n", tomlList(names))
	for i, f := range sc.Filters {
		fmt.Fprintf(&b, "[filter.f%d]\n", i)
		if len(f.MatchMetrics) > 0 {
			fmt.Fprintf(&b, "match-metrics=%s\n", tomlList(f.MatchMetrics))
		}
		if len(f.ExcludeMetrics) > 0 {
			fmt.Fprintf(&b, "exclude-metrics=%s\n", tomlList(f.ExcludeMetrics))
		}
		if len(f.MatchTags) > 0 {
			fmt.Fprintf(&b, "match-tags=%s\n", tomlList(f.MatchTags))
		}
		if len(f.DropTags) > 0 {
			fmt.Fprintf(&b, "drop-tags=%s\n", tomlList(f.DropTags))
		}
		if f.DropMetric {
			b.WriteString("drop-metric=true\n")
		}
		if f.DropHost {
			b.WriteString("drop-host=true\n")
		}
		b.WriteString("\n")
	}
	fmt.Fprintf(&b, "[http.ingest]\naddress='%s'\nenable-ingestion=true\nenable-healthcheck=false\n", httpAddr)
	return b.String()
}

func (sc *serverCase) source(addr string) *srcSpec {
	for i := range sc.Sources {
		if sc.Sources[i].Addr == addr {
			return &sc.Sources[i]
		}
	}
	return nil
}

type expectation struct {
	path    string
	dropped bool
	id      string // identity at the backend if kept
	asKept  string // identity it would have without drop-metric (to name a wrongly kept metric)
}

// expectFor: cloud provider first (instance tags appended, source = instance id), then the tag stage.
func (sc *serverCase) expectFor(d ref.Datapoint, path string) expectation {
	tags := append([]string{}, d.Tags...)
	src := d.Source
	if sc.Cloud {
		if s := sc.source(d.Source); s != nil && s.Found {
			tags = append(tags, s.Tags...)
			src = s.ID
		}
	}
	tc := &tagCase{Static: sc.Static, Filters: sc.Filters}
	o := model(tc, d.Name, tags, src)
	e := expectation{path: path, dropped: o.dropped}
	if !o.dropped {
		e.id = fmt.Sprintf("%d|%s|%s|%s", d.Type, d.Name, strings.Join(o.tags, ","), o.source)
		return e
	}
	nd := &tagCase{Static: sc.Static}
	for _, f := range sc.Filters {
		f.DropMetric = false
		nd.Filters = append(nd.Filters, f)
	}
	o2 := model(nd, d.Name, tags, src)
	e.asKept = fmt.Sprintf("%d|%s|%s|%s", d.Type, d.Name, strings.Join(o2.tags, ","), o2.source)
	return e
}

func lineOf(d ref.Datapoint) string {
	var v, t string
	switch d.Type {
	case 1:
		v, t = strconv.Itoa(int(d.Value)), "c"
	case 2:
		v, t = strconv.Itoa(int(d.Value)), "ms"
	case 3:
		v, t = strconv.Itoa(int(d.Value)), "g"
	default:
		v, t = d.Str, "s"
	}
	line := d.Name + ":" + v + "|" + t
	if len(d.Tags) > 0 {
		line += "|#" + strings.Join(d.Tags, ",")
	}
	return line
}

// rawMessage folds datapoints into what a forwarding gostatsd would post (keys as the forwarder renders them).
func rawMessage(dps []ref.Datapoint) *pb.RawMessageV2 {
	m := &pb.RawMessageV2{Counters: map[string]*pb.CounterTagV2{}, Gauges: map[string]*pb.GaugeTagV2{}, Sets: map[string]*pb.SetTagV2{}, Timers: map[string]*pb.TimerTagV2{}}
	for _, d := range dps {
		tk := ref.TagsKey(d.Tags, d.Source)
		tags := append([]string{}, d.Tags...)
		switch d.Type {
		case 1:
			if m.Counters[d.Name] == nil {
				m.Counters[d.Name] = &pb.CounterTagV2{TagMap: map[string]*pb.RawCounterV2{}}
			}
			c := m.Counters[d.Name].TagMap[tk]
			if c == nil {
				c = &pb.RawCounterV2{Tags: tags, Hostname: d.Source}
				m.Counters[d.Name].TagMap[tk] = c
			}
			c.Value += int64(d.Value)
		case 2:
			if m.Timers[d.Name] == nil {
				m.Timers[d.Name] = &pb.TimerTagV2{TagMap: map[string]*pb.RawTimerV2{}}
			}
			t := m.Timers[d.Name].TagMap[tk]
			if t == nil {
				t = &pb.RawTimerV2{Tags: tags, Hostname: d.Source}
				m.Timers[d.Name].TagMap[tk] = t
			}
			t.Values = append(t.Values, d.Value)
			t.SampleCount++
		case 3:
			if m.Gauges[d.Name] == nil {
				m.Gauges[d.Name] = &pb.GaugeTagV2{TagMap: map[string]*pb.RawGaugeV2{}}
			}
			m.Gauges[d.Name].TagMap[tk] = &pb.RawGaugeV2{Tags: tags, Hostname: d.Source, Value: d.Value}
		default:
			if m.Sets[d.Name] == nil {
				m.Sets[d.Name] = &pb.SetTagV2{TagMap: map[string]*pb.RawSetV2{}}
			}
			s := m.Sets[d.Name].TagMap[tk]
			if s == nil {
				s = &pb.RawSetV2{Tags: tags, Hostname: d.Source}
				m.Sets[d.Name].TagMap[tk] = s
			}
			s.Values = append(s.Values, d.Str)
		}
	}
	return m
}


const (
	srvOK = iota
	srvInconclusive
	srvMissing
	srvCollision // the ingestion port was taken by somebody else: nothing was sent, try another port
)

// runServer plays the case once. It returns the status, what the backend saw, and what is still missing.
func (c *checker) runServer(sc *serverCase) (int, string, map[string]seenSeries, map[string]expectation) {
	for attempt := 0; attempt < 5; attempt++ {
		st, why, seen, miss := c.runServerOnce(sc)
		if st != srvCollision {
			return st, why, seen, miss
		}
		c.r.Event("server_port_retry", 1)
	}
	return srvInconclusive, "no-port-for-the-ingestion-server", nil, nil
}

func (c *checker) runServerOnce(sc *serverCase) (int, string, map[string]seenSeries, map[string]expectation) {
	r := c.r
	port := pickPort()
	if port == 0 {
		return srvCollision, "", nil, nil
	}
	addr := "127.0.0.1:" + strconv.Itoa(port)
	failuresBefore := bindFailures.Load()
	v := viper.New()
	v.SetConfigType("toml")
	text := sc.configText(addr)
	if err := v.ReadConfig(bytes.NewBufferString(text)); err != nil {
		return srvInconclusive, "config-text-unreadable", nil, nil
	}
	backend := &capBackend{seen: map[string]seenSeries{}}
	srv := &statsd.Server{
		Backends: []gostatsd.Backend{backend}, DefaultTags: append(gostatsd.Tags{}, sc.Static...),
		FlushInterval: 20 * time.Millisecond, MaxReaders: 1, MaxParsers: sc.Parsers, MaxWorkers: sc.Workers, MaxQueueSize: 64, MaxConcurrentEvents: 1,
		EstimatedTags: 4, StatserType: gostatsd.StatserNull, ReceiveBatchSize: 1, ServerMode: "standalone", DisableInternalEvents: true, Viper: v,
	}
	cacheCtx, stopCache := context.WithCancel(context.Background())
	defer stopCache()
	if sc.Cloud {
		cache := newInstCache(sc.Sources)
		go cache.run(cacheCtx)
		srv.CachedInstances = cache
	}
	conn := newScriptConn()
	ctx, cancel := context.WithCancel(context.Background())
	runDone := make(chan struct{})
	go func() {
		defer close(runDone)
		r.Guard("server-panic", sc, func() {
			_ = srv.RunWithCustomSocket(ctx, func() (net.PacketConn, error) { return conn, nil })
		})
	}()
	stop := func() bool {
		cancel()
		select {
		case <-runDone:
			return true
		case <-time.After(serverWatchdog):
			return false
		}
	}

	// no traffic before this process is known to own the ingestion port (another process may have bound it)
	if !awaitOwnListener(port, failuresBefore, 20*time.Second) {
		stop()
		return srvCollision, "", nil, nil
	}

	// expectations
	expected := map[string]expectation{}
	var all []expectation
	for _, d := range sc.UDP {
		all = append(all, sc.expectFor(d, "udp"))
	}
	for _, d := range sc.HTTP {
		all = append(all, sc.expectFor(d, "http"))
	}
	for _, e := range all {
		if !e.dropped {
			expected[e.id] = e
		}
	}

	// UDP: one datagram per sender run, up to three lines each
	for i := 0; i < len(sc.UDP); {
		j := i + 1
		for j < len(sc.UDP) && j < i+3 && sc.UDP[j].Source == sc.UDP[i].Source {
			j++
		}
		var lines []string
		for _, d := range sc.UDP[i:j] {
			lines = append(lines, lineOf(d))
		}
		if !conn.push(sc.UDP[i].Source, strings.Join(lines, "\n")) {
			stop()
			return srvInconclusive, "udp-reader-did-not-take-datagram", nil, nil
		}
		i = j
	}
	// HTTP: the datapoints in Posts bodies
	if len(sc.HTTP) > 0 {
		posts := sc.Posts
		if posts < 1 {
			posts = 1
		}
		client := &http.Client{Timeout: 10 * time.Second}
		for p := 0; p < posts; p++ {
			var part []ref.Datapoint
			for i := p; i < len(sc.HTTP); i += posts {
				part = append(part, sc.HTTP[i])
			}
			if len(part) == 0 {
				continue
			}
			body, err := proto.Marshal(rawMessage(part))
			if err != nil {
				stop()
				return srvInconclusive, "protobuf-marshal", nil, nil
			}
			status := 0
			ok := mon.WaitUntil(serverWatchdog, func() bool {
				resp, err := client.Post("http://"+addr+"/v2/raw", "application/x-protobuf", bytes.NewReader(body))
				if err != nil {
					return false // the http server is not listening yet
				}
				_, _ = io.Copy(io.Discard, resp.Body)
				_ = resp.Body.Close()
				status = resp.StatusCode
				return true
			})
			client.CloseIdleConnections()
			if !ok || status != http.StatusAccepted {
				stop()
				return srvInconclusive, fmt.Sprintf("http-ingestion-not-reachable(status %d)", status), nil, nil
			}
		}
	}

	// everything the model keeps must be flushed to the backend
	missing := func() map[string]expectation {
		seen := backend.snapshot()
		out := map[string]expectation{}
		for id, e := range expected {
			if _, ok := seen[id]; !ok {
				out[id] = e
			}
		}
		return out
	}
	// a series of ours that no datapoint may turn into: the verdict for this run is already decided, the
	// series it stands in for need not be waited for
	foreign := func() bool {
		for id, s := range backend.snapshot() {
			if strings.HasSuffix(s.Name, ".u") || strings.HasSuffix(s.Name, ".h") {
				if _, ok := expected[id]; !ok {
					return true
				}
			}
		}
		return false
	}
	watchdog := serverWatchdog
	if c.serverMissing >= 2 {
		watchdog = 3 * time.Second // a build that loses metrics has been reported; do not pay 30 s per case again
	}
	arrived := mon.WaitUntil(watchdog, func() bool { return len(missing()) == 0 || foreign() })
	// A metric that should have been dropped gets a few more flushes to show up. No verdict on the unchanged
	// tree depends on this: what is dropped never arrives, however long one waits.
	f0 := backend.flushes.Load()
	mon.WaitUntil(2*time.Second, func() bool { return backend.flushes.Load() >= f0+3 })
	if !stop() {
		return srvInconclusive, "server-did-not-stop", nil, nil
	}
	r.Event("server_flushes", int(backend.flushes.Load()))
	if !arrived {
		return srvMissing, "", backend.snapshot(), missing()
	}
	return srvOK, "", backend.snapshot(), nil
}

func (c *checker) serverCase(sc *serverCase) {
	r := c.r
	status, why, seen, miss := c.runServer(sc)
	if status == srvMissing && c.serverMissing >= 2 {
		// already reproduced and reported twice in this process: no second run
	} else if status == srvMissing {
		// bounded progress in a deterministic script: once more before reporting
		r.Event("server_missing_retry", 1)
		var status2 int
		status2, why, seen, miss = c.runServer(sc)
		if status2 == srvOK {
			r.Inconclusive("server-series-late-once")
			status = srvOK
		} else if status2 == srvMissing {
			status = srvMissing
		} else {
			status = status2
		}
	}
	if status == srvInconclusive {
		r.Inconclusive("server:" + strings.SplitN(why, "(", 2)[0])
		return
	}
	r.Eval(1)
	r.Event("server_cases", 1)

	// expectations again, for the verdicts
	allowed := map[string]expectation{}
	wouldBe := map[string]expectation{}
	nDropped := 0
	for _, d := range sc.UDP {
		e := sc.expectFor(d, "udp")
		if e.dropped {
			wouldBe[e.asKept] = e
			nDropped++
		} else {
			allowed[e.id] = e
		}
	}
	for _, d := range sc.HTTP {
		e := sc.expectFor(d, "http")
		if e.dropped {
			wouldBe[e.asKept] = e
			nDropped++
		} else {
			allowed[e.id] = e
		}
	}
	pathOf := func(name string) string {
		if strings.HasSuffix(name, ".h") {
			return "http"
		}
		return "udp"
	}
	ids := make([]string, 0, len(seen))
	for id := range seen {
		ids = append(ids, id)
	}
	sort.Strings(ids)
	for _, id := range ids {
		s := seen[id]
		if !strings.HasSuffix(s.Name, ".u") && !strings.HasSuffix(s.Name, ".h") {
			continue // not ours (internal metrics are switched off, but be tolerant)
		}
		path := pathOf(s.Name)
		dup := false
		for i := 1; i < len(s.Tags); i++ {
			if s.Tags[i] == s.Tags[i-1] {
				dup = true
			}
		}
		if dup {
			r.Violation("server-duplicate-tags-at-backend:"+path, fmt.Sprintf("the backend was flushed %q from %q with tags %q (cloud provider configured: %v; static %q)", s.Name, s.Source, s.Tags, sc.Cloud, sc.Static), sc)
			continue
		}
		if _, ok := allowed[id]; ok {
			continue
		}
		if _, ok := wouldBe[id]; ok {
			r.Violation("server-metric-at-backend-although-satisfied-filter-has-drop-metric:"+path, fmt.Sprintf("the backend was flushed %q tags %q source %q, which a satisfied drop-metric filter removes", s.Name, s.Tags, s.Source), sc)
			continue
		}
		// name the rule: compare with the allowed outcomes of the same type and name
		var near []string
		for aid := range allowed {
			if strings.HasPrefix(aid, fmt.Sprintf("%d|%s|", s.Type, s.Name)) {
				near = append(near, aid)
			}
		}
		sort.Strings(near)
		r.Violation("server-series-at-backend-not-an-outcome-of-the-rules:"+path, fmt.Sprintf("the backend was flushed series %q (type|name|tags|source); with cloud provider %v, static tags %q and the configured filters the datapoints sent under that name may only arrive as %q", id, sc.Cloud, sc.Static, near), sc)
	}
	if status == srvMissing {
		mids := make([]string, 0, len(miss))
		for id := range miss {
			mids = append(mids, id)
		}
		sort.Strings(mids)
		paths := map[string]bool{}
		for _, id := range mids {
			paths[miss[id].path] = true
		}
		c.serverMissing++
		for p := range paths {
			r.Violation("server-expected-series-never-reached-backend:"+p, fmt.Sprintf("after two runs of %v each the backend was never flushed %q; it saw %d series", serverWatchdog, mids, len(seen)), sc)
		}
	}

	// the non-trivial rule of this phase
	overlap := false
	if sc.Cloud {
		for _, s := range sc.Sources {
			if !s.Found {
				continue
			}
			for _, t := range s.Tags {
				if contains(sc.Static, t) {
					overlap = true
				}
				for _, d := range append(append([]ref.Datapoint{}, sc.UDP...), sc.HTTP...) {
					if d.Source == s.Addr && contains(d.Tags, t) {
						overlap = true
					}
				}
				for i := range sc.Filters {
					if anyPattern(sc.Filters[i].DropTags, t) || anyPattern(sc.Filters[i].MatchTags, t) {
						overlap = true
					}
				}
			}
		}
	}
	tc := &tagCase{Filters: sc.Filters}
	kinds, actions := kindsOf(tc)
	if overlap || (len(sc.HTTP) > 0 && (len(sc.Filters) > 0 || len(sc.Static) > 0)) {
		r.Nontrivial(fmt.Sprintf("server|cloud=%v|overlap=%v|udp=%v|http=%v|k%04b|a%03b|dropped=%v", sc.Cloud, overlap, len(sc.UDP) > 0, len(sc.HTTP) > 0, kinds, actions, nDropped > 0))
	}
	r.Event("server_series_at_backend", len(seen))
	r.Event("server_datapoints_dropped_by_model", nDropped)
	if r.WantSample() && overlap && len(sc.HTTP) > 0 && !c.serverSampled {
		c.serverSampled = true
		r.Sample(map[string]interface{}{"kind": "server", "config_text": sc.configText("127.0.0.1:PORT"), "static": sc.Static, "sources": sc.Sources, "udp_lines": len(sc.UDP), "http_datapoints": len(sc.HTTP), "series_at_backend": len(seen)})
	}
}

// ---------------------------------------------------------------------------------------------
// generator

var cloudOnlyTags = []string{"region:us-east-1", "az:b"}

func genServerCase(rng *rand.Rand) *serverCase {
	sc := &serverCase{Kind: "server", Static: []string{}, Cloud: rng.Intn(4) != 0, Parsers: 1 + rng.Intn(2), Workers: 1 + rng.Intn(3), Posts: 1 + rng.Intn(2)}
	names := append([]string{}, namePool...)
	rng.Shuffle(len(names), func(i, j int) { names[i], names[j] = names[j], names[i] })
	names = names[:2+rng.Intn(2)]
	tags := append([]string{}, tagAlpha...)
	rng.Shuffle(len(tags), func(i, j int) { tags[i], tags[j] = tags[j], tags[i] })
	tags = tags[:3+rng.Intn(2)]
	everyTag := append(append(append([]string{}, tags...), staticOnly...), cloudOnlyTags...)

	for i, n := 0, rng.Intn(3); i < n; i++ {
		sc.Static = append(sc.Static, everyTag[rng.Intn(len(everyTag))])
	}
	// senders; their instances carry tags that meet static tags, metric tags and filter targets
	for i, n := 0, 1+rng.Intn(3); i < n; i++ {
		s := srcSpec{Addr: fmt.Sprintf("10.9.0.%d", i+1), Mode: []string{"hit", "miss"}[rng.Intn(2)], Found: rng.Intn(4) != 0, ID: fmt.Sprintf("i-%04d", i+1), Tags: []string{}}
		for j, k := 0, 1+rng.Intn(3); j < k; j++ {
			s.Tags = append(s.Tags, everyTag[rng.Intn(len(everyTag))])
		}
		sc.Sources = append(sc.Sources, s)
	}
	regexes := append(append([]string{}, tagRegex...), `^region:`, `^az:`)
	suffixed := func(path string) []string {
		out := make([]string, len(names))
		for i, n := range names {
			out[i] = n + path
		}
		return out
	}
	bothNames := append(suffixed(".u"), suffixed(".h")...)
	for i, n := 0, rng.Intn(4); i < n; i++ {
		f := filterSpec{
			MatchMetrics:   genList(rng, 2, bothNames, nameRegex),
			ExcludeMetrics: genList(rng, 1, bothNames, nameRegex),
			MatchTags:      genList(rng, 2, everyTag, regexes),
			DropTags:       genList(rng, 3, everyTag, regexes),
			DropMetric:     rng.Intn(6) == 0,
			DropHost:       rng.Intn(3) == 0,
		}
		if rng.Intn(2) == 0 {
			f.MatchMetrics = []string{}
		}
		if rng.Intn(2) == 0 {
			f.MatchTags = []string{}
		}
		sc.Filters = append(sc.Filters, f)
	}
	mk := func(path string) ref.Datapoint {
		d := ref.Datapoint{Type: 1 + rng.Intn(4), Name: names[rng.Intn(len(names))] + path, Source: sc.Sources[rng.Intn(len(sc.Sources))].Addr, Value: float64(1 + rng.Intn(50)), Rate: 1}
		d.Str = fmt.Sprintf("member%d", rng.Intn(4))
		for j, k := 0, rng.Intn(4); j < k; j++ {
			d.Tags = append(d.Tags, tags[rng.Intn(len(tags))]) // duplicates within a metric happen
		}
		return d
	}
	nu, nh := rng.Intn(7), rng.Intn(7)
	if nu+nh == 0 {
		nu, nh = 2, 2
	}
	for i := 0; i < nu; i++ {
		sc.UDP = append(sc.UDP, mk(".u"))
	}
	sort.SliceStable(sc.UDP, func(i, j int) bool { return sc.UDP[i].Source < sc.UDP[j].Source }) // datagrams are per sender
	for i := 0; i < nh; i++ {
		sc.HTTP = append(sc.HTTP, mk(".h"))
	}
	return sc
}

func init() {
	logrus.SetOutput(io.Discard) // the server logs through the standard logger
	logrus.AddHook(bindHook{})
}
// ---------------------------------------------------------------------------------------------
// a port for the ingestion server that no other process can be talking to
//
// The server only takes an address string, so a port has to be chosen before it binds. Ports are taken from
// below the ephemeral range (other tests and outgoing connections use ":0"), and no traffic is sent until
// /proc shows that THIS process owns the listening socket; a bind failure is seen through a logrus hook.

var bindFailures atomic.Int64
var portCounter atomic.Int64

type bindHook struct{}

func (bindHook) Levels() []logrus.Level { return []logrus.Level{logrus.ErrorLevel} }
func (bindHook) Fire(e *logrus.Entry) error {
	if e.Message == "web server failed" {
		bindFailures.Add(1)
	}
	return nil
}

func pickPort() int {
	for i := 0; i < 50; i++ {
		x := uint64(os.Getpid())<<24 + uint64(portCounter.Add(1))
		x ^= x >> 30
		x *= 0xbf58476d1ce4e5b9
		x ^= x >> 27
		x *= 0x94d049bb133111eb
		x ^= x >> 31
		port := 10000 + int(x%20000)
		l, err := net.Listen("tcp", "127.0.0.1:"+strconv.Itoa(port))
		if err == nil {
			_ = l.Close()
			return port
		}
	}
	return 0
}

// ownsListener reports whether this process holds the socket listening on 127.0.0.1:port.
func ownsListener(port int) bool {
	b, err := os.ReadFile("/proc/net/tcp")
	if err != nil {
		return false
	}
	local := fmt.Sprintf("0100007F:%04X", port)
	inode := ""
	for _, line := range strings.Split(string(b), "\n") {
		f := strings.Fields(line)
		if len(f) > 9 && f[1] == local && f[3] == "0A" {
			inode = f[9]
		}
	}
	if inode == "" {
		return false
	}
	fds, err := os.ReadDir("/proc/self/fd")
	if err != nil {
		return false
	}
	for _, fd := range fds {
		if t, err := os.Readlink("/proc/self/fd/" + fd.Name()); err == nil && t == "socket:["+inode+"]" {
			return true
		}
	}
	return false
}

// awaitOwnListener: true once this process listens on the port; false on a bind failure or after the watchdog.
func awaitOwnListener(port int, failuresBefore int64, d time.Duration) bool {
	ok := false
	mon.WaitUntil(d, func() bool {
		if bindFailures.Load() != failuresBefore {
			return true
		}
		ok = ownsListener(port)
		return ok
	})
	return ok && bindFailures.Load() == failuresBefore
}

