//go:build verif

package c19

// Forced interleaving: WaitForEvents is called from another goroutine while an accepted event is only
// partly handed over, its DispatchEvent being parked on the saturated max-concurrent-events semaphore.
//
// Every step waits on a logical condition (a backend has entered SendEvent, a goroutine has returned);
// backends block in SendEvent until the harness gives them a token. The oracle compares logical stamps:
// at the stamp where WaitForEvents returned, every backend must already have been handed the event.

import (
	"context"
	"fmt"
	"strings"
	"sync/atomic"
	"time"

	"github.com/atlassian/gostatsd"

	"verif/mon"
)

type interleaving struct {
	Index   int `json:"index"`
	MaxConc int `json:"max_concurrent_events"`
	N       int `json:"backends"`
	// backend-handler | tag-head | full-chain (cache hit) | full-chain-parked (cache miss: the event waits in
	// the cloud stage for a lookup that is answered only after WaitForEvents has been called)
	Head  string `json:"head"`
	Order string `json:"order"` // which held backend is released next: oldest | newest | all-held (all at once)
	Gated []bool `json:"gated"` // per backend: SendEvent blocks until the harness releases it
}

// makeInterleaving enumerates the scenario space in mixed radix. The position t is derived from the
// scenario index so that the scenarios of one shard (i = shard + shards*k) walk through consecutive
// positions instead of sharing the low digits.
func makeInterleaving(i, shards int) *interleaving {
	t := i/shards + (i%shards)*5
	s := &interleaving{Index: i, MaxConc: 1 + t%2}
	s.N = s.MaxConc + 1 + (t/2)%3
	s.Head = []string{"full-chain", "backend-handler", "tag-head", "full-chain-parked"}[(t/6)%4]
	s.Order = []string{"oldest", "newest", "all-held"}[(t/24)%3]
	mask := t / 72
	for k := 0; k < s.N; k++ {
		// the first max-concurrent-events backends are always gated, so that the dispatcher parks
		g := k < s.MaxConc || (mask>>uint(k-s.MaxConc))&1 == 0
		s.Gated = append(s.Gated, g)
	}
	return s
}

func (c *checker) interleave(i int) outcome {
	r := c.r
	_, shards := r.Shard()
	sc := makeInterleaving(i, shards)
	parked := sc.Head == "full-chain-parked"
	cfg := &config{Index: i, Mode: "backends", NBackends: sc.N, MaxConc: sc.MaxConc, Parsers: 1, Workers: 1, Queue: 1, Cloud: strings.HasPrefix(sc.Head, "full-chain"), Responder: map[bool]string{true: "hold", false: "immediate"}[parked], Static: []string{"static:1"},
		Sources: []*srcPlan{{Addr: "10.8.8.8", Mode: map[bool]string{true: "miss-ok", false: "hit"}[parked], ID: "i-interleave", Tags: []string{"az:c"}, inst: &gostatsd.Instance{ID: "i-interleave", Tags: gostatsd.Tags{"az:c"}}}}}
	replay := map[string]interface{}{"kind": "interleaving", "cfg": i, "scenario": sc}
	r.Case("interleaving #%d max-concurrent-events=%d backends=%d head=%s release=%s gated=%v", i, sc.MaxConc, sc.N, sc.Head, sc.Order, sc.Gated)
	p, err := buildPipeline(r, cfg, uint64(i), nil)
	if err != nil {
		r.Violation("pipeline-setup:interleaving", err.Error(), replay)
		return outcome{}
	}
	for k, b := range p.backends {
		if sc.Gated[k] {
			b.tokens = make(chan struct{}, 1)
		}
	}
	head := p.head
	if sc.Head == "backend-handler" {
		head = p.tail
	}
	released := make([]bool, sc.N)
	release := func(k int) {
		if sc.Gated[k] && !released[k] {
			released[k] = true
			p.backends[k].tokens <- struct{}{}
		}
	}
	stuck := func(stage string) outcome {
		for k := range released {
			release(k)
		}
		p.teardown(false)
		return outcome{hung: stage, missing: fmt.Sprintf("max-concurrent-events=%d,backends=%d,head=%s", sc.MaxConc, sc.N, sc.Head)}
	}
	const id = "EI;"
	ev := &gostatsd.Event{Title: id + "interleaved", Text: "text", DateHappened: 4242, Source: "10.8.8.8", Tags: gostatsd.Tags{"t:1"}}
	// held = gated backends that have entered SendEvent and have not been released: they hold semaphore slots
	held := func() []int {
		var hs []int
		for k := 0; k < sc.N; k++ {
			if sc.Gated[k] && !released[k] && p.st.entered(id, k) {
				hs = append(hs, k)
			}
		}
		return hs
	}
	allEntered := func() bool {
		for k := 0; k < sc.N; k++ {
			if !p.st.entered(id, k) {
				return false
			}
		}
		return true
	}
	gDone := make(chan struct{})
	// DispatchEvent and WaitForEvents run on harness goroutines: a panic of the wait group ("Add called
	// concurrently with Wait", negative counter) is turned into a violation instead of killing the shard.
	var panicked atomic.Bool
	go func() {
		defer close(gDone)
		if r.Guard("interleaving-panic:dispatch", replay, func() { head.DispatchEvent(context.Background(), ev) }) {
			panicked.Store(true)
		}
	}()
	var ws atomic.Int64
	var wDone chan struct{}
	enteredAtWaitStart := 0
	startWait := func() {
		for k := 0; k < sc.N; k++ {
			if p.st.entered(id, k) {
				enteredAtWaitStart++
			}
		}
		wDone = make(chan struct{})
		go func() {
			defer close(wDone)
			if r.Guard("interleaving-panic:wait", replay, func() { head.WaitForEvents() }) {
				panicked.Store(true)
			}
			ws.Store(r.Stamp())
		}()
		// give a premature return the chance to happen at once (no verdict depends on this pause)
		mon.WaitUntil(10*time.Millisecond, func() bool { return ws.Load() != 0 })
	}
	if parked {
		// DispatchEvent returns once the cloud stage has taken the event; it stays there until the lookup is
		// answered. Somebody waits now, and only then does the answer arrive.
		select {
		case <-gDone:
		case <-time.After(watchdog):
			return stuck("interleaving-dispatch-return")
		}
		startWait()
		close(p.cache.release)
	}
	for {
		// the dispatcher either has handed the event to everybody, or is parked behind a full semaphore
		if !mon.WaitUntil(watchdog, func() bool { return allEntered() || len(held()) == sc.MaxConc }) {
			return stuck("interleaving-dispatch")
		}
		if allEntered() {
			break
		}
		if wDone == nil {
			// The event is accepted and partly handed over; its dispatch is parked. Now somebody waits.
			startWait()
		}
		hs := held()
		switch sc.Order {
		case "newest":
			release(hs[len(hs)-1])
		case "all-held":
			// every slot is freed at once: the count of outstanding sends can reach zero before the
			// parked dispatcher has moved on
			for _, k := range hs {
				release(k)
			}
		default:
			release(hs[0])
		}
	}
	if wDone == nil {
		// cannot happen with backends > max-concurrent-events and the first ones gated
		r.Inconclusive("interleaving-never-parked")
		return stuck("interleaving-never-parked")
	}
	// once more a pause in which a wait that lost count can return while sends are still gated
	mon.WaitUntil(10*time.Millisecond, func() bool { return ws.Load() != 0 })
	for k := 0; k < sc.N; k++ {
		release(k)
	}
	select {
	case <-gDone:
	case <-time.After(watchdog):
		return stuck("interleaving-dispatch-return")
	}
	select {
	case <-wDone:
	case <-time.After(watchdog):
		return stuck("interleaving-wait-for-events")
	}
	if panicked.Load() {
		// already recorded by Guard; the wait group is in an undefined state
		r.Eval(1)
		p.teardown(false)
		return outcome{}
	}
	wstamp := ws.Load()
	deliv, _, _ := p.st.snapshot()
	what := fmt.Sprintf("max-concurrent-events %d, %d backends (gated %v, released %s first), WaitForEvents called on the %s after %d backends had received the event and its DispatchEvent was parked on the semaphore", sc.MaxConc, sc.N, sc.Gated, sc.Order, sc.Head, enteredAtWaitStart)
	for k := 0; k < sc.N; k++ {
		ds := deliv[id][k]
		if len(ds) != 1 {
			r.Violation("interleaving-delivery-count:"+map[bool]string{true: "none", false: "many"}[len(ds) == 0], fmt.Sprintf("%s: backend %d received the event %d times", what, k, len(ds)), replay)
			continue
		}
		d := ds[0]
		if d.In > wstamp {
			r.Violation("wait-returned-before-handed:interleaving:"+sc.Head, fmt.Sprintf("%s: WaitForEvents returned at stamp %d, backend %d was handed the accepted event only at stamp %d", what, wstamp, k, d.In), replay)
		} else if d.Out == 0 || d.Out > wstamp {
			r.Violation("send-unfinished-when-wait-returned:interleaving:"+sc.Head, fmt.Sprintf("%s: WaitForEvents returned at stamp %d while backend %d was still sending (entered %d, left %d)", what, wstamp, k, d.In, d.Out), replay)
		}
		if sc.Head != "backend-handler" {
			want := []string{"static:1", "t:1"}
			src := "10.8.8.8"
			if strings.HasPrefix(sc.Head, "full-chain") {
				want, src = []string{"az:c", "static:1", "t:1"}, "i-interleave"
			}
			if fmt.Sprint(d.F.Tags) != fmt.Sprint(want) || d.F.Source != src {
				r.Violation("field-tags-or-source:interleaving:"+sc.Head, fmt.Sprintf("%s: backend %d received tags %q source %q, want %q %q", what, k, d.F.Tags, d.F.Source, want, src), replay)
			}
		}
	}
	r.Eval(1)
	r.Event("interleavings", 1)
	r.Event("interleaving_backends_handed_before_wait", enteredAtWaitStart)
	r.Nontrivial(fmt.Sprintf("interleaving|m=%d|n=%d|%s|%s|%v", sc.MaxConc, sc.N, sc.Head, sc.Order, sc.Gated))
	if r.WantSample() && i%5 == 0 {
		r.Sample(map[string]interface{}{"interleaving": sc, "backends_handed_when_wait_started": enteredAtWaitStart, "wait_returned_at_stamp": wstamp})
	}
	p.teardown(true)
	return outcome{}
}
