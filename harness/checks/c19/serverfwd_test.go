//go:build verif

package c19

// The real statsd.Server in forwarder mode, configured from configuration text (http-transport section:
// api-endpoint, max-requests, flush-interval, compression): events accepted from the network must reach the
// upstream exactly once, also when the shutdown begins while they wait in the cloud stage for a lookup and
// while the forwarder's request slots are taken by metric posts that a slow upstream has not answered yet.
// Which events count as accepted is decided on logical signals only: with one reader and one parser the
// datagrams are handled in order, so once the lookup for the last (marker) sender has been requested every
// earlier line has been dispatched into the pipeline.

import (
	"context"
	"fmt"
	"io"
	"net"
	"net/http"
	"net/http/httptest"
	"strings"
	"sync"
	"sync/atomic"
	"time"

	"github.com/spf13/viper"
	"google.golang.org/protobuf/proto"

	"github.com/atlassian/gostatsd"
	"github.com/atlassian/gostatsd/pb"
	"github.com/atlassian/gostatsd/pkg/statsd"
	"github.com/atlassian/gostatsd/pkg/transport"

	"verif/gen"
	"verif/mon"
)

type fwdServerCase struct {
	Index          int    `json:"index"`
	MaxRequests    int    `json:"max_requests"`
	Compression    string `json:"compression"`
	HoldRawPosts   bool   `json:"upstream_holds_metric_posts"`
	InternalEvents bool   `json:"internal_events"`
	Config         string `json:"config_text"`
}

func (c *checker) serverForwarder(k int) outcome {
	r := c.r
	rng := r.RandGlobal(fmt.Sprintf("srvfwd%d", k))
	fc := &fwdServerCase{Index: k, MaxRequests: 1 + k%3, Compression: []string{"zlib", "lz4", "none"}[(k/3)%3], HoldRawPosts: k%4 != 3, InternalEvents: (k/2)%2 == 0}
	idx := 950000 + k
	cfg := &config{Index: idx, Mode: "forwarder", Cloud: true, Responder: "hold", Static: []string{"fwd:yes", "dc:syd"}, Parsers: 1}
	nDirect, nHeld := 1+rng.Intn(2), 1+rng.Intn(3)
	for j := 0; j < nDirect+nHeld+1; j++ {
		s := &srcPlan{Addr: fmt.Sprintf("10.95.%d.%d", k%250, j+1), ID: fmt.Sprintf("i-fwd%d-%d", k, j), Tags: []string{"az:b"}}
		if j < nDirect {
			s.Mode = []string{"hit", "neg"}[rng.Intn(2)]
		} else {
			s.Mode = []string{"miss-ok", "miss-fail", "miss-ok-nocache"}[rng.Intn(3)]
		}
		s.inst = &gostatsd.Instance{ID: gostatsd.Source(s.ID), Tags: append(gostatsd.Tags{}, s.Tags...)}
		cfg.Sources = append(cfg.Sources, s)
		cfg.Senders = append(cfg.Senders, senderPlan{Via: "udp", Src: j, N: 1})
	}
	marker := nDirect + nHeld // the last held source: its lookup request tells that everything before was handled
	cfg.Sources = append(cfg.Sources, &srcPlan{Addr: serverHost, Mode: "neg"})

	st := newState(r)
	var rawHeld, rawSeen atomic.Int64
	var gateArmed atomic.Bool
	gate := make(chan struct{})
	var gateOnce sync.Once
	openGate := func() { gateOnce.Do(func() { close(gate) }) }
	defer openGate()
	upstream := httptest.NewServer(http.HandlerFunc(func(w http.ResponseWriter, req *http.Request) {
		body, _ := io.ReadAll(req.Body)
		if req.URL.Path != "/v2/event" {
			rawSeen.Add(1)
			if gateArmed.Load() && fc.HoldRawPosts {
				rawHeld.Add(1)
				<-gate // a slow upstream: the forwarder's request slot stays taken
			}
			w.WriteHeader(http.StatusAccepted)
			return
		}
		raw, err := decompress(req.Header.Get("Content-Encoding"), body)
		var msg pb.EventV2
		if err == nil {
			err = proto.Unmarshal(raw, &msg)
		}
		if err != nil {
			st.mu.Lock()
			st.unknown = append(st.unknown, "undecodable upstream body: "+err.Error())
			st.mu.Unlock()
			w.WriteHeader(http.StatusBadRequest)
			return
		}
		d := st.enter(0, fields{Title: msg.GetTitle(), Text: msg.GetText(), Date: msg.GetDateHappened(), AggKey: msg.GetAggregationKey(), SrcType: msg.GetSourceTypeName(),
			Tags: setOf(msg.GetTags()), Source: msg.GetHostname(), Pri: int(msg.GetPriority()), Alert: int(msg.GetType())})
		st.exit(d)
		w.WriteHeader(http.StatusAccepted)
	}))
	defer upstream.Close()
	compress := fc.Compression != "none"
	ctype := fc.Compression
	if !compress {
		ctype = "zlib"
	}
	fc.Config = fmt.Sprintf("http-transport:\n  api-endpoint: %q\n  max-requests: %d\n  flush-interval: \"40ms\"\n  compress: %v\n  compression-type: %q\n  compression-level: %d\n  max-request-elapsed-time: \"10s\"\n  consolidator-slots: 2\n",
		upstream.URL, fc.MaxRequests, compress, ctype, k%10)
	v := viper.New()
	v.SetConfigType("yaml")
	if err := v.ReadConfig(strings.NewReader(fc.Config)); err != nil {
		panic("harness: bad configuration text: " + err.Error())
	}
	replay := map[string]interface{}{"kind": "server-fwd", "cfg": k, "scenario": fc, "config": cfg}
	r.Case("server-fwd #%d max-requests=%d compression=%s hold-raw=%v internal-events=%v direct=%d held=%d", k, fc.MaxRequests, fc.Compression, fc.HoldRawPosts, fc.InternalEvents, nDirect, nHeld)
	cache := newFakeCache(cfg)
	cacheCtx, stopCache := context.WithCancel(context.Background())
	defer stopCache()
	go cache.run(cacheCtx, r.RandGlobal(fmt.Sprintf("srvfwd%d/cache", k)))
	logger := quiet()
	srv := &statsd.Server{
		CachedInstances: cache, DefaultTags: append(gostatsd.Tags{}, cfg.Static...),
		ExpiryIntervalCounter: time.Minute, ExpiryIntervalGauge: time.Minute, ExpiryIntervalSet: time.Minute, ExpiryIntervalTimer: time.Minute,
		FlushInterval: time.Hour, MaxReaders: 1, MaxParsers: 1, MaxWorkers: 1, MaxQueueSize: 8, MaxConcurrentEvents: 2,
		EstimatedTags: 2, StatserType: gostatsd.StatserInternal, PercentThreshold: []float64{90}, ReceiveBatchSize: 1, ServerMode: "forwarder",
		Hostname: serverHost, DisableInternalEvents: !fc.InternalEvents, Viper: v, TransportPool: transport.NewTransportPool(logger, v),
	}
	conn := newScriptConn()
	ctx, cancel := context.WithCancel(context.Background())
	defer cancel()
	var retStamp atomic.Int64
	runDone := make(chan struct{})
	var runErr error
	go func() {
		defer close(runDone)
		r.Guard("server-fwd-panic", replay, func() {
			runErr = srv.RunWithCustomSocket(ctx, func() (net.PacketConn, error) { return conn, nil })
		})
		retStamp.Store(r.Stamp())
	}()
	rc := &runCtx{r: r, cfg: cfg, expects: map[string]*expect{}}
	releaseAll := func() {
		select {
		case <-cache.release:
		default:
			close(cache.release)
		}
		openGate()
	}
	stuck := func(stage string) outcome {
		cancel()
		releaseAll()
		deliv, _, _ := st.snapshot()
		state := "all-accepted-events-delivered"
		for id := range rc.expects {
			if len(deliv[id][0]) == 0 {
				state = "accepted-events-undelivered"
			}
		}
		return outcome{hung: stage, missing: state}
	}
	// the forwarder's priming request shows that the server is up
	if !mon.WaitUntil(watchdog, func() bool { return rawSeen.Load() >= 1 }) {
		select {
		case <-runDone:
			r.Violation("server-fwd-did-not-start", fmt.Sprintf("forwarder-mode server from configuration text %q returned %v at once", fc.Config, runErr), replay)
			return outcome{}
		default:
		}
		return stuck("server-fwd-start")
	}
	gateArmed.Store(true)
	if fc.HoldRawPosts {
		// metric lines: the consolidator's next flushes post them, the upstream does not answer: request slots are taken
		for i := 0; i < 3; i++ {
			if !conn.push(cfg.Sources[0].Addr, fmt.Sprintf("noise.f%d.n%d:1|c", k, i)) {
				return stuck("server-fwd-read")
			}
		}
		if !mon.WaitUntil(watchdog, func() bool { return rawHeld.Load() >= 1 }) {
			return stuck("server-fwd-metric-post")
		}
	}
	n := 0
	send := func(srcIdx int) bool {
		src := cfg.Sources[srcIdx]
		id := fmt.Sprintf("E%d-%d-%d;", idx, srcIdx, n)
		n++
		d := gen.Event(rng, gen.LineOpts{UTF8Only: true})
		e := rc.expectFor(id, "udp", d, src, "")
		e.Line = withID(d, id)
		e.Br.before.Store(time.Now().Unix())
		rc.expects[id] = e
		return conn.push(src.Addr, e.Line)
	}
	for j := 0; j < marker; j++ {
		for x, nx := 0, 1+rng.Intn(3); x < nx; x++ {
			if !send(j) {
				return stuck("server-fwd-read")
			}
		}
	}
	if !send(marker) {
		return stuck("server-fwd-read")
	}
	if !mon.WaitUntil(watchdog, func() bool {
		cache.mu.Lock()
		defer cache.mu.Unlock()
		return cache.requested[gostatsd.Source(cfg.Sources[marker].Addr)] > 0
	}) {
		return stuck("server-fwd-events-not-accepted")
	}
	deliv0, _, _ := st.snapshot()
	outstanding := 0
	for id := range rc.expects {
		if len(deliv0[id][0]) == 0 {
			outstanding++
		}
	}
	cancel() // shutdown begins
	mon.WaitUntil(15*time.Millisecond, func() bool { return retStamp.Load() != 0 })
	releaseAll()
	select {
	case <-runDone:
	case <-time.After(watchdog):
		return stuck("server-fwd-return-after-shutdown")
	}
	after := time.Now().Unix()
	ret := retStamp.Load()
	deliv, unknown, _ := st.snapshot()
	what := fmt.Sprintf("forwarder-mode server (max-requests %d, compression %s, upstream holding metric posts %v, internal events %v); %d accepted events had not reached the upstream when the context was cancelled; RunWithCustomSocket returned %v at stamp %d", fc.MaxRequests, fc.Compression, fc.HoldRawPosts, fc.InternalEvents, outstanding, runErr, ret)
	for id, e := range rc.expects {
		e.Br.after.Store(after)
		r.Eval(1)
		ds := deliv[id][0]
		if len(ds) != 1 {
			word := "more-than-once"
			if len(ds) == 0 {
				word = "never"
			}
			r.Violation(fmt.Sprintf("server-fwd-event-posted-%s:%s", word, e.Outcome), fmt.Sprintf("%s: event %q from %s [%s], accepted before the shutdown began, was accepted by the upstream %d times", what, e.Line, cfg.srcOf(e).Addr, e.Outcome, len(ds)), replay)
			continue
		}
		if ds[0].In > ret {
			r.Violation("server-fwd-returned-before-posted", fmt.Sprintf("%s: event %q reached the upstream at stamp %d, after the server had returned", what, e.Line, ds[0].In), replay)
		}
		if bad := diffFields(ds[0].F, e); len(bad) > 0 {
			r.Violation(fmt.Sprintf("server-fwd-field-%s:%s", strings.SplitN(bad[0], " ", 2)[0], e.Outcome), fmt.Sprintf("%s: event %q from %s [%s]: the upstream received %s", what, e.Line, cfg.srcOf(e).Addr, e.Outcome, strings.Join(bad, "; ")), replay)
		}
		r.Nontrivial(fmt.Sprintf("server-fwd|%s|m=%d|%s|hold=%v|ie=%v|%s", e.Outcome, fc.MaxRequests, fc.Compression, fc.HoldRawPosts, fc.InternalEvents, attrSet(e.Shape)))
	}
	for _, t := range unknown {
		if t != "Gostatsd started" && t != "Gostatsd stopped" {
			r.Violation("server-fwd-unknown-event", fmt.Sprintf("%s: the upstream received an event nobody sent (%q)", what, t), replay)
		}
	}
	r.Event("server_fwd_scenarios", 1)
	r.Event("server_fwd_events_outstanding_at_cancel", outstanding)
	return outcome{}
}
