//go:build verif

package c19

// Server-level scenarios: the real statsd.Server (standalone mode, internal statser) is started through
// RunWithCustomSocket on a scripted net.PacketConn, with capturing backends and the scripted instance
// cache. Event datagrams are fed in, the context is cancelled (shutdown begins), and only then are held
// lookups answered / gated backends released. Every event that was accepted before the shutdown began
// must reach every backend exactly once, correctly enriched, before RunWithCustomSocket returns - and it
// must return once nothing holds it back any more.

import (
	"context"
	"errors"
	"fmt"
	"net"
	"strings"
	"sync"
	"sync/atomic"
	"time"

	"github.com/spf13/viper"

	"github.com/atlassian/gostatsd"
	"github.com/atlassian/gostatsd/pkg/statsd"

	"verif/gen"
	"verif/mon"
)

// scriptConn is a net.PacketConn whose reads are fed by the harness.
type scriptConn struct {
	ch     chan scriptPkt
	closed chan struct{}
	once   sync.Once
}

type scriptPkt struct {
	msg  []byte
	addr net.Addr
}

func newScriptConn() *scriptConn {
	return &scriptConn{ch: make(chan scriptPkt), closed: make(chan struct{})}
}

func (c *scriptConn) ReadFrom(b []byte) (int, net.Addr, error) {
	select {
	case p := <-c.ch:
		return copy(b, p.msg), p.addr, nil
	case <-c.closed:
		return 0, nil, errors.New("use of closed network connection")
	}
}
func (c *scriptConn) WriteTo([]byte, net.Addr) (int, error) { return 0, errors.New("not supported") }
func (c *scriptConn) Close() error                          { c.once.Do(func() { close(c.closed) }); return nil }
func (c *scriptConn) LocalAddr() net.Addr {
	return &net.UDPAddr{IP: net.IPv4(127, 0, 0, 1), Port: 8125}
}
func (c *scriptConn) SetDeadline(time.Time) error      { return nil }
func (c *scriptConn) SetReadDeadline(time.Time) error  { return nil }
func (c *scriptConn) SetWriteDeadline(time.Time) error { return nil }

// push hands one datagram to the server's reader; false if the reader did not take it.
func (c *scriptConn) push(ip string, msg string) bool {
	select {
	case c.ch <- scriptPkt{msg: []byte(msg), addr: &net.UDPAddr{IP: net.ParseIP(ip), Port: 40000}}:
		return true
	case <-c.closed:
		return false
	case <-time.After(watchdog):
		return false
	}
}

type serverCase struct {
	Index          int    `json:"index"`
	Variant        string `json:"variant"` // parked | plain | gated
	Backends       int    `json:"backends"`
	MaxConc        int    `json:"max_concurrent_events"`
	Parsers        int    `json:"parsers"`
	Workers        int    `json:"workers"`
	InternalEvents bool   `json:"internal_events"`
}

func makeServerCase(k, shards int) *serverCase {
	t := k/shards + (k%shards)*5
	sc := &serverCase{Index: k, Variant: []string{"parked", "plain", "parked", "gated"}[t%4], Backends: 1 + (t/4)%3, Parsers: 1 + (t/12)%2, Workers: 1 + (t/24)%2, InternalEvents: (t/3)%2 == 0}
	sc.MaxConc = 1 + (t/2)%3
	if sc.Variant == "gated" {
		// the start event would take the gated backends' semaphore slots before any datagram is read
		sc.InternalEvents = false
	}
	return sc
}

const serverHost = "gsd-host"

func (c *checker) serverScenario(k int) outcome {
	r := c.r
	_, shards := r.Shard()
	sc := makeServerCase(k, shards)
	rng := r.RandGlobal(fmt.Sprintf("server%d", k))
	idx := 800000 + k
	cfg := &config{Index: idx, Mode: "backends", NBackends: sc.Backends, MaxConc: sc.MaxConc, Parsers: sc.Parsers, Workers: sc.Workers, Cloud: true, Responder: "hold", Static: []string{"dc:syd", "static"}}
	// direct sources are answered from the cache; held ones need a lookup, which the harness holds back
	nDirect, nHeld := 1+rng.Intn(2), 0
	if sc.Variant == "parked" {
		nHeld = 2 + rng.Intn(3)
	}
	for j := 0; j < nDirect+nHeld; j++ {
		s := &srcPlan{Addr: fmt.Sprintf("10.80.%d.%d", k%250, j+1), ID: fmt.Sprintf("i-srv%d-%d", k, j), Tags: []string{"az:b", "static"}}
		if j < nDirect {
			s.Mode = []string{"hit", "neg"}[rng.Intn(2)]
		} else {
			s.Mode = []string{"miss-ok", "miss-fail", "miss-ok-nocache", "miss-fail-nocache"}[rng.Intn(4)]
		}
		s.inst = &gostatsd.Instance{ID: gostatsd.Source(s.ID), Tags: append(gostatsd.Tags{}, s.Tags...)}
		cfg.Sources = append(cfg.Sources, s)
		cfg.Senders = append(cfg.Senders, senderPlan{Via: "udp", Src: j, N: 1})
	}
	// the server's own start / stop events carry its hostname
	cfg.Sources = append(cfg.Sources, &srcPlan{Addr: serverHost, Mode: "neg"})
	replay := map[string]interface{}{"kind": "server", "cfg": k, "scenario": sc, "config": cfg}
	r.Case("server #%d variant=%s backends=%d max-concurrent-events=%d parsers=%d internal-events=%v sources=%d", k, sc.Variant, sc.Backends, sc.MaxConc, sc.Parsers, sc.InternalEvents, len(cfg.Sources)-1)

	st := newState(r)
	var backends []*capBackend
	var bs []gostatsd.Backend
	for i := 0; i < sc.Backends; i++ {
		b := &capBackend{idx: i, st: st, seed: splitmix(uint64(idx*7 + i))}
		if sc.Variant == "gated" {
			b.tokens = make(chan struct{}, 64)
		}
		backends = append(backends, b)
		bs = append(bs, b)
	}
	cache := newFakeCache(cfg)
	cacheCtx, stopCache := context.WithCancel(context.Background())
	defer stopCache()
	go cache.run(cacheCtx, r.RandGlobal(fmt.Sprintf("server%d/cache", k)))
	srv := &statsd.Server{
		Backends: bs, CachedInstances: cache, DefaultTags: append(gostatsd.Tags{}, cfg.Static...),
		ExpiryIntervalCounter: time.Minute, ExpiryIntervalGauge: time.Minute, ExpiryIntervalSet: time.Minute, ExpiryIntervalTimer: time.Minute,
		FlushInterval: time.Hour, MaxReaders: 1, MaxParsers: sc.Parsers, MaxWorkers: sc.Workers, MaxQueueSize: 8, MaxConcurrentEvents: sc.MaxConc,
		EstimatedTags: 2, StatserType: gostatsd.StatserInternal, PercentThreshold: []float64{90}, ReceiveBatchSize: 1, ServerMode: "standalone",
		Hostname: serverHost, DisableInternalEvents: !sc.InternalEvents, Viper: viper.New(),
	}
	conn := newScriptConn()
	ctx, cancel := context.WithCancel(context.Background())
	defer cancel()
	var retStamp atomic.Int64
	runDone := make(chan struct{})
	var runErr error
	go func() {
		defer close(runDone)
		r.Guard("server-panic", replay, func() {
			runErr = srv.RunWithCustomSocket(ctx, func() (net.PacketConn, error) { return conn, nil })
		})
		retStamp.Store(r.Stamp())
	}()
	releaseAll := func() {
		if cache.release != nil {
			select {
			case <-cache.release:
			default:
				close(cache.release)
			}
		}
		for _, b := range backends {
			if b.tokens != nil {
				for i := 0; i < 32; i++ {
					select {
					case b.tokens <- struct{}{}:
					default:
					}
				}
			}
		}
	}
	rc := &runCtx{r: r, cfg: cfg, expects: map[string]*expect{}}
	stuck := func(stage string) outcome {
		cancel()
		releaseAll()
		// the scenario is abandoned; whether accepted events never arrived says where it stopped
		deliv, _, _ := st.snapshot()
		miss := 0
		for id := range rc.expects {
			for s := 0; s < sc.Backends; s++ {
				if len(deliv[id][s]) == 0 {
					miss++
					break
				}
			}
		}
		state := "all-accepted-events-delivered"
		if miss > 0 {
			state = "accepted-events-undelivered"
		}
		return outcome{hung: stage, missing: sc.Variant + "/" + state}
	}
	// send: one event line per datagram, each with a unique id; returns the expectation
	n := 0
	send := func(srcIdx int) (*expect, bool) {
		src := cfg.Sources[srcIdx]
		id := fmt.Sprintf("E%d-%d-%d;", idx, srcIdx, n)
		n++
		d := gen.Event(rng, gen.LineOpts{})
		e := rc.expectFor(id, "udp", d, src, "")
		e.Line = withID(d, id)
		e.Br.before.Store(time.Now().Unix())
		rc.expects[id] = e
		return e, conn.push(src.Addr, e.Line)
	}
	handedTo := func(id string, atLeast int) bool {
		got := 0
		for s := 0; s < sc.Backends; s++ {
			if st.entered(id, s) {
				got++
			}
		}
		return got >= atLeast
	}
	accepted := []*expect{} // accepted before the shutdown began: asserted
	switch sc.Variant {
	case "plain", "parked":
		for j := 0; j < nDirect; j++ {
			for x, nx := 0, 1+rng.Intn(2); x < nx; x++ {
				e, ok := send(j)
				if !ok {
					return stuck("server-read")
				}
				accepted = append(accepted, e)
			}
		}
		for _, e := range accepted {
			id := e.ID
			if !mon.WaitUntil(watchdog, func() bool { return handedTo(id, sc.Backends) }) {
				return stuck("server-direct-delivery")
			}
		}
		if sc.Variant == "parked" {
			// With one reader and one parser datagrams are handled in order, so several events of one held source are
			// certainly parked once the lookup for a later source has been requested; with two parsers one event each.
			for j := nDirect; j < nDirect+nHeld; j++ {
				nx := 1
				if sc.Parsers == 1 && j < nDirect+nHeld-1 {
					nx = 1 + rng.Intn(3)
				}
				for x := 0; x < nx; x++ {
					e, ok := send(j)
					if !ok {
						return stuck("server-read")
					}
					accepted = append(accepted, e)
				}
			}
			if !mon.WaitUntil(watchdog, func() bool {
				cache.mu.Lock()
				defer cache.mu.Unlock()
				for j := nDirect; j < nDirect+nHeld; j++ {
					if cache.requested[gostatsd.Source(cfg.Sources[j].Addr)] == 0 {
						return false
					}
				}
				return true
			}) {
				return stuck("server-events-not-parked")
			}
		}
	case "gated":
		// one event: the first backends take the semaphore slots and block, the dispatch parks behind them
		e, ok := send(0)
		if !ok {
			return stuck("server-read")
		}
		accepted = append(accepted, e)
		id := e.ID
		if !mon.WaitUntil(watchdog, func() bool { return handedTo(id, min(sc.MaxConc, sc.Backends)) }) {
			return stuck("server-gated-first-send")
		}
	}
	// shutdown begins
	cancel()
	// a premature return gets its chance before anything is released (no verdict depends on this pause)
	mon.WaitUntil(15*time.Millisecond, func() bool { return retStamp.Load() != 0 })
	heldWhenCancelled := 0
	deliv0, _, _ := st.snapshot()
	for _, e := range accepted {
		for s := 0; s < sc.Backends; s++ {
			if len(deliv0[e.ID][s]) == 0 {
				heldWhenCancelled++
			}
		}
	}
	releaseAll()
	select {
	case <-runDone:
	case <-time.After(watchdog):
		return stuck("server-return-after-shutdown")
	}
	after := time.Now().Unix()
	ret := retStamp.Load()
	deliv, unknown, _ := st.snapshot()
	what := fmt.Sprintf("server scenario %s (%d backends, max-concurrent-events %d, %d parsers, internal events %v); %d hand-overs were outstanding when the context was cancelled; RunWithCustomSocket returned %v at stamp %d", sc.Variant, sc.Backends, sc.MaxConc, sc.Parsers, sc.InternalEvents, heldWhenCancelled, runErr, ret)
	for _, e := range accepted {
		e.Br.after.Store(after)
		r.Eval(1)
		for s := 0; s < sc.Backends; s++ {
			ds := deliv[e.ID][s]
			if len(ds) != 1 {
				word := "more-than-once"
				if len(ds) == 0 {
					word = "never"
				}
				r.Violation(fmt.Sprintf("server-event-delivered-%s:%s:%s", word, sc.Variant, e.Outcome), fmt.Sprintf("%s: event %q from %s [%s], accepted before the shutdown began, reached backend %d %d times", what, e.Line, cfg.srcOf(e).Addr, e.Outcome, s, len(ds)), replay)
				continue
			}
			d := ds[0]
			if d.In > ret || d.Out == 0 || d.Out > ret {
				r.Violation("server-returned-before-handed:"+sc.Variant, fmt.Sprintf("%s: event %q reached backend %d at stamp %d (left %d), after the server had returned", what, e.Line, s, d.In, d.Out), replay)
			}
			if bad := diffFields(d.F, e); len(bad) > 0 {
				cls := strings.SplitN(bad[0], " ", 2)[0]
				r.Violation(fmt.Sprintf("server-field-%s:%s:%s", cls, sc.Variant, e.Outcome), fmt.Sprintf("%s: event %q from %s [%s]: backend %d received %s", what, e.Line, cfg.srcOf(e).Addr, e.Outcome, s, strings.Join(bad, "; ")), replay)
			}
		}
		r.Nontrivial(fmt.Sprintf("server|%s|%s|b=%d|m=%d|p=%d|ie=%v|%s", sc.Variant, e.Outcome, sc.Backends, sc.MaxConc, sc.Parsers, sc.InternalEvents, attrSet(e.Shape)))
	}
	// the server's own events: counted, and never more than once per backend
	own := map[string]int{}
	for _, t := range unknown {
		own[t]++
	}
	for t, cnt := range own {
		if t != "Gostatsd started" && t != "Gostatsd stopped" {
			r.Violation("server-unknown-event", fmt.Sprintf("%s: a backend received an event nobody sent (title %q)", what, t), replay)
		} else if cnt > sc.Backends || !sc.InternalEvents {
			r.Violation("server-internal-event-count", fmt.Sprintf("%s: internal event %q was delivered %d times to %d backends", what, t, cnt, sc.Backends), replay)
		}
		r.Event("server_internal_events_delivered", cnt)
	}
	r.Event("server_scenarios_"+sc.Variant, 1)
	r.Event("server_handovers_outstanding_at_cancel", heldWhenCancelled)
	if r.WantSample() && sc.Variant == "parked" && k%3 == 0 {
		r.Sample(map[string]interface{}{"server_scenario": sc, "accepted_events": len(accepted), "handovers_outstanding_at_cancel": heldWhenCancelled, "sources": cfg.Sources})
	}
	return outcome{}
}

func min(a, b int) int {
	if a < b {
		return a
	}
	return b
}
