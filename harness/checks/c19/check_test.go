//go:build verif

// C19 — every event is delivered once to every backend with its fields intact.
//
// Event lines of the grammar model (and protobuf events on the HTTP ingestion endpoint) are sent by
// concurrent senders through the real pipeline: DatagramParser -> CloudHandler (scripted instance
// cache) -> TagHandler (static tags) -> BackendHandler with 0..4 capturing backends, or -> a real
// HttpForwarderHandlerV2 posting to a capturing upstream. The oracle is a per-(event id, sink)
// delivery counter, field equality against the generating derivation, and a stamp comparison against
// the return of WaitForEvents on the head of the chain.
package c19

import (
	"bytes"
	"compress/zlib"
	"context"
	"errors"
	"fmt"
	"io"
	"math/rand"
	"net/http"
	"net/http/httptest"
	"runtime"
	"sort"
	"strings"
	"sync"
	"sync/atomic"
	"testing"
	"time"

	"github.com/pierrec/lz4/v4"
	"github.com/sirupsen/logrus"
	"github.com/spf13/viper"
	"google.golang.org/protobuf/proto"

	"github.com/atlassian/gostatsd"
	"github.com/atlassian/gostatsd/pb"
	"github.com/atlassian/gostatsd/pkg/statsd"
	"github.com/atlassian/gostatsd/pkg/transport"
	"github.com/atlassian/gostatsd/pkg/web"

	"verif/gen"
	"verif/mon"
)

const watchdog = 20 * time.Second

// ---------------------------------------------------------------------------------------------
// configuration of one execution (a function of the configuration index and VERIF_SEED only)

type srcPlan struct {
	Addr string   `json:"addr"`
	Mode string   `json:"mode"` // hit | neg | miss-ok | miss-ok-nocache | miss-fail | miss-fail-nocache | unknown
	ID   string   `json:"id,omitempty"`
	Tags []string `json:"tags,omitempty"`
	inst *gostatsd.Instance
}

func (s *srcPlan) success() bool {
	return s.Mode == "hit" || s.Mode == "miss-ok" || s.Mode == "miss-ok-nocache"
}

type senderPlan struct {
	Via string `json:"via"` // udp | http
	Src int    `json:"src"`
	N   int    `json:"n"`
}

type config struct {
	Index     int          `json:"index"`
	Mode      string       `json:"mode"` // backends | forwarder
	NBackends int          `json:"backends"`
	MaxConc   int          `json:"max_concurrent_events"`
	Parsers   int          `json:"parsers"`
	Workers   int          `json:"workers"`
	Queue     int          `json:"queue"`
	Cloud     bool         `json:"cloud"`
	Responder string       `json:"responder"` // immediate | yield | hold
	Static    []string     `json:"static_tags"`
	Sources   []*srcPlan   `json:"sources"`
	Senders   []senderPlan `json:"senders"`
	FwdComp   string       `json:"forwarder_compression,omitempty"`
	// FaultFirst (forwarder mode): the upstream reads the whole body of the first POST of every event and answers
	// it with this status ("503" | "500"); the forwarder's own retry is accepted.
	FaultFirst string `json:"fault_first_attempt,omitempty"`
}

// label is the mode as it appears in signatures.
func (c *config) label() string {
	if c.FaultFirst != "" {
		return c.Mode + "-retry"
	}
	return c.Mode
}

var cloudTagPool = []string{"region:us-east-1", "az:b", "env:prod", "service:web", "cluster:é1", "team:→x", "bare"}
var staticTagPool = []string{"env:prod", "dc:syd", "static", "owner:ops", "k:v:w", "ü:ö"}
var modes = []string{"hit", "neg", "miss-ok", "miss-ok-nocache", "miss-fail", "miss-fail-nocache", "miss-ok", "miss-fail"}

func makeConfig(i int, rng *rand.Rand) *config {
	c := &config{Index: i, Mode: "backends", NBackends: i % 5, MaxConc: 1 + (i/5)%8, Parsers: 1 + rng.Intn(4), Workers: 1 + rng.Intn(3), Queue: rng.Intn(8),
		Cloud: i%7 != 6, Responder: []string{"immediate", "yield", "hold"}[rng.Intn(3)]}
	if i%6 == 5 {
		c.Mode = "forwarder"
		c.FwdComp = []string{"off", "zlib", "lz4"}[rng.Intn(3)]
	}
	for j, n := 0, rng.Intn(4); j < n; j++ {
		c.Static = append(c.Static, staticTagPool[rng.Intn(len(staticTagPool))])
	}
	nSrc := 2 + rng.Intn(5)
	for k := 0; k < nSrc; k++ {
		s := &srcPlan{Addr: fmt.Sprintf("10.%d.%d.%d", i%250, k, 1+rng.Intn(250)), Mode: modes[rng.Intn(len(modes))]}
		s.ID = fmt.Sprintf("i-%04x%02x", i, k)
		for j, n := 0, rng.Intn(4); j < n; j++ {
			s.Tags = append(s.Tags, cloudTagPool[rng.Intn(len(cloudTagPool))])
		}
		if len(c.Static) > 0 && rng.Intn(4) == 0 {
			s.Tags = append(s.Tags, c.Static[0]) // overlap between cloud and static tags
		}
		s.inst = &gostatsd.Instance{ID: gostatsd.Source(s.ID), Tags: append(gostatsd.Tags{}, s.Tags...)}
		c.Sources = append(c.Sources, s)
	}
	nSend := 2 + rng.Intn(5)
	for k := 0; k < nSend; k++ {
		sp := senderPlan{Via: "udp", Src: rng.Intn(nSrc), N: 10 + rng.Intn(40)}
		if rng.Intn(3) == 0 {
			sp.Via = "http"
		}
		c.Senders = append(c.Senders, sp)
	}
	if rng.Intn(5) == 0 {
		// an HTTP client that leaves the hostname empty: the unknown source
		c.Sources = append(c.Sources, &srcPlan{Addr: "", Mode: "unknown"})
		c.Senders = append(c.Senders, senderPlan{Via: "http", Src: len(c.Sources) - 1, N: 5 + rng.Intn(10)})
	}
	return c
}

func (c *config) sinks() int {
	if c.Mode == "forwarder" {
		return 1
	}
	return c.NBackends
}

// ---------------------------------------------------------------------------------------------
// expectations and deliveries

type fields struct {
	Title   string   `json:"title"`
	Text    string   `json:"text"`
	Date    int64    `json:"date"`
	AggKey  string   `json:"aggregation_key"`
	SrcType string   `json:"source_type"`
	Tags    []string `json:"tags"` // sorted set
	Source  string   `json:"source"`
	Pri     int      `json:"priority"`
	Alert   int      `json:"alert_type"`
}

type bracket struct{ before, after atomic.Int64 }

type expect struct {
	ID      string
	Via     string
	Line    string
	Want    fields // Date 0 = receipt time, judged on the bracket
	Br      *bracket
	Outcome string
	Parked  bool
	Shape   string
}

type delivery struct {
	F       fields
	In, Out int64
}

type state struct {
	r        *mon.Run
	mu       sync.Mutex
	deliv    map[string]map[int][]*delivery
	unknown  []string
	inflight int
	maxInfl  int
}

func newState(r *mon.Run) *state { return &state{r: r, deliv: map[string]map[int][]*delivery{}} }

func setOf(tags []string) []string {
	seen := map[string]struct{}{}
	out := []string{}
	for _, t := range tags {
		if _, ok := seen[t]; !ok {
			seen[t] = struct{}{}
			out = append(out, t)
		}
	}
	sort.Strings(out)
	return out
}

func idOf(title string) string {
	if !strings.HasPrefix(title, "E") {
		return ""
	}
	i := strings.IndexByte(title, ';')
	if i < 0 {
		return ""
	}
	return title[:i+1]
}

// enter records a delivery at the moment the sink receives it (copying everything).
func (s *state) enter(sink int, f fields) *delivery {
	d := &delivery{F: f}
	id := idOf(f.Title)
	s.mu.Lock()
	d.In = s.r.Stamp()
	if id == "" {
		s.unknown = append(s.unknown, f.Title)
	} else {
		m := s.deliv[id]
		if m == nil {
			m = map[int][]*delivery{}
			s.deliv[id] = m
		}
		m[sink] = append(m[sink], d)
	}
	s.inflight++
	if s.inflight > s.maxInfl {
		s.maxInfl = s.inflight
	}
	s.mu.Unlock()
	return d
}

func (s *state) exit(d *delivery) {
	s.mu.Lock()
	d.Out = s.r.Stamp()
	s.inflight--
	s.mu.Unlock()
}

func (s *state) entered(id string, sink int) bool {
	s.mu.Lock()
	defer s.mu.Unlock()
	return len(s.deliv[id][sink]) > 0
}

func (s *state) count(id string) int {
	s.mu.Lock()
	defer s.mu.Unlock()
	n := 0
	for _, ds := range s.deliv[id] {
		n += len(ds)
	}
	return n
}

// snapshot copies the delivery table (values, not pointers) under the lock.
func (s *state) snapshot() (map[string]map[int][]delivery, []string, int) {
	s.mu.Lock()
	defer s.mu.Unlock()
	out := make(map[string]map[int][]delivery, len(s.deliv))
	for id, m := range s.deliv {
		mm := make(map[int][]delivery, len(m))
		for k, ds := range m {
			for _, d := range ds {
				mm[k] = append(mm[k], *d)
			}
		}
		out[id] = mm
	}
	return out, append([]string(nil), s.unknown...), s.maxInfl
}

// ---------------------------------------------------------------------------------------------
// capturing backend

type capBackend struct {
	idx  int
	st   *state
	seed uint64
	seq  atomic.Uint64
	gate chan struct{} // when non-nil SendEvent blocks until it is closed (cancel script)
	// when non-nil SendEvent blocks until the harness sends one token (forced interleaving)
	tokens chan struct{}
}

func (b *capBackend) Name() string { return fmt.Sprintf("capture%d", b.idx) }
func (b *capBackend) SendMetricsAsync(_ context.Context, _ *gostatsd.MetricMap, cb gostatsd.SendCallback) {
	cb(nil)
}

func splitmix(x uint64) uint64 {
	x += 0x9e3779b97f4a7c15
	x = (x ^ (x >> 30)) * 0xbf58476d1ce4e5b9
	x = (x ^ (x >> 27)) * 0x94d049bb133111eb
	return x ^ (x >> 31)
}

var spinSink atomic.Uint64

func (b *capBackend) SendEvent(_ context.Context, e *gostatsd.Event) error {
	d := b.st.enter(b.idx, fields{Title: e.Title, Text: e.Text, Date: e.DateHappened, AggKey: e.AggregationKey, SrcType: e.SourceTypeName,
		Tags: setOf(e.Tags), Source: string(e.Source), Pri: int(e.Priority), Alert: int(e.AlertType)})
	if b.gate != nil {
		<-b.gate
	}
	if b.tokens != nil {
		<-b.tokens
	}
	// per-call PRNG: yield and spin a little so that sends overlap and finish out of order
	x := splitmix(b.seed ^ b.seq.Add(1))
	for i := uint64(0); i < x%4; i++ {
		runtime.Gosched()
	}
	var acc uint64
	for i := uint64(0); i < (x>>8)%2000; i++ {
		acc += splitmix(i)
	}
	spinSink.Add(acc & 1)
	b.st.exit(d)
	if (x>>20)%16 == 0 {
		return errors.New("scripted backend failure") // the result must not matter
	}
	return nil
}

// nullAgg stands in for the aggregators behind the BackendHandler workers; it counts the series it
// is given so that the harness knows when the metric side has drained.
type nullAgg struct{ series *atomic.Int64 }

func (a nullAgg) ReceiveMap(mm *gostatsd.MetricMap) {
	n := 0
	mm.Counters.Each(func(string, string, gostatsd.Counter) { n++ })
	mm.Gauges.Each(func(string, string, gostatsd.Gauge) { n++ })
	mm.Timers.Each(func(string, string, gostatsd.Timer) { n++ })
	mm.Sets.Each(func(string, string, gostatsd.Set) { n++ })
	a.series.Add(int64(n))
}
func (a nullAgg) Flush(time.Duration)        {}
func (a nullAgg) Process(statsd.ProcessFunc) {}
func (a nullAgg) Reset()                     {}

// ---------------------------------------------------------------------------------------------
// scripted instance cache

type fakeCache struct {
	mu        sync.Mutex
	requested map[gostatsd.Source]int // lookups asked for, per address
	plans     map[gostatsd.Source]*srcPlan
	answered  map[gostatsd.Source]bool
	ipSink    chan gostatsd.Source
	info      chan gostatsd.InstanceInfo
	release   chan struct{}
	mode      string
	lookups   int
	misses    int
	hits      int
	stray     int
}

func newFakeCache(c *config) *fakeCache {
	fc := &fakeCache{plans: map[gostatsd.Source]*srcPlan{}, answered: map[gostatsd.Source]bool{}, ipSink: make(chan gostatsd.Source), info: make(chan gostatsd.InstanceInfo),
		release: make(chan struct{}), mode: c.Responder}
	for _, s := range c.Sources {
		fc.plans[gostatsd.Source(s.Addr)] = s
	}
	return fc
}

func (fc *fakeCache) EstimatedTags() int                       { return 2 }
func (fc *fakeCache) IpSink() chan<- gostatsd.Source           { return fc.ipSink }
func (fc *fakeCache) InfoSource() <-chan gostatsd.InstanceInfo { return fc.info }
func (fc *fakeCache) Peek(ip gostatsd.Source) (*gostatsd.Instance, bool) {
	fc.mu.Lock()
	defer fc.mu.Unlock()
	p := fc.plans[ip]
	if p == nil {
		fc.stray++
		return nil, true
	}
	var inst *gostatsd.Instance
	hit := false
	switch p.Mode {
	case "hit":
		inst, hit = p.inst, true
	case "neg":
		hit = true
	case "miss-ok":
		if fc.answered[ip] {
			inst, hit = p.inst, true
		}
	case "miss-fail":
		hit = fc.answered[ip]
	}
	if hit {
		fc.hits++
	} else {
		fc.misses++
	}
	return inst, hit
}

// run answers every lookup exactly once, in order, with the scripted result.
func (fc *fakeCache) run(ctx context.Context, rng *rand.Rand) {
	var pending []gostatsd.Source
	held := fc.mode == "hold"
	release := fc.release
	for {
		if fc.mode == "yield" {
			for i, n := 0, rng.Intn(6); i < n; i++ {
				runtime.Gosched()
			}
		}
		var out chan gostatsd.InstanceInfo
		var next gostatsd.InstanceInfo
		if len(pending) > 0 && !held {
			ip := pending[0]
			next.IP = ip
			fc.mu.Lock()
			if p := fc.plans[ip]; p != nil && p.success() {
				next.Instance = p.inst
			}
			fc.answered[ip] = true // the real cache stores the result before it announces it
			fc.mu.Unlock()
			out = fc.info
		}
		select {
		case ip := <-fc.ipSink:
			pending = append(pending, ip)
			fc.mu.Lock()
			fc.lookups++
			if fc.requested == nil {
				fc.requested = map[gostatsd.Source]int{}
			}
			fc.requested[ip]++
			fc.mu.Unlock()
		case out <- next:
			pending = pending[1:]
		case <-release:
			held = false
			release = nil
		case <-ctx.Done():
			return
		}
	}
}

// ---------------------------------------------------------------------------------------------
// the pipeline of one execution

type pipeline struct {
	cfg      *config
	st       *state
	head     gostatsd.PipelineHandler
	tail     gostatsd.PipelineHandler // the BackendHandler / forwarder at the end of the chain
	in       chan []*statsd.Datagram
	cache    *fakeCache
	ingest   *httptest.Server
	upstream *httptest.Server
	client   *http.Client
	series   atomic.Int64
	backends []*capBackend

	upMu         sync.Mutex
	upFirst      map[string][]byte // forwarder-retry: body of the first (faulted) attempt per event id
	upFaults     int
	upRejected   int      // undecodable bodies answered 400, as the real ingestion endpoint does
	upBodyDiffer []string // event ids whose retry body differs from the first attempt

	cancelFront, cancelBack context.CancelFunc
	front, back             sync.WaitGroup
}

func quiet() *logrus.Logger {
	l := logrus.New()
	l.SetOutput(io.Discard)
	return l
}

func decompress(enc string, b []byte) ([]byte, error) {
	switch enc {
	case "deflate":
		zr, err := zlib.NewReader(bytes.NewReader(b))
		if err != nil {
			return nil, err
		}
		defer zr.Close()
		return io.ReadAll(zr)
	case "lz4":
		return io.ReadAll(lz4.NewReader(bytes.NewReader(b)))
	case "", "identity":
		return b, nil
	}
	return nil, fmt.Errorf("unknown encoding %q", enc)
}

func buildPipeline(r *mon.Run, cfg *config, seed uint64, gate chan struct{}) (*pipeline, error) {
	p := &pipeline{cfg: cfg, st: newState(r), in: make(chan []*statsd.Datagram), upFirst: map[string][]byte{}}
	logger := quiet()
	backCtx, cancelBack := context.WithCancel(context.Background())
	frontCtx, cancelFront := context.WithCancel(context.Background())
	p.cancelBack, p.cancelFront = cancelBack, cancelFront
	fail := func(err error) (*pipeline, error) {
		p.teardown(false)
		return nil, err
	}

	var tail gostatsd.PipelineHandler
	if cfg.Mode == "forwarder" {
		st := p.st
		p.upstream = httptest.NewServer(http.HandlerFunc(func(w http.ResponseWriter, req *http.Request) {
			body, _ := io.ReadAll(req.Body)
			if req.URL.Path != "/v2/event" {
				w.WriteHeader(http.StatusAccepted)
				return
			}
			raw, err := decompress(req.Header.Get("Content-Encoding"), body)
			var msg pb.EventV2
			if err == nil {
				err = proto.Unmarshal(raw, &msg)
			}
			if err != nil {
				if cfg.FaultFirst != "" {
					// what a real ingesting gostatsd does with a body it cannot decode
					p.upMu.Lock()
					p.upRejected++
					p.upMu.Unlock()
					w.WriteHeader(http.StatusBadRequest)
					return
				}
				st.mu.Lock()
				st.unknown = append(st.unknown, "undecodable upstream body: "+err.Error())
				st.mu.Unlock()
				w.WriteHeader(http.StatusAccepted)
				return
			}
			if cfg.FaultFirst != "" {
				if id := idOf(msg.GetTitle()); id != "" {
					p.upMu.Lock()
					first, seen := p.upFirst[id]
					if !seen {
						p.upFirst[id] = body
						p.upFaults++
					} else if !bytes.Equal(first, body) {
						p.upBodyDiffer = append(p.upBodyDiffer, id)
					}
					p.upMu.Unlock()
					if !seen {
						status := http.StatusServiceUnavailable
						if cfg.FaultFirst == "500" {
							status = http.StatusInternalServerError
						}
						w.WriteHeader(status)
						return
					}
				}
			}
			d := st.enter(0, fields{Title: msg.GetTitle(), Text: msg.GetText(), Date: msg.GetDateHappened(), AggKey: msg.GetAggregationKey(), SrcType: msg.GetSourceTypeName(),
				Tags: setOf(msg.GetTags()), Source: msg.GetHostname(), Pri: int(msg.GetPriority()), Alert: int(msg.GetType())})
			runtime.Gosched()
			st.exit(d)
			w.WriteHeader(http.StatusAccepted)
		}))
		pool := transport.NewTransportPool(logger, viper.New())
		maxElapsed := time.Second
		if cfg.FaultFirst != "" {
			maxElapsed = 3 * time.Second // room for the first retry (0.25-0.75 s back-off) and two more
		}
		compress, ctype := true, cfg.FwdComp
		if ctype == "off" {
			compress, ctype = false, "zlib"
		}
		fwd, err := statsd.NewHttpForwarderHandlerV2(logger, "default", p.upstream.URL, 2, 50, 1, compress, ctype, 1+cfg.Index%9, maxElapsed, time.Hour, nil, nil, pool, statsd.VerifNewFlushCoordinator())
		if err != nil {
			return fail(err)
		}
		p.back.Add(1)
		go func() { defer p.back.Done(); fwd.Run(backCtx) }()
		tail = fwd
	} else {
		var bs []gostatsd.Backend
		for i := 0; i < cfg.NBackends; i++ {
			b := &capBackend{idx: i, st: p.st, seed: splitmix(seed + uint64(i)), gate: gate}
			p.backends = append(p.backends, b)
			bs = append(bs, b)
		}
		bh := statsd.NewBackendHandler(bs, uint(cfg.MaxConc), cfg.Workers, cfg.Queue, statsd.AggregatorFactoryFunc(func() statsd.Aggregator { return nullAgg{series: &p.series} }))
		p.back.Add(1)
		go func() { defer p.back.Done(); bh.Run(backCtx) }()
		tail = bh
	}
	p.tail = tail
	var head gostatsd.PipelineHandler = statsd.NewTagHandler(tail, append(gostatsd.Tags{}, cfg.Static...), nil)
	if cfg.Cloud {
		p.cache = newFakeCache(cfg)
		crng := r.RandGlobal(fmt.Sprintf("cfg%d/cache", cfg.Index))
		p.front.Add(1)
		go func() { defer p.front.Done(); p.cache.run(frontCtx, crng) }()
		ch := statsd.NewCloudHandler(p.cache, head)
		p.front.Add(1)
		go func() { defer p.front.Done(); ch.Run(frontCtx) }()
		head = ch
	}
	p.head = head
	parser := statsd.NewDatagramParser(p.in, "", false, 0, head, 0, false, logger)
	for i := 0; i < cfg.Parsers; i++ {
		p.front.Add(1)
		go func() { defer p.front.Done(); parser.Run(frontCtx) }()
	}
	hs, err := web.NewHttpServer(logger, head, "c19", "", false, false, true, false, nil, nil)
	if err != nil {
		return fail(err)
	}
	p.ingest = httptest.NewServer(hs.Router)
	p.client = &http.Client{Transport: &http.Transport{MaxIdleConnsPerHost: 8}, Timeout: 60 * time.Second}
	return p, nil
}

// teardown stops the stages front to back, as the real server's stager does. The back (workers /
// forwarder) is only stopped when the caller knows nothing is in flight towards it.
func (p *pipeline) teardown(stopBack bool) {
	if p.ingest != nil {
		p.ingest.Close()
	}
	p.cancelFront()
	waitGroup(&p.front, 10*time.Second)
	if stopBack {
		p.cancelBack()
		waitGroup(&p.back, 10*time.Second)
	}
	if p.upstream != nil {
		p.upstream.Close()
	}
	if p.client != nil {
		p.client.CloseIdleConnections()
	}
}

func waitGroup(wg *sync.WaitGroup, d time.Duration) bool {
	done := make(chan struct{})
	go func() { wg.Wait(); close(done) }()
	select {
	case <-done:
		return true
	case <-time.After(d):
		return false
	}
}

// ---------------------------------------------------------------------------------------------
// senders

// withID puts a unique id in front of the title of a derived event line.
func withID(d gen.EventLine, id string) string {
	hdrEnd := strings.Index(d.Line, "}:")
	var tl, xl int
	if _, err := fmt.Sscanf(d.Line[:hdrEnd+1], "_e{%d,%d}", &tl, &xl); err != nil || tl != len(d.Title) {
		panic(fmt.Sprintf("harness: cannot re-head event line %q: %v", d.Line, err))
	}
	rest := d.Line[hdrEnd+2:]
	if rest[:tl] != d.Title {
		panic(fmt.Sprintf("harness: title mismatch in %q", d.Line))
	}
	return fmt.Sprintf("_e{%d,%d}:%s%s%s", len(id)+tl, xl, id, d.Title, rest[tl:])
}

type runCtx struct {
	r       *mon.Run
	p       *pipeline
	cfg     *config
	mu      sync.Mutex
	expects map[string]*expect
	sentDG  atomic.Int64
	doneDG  atomic.Int64
	noise   atomic.Int64
	httpBad atomic.Int64
	httpMsg atomic.Value
}

func (rc *runCtx) expectFor(id, via string, d gen.EventLine, src *srcPlan, extraTag string) *expect {
	cfg := rc.cfg
	e := &expect{ID: id, Via: via, Shape: d.Shape, Outcome: "nocloud", Br: &bracket{}}
	tags := append([]string{}, d.Tags...)
	if extraTag != "" {
		tags = append(tags, extraTag)
	}
	tags = append(tags, cfg.Static...)
	source := src.Addr
	if cfg.Cloud {
		e.Outcome = src.Mode
		if src.success() {
			tags = append(tags, src.Tags...)
			source = src.ID
		}
		e.Parked = strings.HasSuffix(src.Mode, "-nocache") || (strings.HasPrefix(src.Mode, "miss-") && cfg.Responder == "hold")
	}
	e.Want = fields{Title: id + d.Title, Text: d.Text, Date: d.DateHappened, AggKey: d.AggregationKey, SrcType: d.SourceTypeName, Tags: setOf(tags), Source: source, Pri: d.Priority, Alert: d.AlertType}
	return e
}

func (rc *runCtx) sendUDP(si int, sp senderPlan, rng *rand.Rand) {
	cfg := rc.cfg
	src := cfg.Sources[sp.Src]
	opts := gen.LineOpts{UTF8Only: cfg.Mode == "forwarder", Plain: rng.Intn(6) == 0}
	var batch []*statsd.Datagram
	var lines []string
	var exps []*expect
	flushDG := func() {
		if len(lines) == 0 {
			return
		}
		msg := []byte(strings.Join(lines, "\n"))
		if rng.Intn(2) == 0 {
			msg = append(msg, '\n')
		}
		br := &bracket{}
		for _, e := range exps {
			e.Br = br
		}
		dg := &statsd.Datagram{IP: gostatsd.Source(src.Addr), Msg: msg, Timestamp: gostatsd.Nanotime(1700000000000000000 + int64(si))}
		dg.DoneFunc = func() {
			// the receiver re-uses the buffer from here on
			for i := range msg {
				msg[i] = 'X'
			}
			br.after.Store(time.Now().Unix())
			rc.doneDG.Add(1)
		}
		br.before.Store(time.Now().Unix())
		batch = append(batch, dg)
		lines, exps = nil, nil
	}
	flushBatch := func() {
		flushDG()
		if len(batch) == 0 {
			return
		}
		rc.sentDG.Add(int64(len(batch)))
		rc.p.in <- batch
		batch = nil
		if rng.Intn(3) == 0 {
			runtime.Gosched()
		}
	}
	for n := 0; n < sp.N; n++ {
		id := fmt.Sprintf("E%d-%d-%d;", cfg.Index, si, n)
		d := gen.Event(rng, opts)
		line := withID(d, id)
		extra := ""
		if !strings.Contains(d.Shape, "#") && len(cfg.Static) > 0 && rng.Intn(4) == 0 {
			extra = cfg.Static[rng.Intn(len(cfg.Static))] // the client already carries a static tag
			line += "|#" + extra
		}
		e := rc.expectFor(id, "udp", d, src, extra)
		e.Line = line
		rc.mu.Lock()
		rc.expects[id] = e
		rc.mu.Unlock()
		lines = append(lines, line)
		exps = append(exps, e)
		switch rng.Intn(8) {
		case 0: // a metric line of a unique series: the metric side shares the lookup with the events
			lines = append(lines, fmt.Sprintf("noise.c%d.s%d.n%d:%d|c|#a:b", cfg.Index, si, n, 1+rng.Intn(9)))
			rc.noise.Add(1)
		case 1:
			lines = append(lines, []string{"not a statsd line", "x:1|q", "_e{3,2}:ab|c", "_e{1,1}:a|b|p:urgent", ""}[rng.Intn(5)])
		}
		if rng.Intn(3) != 0 {
			flushDG()
		}
		if rng.Intn(3) == 0 {
			flushBatch()
		}
	}
	flushBatch()
}

func (rc *runCtx) sendHTTP(si int, sp senderPlan, rng *rand.Rand) {
	cfg := rc.cfg
	src := cfg.Sources[sp.Src]
	for n := 0; n < sp.N; n++ {
		id := fmt.Sprintf("E%d-%d-%d;", cfg.Index, si, n)
		d := gen.Event(rng, gen.LineOpts{UTF8Only: true, NoUnknownFields: true})
		if d.DateHappened == 0 {
			d.DateHappened = 1 + rng.Int63n(2000000000) // a forwarder always sets the time
			d.Shape += "d"
		}
		e := rc.expectFor(id, "http", d, src, "")
		msg := &pb.EventV2{Title: e.Want.Title, Text: d.Text, DateHappened: d.DateHappened, Hostname: src.Addr, AggregationKey: d.AggregationKey, SourceTypeName: d.SourceTypeName,
			Tags: d.Tags, SourceIP: src.Addr, Priority: pb.EventV2_EventPriority(d.Priority), Type: pb.EventV2_AlertType(d.AlertType)}
		raw, err := proto.Marshal(msg)
		if err != nil {
			panic("harness: cannot marshal event: " + err.Error())
		}
		enc := []string{"identity", "deflate", "lz4", ""}[rng.Intn(4)]
		body := raw
		switch enc {
		case "deflate":
			var buf bytes.Buffer
			zw := zlib.NewWriter(&buf)
			_, _ = zw.Write(raw)
			_ = zw.Close()
			body = buf.Bytes()
		case "lz4":
			var buf bytes.Buffer
			lw := lz4.NewWriter(&buf)
			_, _ = lw.Write(raw)
			_ = lw.Close()
			body = buf.Bytes()
		}
		e.Br.before.Store(time.Now().Unix())
		rc.mu.Lock()
		rc.expects[id] = e
		rc.mu.Unlock()
		req, _ := http.NewRequest("POST", rc.p.ingest.URL+"/v2/event", bytes.NewReader(body))
		req.Header.Set("Content-Type", "application/x-protobuf")
		if enc != "" {
			req.Header.Set("Content-Encoding", enc)
		}
		resp, err := rc.p.client.Do(req)
		status := 0
		if err == nil {
			_, _ = io.Copy(io.Discard, resp.Body)
			resp.Body.Close()
			status = resp.StatusCode
		}
		e.Br.after.Store(time.Now().Unix())
		if status < 200 || status > 299 {
			rc.httpBad.Add(1)
			rc.httpMsg.Store(fmt.Sprintf("event %s (Content-Encoding %q): status %d err %v", id, enc, status, err))
		}
	}
}

// ---------------------------------------------------------------------------------------------
// one execution

type outcome struct {
	hung    string // non-empty: the stage that did not make progress within the watchdog
	missing string
}

func attrSet(shape string) string {
	seen := map[rune]bool{}
	for _, c := range strings.TrimPrefix(shape, "e") {
		seen[c] = true
	}
	var out []string
	for c := range seen {
		out = append(out, string(c))
	}
	sort.Strings(out)
	return strings.Join(out, "")
}

func (c *checker) execute(i int) outcome {
	return c.executeCfg(makeConfig(i, c.r.RandGlobal(fmt.Sprintf("cfg%d", i))), "")
}

// makeRetryConfig: a small forwarder-mode execution whose upstream fails the first attempt of every event.
func makeRetryConfig(k int) *config {
	i := 700000 + k
	c := &config{Index: i, Mode: "forwarder", FwdComp: []string{"off", "zlib", "lz4"}[k%3], FaultFirst: []string{"503", "500"}[(k/3)%2], MaxConc: 1, Parsers: 1 + k%2, Workers: 1, Queue: 1,
		Cloud: k%4 != 3, Responder: []string{"immediate", "yield", "hold"}[(k/2)%3], Static: []string{"static", "dc:syd"}}
	c.Sources = []*srcPlan{
		{Addr: fmt.Sprintf("10.70.%d.1", k%250), Mode: "hit", ID: fmt.Sprintf("i-retry%da", k), Tags: []string{"az:b"}},
		{Addr: fmt.Sprintf("10.70.%d.2", k%250), Mode: []string{"miss-ok", "neg", "miss-fail"}[k%3], ID: fmt.Sprintf("i-retry%db", k), Tags: []string{"region:us-east-1", "static"}},
	}
	for _, s := range c.Sources {
		s.inst = &gostatsd.Instance{ID: gostatsd.Source(s.ID), Tags: append(gostatsd.Tags{}, s.Tags...)}
	}
	c.Senders = []senderPlan{{Via: "udp", Src: 0, N: 2 + k%2}, {Via: "udp", Src: 1, N: 2}, {Via: "http", Src: k % 2, N: 2}}
	return c
}

func (c *checker) executeRetry(k int) outcome {
	return c.executeCfg(makeRetryConfig(k), "fwd-retry")
}

func (c *checker) executeCfg(cfg *config, kind string) outcome {
	r := c.r
	i := cfg.Index
	replay := map[string]interface{}{"cfg": i, "config": cfg}
	if kind != "" {
		replay["kind"], replay["cfg"] = kind, i-700000
	}
	r.Case("execution cfg=%d mode=%s backends=%d maxconc=%d cloud=%v responder=%s senders=%d", i, cfg.Mode, cfg.NBackends, cfg.MaxConc, cfg.Cloud, cfg.Responder, len(cfg.Senders))
	p, err := buildPipeline(r, cfg, uint64(r.Seed())*1000003+uint64(i), nil)
	if err != nil {
		r.Violation("pipeline-setup:"+cfg.Mode, fmt.Sprintf("cannot build the pipeline of %+v: %v", cfg, err), replay)
		return outcome{}
	}
	rc := &runCtx{r: r, p: p, cfg: cfg, expects: map[string]*expect{}}
	var senders sync.WaitGroup
	for si, sp := range cfg.Senders {
		si, sp := si, sp
		rng := r.RandGlobal(fmt.Sprintf("cfg%d/s%d", i, si))
		senders.Add(1)
		go func() {
			defer senders.Done()
			if sp.Via == "udp" {
				rc.sendUDP(si, sp, rng)
			} else {
				rc.sendHTTP(si, sp, rng)
			}
		}()
	}
	stuck := func(stage string) outcome {
		// leave the back running: something may still be in flight towards it
		p.teardown(false)
		return outcome{hung: stage, missing: c.missingClasses(rc)}
	}
	if !waitGroup(&senders, watchdog) || !mon.WaitUntil(watchdog, func() bool { return rc.doneDG.Load() == rc.sentDG.Load() }) {
		return stuck("datagrams-not-consumed")
	}
	// All senders have returned and every datagram has been handed back: nothing adds events any more.
	if p.cache != nil {
		close(p.cache.release)
	}
	var waitStamp atomic.Int64
	waited := make(chan struct{})
	go func() {
		p.head.WaitForEvents()
		waitStamp.Store(r.Stamp())
		close(waited)
	}()
	select {
	case <-waited:
	case <-time.After(watchdog):
		return stuck("wait-for-events")
	}
	ws := waitStamp.Load()
	deliv, unknown, maxInfl := p.st.snapshot()
	sinks := cfg.sinks()
	mode := cfg.label()
	if cfg.FaultFirst != "" {
		p.upMu.Lock()
		r.Event("forwarder_retry_first_attempts_failed_"+cfg.FaultFirst, p.upFaults)
		r.Event("forwarder_retry_undecodable_attempts", p.upRejected)
		differ := append([]string(nil), p.upBodyDiffer...)
		rejected := p.upRejected
		p.upMu.Unlock()
		for _, id := range differ {
			r.Violation("retry-body-differs:"+mode+":"+cfg.FwdComp, fmt.Sprintf("cfg %d (compression %s, first attempt answered %s): the body re-sent for event %s differs from the first attempt's", i, cfg.FwdComp, cfg.FaultFirst, id), replay)
		}
		if rejected > 0 {
			r.Violation("retry-undecodable-body:"+mode+":"+cfg.FwdComp, fmt.Sprintf("cfg %d (compression %s, first attempt answered %s): %d POSTs to /v2/event after a failed first attempt carried a body that cannot be decompressed / unmarshalled (answered 400 as a real ingesting server would)", i, cfg.FwdComp, cfg.FaultFirst, rejected), replay)
		}
		r.Event("executions_forwarder_retry", 1)
	}
	if n := rc.httpBad.Load(); n > 0 {
		r.Violation("http-event-not-accepted:"+mode, fmt.Sprintf("cfg %d: %d well-formed protobuf events were not answered 2xx by /v2/event, e.g. %v", i, n, rc.httpMsg.Load()), replay)
	}
	for _, u := range unknown {
		r.Violation("unknown-event-delivered:"+mode, fmt.Sprintf("cfg %d: a sink received an event that was never sent (title %q)", i, u), replay)
	}
	ids := make([]string, 0, len(rc.expects))
	for id := range rc.expects {
		ids = append(ids, id)
	}
	sort.Strings(ids)
	for _, id := range ids {
		e := rc.expects[id]
		r.Eval(1)
		what := func() string {
			if e.Via == "udp" {
				return fmt.Sprintf("cfg %d (%s, %d sinks, max-concurrent-events %d, responder %s): line %q from %s [%s]", i, mode, sinks, cfg.MaxConc, cfg.Responder, e.Line, cfg.srcOf(e).Addr, e.Outcome)
			}
			return fmt.Sprintf("cfg %d (%s, %d sinks, max-concurrent-events %d, responder %s): HTTP event %+v hostname %q [%s]", i, mode, sinks, cfg.MaxConc, cfg.Responder, e.Want, cfg.srcOf(e).Addr, e.Outcome)
		}
		for s := 0; s < sinks; s++ {
			ds := deliv[id][s]
			switch {
			case len(ds) == 0:
				r.Violation(fmt.Sprintf("not-handed-when-wait-returned:%s:%s:%s", mode, e.Via, e.Outcome), what()+fmt.Sprintf(": sink %d had not received it when WaitForEvents returned", s), replay)
				continue
			case len(ds) > 1:
				r.Violation(fmt.Sprintf("delivered-more-than-once:%s:%s:%s", mode, e.Via, e.Outcome), what()+fmt.Sprintf(": sink %d received it %d times", s, len(ds)), replay)
			}
			for _, d := range ds {
				if d.Out == 0 || d.Out > ws {
					r.Violation("send-unfinished-when-wait-returned:"+mode, what()+fmt.Sprintf(": sink %d was still sending it (entered at stamp %d, left at %d) when WaitForEvents returned at %d", s, d.In, d.Out, ws), replay)
				}
				if bad := diffFields(d.F, e); len(bad) > 0 {
					cls := strings.SplitN(bad[0], " ", 2)[0]
					sig := fmt.Sprintf("field-%s:%s:%s", cls, mode, e.Via)
					if cls == "source" || cls == "tags" {
						sig += ":" + e.Outcome
					}
					r.Violation(sig, what()+fmt.Sprintf(": sink %d received %s", s, strings.Join(bad, "; ")), replay)
				}
			}
		}
		r.Event("deliveries", sinks)
		r.Event("events_"+e.Via, 1)
		nattr := len(attrSet(e.Shape))
		if e.Parked || nattr >= 3 {
			r.Nontrivial(fmt.Sprintf("%s|%s|parked=%v|%s|sinks=%d|%s", attrSet(e.Shape), e.Outcome, e.Parked, mode, sinks, e.Via))
		}
		if r.WantSample() && e.Parked && nattr >= 3 && sinks >= 2 && len(e.Line) < 200 && e.Via == "udp" {
			r.Sample(map[string]interface{}{"line": e.Line, "sender": cfg.srcOf(e).Addr, "lookup": e.Outcome, "expected": e.Want, "sinks": sinks, "static_tags": cfg.Static, "max_concurrent_events": cfg.MaxConc})
		}
	}
	if p.cache != nil {
		p.cache.mu.Lock()
		r.Event("cache_peek_miss", p.cache.misses)
		r.Event("cache_peek_hit", p.cache.hits)
		r.Event("lookups_answered", p.cache.lookups)
		stray := p.cache.stray
		p.cache.mu.Unlock()
		if stray > 0 {
			r.Violation("lookup-for-unknown-address:"+mode, fmt.Sprintf("cfg %d: the cache was asked %d times about an address no sender used", i, stray), replay)
		}
	}
	r.Event("executions_"+cfg.Mode, 1)
	r.Event("datagrams", int(rc.sentDG.Load()))
	if maxInfl > cfg.MaxConc && mode == "backends" {
		r.Event("executions_exceeding_max_concurrent_events", 1) // not part of the statement; recorded only
	}
	// Let the metric side drain before the workers are stopped (a parked metric map may still be on its way).
	stopBack := true
	if mode == "backends" && !mon.WaitUntil(watchdog, func() bool { return p.series.Load() >= rc.noise.Load() }) {
		r.Inconclusive("metric-side-not-drained")
		stopBack = false
	}
	p.teardown(stopBack)
	// anything that arrived after WaitForEvents returned
	deliv2, _, _ := p.st.snapshot()
	for _, id := range ids {
		e := rc.expects[id]
		for s := 0; s < sinks; s++ {
			if len(deliv2[id][s]) > 1 && len(deliv[id][s]) <= 1 {
				r.Violation(fmt.Sprintf("delivered-more-than-once:%s:%s:%s", mode, e.Via, e.Outcome), fmt.Sprintf("cfg %d: event %s reached sink %d %d times (some after WaitForEvents returned)", i, id, s, len(deliv2[id][s])), replay)
			}
			for _, d := range deliv2[id][s] {
				if d.In > ws {
					r.Violation("handed-after-wait-returned:"+mode, fmt.Sprintf("cfg %d: event %s reached sink %d at stamp %d, after WaitForEvents had returned at %d", i, id, s, d.In, ws), replay)
				}
			}
		}
	}
	return outcome{}
}

func (cfg *config) srcOf(e *expect) *srcPlan {
	var si int
	var a, b int
	fmt.Sscanf(e.ID, "E%d-%d-%d;", &a, &si, &b)
	if si < len(cfg.Senders) {
		return cfg.Sources[cfg.Senders[si].Src]
	}
	return &srcPlan{}
}

// missingClasses summarises which kinds of event had not reached every sink (for a hang report).
func (c *checker) missingClasses(rc *runCtx) string {
	deliv, _, _ := rc.p.st.snapshot()
	classes := map[string]int{}
	rc.mu.Lock()
	for id, e := range rc.expects {
		for s := 0; s < rc.cfg.sinks(); s++ {
			if len(deliv[id][s]) == 0 {
				classes[e.Via+"/"+e.Outcome]++
				break
			}
		}
	}
	rc.mu.Unlock()
	var keys []string
	for k := range classes {
		keys = append(keys, k)
	}
	sort.Strings(keys)
	return strings.Join(keys, ",")
}

func diffFields(got fields, e *expect) []string {
	w := e.Want
	var bad []string
	if got.Title != w.Title {
		bad = append(bad, fmt.Sprintf("title %q want %q", got.Title, w.Title))
	}
	if got.Text != w.Text {
		bad = append(bad, fmt.Sprintf("text %q want %q", got.Text, w.Text))
	}
	if w.Date != 0 {
		if got.Date != w.Date {
			bad = append(bad, fmt.Sprintf("date %d want %d", got.Date, w.Date))
		}
	} else if lo, hi := e.Br.before.Load(), e.Br.after.Load(); got.Date < lo || got.Date > hi {
		bad = append(bad, fmt.Sprintf("date %d want the receipt time, which lies in [%d,%d]", got.Date, lo, hi))
	}
	if got.AggKey != w.AggKey {
		bad = append(bad, fmt.Sprintf("aggregation-key %q want %q", got.AggKey, w.AggKey))
	}
	if got.SrcType != w.SrcType {
		bad = append(bad, fmt.Sprintf("source-type %q want %q", got.SrcType, w.SrcType))
	}
	if got.Pri != w.Pri {
		bad = append(bad, fmt.Sprintf("priority %d want %d", got.Pri, w.Pri))
	}
	if got.Alert != w.Alert {
		bad = append(bad, fmt.Sprintf("alert-type %d want %d", got.Alert, w.Alert))
	}
	if strings.Join(got.Tags, "\x01") != strings.Join(w.Tags, "\x01") {
		bad = append(bad, fmt.Sprintf("tags %q want %q", got.Tags, w.Tags))
	}
	if got.Source != w.Source {
		bad = append(bad, fmt.Sprintf("source %q want %q", got.Source, w.Source))
	}
	return bad
}

// ---------------------------------------------------------------------------------------------
// deterministic script: a dispatch cancelled while the event semaphore is full

func (c *checker) cancelScript(i int) outcome {
	r := c.r
	cfg := &config{Index: i, Mode: "backends", NBackends: 2 + i%3, MaxConc: 1, Parsers: 1, Workers: 1, Queue: 1, Cloud: i%2 == 0, Responder: "immediate", Static: []string{"static"},
		Sources: []*srcPlan{{Addr: "10.9.9.9", Mode: "hit", ID: "i-script", Tags: []string{"az:b"}, inst: &gostatsd.Instance{ID: "i-script", Tags: gostatsd.Tags{"az:b"}}}}}
	replay := map[string]interface{}{"script": "cancelled-dispatch", "cfg": i, "config": cfg}
	r.Case("cancel-script cfg=%d backends=%d", i, cfg.NBackends)
	gate := make(chan struct{})
	p, err := buildPipeline(r, cfg, uint64(i), gate)
	if err != nil {
		r.Violation("pipeline-setup:script", err.Error(), replay)
		return outcome{}
	}
	opened := false
	open := func() {
		if !opened {
			opened = true
			close(gate)
		}
	}
	stuck := func(stage string) outcome {
		open()
		p.teardown(false)
		return outcome{hung: stage, missing: "script"}
	}
	mk := func(id string) *gostatsd.Event {
		return &gostatsd.Event{Title: id + "title", Text: "text", DateHappened: 12345, Source: "10.9.9.9", Tags: gostatsd.Tags{"t:1"}}
	}
	bg := context.Background()
	// A: dispatched with a live context; backend 0 takes the only semaphore slot and blocks at the gate
	ctxC, cancelC := context.WithCancel(bg)
	aDone := make(chan struct{})
	go func() { p.head.DispatchEvent(ctxC, mk("EA;")); close(aDone) }()
	if !mon.WaitUntil(watchdog, func() bool { return p.st.count("EA;") >= 1 }) {
		cancelC()
		return stuck("script-first-send")
	}
	cancelC() // the dispatcher is waiting for the semaphore on behalf of backend 1: it must give up
	select {
	case <-aDone:
	case <-time.After(watchdog):
		return stuck("script-cancelled-dispatch-return")
	}
	// B: dispatched with an already cancelled context while the semaphore is still full
	bDone := make(chan struct{})
	go func() { p.head.DispatchEvent(ctxC, mk("EB;")); close(bDone) }()
	select {
	case <-bDone:
	case <-time.After(watchdog):
		return stuck("script-cancelled-dispatch-return")
	}
	var ws1 atomic.Int64
	w1 := make(chan struct{})
	go func() { p.head.WaitForEvents(); ws1.Store(r.Stamp()); close(w1) }()
	// give a premature return the chance to happen before the send is allowed to finish (no verdict depends on this pause)
	mon.WaitUntil(20*time.Millisecond, func() bool { return ws1.Load() != 0 })
	open()
	select {
	case <-w1:
	case <-time.After(watchdog):
		return stuck("script-wait-after-cancelled-dispatch")
	}
	deliv, _, _ := p.st.snapshot()
	for _, id := range []string{"EA;", "EB;"} {
		for s, ds := range deliv[id] {
			if len(ds) > 1 {
				r.Violation("delivered-more-than-once:script", fmt.Sprintf("cancelled dispatch: event %s reached backend %d %d times", id, s, len(ds)), replay)
			}
			for _, d := range ds {
				if d.Out == 0 || d.Out > ws1.Load() {
					r.Violation("send-unfinished-when-wait-returned:script", fmt.Sprintf("event %s was dispatched to backend %d (entered at stamp %d, left at %d), the dispatch to the other %d backends was cancelled, and WaitForEvents returned at stamp %d before that send had finished", id, s, d.In, d.Out, cfg.NBackends-1, ws1.Load()), replay)
				}
			}
		}
	}
	// C: a live dispatch afterwards is delivered everywhere before the next wait returns
	cDone := make(chan struct{})
	go func() { p.head.DispatchEvent(bg, mk("EC;")); close(cDone) }()
	select {
	case <-cDone:
	case <-time.After(watchdog):
		return stuck("script-live-dispatch")
	}
	var ws2 atomic.Int64
	w2 := make(chan struct{})
	go func() { p.head.WaitForEvents(); ws2.Store(r.Stamp()); close(w2) }()
	select {
	case <-w2:
	case <-time.After(watchdog):
		return stuck("script-wait-after-live-dispatch")
	}
	deliv, _, _ = p.st.snapshot()
	for s := 0; s < cfg.NBackends; s++ {
		ds := deliv["EC;"][s]
		if len(ds) != 1 {
			r.Violation("script-live-event-count:"+map[bool]string{true: "none", false: "many"}[len(ds) == 0], fmt.Sprintf("after a cancelled dispatch, a live event reached backend %d %d times before WaitForEvents returned", s, len(ds)), replay)
			continue
		}
		if ds[0].Out == 0 || ds[0].Out > ws2.Load() {
			r.Violation("send-unfinished-when-wait-returned:script", fmt.Sprintf("live event after a cancelled dispatch: backend %d still sending when WaitForEvents returned", s), replay)
		}
	}
	r.Eval(3)
	r.Event("cancel_scripts", 1)
	r.Nontrivial(fmt.Sprintf("cancel-script|backends=%d|cloud=%v", cfg.NBackends, cfg.Cloud))
	p.teardown(true)
	return outcome{}
}

// ---------------------------------------------------------------------------------------------

type checker struct {
	r       *mon.Run
	stalled map[string]bool // kinds of case for which a no-progress violation has been recorded
}

// twice runs f, and once more if it did not make progress: bounded progress is only a violation when
// the same deterministic workload stalls again (DESIGN §8).
func (c *checker) twice(kind string, i int, f func(int) outcome) {
	if c.stalled[kind] {
		// every further case of this kind would cost two watchdog periods; the violation is already recorded
		c.r.Event("skipped_after_no_progress_"+kind, 1)
		return
	}
	o := f(i)
	if o.hung == "" {
		return
	}
	o2 := f(i)
	if o2.hung == "" {
		c.r.Inconclusive("watchdog-once:" + o.hung)
		return
	}
	c.stalled[kind] = true
	c.r.Violation(fmt.Sprintf("no-progress:%s:%s:undelivered=%s", kind, o2.hung, o2.missing),
		fmt.Sprintf("%s %d: stage %q made no progress within %v in two consecutive runs of the same workload; events not yet at every sink: first run [%s], second run [%s]", kind, i, o2.hung, watchdog, o.missing, o2.missing),
		map[string]interface{}{"cfg": i, "kind": kind})
}

func TestCheck(t *testing.T) {
	r := mon.Start(t, "C19")
	defer r.Finish()
	logrus.SetOutput(io.Discard)
	r.Rule("an execution = one pipeline (DatagramParser x1-4 goroutines -> CloudHandler with a scripted instance cache -> TagHandler with 0-3 static tags -> BackendHandler with 0-4 capturing backends and max-concurrent-events 1-8, or -> HttpForwarderHandlerV2 posting to a capturing upstream; every 7th without cloud stage) fed by 2-7 concurrent senders (datagrams of 1-4 lines in batches of 1-3, mixed with unique metric lines and bad lines; or protobuf EventV2 posts to /v2/event, identity/deflate/lz4) of 10-50 grammar-derived event lines each with a unique id in the title; per sender address the cache scripts hit / negative hit / miss then success / miss then failure, each with and without caching of the answer, answered immediately, after random yields, or only after all senders have returned; backends copy on receipt, yield and spin per call, and fail 1 call in 16. Plus a deterministic script: dispatch cancelled while the only semaphore slot is held, then a dispatch with an already cancelled context, then a live one. Plus forwarder-mode executions whose upstream reads the body of the FIRST POST of every event and answers 503 / 500, accepting the forwarder's own retry (compression off / zlib / lz4; an undecodable retry is answered 400 as a real ingesting server would): exactly one accepted POST per event with the derivation's fields, retry body identical to the first attempt. Plus server scenarios: the real statsd.Server (standalone, internal statser, 1-3 capturing backends, scripted cache) run through RunWithCustomSocket on a scripted PacketConn; events from cached sources and from sources whose lookup is held (parked), or one event behind token-gated backends; the context is cancelled, then lookups are answered (found / not found) and backends released: every event accepted before the cancellation reaches every backend once, enriched, before RunWithCustomSocket returns, and it does return. Plus server-option scenarios: the real statsd.Server with a random option mix (ignore-host, default tags, filters and an ingestion HTTP server from YAML text, readers / parsers / workers / queue / max-concurrent-events, namespace, heartbeat, internal events) fed on both ingestion paths at once (scripted socket and its own /v2/event) by 4-12 senders: every event once at every backend with all fields incl. source = sender address / instance id and cloud tags. Plus forwarder-mode server scenarios: the real statsd.Server in forwarder mode from configuration text, a slow upstream holding the metric posts (request slots taken), events from cached and held-lookup senders, cancellation, then lookups answered and upstream released: every accepted event once at the upstream before the server returns. Plus forced interleavings: max-concurrent-events 1 or 2, 2-5 backends whose SendEvent blocks until the harness releases it; one DispatchEvent hands the event to the first backends and parks on the semaphore, then WaitForEvents is called on another goroutine (on the BackendHandler, the tag stage or the full chain head) and the backends are released one by one (oldest or newest first) or all held ones at once: at the stamp where WaitForEvents returned every backend must have been handed the event. Non-trivial: an event that was certainly parked for a lookup, or carries >= 3 distinct optional attributes; distinct by (attribute set, lookup outcome, parked, mode, sink count, transport); every interleaving, distinct by (semaphore size, backend count, head, release order, gated set).")
	r.Assume("the receipt time of an event without d: is judged on the [before send, after DoneFunc] bracket of harness clock readings, in seconds")
	r.Assume("a hung WaitForEvents / parser is a violation only when the same workload stalls twice (watchdog 20 s)")
	c := &checker{r: r, stalled: map[string]bool{}}

	if p := r.ReplayPayload(); p != nil {
		var rp struct {
			Cfg    int    `json:"cfg"`
			Script string `json:"script"`
			Kind   string `json:"kind"`
		}
		if mon.ReplayCase(p, &rp) == nil {
			t.Skip("no case in the replay file")
		}
		for k := 0; k < 5; k++ {
			if rp.Kind == "interleaving" {
				c.twice("interleaving", rp.Cfg, c.interleave)
			} else if rp.Kind == "fwd-retry" {
				c.twice("fwd-retry", rp.Cfg, c.executeRetry)
			} else if rp.Kind == "server-fwd" {
				c.twice("server-fwd", rp.Cfg, c.serverForwarder)
			} else if rp.Kind == "server-opts" {
				c.twice("server-opts", rp.Cfg, c.serverOptions)
			} else if rp.Kind == "server" {
				c.twice("server", rp.Cfg, c.serverScenario)
			} else if rp.Script != "" || rp.Kind == "script" {
				c.twice("script", rp.Cfg, c.cancelScript)
			} else {
				c.twice("execution", rp.Cfg, c.execute)
			}
		}
		r.Nontrivial("replay-a")
		r.Nontrivial("replay-b")
		return
	}

	nExec := r.Pick(320, 8000)
	nScript := r.Pick(48, 800)
	for i := 0; i < nExec; i++ {
		if r.Mine(i) {
			c.twice("execution", i, c.execute)
		}
	}
	for i := 0; i < nScript; i++ {
		if r.Mine(i) {
			c.twice("script", i, c.cancelScript)
		}
	}
	// forwarder mode with an upstream that fails the first attempt of every event (one real back-off each)
	for k, n := 0, r.Pick(6, 96); k < n; k++ {
		if r.Mine(k) {
			c.twice("fwd-retry", k, c.executeRetry)
		}
	}
	// the real statsd.Server: shutdown with events parked for a lookup / nothing parked / slow backends
	for k, n := 0, r.Pick(24, 480); k < n; k++ {
		if r.Mine(k) {
			c.twice("server", k, c.serverScenario)
		}
	}
	// the real statsd.Server with a random option mix, events on both ingestion paths (UDP lines and its own /v2/event)
	for k, n := 0, r.Pick(16, 320); k < n; k++ {
		if r.Mine(k) {
			c.twice("server-opts", k, c.serverOptions)
		}
	}
	// the real statsd.Server in forwarder mode: shutdown with events parked and request slots taken by a slow upstream
	for k, n := 0, r.Pick(16, 240); k < n; k++ {
		if r.Mine(k) {
			c.twice("server-fwd", k, c.serverForwarder)
		}
	}
	// forced interleaving: WaitForEvents from another goroutine while a dispatch is parked on the semaphore
	for i, n := 0, r.Pick(72, 1440); i < n; i++ {
		if r.Mine(i) {
			c.twice("interleaving", i, c.interleave)
		}
	}
}
