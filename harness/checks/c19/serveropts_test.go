//go:build verif

package c19

// Server options: the real statsd.Server (RunWithCustomSocket) is configured from a random mix of its
// documented options - ignore-host, default (static) tags, filters, max-readers / -parsers / -workers,
// queue sizes, max-concurrent-events, namespace, heartbeat, internal events - plus, through configuration
// text read by viper, an HTTP server with enable-ingestion. Events enter on BOTH ingestion paths at the same
// time: lines in datagrams on a scripted socket and protobuf events POSTed to the server's own /v2/event.
// Whatever the option mix, every event must reach every backend once with the fields the statement lists:
// in particular source = sender address, or the instance id after a successful lookup, and the cloud tags.

import (
	"context"
	"fmt"
	"math/rand"
	"net"
	"net/http"
	"net/http/httptest"
	"strings"
	"sync"
	"sync/atomic"
	"time"

	"github.com/spf13/viper"

	"github.com/atlassian/gostatsd"
	"github.com/atlassian/gostatsd/pkg/statsd"

	"verif/gen"
	"verif/mon"
	"verif/netx"
)

type optCase struct {
	Index          int      `json:"index"`
	IgnoreHost     bool     `json:"ignore_host"`
	Static         []string `json:"default_tags"`
	Filters        bool     `json:"filters"`
	Readers        int      `json:"max_readers"`
	Parsers        int      `json:"max_parsers"`
	Workers        int      `json:"max_workers"`
	Queue          int      `json:"max_queue_size"`
	MaxConc        int      `json:"max_concurrent_events"`
	Batch          int      `json:"receive_batch_size"`
	Namespace      string   `json:"namespace"`
	InternalEvents bool     `json:"internal_events"`
	Heartbeat      bool     `json:"heartbeat"`
	Backends       int      `json:"backends"`
	Responder      string   `json:"responder"`
	Config         string   `json:"config_text"`
}

func makeOptCase(k int, rng *rand.Rand) *optCase {
	oc := &optCase{Index: k, IgnoreHost: k%2 == 0, Filters: rng.Intn(2) == 0, Readers: 1 + rng.Intn(2), Parsers: 1 + rng.Intn(4), Workers: 1 + rng.Intn(3), Queue: 1 + rng.Intn(16),
		MaxConc: 1 + rng.Intn(8), Batch: 1 + rng.Intn(5), Namespace: []string{"", "", "ns", "a.b"}[rng.Intn(4)], InternalEvents: rng.Intn(2) == 0, Heartbeat: rng.Intn(3) == 0,
		Backends: 1 + rng.Intn(3), Responder: []string{"immediate", "yield"}[rng.Intn(2)]}
	for j, n := 0, rng.Intn(4); j < n; j++ {
		oc.Static = append(oc.Static, staticTagPool[rng.Intn(len(staticTagPool))])
	}
	return oc
}

func (c *checker) serverOptions(k int) outcome {
	r := c.r
	rng := r.RandGlobal(fmt.Sprintf("opts%d", k))
	oc := makeOptCase(k, rng)
	idx := 900000 + k
	cfg := &config{Index: idx, Mode: "backends", NBackends: oc.Backends, MaxConc: oc.MaxConc, Parsers: oc.Parsers, Workers: oc.Workers, Cloud: true, Responder: oc.Responder, Static: oc.Static}
	nSrc := 3 + rng.Intn(4)
	for j := 0; j < nSrc; j++ {
		s := &srcPlan{Addr: fmt.Sprintf("10.90.%d.%d", k%250, j+1), Mode: modes[rng.Intn(len(modes))], ID: fmt.Sprintf("i-opt%d-%d", k, j)}
		for x, n := 0, rng.Intn(4); x < n; x++ {
			s.Tags = append(s.Tags, cloudTagPool[rng.Intn(len(cloudTagPool))])
		}
		s.inst = &gostatsd.Instance{ID: gostatsd.Source(s.ID), Tags: append(gostatsd.Tags{}, s.Tags...)}
		cfg.Sources = append(cfg.Sources, s)
	}
	// senders: every source sends datagrams, about half of them also post to /v2/event
	for j := 0; j < nSrc; j++ {
		cfg.Senders = append(cfg.Senders, senderPlan{Via: "udp", Src: j, N: 4 + rng.Intn(12)})
	}
	for j := 0; j < nSrc; j++ {
		if rng.Intn(2) == 0 || j == 0 {
			cfg.Senders = append(cfg.Senders, senderPlan{Via: "http", Src: j, N: 3 + rng.Intn(8)})
		}
	}
	cfg.Sources = append(cfg.Sources, &srcPlan{Addr: serverHost, Mode: "neg"})
	// an address of this process's own: two shards can never be given the same one
	addr := netx.FreeTCP()
	// the HTTP server and the filters come from configuration text, as they do for the real binary
	var sb strings.Builder
	fmt.Fprintf(&sb, "http-servers: [\"ingest\"]\nhttp:\n  ingest:\n    address: %q\n    enable-ingestion: true\n", addr)
	if oc.Filters {
		sb.WriteString("filters: [\"f1\", \"f2\"]\nfilter:\n  f1:\n    match-metrics: [\"noise.*\"]\n    drop-tags: [\"a:*\", \"env:*\", \"static\"]\n  f2:\n    match-tags: [\"dc:*\"]\n    drop-host: true\n")
	}
	oc.Config = sb.String()
	v := viper.New()
	v.SetConfigType("yaml")
	if err := v.ReadConfig(strings.NewReader(oc.Config)); err != nil {
		panic("harness: bad configuration text: " + err.Error())
	}
	replay := map[string]interface{}{"kind": "server-opts", "cfg": k, "options": oc, "config": cfg}
	r.Case("server-opts #%d ignore-host=%v static=%v filters=%v readers=%d parsers=%d workers=%d max-concurrent-events=%d backends=%d sources=%d senders=%d", k, oc.IgnoreHost, oc.Static, oc.Filters, oc.Readers, oc.Parsers, oc.Workers, oc.MaxConc, oc.Backends, nSrc, len(cfg.Senders))

	st := newState(r)
	var bs []gostatsd.Backend
	for i := 0; i < oc.Backends; i++ {
		bs = append(bs, &capBackend{idx: i, st: st, seed: splitmix(uint64(idx*11 + i))})
	}
	cache := newFakeCache(cfg)
	cacheCtx, stopCache := context.WithCancel(context.Background())
	defer stopCache()
	go cache.run(cacheCtx, r.RandGlobal(fmt.Sprintf("opts%d/cache", k)))
	srv := &statsd.Server{
		Backends: bs, CachedInstances: cache, DefaultTags: append(gostatsd.Tags{}, oc.Static...), IgnoreHost: oc.IgnoreHost, Namespace: oc.Namespace,
		ExpiryIntervalCounter: time.Minute, ExpiryIntervalGauge: time.Minute, ExpiryIntervalSet: time.Minute, ExpiryIntervalTimer: time.Minute,
		FlushInterval: time.Hour, MaxReaders: oc.Readers, MaxParsers: oc.Parsers, MaxWorkers: oc.Workers, MaxQueueSize: oc.Queue, MaxConcurrentEvents: oc.MaxConc,
		EstimatedTags: rng.Intn(4), StatserType: gostatsd.StatserInternal, PercentThreshold: []float64{90}, ReceiveBatchSize: oc.Batch, ServerMode: "standalone",
		Hostname: serverHost, DisableInternalEvents: !oc.InternalEvents, HeartbeatEnabled: oc.Heartbeat, HeartbeatTags: gostatsd.Tags{"version:verif"}, InternalTags: gostatsd.Tags{"internal:yes"}, Viper: v,
	}
	conn := newScriptConn()
	ctx, cancel := context.WithCancel(context.Background())
	defer cancel()
	var retStamp atomic.Int64
	runDone := make(chan struct{})
	var runErr error
	go func() {
		defer close(runDone)
		r.Guard("server-opts-panic", replay, func() {
			runErr = srv.RunWithCustomSocket(ctx, func() (net.PacketConn, error) { return conn, nil })
		})
		retStamp.Store(r.Stamp())
	}()
	client := &http.Client{Transport: &http.Transport{MaxIdleConnsPerHost: 8}, Timeout: 60 * time.Second}
	defer client.CloseIdleConnections()
	rc := &runCtx{r: r, cfg: cfg, expects: map[string]*expect{}, p: &pipeline{ingest: &httptest.Server{URL: "http://" + addr}, client: client}}
	missing := func() string {
		deliv, _, _ := st.snapshot()
		cls := map[string]bool{}
		rc.mu.Lock()
		for id, e := range rc.expects {
			for s := 0; s < oc.Backends; s++ {
				if len(deliv[id][s]) == 0 {
					cls[e.Via] = true
					break
				}
			}
		}
		rc.mu.Unlock()
		out := []string{}
		for _, via := range []string{"http", "udp"} {
			if cls[via] {
				out = append(out, via)
			}
		}
		return strings.Join(out, ",")
	}
	stuck := func(stage string) outcome {
		cancel()
		return outcome{hung: stage, missing: "undelivered-via=" + missing()}
	}
	// the ingestion endpoint is up when the health check answers
	up := mon.WaitUntil(watchdog, func() bool {
		select {
		case <-runDone:
			return true
		default:
		}
		resp, err := client.Get("http://" + addr + "/healthcheck")
		if err != nil {
			return false
		}
		resp.Body.Close()
		return resp.StatusCode == http.StatusOK
	})
	select {
	case <-runDone:
		// e.g. the port was taken between choosing it and listening: nothing to judge
		r.Inconclusive("server-did-not-start")
		return outcome{}
	default:
	}
	if !up {
		cancel()
		r.Inconclusive("http-server-not-up")
		return outcome{}
	}
	var senders sync.WaitGroup
	var pushFailed atomic.Bool
	for si, sp := range cfg.Senders {
		si, sp := si, sp
		srng := r.RandGlobal(fmt.Sprintf("opts%d/s%d", k, si))
		senders.Add(1)
		go func() {
			defer senders.Done()
			if sp.Via == "http" {
				rc.sendHTTP(si, sp, srng)
				return
			}
			src := cfg.Sources[sp.Src]
			var lines []string
			flush := func() {
				if len(lines) == 0 {
					return
				}
				if !conn.push(src.Addr, strings.Join(lines, "\n")) {
					pushFailed.Store(true)
				}
				lines = nil
			}
			for n := 0; n < sp.N; n++ {
				id := fmt.Sprintf("E%d-%d-%d;", idx, si, n)
				d := gen.Event(srng, gen.LineOpts{})
				e := rc.expectFor(id, "udp", d, src, "")
				e.Line = withID(d, id)
				e.Br.before.Store(time.Now().Unix())
				rc.mu.Lock()
				rc.expects[id] = e
				rc.mu.Unlock()
				lines = append(lines, e.Line)
				// Metric lines around the events (with ignore-host their host comes from the tag). Only where the metric
				// is dispatched synchronously by the parser (cache hit): a metric map parked for a lookup is dispatched
				// later by a detached goroutine of the cloud stage, which nothing orders with the BackendHandler
				// closing its worker queues at shutdown (reported as an observation; it is not C19's subject).
				metricOK := oc.IgnoreHost || src.Mode == "hit" || src.Mode == "neg"
				switch srng.Intn(6) {
				case 0:
					if !metricOK {
						break
					}
					lines = append(lines, fmt.Sprintf("noise.o%d.s%d.n%d:1|c|#a:b,host:h%d,env:prod", k, si, n, n))
				case 1:
					lines = append(lines, "not a statsd line")
				}
				if srng.Intn(3) != 0 {
					flush()
				}
			}
			flush()
		}()
	}
	if !waitGroup(&senders, watchdog) || pushFailed.Load() {
		return stuck("server-opts-senders")
	}
	if n := rc.httpBad.Load(); n > 0 {
		r.Violation("server-opts-http-event-not-accepted", fmt.Sprintf("server-opts %d: %d well-formed protobuf events were not answered 2xx by the server's /v2/event, e.g. %v", k, n, rc.httpMsg.Load()), replay)
	}
	total := len(rc.expects) * oc.Backends
	if !mon.WaitUntil(watchdog, func() bool {
		st.mu.Lock()
		defer st.mu.Unlock()
		n := 0
		for id, m := range st.deliv {
			if _, ok := rc.expects[id]; !ok {
				continue
			}
			for _, ds := range m {
				if len(ds) > 0 {
					n++
				}
			}
		}
		return n >= total
	}) {
		return stuck("server-opts-delivery")
	}
	cancel()
	select {
	case <-runDone:
	case <-time.After(watchdog):
		return stuck("server-opts-return-after-shutdown")
	}
	after := time.Now().Unix()
	ret := retStamp.Load()
	deliv, unknown, _ := st.snapshot()
	what := fmt.Sprintf("server-opts %d (ignore-host %v, default tags %v, filters %v, %d readers, %d parsers, max-concurrent-events %d, %d backends, lookups answered %s; returned %v)", k, oc.IgnoreHost, oc.Static, oc.Filters, oc.Readers, oc.Parsers, oc.MaxConc, oc.Backends, oc.Responder, runErr)
	for id, e := range rc.expects {
		if e.Via == "udp" {
			e.Br.after.Store(after)
		}
		r.Eval(1)
		r.Event("server_opts_events_"+e.Via, 1)
		desc := fmt.Sprintf("%s: %s event %s from %s [%s]", what, e.Via, id, cfg.srcOf(e).Addr, e.Outcome)
		if e.Via == "udp" {
			desc += fmt.Sprintf(" line %q", e.Line)
		}
		for s := 0; s < oc.Backends; s++ {
			ds := deliv[id][s]
			if len(ds) != 1 {
				word := "more-than-once"
				if len(ds) == 0 {
					word = "never"
				}
				r.Violation(fmt.Sprintf("server-opts-delivered-%s:%s:%s", word, e.Via, e.Outcome), fmt.Sprintf("%s reached backend %d %d times", desc, s, len(ds)), replay)
				continue
			}
			d := ds[0]
			if d.In > ret || d.Out == 0 || d.Out > ret {
				r.Violation("server-opts-returned-before-handed", fmt.Sprintf("%s reached backend %d at stamp %d (left %d), the server returned at %d", desc, s, d.In, d.Out, ret), replay)
			}
			if bad := diffFields(d.F, e); len(bad) > 0 {
				cls := strings.SplitN(bad[0], " ", 2)[0]
				r.Violation(fmt.Sprintf("server-opts-field-%s:%s:%s:ignore-host=%v", cls, e.Via, e.Outcome, oc.IgnoreHost), fmt.Sprintf("%s: backend %d received %s", desc, s, strings.Join(bad, "; ")), replay)
			}
		}
		r.Nontrivial(fmt.Sprintf("server-opts|%s|%s|ignore-host=%v|filters=%v|static=%d|%s", e.Via, e.Outcome, oc.IgnoreHost, oc.Filters, len(oc.Static), attrSet(e.Shape)))
	}
	for _, t := range unknown {
		if t != "Gostatsd started" && t != "Gostatsd stopped" {
			r.Violation("server-opts-unknown-event", fmt.Sprintf("%s: a backend received an event nobody sent (title %q)", what, t), replay)
		}
	}
	cache.mu.Lock()
	stray := cache.stray
	cache.mu.Unlock()
	if stray > 0 {
		r.Event("server_opts_lookups_for_other_addresses", stray) // e.g. a host: tag of a metric with ignore-host
	}
	r.Event("server_opts_scenarios", 1)
	if r.WantSample() && k%4 == 0 {
		r.Sample(map[string]interface{}{"server_options": oc, "events": len(rc.expects), "sources": cfg.Sources})
	}
	return outcome{}
}
