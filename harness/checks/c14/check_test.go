//go:build verif

// C14 — what a forwarder encodes is what the ingesting server decodes.
//
// A real HttpForwarderHandlerV2 (one per compression configuration, flushed by hand through a real
// flush coordinator) posts over loopback HTTP to the real ingestion router around a capturing
// PipelineHandler. The oracle compares what the capturing handler was given with a flattened copy of
// what the forwarder was given. The forwarder's real request bytes are recorded by a RoundTripper,
// corrupted, and posted again by the harness; the status / dispatch count / content of those requests
// is judged against the harness' own decompress + proto.Unmarshal of the very same bytes.
package c14

import (
	"bufio"
	"bytes"
	"compress/zlib"
	"context"
	"encoding/hex"
	"fmt"
	"io"
	"math"
	"math/rand"
	"net"
	"net/http"
	"net/http/httptest"
	"runtime/debug"
	"sort"
	"strings"
	"sync"
	"sync/atomic"
	"testing"
	"time"

	"github.com/pierrec/lz4/v4"
	"github.com/sirupsen/logrus"
	"github.com/spf13/viper"
	"google.golang.org/protobuf/proto"

	"github.com/atlassian/gostatsd"
	"github.com/atlassian/gostatsd/pb"
	"github.com/atlassian/gostatsd/pkg/statsd"
	"github.com/atlassian/gostatsd/pkg/transport"
	"github.com/atlassian/gostatsd/pkg/web"

	"verif/gen"
	"verif/mon"
	"verif/ref"
)

// ---------------------------------------------------------------------------------------------
// cases (JSON-safe so that they can be stored as replay payloads)

type dp struct {
	T    int      `json:"t"`
	N    string   `json:"n"`
	Tags []string `json:"tags,omitempty"`
	S    string   `json:"s,omitempty"`
	V    uint64   `json:"v"` // float64 bits
	Str  string   `json:"str,omitempty"`
	R    uint64   `json:"r"` // float64 bits of the sample rate
}

// ovr overwrites the aggregate of the series datapoint DP landed in (values Receive cannot produce
// from small inputs: extreme counters, arbitrary sampled counts).
type ovr struct {
	DP      int    `json:"dp"`
	Counter int64  `json:"counter,omitempty"`
	Sampled uint64 `json:"sampled,omitempty"` // float64 bits
}

type evCase struct {
	Title   string   `json:"title"`
	Text    string   `json:"text"`
	Date    int64    `json:"date"`
	Source  string   `json:"source"`
	AggKey  string   `json:"agg_key"`
	SrcType string   `json:"src_type"`
	Tags    []string `json:"tags"`
	TagsNil bool     `json:"tags_nil"`
	Pri     int      `json:"pri"`
	Alert   int      `json:"alert"`
}

type corCase struct {
	How     string `json:"how"`
	Path    string `json:"path"`
	Enc     string `json:"enc"`
	BodyHex string `json:"body_hex"`
	// Short > 0: the request announces Short more bytes than it sends and then half-closes (raw TCP).
	Short int `json:"short,omitempty"`
}

type tcase struct {
	Kind  string   `json:"kind"` // map | event | corrupt
	Cfg   string   `json:"cfg"`
	Index int      `json:"index"`
	Slots int      `json:"slots,omitempty"`
	DPs   []dp     `json:"dps,omitempty"`
	Ovr   []ovr    `json:"ovr,omitempty"`
	Ev    *evCase  `json:"ev,omitempty"`
	Cor   *corCase `json:"cor,omitempty"`
	Reg   *regCase `json:"reg,omitempty"` // a highly regular batch, expanded by buildMap (regular_test.go)
}

// ---------------------------------------------------------------------------------------------
// compression configurations

type compCfg struct {
	Name     string
	Compress bool
	Type     string
	Level    int
}

func allConfigs() []compCfg {
	out := []compCfg{{Name: "off", Compress: false, Type: "zlib", Level: 9}, {Name: "none", Compress: true, Type: "none", Level: 3}}
	for l := 0; l <= 9; l++ {
		out = append(out, compCfg{Name: fmt.Sprintf("zlib-%d", l), Compress: true, Type: "zlib", Level: l})
	}
	for l := 0; l <= 9; l++ {
		out = append(out, compCfg{Name: fmt.Sprintf("lz4-%d", l), Compress: true, Type: "lz4", Level: l})
	}
	return out
}

// ---------------------------------------------------------------------------------------------
// capturing pipeline handler behind the ingestion router

type evFields struct {
	Title, Text              string
	Date                     int64
	Source, AggKey, SrcType  string
	Tags                     []string // sorted copy
	Pri, Alert               int
	PriDeclared, AlertDeclar bool // enum value is one of the declared ones (harness decode only)
}

type capture struct {
	mu     sync.Mutex
	maps   []map[string]*ref.Series
	events []evFields
}

func (c *capture) EstimatedTags() int { return 0 }
func (c *capture) WaitForEvents()     {}
func (c *capture) DispatchMetricMap(_ context.Context, mm *gostatsd.MetricMap) {
	flat := ref.FromMap(mm) // deep copy at dispatch time
	c.mu.Lock()
	c.maps = append(c.maps, flat)
	c.mu.Unlock()
}
func (c *capture) DispatchEvent(_ context.Context, e *gostatsd.Event) {
	f := evFields{Title: e.Title, Text: e.Text, Date: e.DateHappened, Source: string(e.Source), AggKey: e.AggregationKey, SrcType: e.SourceTypeName,
		Tags: sortedStrings(e.Tags), Pri: int(e.Priority), Alert: int(e.AlertType)}
	c.mu.Lock()
	c.events = append(c.events, f)
	c.mu.Unlock()
}
func (c *capture) reset() {
	c.mu.Lock()
	c.maps, c.events = nil, nil
	c.mu.Unlock()
}
func (c *capture) snapshot() ([]map[string]*ref.Series, []evFields) {
	c.mu.Lock()
	defer c.mu.Unlock()
	return append([]map[string]*ref.Series(nil), c.maps...), append([]evFields(nil), c.events...)
}

func sortedStrings(in []string) []string {
	out := append([]string{}, in...)
	sort.Strings(out)
	return out
}

// ---------------------------------------------------------------------------------------------
// recording round tripper in the forwarder's HTTP client

type recReq struct {
	Path   string
	Enc    string
	Body   []byte
	Status int
	Err    string
	At     time.Time     // when the round trip returned to the forwarder (recorded bracket, never a deadline)
	Took   time.Duration // how long this attempt lasted inside the transport
}

type recorder struct {
	base http.RoundTripper
	mu   sync.Mutex
	reqs []recReq
}

func (rt *recorder) RoundTrip(req *http.Request) (*http.Response, error) {
	var body []byte
	if req.Body != nil {
		body, _ = io.ReadAll(req.Body)
		_ = req.Body.Close()
		req.Body = io.NopCloser(bytes.NewReader(body))
	}
	rec := recReq{Path: req.URL.Path, Enc: req.Header.Get("Content-Encoding"), Body: body}
	began := time.Now()
	resp, err := rt.base.RoundTrip(req)
	rec.Took = time.Since(began)
	if err != nil {
		rec.Err = err.Error()
	} else {
		rec.Status = resp.StatusCode
	}
	rec.At = time.Now()
	rt.mu.Lock()
	rt.reqs = append(rt.reqs, rec)
	rt.mu.Unlock()
	return resp, err
}

// forwarderClientTimeout is the timeout of the forwarder's HTTP client (transport pool default, set explicitly
// by the harness in clientTimeoutViper).
const forwarderClientTimeout = 10 * time.Second

// clientTimeoutViper is the transport configuration every harness forwarder is built with.
func clientTimeoutViper() *viper.Viper {
	v := viper.New()
	v.Set("transport.default.client-timeout", forwarderClientTimeout.String())
	return v
}

// timedOut reports whether a round trip of the forwarder ended in its own client timeout: a deadline / cancel
// error of an attempt that demonstrably lasted about as long as that timeout (measured around the transport
// call). On an overloaded machine that is not an answer of the ingesting server, and what follows from it (the
// forwarder trying again, a second dispatch) says nothing about the property. A deadline error that comes back
// faster than that is a failed request like any other.
func timedOut(recs []recReq) bool {
	for _, q := range recs {
		if q.Status == 0 && q.Took >= forwarderClientTimeout-time.Second &&
			(strings.Contains(q.Err, "Client.Timeout") || strings.Contains(q.Err, "deadline exceeded") || strings.Contains(q.Err, "request canceled")) {
			return true
		}
	}
	return false
}

func (rt *recorder) reset() {
	rt.mu.Lock()
	rt.reqs = nil
	rt.mu.Unlock()
}
func (rt *recorder) snapshot() []recReq {
	rt.mu.Lock()
	defer rt.mu.Unlock()
	return append([]recReq(nil), rt.reqs...)
}

// ---------------------------------------------------------------------------------------------
// rig = ingestion server + forwarder of one compression configuration

type rig struct {
	cfg      compCfg
	slots    int
	cap      *capture
	srv      *httptest.Server
	rec      *recorder
	fwd      *statsd.HttpForwarderHandlerV2
	fc       statsd.VerifFlushCoordinator
	cancel   context.CancelFunc
	runDone  chan struct{}
	inflight atomic.Int64
	client   *http.Client
	broken   bool
}

func quietLogger() *logrus.Logger {
	l := logrus.New()
	l.SetOutput(io.Discard)
	return l
}

func newRig(cfg compCfg, slots int) (*rig, error) {
	g := &rig{cfg: cfg, slots: slots, cap: &capture{}, runDone: make(chan struct{})}
	logger := quietLogger()
	hs, err := web.NewHttpServer(logger, g.cap, "c14", "", false, false, true, false, nil, nil)
	if err != nil {
		return nil, err
	}
	router := hs.Router
	g.srv = httptest.NewServer(http.HandlerFunc(func(w http.ResponseWriter, req *http.Request) {
		g.inflight.Add(1)
		defer g.inflight.Add(-1)
		router.ServeHTTP(w, req)
	}))
	pool := transport.NewTransportPool(logger, clientTimeoutViper())
	cl, err := pool.Get("default")
	if err != nil {
		g.srv.Close()
		return nil, err
	}
	g.rec = &recorder{base: cl.Client.Transport}
	cl.Client.Transport = g.rec
	g.fc = statsd.VerifNewFlushCoordinator()
	g.fwd, err = statsd.NewHttpForwarderHandlerV2(logger, "default", g.srv.URL, slots, 10, 1, cfg.Compress, cfg.Type, cfg.Level,
		50*time.Millisecond, time.Hour, nil, nil, pool, g.fc)
	if err != nil {
		g.srv.Close()
		return nil, err
	}
	ctx, cancel := context.WithCancel(context.Background())
	g.cancel = cancel
	go func() {
		defer close(g.runDone)
		g.fwd.Run(ctx)
	}()
	// Run first posts an empty "nop" map (no NotifyFlush for it); let it pass before the first case.
	if !mon.WaitUntil(20*time.Second, func() bool { return len(g.rec.snapshot()) >= 1 }) {
		g.close()
		return nil, fmt.Errorf("the forwarder's priming request never arrived")
	}
	g.client = &http.Client{Transport: &http.Transport{MaxIdleConnsPerHost: 4}, Timeout: 30 * time.Second}
	return g, nil
}

func (g *rig) close() {
	g.cancel()
	select {
	case <-g.runDone:
	case <-time.After(10 * time.Second):
	}
	g.srv.Close()
	if g.client != nil {
		g.client.CloseIdleConnections()
	}
}

// watchdogged runs f and reports false if it did not finish within a generous bound.
func watchdogged(f func()) bool {
	done := make(chan struct{})
	go func() { defer close(done); f() }()
	select {
	case <-done:
		return true
	case <-time.After(30 * time.Second):
		return false
	}
}

// ---------------------------------------------------------------------------------------------
// generators

var asciiName = "abcdefghijklmnopqrstuvwxyzABCDEFGHIJKLMNOPQRSTUVWXYZ0123456789._-"
var oddRunes = []string{"é", "ü", "日本", "𝛑", "→", "ß", "�", "\x00", " ", "Ω", "\t", "|", "#", "@", "=", "\"", "\\", "/", " ", "🙂"}

// ustr draws a valid UTF-8 string of n "characters" without any byte of forbid.
func ustr(rng *rand.Rand, n int, odd int, forbid string) string {
	var b strings.Builder
	for i := 0; i < n; i++ {
		var c string
		if rng.Intn(100) < odd {
			c = oddRunes[rng.Intn(len(oddRunes))]
		} else {
			c = string(asciiName[rng.Intn(len(asciiName))])
		}
		if forbid != "" && strings.ContainsAny(c, forbid) {
			i--
			continue
		}
		b.WriteString(c)
	}
	return b.String()
}

func genName(rng *rand.Rand) string {
	n := 1 + rng.Intn(16)
	if rng.Intn(40) == 0 {
		n = 100 + rng.Intn(300)
	}
	return ustr(rng, n, 8, "")
}

func genTag(rng *rand.Rand) string {
	for {
		var t string
		if rng.Intn(4) == 0 {
			t = ustr(rng, 1+rng.Intn(8), 12, ",")
		} else {
			t = ustr(rng, 1+rng.Intn(6), 8, ",:") + ":" + ustr(rng, rng.Intn(10), 12, ",")
		}
		// "s:<x>" as a tag is indistinguishable from a source in the key scheme (DESIGN §5)
		if strings.HasPrefix(t, "s:") {
			continue
		}
		return t
	}
}

func genSource(rng *rand.Rand) string {
	switch rng.Intn(6) {
	case 0:
		return fmt.Sprintf("10.%d.%d.%d", rng.Intn(256), rng.Intn(256), rng.Intn(256))
	case 1:
		return "i-" + ustr(rng, 8, 0, "")
	case 2:
		return ustr(rng, 1+rng.Intn(12), 20, ",")
	case 3:
		return "ns/pod-" + ustr(rng, 4, 0, "")
	default:
		return fmt.Sprintf("192.168.0.%d", rng.Intn(8))
	}
}

var specialFloats = []float64{math.Inf(1), math.Inf(-1), math.NaN(), math.MaxFloat64, -math.MaxFloat64, math.SmallestNonzeroFloat64, -math.SmallestNonzeroFloat64,
	0, math.Copysign(0, -1), 1e308, -1e308, 1e-308, 9007199254740993, -1, 1, math.Float64frombits(0x7ff8000000000001), math.Float64frombits(0xfff0000000000001)}

func genValue(rng *rand.Rand) float64 {
	switch k := rng.Intn(10); {
	case k < 3:
		return float64(rng.Intn(200001) - 100000)
	case k < 5:
		return float64(rng.Intn(2000001)-1000000) / 1000
	case k < 7:
		return math.Float64frombits(rng.Uint64()) // any bit pattern: huge, tiny, denormal, occasionally NaN/Inf
	case k < 8:
		return rng.NormFloat64() * 1e9
	default:
		return specialFloats[rng.Intn(len(specialFloats))]
	}
}

var rates = []float64{1, 1, 1, 0.5, 0.25, 0.1, 0.001, 1.0 / 3, 0.999999, 1e-9}

func genMapCase(rng *rand.Rand, cfg string, idx int) *tcase {
	c := &tcase{Kind: "map", Cfg: cfg, Index: idx}
	n := 1 + rng.Intn(40)
	switch rng.Intn(25) {
	case 0:
		n = 300 + rng.Intn(1500)
	case 1, 2:
		n = 1
	}
	names := make([]string, 1+rng.Intn(6))
	for i := range names {
		names[i] = genName(rng)
	}
	tags := make([]string, rng.Intn(7))
	for i := range tags {
		tags[i] = genTag(rng)
	}
	sources := make([]string, 1+rng.Intn(4))
	for i := range sources {
		sources[i] = genSource(rng)
	}
	if rng.Intn(3) != 0 {
		sources[0] = ""
	}
	members := make([]string, 1+rng.Intn(8))
	for i := range members {
		members[i] = ustr(rng, rng.Intn(12), 15, "")
	}
	typeSets := [][]int{{1, 2, 3, 4}, {1, 2, 3, 4}, {1, 2, 3, 4}, {2, 3}, {1}, {2}, {3}, {4}, {1, 4}, {2, 3, 4}}
	types := typeSets[rng.Intn(len(typeSets))]
	for i := 0; i < n; i++ {
		d := dp{T: types[rng.Intn(len(types))], N: names[rng.Intn(len(names))], S: sources[rng.Intn(len(sources))], R: math.Float64bits(1)}
		if len(tags) > 0 {
			for j, nt := 0, rng.Intn(4); j < nt; j++ {
				d.Tags = append(d.Tags, tags[rng.Intn(len(tags))])
			}
		}
		switch d.T {
		case gen.Counter:
			d.V = math.Float64bits(float64(rng.Intn(20001) - 10000))
			d.R = math.Float64bits(rates[rng.Intn(len(rates))])
		case gen.Timer:
			d.V = math.Float64bits(genValue(rng))
			d.R = math.Float64bits(rates[rng.Intn(len(rates))])
		case gen.Gauge:
			d.V = math.Float64bits(genValue(rng))
		case gen.Set:
			d.Str = members[rng.Intn(len(members))]
		}
		c.DPs = append(c.DPs, d)
		if rng.Intn(12) == 0 {
			switch d.T {
			case gen.Counter:
				c.Ovr = append(c.Ovr, ovr{DP: i, Counter: []int64{math.MaxInt64, math.MinInt64, 0, -1, 1 << 53, -(1 << 62), rng.Int63()}[rng.Intn(7)]})
			case gen.Timer:
				c.Ovr = append(c.Ovr, ovr{DP: i, Sampled: math.Float64bits([]float64{0.5, 3.7, 1e6, 1.0 / 3, 1e15, 123456789.125, 4.9e-324, float64(1 + rng.Intn(1000))}[rng.Intn(8)])})
			}
		}
	}
	return c
}

// buildMap feeds the datapoints of a case through the real MetricMap.Receive and applies the overrides.
func buildMap(c *tcase) *gostatsd.MetricMap {
	mm := gostatsd.NewMetricMap(false)
	if c.Reg != nil {
		c.Reg.fill(mm)
	}
	for _, d := range c.DPs {
		mm.Receive(&gostatsd.Metric{Name: d.N, Type: gostatsd.MetricType(d.T), Value: math.Float64frombits(d.V), StringValue: d.Str, Rate: math.Float64frombits(d.R),
			Tags: append(gostatsd.Tags(nil), d.Tags...), Source: gostatsd.Source(d.S), Timestamp: gostatsd.Nanotime(1000 + len(d.N))})
	}
	for _, o := range c.Ovr {
		if o.DP >= len(c.DPs) {
			continue
		}
		d := c.DPs[o.DP]
		key := ref.TagsKey(d.Tags, d.S)
		switch d.T {
		case gen.Counter:
			if s, ok := mm.Counters[d.N][key]; ok {
				s.Value = o.Counter
				mm.Counters[d.N][key] = s
			}
		case gen.Timer:
			if s, ok := mm.Timers[d.N][key]; ok {
				s.SampledCount = math.Float64frombits(o.Sampled)
				mm.Timers[d.N][key] = s
			}
		}
	}
	return mm
}

func genEventCase(rng *rand.Rand, cfg string, idx int) *tcase {
	e := &evCase{Pri: idx % 2, Alert: (idx / 2) % 4}
	opt := func(n, odd int) string {
		if rng.Intn(5) == 0 {
			return ""
		}
		return ustr(rng, 1+rng.Intn(n), odd, "")
	}
	e.Title = opt(20, 15)
	lines := rng.Intn(4)
	for i := 0; i <= lines; i++ {
		if i > 0 {
			e.Text += "\n"
		}
		e.Text += opt(30, 15)
	}
	if rng.Intn(30) == 0 {
		e.Text = ustr(rng, 2000+rng.Intn(4000), 10, "")
	}
	switch rng.Intn(6) {
	case 0:
		e.Date = 0
	case 1:
		e.Date = -rng.Int63()
	case 2:
		e.Date = math.MaxInt64
	default:
		e.Date = 1500000000 + rng.Int63n(400000000)
	}
	if rng.Intn(4) != 0 {
		e.Source = genSource(rng)
	}
	e.AggKey = opt(12, 10)
	e.SrcType = opt(12, 10)
	switch rng.Intn(4) {
	case 0:
		e.TagsNil = true
	case 1:
		e.Tags = []string{}
	default:
		for j, nt := 0, 1+rng.Intn(5); j < nt; j++ {
			e.Tags = append(e.Tags, genTag(rng))
		}
	}
	return &tcase{Kind: "event", Cfg: cfg, Index: idx, Ev: e}
}

func (e *evCase) event() *gostatsd.Event {
	ev := &gostatsd.Event{Title: e.Title, Text: e.Text, DateHappened: e.Date, Source: gostatsd.Source(e.Source), AggregationKey: e.AggKey, SourceTypeName: e.SrcType,
		Priority: gostatsd.Priority(e.Pri), AlertType: gostatsd.AlertType(e.Alert)}
	if !e.TagsNil {
		ev.Tags = append(gostatsd.Tags{}, e.Tags...)
	}
	return ev
}

func (e *evCase) fields() evFields {
	return evFields{Title: e.Title, Text: e.Text, Date: e.Date, Source: e.Source, AggKey: e.AggKey, SrcType: e.SrcType, Tags: sortedStrings(e.Tags), Pri: e.Pri, Alert: e.Alert,
		PriDeclared: true, AlertDeclar: true}
}

// ---------------------------------------------------------------------------------------------
// the harness' own decoder (independent of pkg/web)

func hDecompress(enc string, body []byte) (known bool, out []byte, err error) {
	switch enc {
	case "deflate":
		zr, err := zlib.NewReader(bytes.NewReader(body))
		if err != nil {
			return true, nil, err
		}
		defer zr.Close()
		out, err := io.ReadAll(zr)
		return true, out, err
	case "lz4":
		out, err := io.ReadAll(lz4.NewReader(bytes.NewReader(body)))
		return true, out, err
	case "identity", "":
		return true, body, nil
	}
	return false, nil, nil
}

func seriesOfPB(msg *pb.RawMessageV2) map[string]*ref.Series {
	out := map[string]*ref.Series{}
	for name, tm := range msg.GetCounters() {
		for key, c := range tm.GetTagMap() {
			out[ref.Key(1, name, key)] = &ref.Series{Type: 1, Name: name, TagsKey: key, Tags: sortedStrings(c.GetTags()), Source: c.GetHostname(), Counter: c.GetValue()}
		}
	}
	for name, tm := range msg.GetTimers() {
		for key, t := range tm.GetTagMap() {
			vals := append([]float64(nil), t.GetValues()...)
			ref.SortFloats(vals)
			out[ref.Key(2, name, key)] = &ref.Series{Type: 2, Name: name, TagsKey: key, Tags: sortedStrings(t.GetTags()), Source: t.GetHostname(), Values: vals, SampledCount: t.GetSampleCount()}
		}
	}
	for name, tm := range msg.GetGauges() {
		for key, g := range tm.GetTagMap() {
			out[ref.Key(3, name, key)] = &ref.Series{Type: 3, Name: name, TagsKey: key, Tags: sortedStrings(g.GetTags()), Source: g.GetHostname(), Gauge: g.GetValue()}
		}
	}
	for name, tm := range msg.GetSets() {
		for key, s := range tm.GetTagMap() {
			seen := map[string]struct{}{}
			for _, v := range s.GetValues() {
				seen[v] = struct{}{}
			}
			mem := make([]string, 0, len(seen))
			for v := range seen {
				mem = append(mem, v)
			}
			sort.Strings(mem)
			out[ref.Key(4, name, key)] = &ref.Series{Type: 4, Name: name, TagsKey: key, Tags: sortedStrings(s.GetTags()), Source: s.GetHostname(), Members: mem}
		}
	}
	return out
}

func fieldsOfPB(msg *pb.EventV2) evFields {
	f := evFields{Title: msg.GetTitle(), Text: msg.GetText(), Date: msg.GetDateHappened(), Source: msg.GetHostname(), AggKey: msg.GetAggregationKey(), SrcType: msg.GetSourceTypeName(),
		Tags: sortedStrings(msg.GetTags())}
	switch msg.GetPriority() {
	case pb.EventV2_Normal:
		f.Pri, f.PriDeclared = 0, true
	case pb.EventV2_Low:
		f.Pri, f.PriDeclared = 1, true
	}
	switch msg.GetType() {
	case pb.EventV2_Info:
		f.Alert, f.AlertDeclar = 0, true
	case pb.EventV2_Warning:
		f.Alert, f.AlertDeclar = 1, true
	case pb.EventV2_Error:
		f.Alert, f.AlertDeclar = 2, true
	case pb.EventV2_Success:
		f.Alert, f.AlertDeclar = 3, true
	}
	return f
}

// ---------------------------------------------------------------------------------------------
// oracles

var noTS = ref.DiffOpts{IgnoreTimestamp: true}

// diffClass turns the first line of ref.Diff into a stable signature part.
func diffClass(d string) string {
	typ := ""
	if i := strings.Index(d, "\""); i >= 0 && i+1 < len(d) {
		typ = ":type" + d[i+1:i+2]
	}
	for _, k := range []string{"missing series", "unexpected series", "duplicate series", "tags", "source", "counter", "timer has", "timer value", "sampled count", "gauge", "set members"} {
		if strings.HasPrefix(d, k) || strings.Contains(d, "\": "+k) {
			return strings.ReplaceAll(k, " ", "-") + typ
		}
	}
	return "other" + typ
}

func diffEvent(got, want evFields) []string {
	var d []string
	add := func(f string, g, w interface{}) {
		d = append(d, fmt.Sprintf("%s %q want %q", f, fmt.Sprint(g), fmt.Sprint(w)))
	}
	if got.Title != want.Title {
		add("title", got.Title, want.Title)
	}
	if got.Text != want.Text {
		add("text", got.Text, want.Text)
	}
	if got.Date != want.Date {
		add("date", got.Date, want.Date)
	}
	if got.Source != want.Source {
		add("source", got.Source, want.Source)
	}
	if got.AggKey != want.AggKey {
		add("aggregation-key", got.AggKey, want.AggKey)
	}
	if got.SrcType != want.SrcType {
		add("source-type", got.SrcType, want.SrcType)
	}
	if strings.Join(got.Tags, "\x01") != strings.Join(want.Tags, "\x01") {
		add("tags", got.Tags, want.Tags)
	}
	if want.PriDeclared && got.Pri != want.Pri {
		add("priority", got.Pri, want.Pri)
	}
	if want.AlertDeclar && got.Alert != want.Alert {
		add("alert-type", got.Alert, want.Alert)
	}
	return d
}

type checker struct {
	// what the last valid() case must decode to (used by the framing phase right after it)
	lastWantMap map[string]*ref.Series
	lastWantEv  evFields

	reg        ratios
	r          *mon.Run
	rigs       map[string]*rig
	decodeTick int
}

// valid runs one map or event case through the forwarder of its configuration and returns the single
// request the forwarder made (nil if there was not exactly one).
func (c *checker) valid(tc *tcase) *recReq {
	r := c.r
	g := c.rigs[tc.Cfg]
	if g == nil || g.broken {
		r.Inconclusive("rig-unavailable")
		return nil
	}
	g.cap.reset()
	g.rec.reset()
	ctx := context.Background()
	var wantMap map[string]*ref.Series
	var wantEv evFields
	ok := true
	if tc.Kind == "map" {
		mm := buildMap(tc)
		wantMap = ref.FromMap(mm) // own flattened copy, taken before the consolidator may alias / merge the input
		ok = watchdogged(func() {
			g.fwd.DispatchMetricMap(ctx, mm)
			g.fc.Flush()
			g.fc.WaitForFlush()
		})
	} else {
		wantEv = tc.Ev.fields()
		ev := tc.Ev.event()
		ok = watchdogged(func() {
			g.fwd.DispatchEvent(ctx, ev)
			g.fwd.WaitForEvents()
		})
	}
	if !ok {
		g.broken = true
		shape := tc.Kind
		if tc.Reg != nil {
			shape = fmt.Sprintf("%s/n=%d/series=%d/taglen=%d", tc.Reg.Shape, tc.Reg.N, tc.Reg.Series, tc.Reg.TagLen)
		}
		r.Inconclusive("forwarder-flush-watchdog:" + tc.Cfg + ":" + shape)
		return nil
	}
	reqs := g.rec.snapshot()
	if timedOut(reqs) {
		r.Inconclusive("forwarder-client-timeout")
		return nil
	}
	r.Eval(1)
	maps, events := g.cap.snapshot()
	wantPath := "/v2/raw"
	if tc.Kind == "event" {
		wantPath = "/v2/event"
	}
	fam := ""
	if tc.Reg != nil {
		fam = ":regular"
	}
	r.Event("forwarder_requests", len(reqs))
	for _, q := range reqs {
		r.Event("content_encoding:"+q.Enc, 1)
		if q.Status < 200 || q.Status > 299 {
			r.Violation(fmt.Sprintf("valid-body-rejected:%s:%s%s", q.Path, strings.SplitN(tc.Cfg, "-", 2)[0], fam),
				fmt.Sprintf("config %s: the forwarder's own request to %s (Content-Encoding %q, %d bytes) was answered %d %s; %d map / %d event dispatches", tc.Cfg, q.Path, q.Enc, len(q.Body), q.Status, q.Err, len(maps), len(events)), tc)
		}
		if q.Path != wantPath {
			r.Violation("wrong-endpoint:"+tc.Kind, fmt.Sprintf("config %s: %s posted to %s", tc.Cfg, tc.Kind, q.Path), tc)
		}
	}
	nDispatch := len(maps)
	if tc.Kind == "event" {
		nDispatch = len(events)
	}
	if nDispatch != 1 || len(maps)+len(events) != 1 {
		r.Violation(fmt.Sprintf("dispatch-count:%s:%s%s", tc.Kind, cmpWord(nDispatch), fam),
			fmt.Sprintf("config %s: one %s given to the forwarder, the ingesting server dispatched %d maps and %d events (%d requests seen)", tc.Cfg, tc.Kind, len(maps), len(events), len(reqs)), tc)
		return nil
	}
	if tc.Kind == "map" {
		if d := ref.Diff(maps[0], wantMap, noTS); len(d) > 0 {
			r.Violation("roundtrip-map:"+diffClass(d[0])+fam, fmt.Sprintf("config %s, %d series: %s", tc.Cfg, len(wantMap), strings.Join(first(d, 6), " | ")), tc)
		}
		c.classifyMap(tc, wantMap)
		if len(reqs) >= 1 {
			c.noteRegular(tc, reqs[0].Enc, reqs[0].Body, "sequential")
		}
	} else {
		if d := diffEvent(events[0], wantEv); len(d) > 0 {
			r.Violation("roundtrip-event:"+strings.SplitN(d[0], " ", 2)[0], fmt.Sprintf("config %s: %s", tc.Cfg, strings.Join(d, "; ")), tc)
		}
		if len(tc.Ev.Tags) > 0 && tc.Ev.Source != "" {
			r.Nontrivial(fmt.Sprintf("event:p%d:a%d:%s", tc.Ev.Pri, tc.Ev.Alert, tc.Cfg))
		}
		r.Event(fmt.Sprintf("event_p%d_a%d", tc.Ev.Pri, tc.Ev.Alert), 1)
	}
	if len(reqs) != 1 {
		return nil
	}
	c.lastWantMap, c.lastWantEv = wantMap, wantEv
	if r.WantSample() && ((tc.Kind == "map" && len(wantMap) >= 3 && len(wantMap) < 12) || (tc.Kind == "event" && len(tc.Ev.Tags) > 1 && len(tc.Ev.Text) < 100)) {
		r.Sample(map[string]interface{}{"case": tc, "request_bytes": len(reqs[0].Body), "content_encoding": reqs[0].Enc, "status": reqs[0].Status})
	}
	return &reqs[0]
}

func cmpWord(n int) string {
	if n == 0 {
		return "none"
	}
	return "many"
}

func first(s []string, n int) []string {
	if len(s) > n {
		return s[:n]
	}
	return s
}

func (c *checker) classifyMap(tc *tcase, want map[string]*ref.Series) {
	types := map[int]bool{}
	rich := false
	nonFinite := false
	for _, s := range want {
		types[s.Type] = true
		if s.Source != "" && len(s.Tags) > 0 {
			rich = true
		}
		if s.Type == 3 && (math.IsNaN(s.Gauge) || math.IsInf(s.Gauge, 0)) {
			nonFinite = true
		}
		for _, v := range s.Values {
			if math.IsNaN(v) || math.IsInf(v, 0) {
				nonFinite = true
			}
		}
	}
	c.r.Event("series", len(want))
	if nonFinite {
		c.r.Event("maps_with_non_finite_values", 1)
	}
	if len(types) >= 3 && rich {
		mix := ""
		for t := 1; t <= 4; t++ {
			if types[t] {
				mix += string("ctgs"[t-1])
			}
		}
		c.r.Nontrivial(fmt.Sprintf("map:%s:%s:nf=%v", mix, tc.Cfg, nonFinite))
	}
}

// corrupt posts one corrupted body to the ingestion router and applies the status / dispatch oracles.
func (c *checker) corrupt(tc *tcase) {
	r := c.r
	g := c.rigs[tc.Cfg]
	if g == nil {
		r.Inconclusive("rig-unavailable")
		return
	}
	cc := tc.Cor
	body, err := hex.DecodeString(cc.BodyHex)
	if err != nil {
		return
	}
	g.cap.reset()
	status, gotResp := 0, false
	if cc.Short > 0 {
		status, gotResp = g.postShort(cc, body)
		if !mon.WaitUntil(20*time.Second, func() bool { return g.inflight.Load() == 0 }) {
			r.Inconclusive("handler-still-running")
			return
		}
	} else {
		req, err := http.NewRequest("POST", g.srv.URL+cc.Path, bytes.NewReader(body))
		if err != nil {
			return
		}
		req.Header.Set("Content-Type", "application/x-protobuf")
		if cc.Enc != "-" {
			req.Header.Set("Content-Encoding", cc.Enc)
		}
		resp, err := g.client.Do(req)
		if err == nil {
			_, _ = io.Copy(io.Discard, resp.Body)
			resp.Body.Close()
			status, gotResp = resp.StatusCode, true
		}
	}
	r.Eval(1)
	maps, events := g.cap.snapshot()
	n := len(maps) + len(events)
	enc := cc.Enc
	if enc == "-" {
		enc = ""
	}
	// status class first: the harness' own decode only matters when the request was not plainly rejected
	// (an error status with nothing dispatched is always legal); it is still done for one rejected body
	// in eight so that the evidence counts decodable-but-rejected bodies.
	statusClass := "none"
	switch {
	case !gotResp:
	case status >= 200 && status <= 299:
		statusClass = "2xx"
	case status >= 400:
		statusClass = "4xx5xx"
	default:
		statusClass = "other"
	}
	var (
		known, decodable bool
		raw              []byte
		derr             error
		wantSeries       map[string]*ref.Series
		wantEv           evFields
	)
	decoded := statusClass != "4xx5xx" || n != 0 || c.decodeTick%8 == 0
	c.decodeTick++
	if decoded {
		known, raw, derr = hDecompress(enc, body)
		decodable = known && derr == nil && cc.Short == 0
	}
	if decodable {
		if cc.Path == "/v2/raw" {
			var msg pb.RawMessageV2
			if err := proto.Unmarshal(raw, &msg); err != nil {
				decodable = false
			} else {
				wantSeries = seriesOfPB(&msg)
			}
		} else {
			var msg pb.EventV2
			if err := proto.Unmarshal(raw, &msg); err != nil {
				decodable = false
			} else {
				wantEv = fieldsOfPB(&msg)
			}
		}
	}
	detail := func(what string) string {
		return fmt.Sprintf("%s: %s body (%d bytes, Content-Encoding %q, from config %s) posted to %s: status %d, %d map and %d event dispatches; harness decode: known-encoding=%v decompress-error=%v decodable=%v",
			what, cc.How, len(body), cc.Enc, tc.Cfg, cc.Path, status, len(maps), len(events), known, derr, decodable)
	}
	r.Event("corrupt_status_"+statusClass, 1)
	if !gotResp {
		if cc.Short == 0 {
			r.Violation("no-http-response:"+cc.Path, detail("the ingestion endpoint gave no HTTP response"), tc)
		} else if n != 0 {
			r.Violation("unreadable-body-dispatched:"+cc.Path, detail("a request whose body ended early dispatched data"), tc)
		}
		return
	}
	switch statusClass {
	case "4xx5xx":
		if n != 0 {
			r.Violation("error-status-but-dispatched:"+cc.Path, detail("answered with an error status, yet something was dispatched"), tc)
		}
	case "2xx":
		if n != 1 {
			r.Violation(fmt.Sprintf("success-status-dispatch-count:%s:%s", cc.Path, cmpWord(n)), detail("answered 2xx without exactly one dispatch"), tc)
		}
	}
	if decoded && known && !decodable && statusClass != "4xx5xx" {
		r.Violation("undecodable-body-not-rejected:"+cc.Path+":"+map[bool]string{true: "short", false: "decode"}[cc.Short > 0], detail("a body that cannot be read/decompressed/unmarshalled was not answered 4xx/5xx"), tc)
	}
	if decodable && statusClass == "2xx" && n == 1 {
		if cc.Path == "/v2/raw" && len(maps) == 1 {
			if d := ref.Diff(maps[0], wantSeries, noTS); len(d) > 0 {
				r.Violation("corrupt-decodable-map-differs:"+diffClass(d[0]), detail("dispatched map differs from the harness' decode of the same bytes: "+strings.Join(first(d, 4), " | ")), tc)
			}
		} else if cc.Path == "/v2/event" && len(events) == 1 {
			if d := diffEvent(events[0], wantEv); len(d) > 0 {
				r.Violation("corrupt-decodable-event-differs:"+strings.SplitN(d[0], " ", 2)[0], detail("dispatched event differs from the harness' decode of the same bytes: "+strings.Join(d, "; ")), tc)
			}
		} else {
			r.Violation("wrong-kind-dispatched:"+cc.Path, detail("the endpoint dispatched the other kind of item"), tc)
		}
	}
	if decodable && statusClass == "4xx5xx" {
		r.Event("decodable_but_rejected", 1) // legal, not asserted
	}
	if decoded {
		r.Nontrivial(fmt.Sprintf("corrupt:%s:%s:known=%v:decodable=%v:%s", cc.Path, cc.How, known, decodable, statusClass))
	} else {
		r.Nontrivial(fmt.Sprintf("corrupt:%s:%s:not-decoded:%s", cc.Path, cc.How, statusClass))
	}
}

// postShort announces more bytes than it sends and half-closes: the body cannot be read completely.
func (g *rig) postShort(cc *corCase, body []byte) (int, bool) {
	conn, err := net.DialTimeout("tcp", g.srv.Listener.Addr().String(), 10*time.Second)
	if err != nil {
		return 0, false
	}
	defer conn.Close()
	hdr := fmt.Sprintf("POST %s HTTP/1.1\r\nHost: verif\r\nContent-Type: application/x-protobuf\r\nContent-Encoding: %s\r\nContent-Length: %d\r\nConnection: close\r\n\r\n", cc.Path, cc.Enc, len(body)+cc.Short)
	if _, err := conn.Write(append([]byte(hdr), body...)); err != nil {
		return 0, false
	}
	if tc, ok := conn.(*net.TCPConn); ok {
		_ = tc.CloseWrite()
	}
	_ = conn.SetReadDeadline(time.Now().Add(20 * time.Second))
	resp, err := http.ReadResponse(bufio.NewReader(conn), nil)
	if err != nil {
		return 0, false
	}
	_, _ = io.Copy(io.Discard, resp.Body)
	resp.Body.Close()
	return resp.StatusCode, true
}

var labels = []string{"deflate", "lz4", "identity", "-", "gzip", "DEFLATE", "zlib", "br"}

// corruptions derives corrupted variants of a real forwarder request.
func corruptions(rng *rand.Rand, tc *tcase, q *recReq, n int) []*tcase {
	var out []*tcase
	mk := func(how, path, enc string, body []byte, short int) {
		out = append(out, &tcase{Kind: "corrupt", Cfg: tc.Cfg, Index: tc.Index, Cor: &corCase{How: how, Path: path, Enc: enc, BodyHex: hex.EncodeToString(body), Short: short}})
	}
	other := map[string]string{"/v2/raw": "/v2/event", "/v2/event": "/v2/raw"}
	for i := 0; i < n; i++ {
		b := append([]byte(nil), q.Body...)
		switch k := rng.Intn(20); {
		case k < 5: // truncate
			if len(b) == 0 {
				mk("garbage", q.Path, q.Enc, []byte{byte(rng.Intn(256))}, 0)
				continue
			}
			cut := rng.Intn(len(b))
			if rng.Intn(3) == 0 && len(b) > 8 {
				cut = len(b) - 1 - rng.Intn(8)
			}
			mk("truncate", q.Path, q.Enc, b[:cut], 0)
		case k < 11: // flip 1..4 bits
			if len(b) == 0 {
				mk("garbage", q.Path, q.Enc, []byte{byte(rng.Intn(256))}, 0)
				continue
			}
			for j, nf := 0, 1+rng.Intn(4); j < nf; j++ {
				p := rng.Intn(len(b))
				if rng.Intn(3) == 0 && len(b) > 16 {
					p = rng.Intn(16) // headers of the compressed stream / first proto tags
				}
				b[p] ^= 1 << uint(rng.Intn(8))
			}
			mk("bitflip", q.Path, q.Enc, b, 0)
		case k < 15: // same bytes, another Content-Encoding label
			l := labels[rng.Intn(len(labels))]
			same := l == q.Enc || (l == "-" && q.Enc == "identity") || (l == "identity" && q.Enc == "")
			if same {
				l = map[string]string{"deflate": "lz4", "lz4": "deflate", "identity": "deflate"}[q.Enc]
				if l == "" {
					l = "lz4"
				}
			}
			mk("relabel", q.Path, l, b, 0)
		case k < 16: // random bytes
			gb := make([]byte, rng.Intn(64))
			rng.Read(gb)
			mk("garbage", q.Path, q.Enc, gb, 0)
		case k < 17: // valid bytes of the other message type
			mk("other-endpoint", other[q.Path], q.Enc, b, 0)
		case k < 18: // trailing bytes
			tail := make([]byte, 1+rng.Intn(8))
			rng.Read(tail)
			mk("append", q.Path, q.Enc, append(b, tail...), 0)
		case k < 19: // insert / delete a byte
			if len(b) < 2 {
				mk("garbage", q.Path, q.Enc, []byte{0xff, 0xff}, 0)
				continue
			}
			p := rng.Intn(len(b))
			mk("delete-byte", q.Path, q.Enc, append(b[:p], b[p+1:]...), 0)
		default: // body that ends before Content-Length
			cut := 0
			if len(b) > 0 {
				cut = rng.Intn(len(b) + 1)
			}
			mk("short-read", q.Path, q.Enc, b[:cut], 1+rng.Intn(32))
		}
	}
	return out
}

// ---------------------------------------------------------------------------------------------

func TestCheck(t *testing.T) {
	r := mon.Start(t, "C14")
	defer r.Finish()
	logrus.SetOutput(io.Discard)
	debug.SetGCPercent(400) // lz4 streams allocate 4 MiB blocks on both sides; collect less often
	r.Rule("cases: (a) a fresh MetricMap (1..40, sometimes up to 1800 datapoints over small pools of valid-UTF-8 names / tags / sources / set members incl. empty tag lists, empty sources, empty set member, NUL and 4-byte runes; all four types; gauge and timer values from arbitrary bit patterns incl. NaN, ±Inf, ±0, denormals, ±MaxFloat64; sampled rates; extreme counters and arbitrary sampled counts written into the aggregate) or (b) an event (all 8 priority x alert combinations, empty fields, nil / empty / filled tags, multi-line text, zero / negative / huge dates) is given to a real HttpForwarderHandlerV2 of one of 22 compression configurations (off, none, zlib 0-9, lz4 0-9; configurations cycle so every one is used equally), flushed by hand, and compared with what the real ingestion router dispatched; (c) 4-5 corruptions of the recorded request bytes of every such case (truncate, bit flips, wrong / unknown Content-Encoding label, garbage, other endpoint, trailing bytes, deleted byte, body shorter than Content-Length over raw TCP) are posted to the router and judged against the harness' own decompress + proto.Unmarshal. (a') every 13th map case is a highly regular batch (timers with 1 500 - 280 000 identical or slowly varying samples, 100 - 12 000 series differing in a numeric tag suffix, sets with runs of similar members, all-zero gauges, tags of up to 3 500 equal characters; three size classes up to several MB inflated, the largest only for off / none / zlib / lz4 0-2), whose inflated/compressed ratio is measured with the harness' decompressor and recorded (regular_ratio:* events, regular_max_* extras); (a'') after every valid case the recorded request bytes are delivered again to the same server in one of ten other legal HTTP framings (chunked via net/http, hand-written chunked with odd sizes / one-byte chunks / extensions / trailers, Expect-continue via net/http and hand-written, split writes, single write, HTTP/1.0, pipelined pair), same oracle; (d) retry: the first attempt of a forwarder (map with all four types or event; off / none / zlib / lz4, all 22 configurations in thorough) is answered 503 / 500 / connection reset by a front that has read the whole body, the forwarder's own retry is let through to the real router: re-sent bytes and headers equal the first attempt's, exactly one dispatch equal to the input; (f) overlap: one forwarder (off / zlib / lz4 levels; also with the dynamic header 'region', which splits a flush into up to four bodies) whose batch 1 (100-600 datapoints) gets 503 for every body's first attempt; during the back-off batch 2 (smaller, similar or much larger; sometimes a highly regular batch) and an event are dispatched, flushed and accepted on the same forwarder; then the retries pass: each batch dispatched exactly once piece by piece with its own content, retry bytes identical to the first attempt; (g) long-lived forwarder: max-request-elapsed-time 3 s, one item while young, a real pause beyond the window, then four more batches / events, each with one transient first-attempt failure: retried identically and decoded once; (e) concurrent: rounds in which 9 real forwarders and 16 direct posters of previously recorded forwarder bytes are released together against one router, bodies of four size classes (20 .. 5500 datapoints, events up to 20 KiB), each request with a unique id in a tag / the title: all 2xx, per id as many dispatches as 2xx answers, each equal to its own input, no mixture. Non-trivial: a map with >= 3 metric types and a series with both source and tags, distinct by (type mix, compression configuration, non-finite values present); an event with tags and a source, distinct by (priority, alert type, configuration); a corrupt body, distinct by (endpoint, corruption kind, harness-decodable, status class); a retry case by (item, fault, configuration); a concurrent request by (sender, item, encoding, body size class); a regular batch by (workload, shape, configuration, ratio bucket); an overlap case in which a later post reached the server before the retry, by (variant, configuration, body counts, size class of batch 2); a framing case by (framing, item, encoding, body size class).")
	r.Assume("compress/zlib, pierrec/lz4 and google.golang.org/protobuf (with the generated pb package) define what a decodable body is; the harness calls them itself, not through pkg/web")
	r.Assume("ref.FromMap flattening, taken before the map is handed to the forwarder, is a faithful copy of the input")

	cfgs := allConfigs()
	c := &checker{r: r, rigs: map[string]*rig{}}
	srng := r.Rand("slots")
	for _, cfg := range cfgs {
		g, err := newRig(cfg, 1+srng.Intn(4))
		if err != nil {
			r.Violation("rig-setup:"+cfg.Name, fmt.Sprintf("cannot set up forwarder / ingestion server for %+v: %v", cfg, err), nil)
			continue
		}
		c.rigs[cfg.Name] = g
		defer g.close()
	}

	if p := r.ReplayPayload(); p != nil {
		rc, ok := mon.ReplayCase(p, &replayCase{}).(*replayCase)
		if !ok || rc == nil {
			t.Skip("no case in the replay file")
		}
		tc := &rc.tcase
		r.Case("replay %s cfg=%s", tc.Kind, tc.Cfg)
		switch tc.Kind {
		case "corrupt":
			c.corrupt(tc)
		case "concurrent":
			// schedule dependent: run the whole concurrent workload of this shard again
			c.concurrent(r.Pick(4, 40))
		case "framing":
			if rc.Case != nil {
				if q := c.valid(rc.Case); q != nil {
					c.framing(r.Rand("replay"), rc.Case, q, rc.Framing)
				}
			}
		case "overlap":
			for _, cfg := range cfgs {
				if cfg.Name == tc.Cfg {
					// the case is a function of (seed, shard, index); run it a few times, the overlap depends on timing
					for k := 0; k < 3; k++ {
						c.overlapCase(cfg, rc.Dyn, tc.Index, r.Rand(fmt.Sprintf("overlap/%d/%d", tc.Index/1000, (tc.Index%1000)/2)))
					}
				}
			}
		case "retry":
			for _, cfg := range cfgs {
				if cfg.Name == tc.Cfg && rc.Case != nil {
					c.retryCase(cfg, rc.Item, rc.Fault, tc.Index, rc.Case)
				}
			}
		default:
			c.valid(tc)
		}
		r.Nontrivial("replay-a")
		r.Nontrivial("replay-b")
		return
	}

	// long-lived forwarders (5-7 s of real time each) run next to everything else
	agedDone := make(chan struct{})
	go func() {
		defer close(agedDone)
		c.agedRun(cfgs, r.Pick(1, 6))
	}()
	defer func() { <-agedDone }()
	// the forwarder's retry path (each wave waits out one real back-off, its cases run in parallel)
	shard0, _ := r.Shard()
	t0 := time.Now()
	for w, nw := 0, r.Pick(1, 6); w < nw; w++ {
		c.retryWave(w, retryConfigs(cfgs, r.Thorough(), shard0, w))
	}
	r.Extra("ms_retry_waves", time.Since(t0).Milliseconds())
	// overlapping posts of one forwarder: batch 2 and an event are built while batch 1 waits for its retry
	t0 = time.Now()
	for w, nw := 0, r.Pick(1, 4); w < nw; w++ {
		c.overlapWave(w, overlapConfigs(cfgs, r.Thorough(), shard0, w))
	}
	r.Extra("ms_overlap_waves", time.Since(t0).Milliseconds())
	// many senders at one ingestion router
	t0 = time.Now()
	c.concurrent(r.Pick(4, 40))
	r.Extra("ms_concurrent_rounds", time.Since(t0).Milliseconds())

	rng := r.Rand("c14")
	nValid := r.N(4600, 110000)
	perValid := r.Pick(4, 5)
	shard, _ := r.Shard()
	var tValid, tCorrupt, tShort, tFraming time.Duration
	for i := 0; i < nValid; i++ {
		cfg := cfgs[(i+shard*5)%len(cfgs)]
		var tc *tcase
		if i%4 == 3 {
			tc = genEventCase(rng, cfg.Name, i/4+shard)
		} else if i%13 == 5 {
			// highly regular batch; one in eight inflates to well over 1 MiB
			size := []int{0, 1, 0, 2, 0, 1, 0, 1}[(i/13)%8]
			tc = genRegularCase(rng, cfg.Name, i, size)
		} else {
			tc = genMapCase(rng, cfg.Name, i)
		}
		r.Case("%s #%d cfg=%s reg=%+v", tc.Kind, i, cfg.Name, tc.Reg)
		t0 := time.Now()
		q := c.valid(tc)
		tValid += time.Since(t0)
		if g := c.rigs[cfg.Name]; g != nil && g.broken {
			// a hung flush: replace the rig so that the remaining cases still run
			if ng, err := newRig(cfg, g.slots); err == nil {
				c.rigs[cfg.Name] = ng
				defer ng.close()
			}
		}
		if q != nil {
			// the same bytes in another legal HTTP framing (all framings in turn)
			how := framings[(i/2+shard)%len(framings)]
			r.Case("framing %s #%d cfg=%s enc=%s path=%s bytes=%d", how, i, cfg.Name, q.Enc, q.Path, len(q.Body))
			t0 := time.Now()
			c.framing(rng, tc, q, how)
			tFraming += time.Since(t0)
		}
		if q == nil || len(q.Body) > 256<<10 {
			continue // (no corruptions of very large bodies: they cost much and add nothing)
		}
		for _, cc := range corruptions(rng, tc, q, perValid) {
			r.Case("corrupt %s #%d cfg=%s enc=%s path=%s body=%s", cc.Cor.How, i, cfg.Name, cc.Cor.Enc, cc.Cor.Path, trimHex(cc.Cor.BodyHex))
			t0 := time.Now()
			c.corrupt(cc)
			if cc.Cor.Short > 0 {
				tShort += time.Since(t0)
			} else {
				tCorrupt += time.Since(t0)
			}
		}
	}
	// measured cost by kind of case (wall clock, evidence only)
	r.Extra("ms_valid_cases", tValid.Milliseconds())
	r.Extra("ms_corrupt_cases", tCorrupt.Milliseconds())
	r.Extra("ms_short_read_cases", tShort.Milliseconds())
	r.Extra("ms_framing_cases", tFraming.Milliseconds())
	c.reg.mu.Lock()
	r.Extra(fmt.Sprintf("regular_max_ratio_shard%d", shard), c.reg.max)
	r.Extra(fmt.Sprintf("regular_max_inflated_bytes_shard%d", shard), c.reg.inflated)
	c.reg.mu.Unlock()
}

// replayCase is what a replay file's "case" member decodes into: a sequential case itself, or the
// description of a retry / concurrent case.
type replayCase struct {
	tcase
	Fault string `json:"fault"`
	Item  string `json:"item"`
	Case  *tcase `json:"case"`
	Dyn   bool   `json:"dyn"`
	// Framing names the HTTP framing of a "framing" case
	Framing string `json:"framing"`
}

func trimHex(s string) string {
	if len(s) > 4096 {
		return s[:4096] + "..."
	}
	return s
}
