//go:build verif

package c14

// HTTP framings: the bytes a real forwarder produced are delivered to the real ingestion server in every
// legal way HTTP/1.x can frame a request body - not only the forwarder's own Content-Length request:
// chunked / unknown length (through net/http and hand-written over TCP with odd chunk sizes, chunk
// extensions and trailers), Expect: 100-continue (client library and hand-written), a body split across
// many writes, headers and body in one write, lower-case header names, HTTP/1.0, and two requests
// pipelined on one connection. What the server decodes must be what the forwarder was given, whatever the
// framing and the Content-Encoding.

import (
	"bufio"
	"bytes"
	"fmt"
	"io"
	"math/rand"
	"net"
	"net/http"
	"runtime"
	"strings"
	"time"

	"verif/ref"
)

var framings = []string{"chunked-client", "chunked-raw", "expect-continue-client", "expect-continue-raw", "split-writes", "single-write", "chunked-raw-trailer", "pipelined-pair", "http10", "chunked-one-byte"}

// unknownLength hides the length of the body from net/http, which then sends it chunked.
type unknownLength struct{ r io.Reader }

func (u unknownLength) Read(p []byte) (int, error) { return u.r.Read(p) }

type framedReply struct {
	statuses []int
	err      string
}

func rawHeaders(rng *rand.Rand, method, path, proto string, hs [][2]string) string {
	var b strings.Builder
	fmt.Fprintf(&b, "%s %s %s\r\n", method, path, proto)
	lower := rng.Intn(3) == 0
	for _, h := range hs {
		k := h[0]
		if lower {
			k = strings.ToLower(k)
		}
		fmt.Fprintf(&b, "%s: %s\r\n", k, h[1])
	}
	b.WriteString("\r\n")
	return b.String()
}

func chunkedBody(rng *rand.Rand, body []byte, oneByte, trailer bool) []byte {
	var b bytes.Buffer
	for off := 0; off < len(body); {
		n := 1 + rng.Intn(4096)
		switch {
		case oneByte && off < 64:
			n = 1
		case rng.Intn(4) == 0:
			n = 1 + rng.Intn(16)
		case rng.Intn(6) == 0:
			n = 16384 + rng.Intn(65536)
		}
		if off+n > len(body) {
			n = len(body) - off
		}
		size := fmt.Sprintf("%x", n)
		if rng.Intn(3) == 0 {
			size = strings.ToUpper(size)
		}
		if rng.Intn(5) == 0 {
			size += ";verif=1" // a chunk extension
		}
		b.WriteString(size + "\r\n")
		b.Write(body[off : off+n])
		b.WriteString("\r\n")
		off += n
	}
	b.WriteString("0\r\n")
	if trailer {
		b.WriteString("X-Verif-Trailer: done\r\n")
	}
	b.WriteString("\r\n")
	return b.Bytes()
}

// deliver sends body to the rig's server in the given framing and returns the status of every response.
func (g *rig) deliver(rng *rand.Rand, how, path, enc string, body []byte) framedReply {
	url := g.srv.URL + path
	std := [][2]string{{"Host", "verif"}, {"Content-Type", "application/x-protobuf"}, {"Content-Encoding", enc}, {"User-Agent", "verif framing"}}
	viaClient := func(req *http.Request, cl *http.Client) framedReply {
		req.Header.Set("Content-Type", "application/x-protobuf")
		req.Header.Set("Content-Encoding", enc)
		resp, err := cl.Do(req)
		if err != nil {
			return framedReply{err: err.Error()}
		}
		_, _ = io.Copy(io.Discard, resp.Body)
		resp.Body.Close()
		return framedReply{statuses: []int{resp.StatusCode}}
	}
	switch how {
	case "chunked-client":
		req, _ := http.NewRequest("POST", url, unknownLength{bytes.NewReader(body)})
		req.ContentLength = -1
		return viaClient(req, g.client)
	case "expect-continue-client":
		req, _ := http.NewRequest("POST", url, bytes.NewReader(body))
		req.Header.Set("Expect", "100-continue")
		cl := &http.Client{Transport: &http.Transport{ExpectContinueTimeout: 10 * time.Second, DisableKeepAlives: true}, Timeout: 60 * time.Second}
		defer cl.CloseIdleConnections()
		return viaClient(req, cl)
	}
	conn, err := net.DialTimeout("tcp", g.srv.Listener.Addr().String(), 10*time.Second)
	if err != nil {
		return framedReply{err: err.Error()}
	}
	defer conn.Close()
	_ = conn.SetDeadline(time.Now().Add(60 * time.Second)) // watchdog only
	br := bufio.NewReader(conn)
	want := 1
	write := func(b []byte) bool { _, err := conn.Write(b); return err == nil }
	cl := [2]string{"Content-Length", fmt.Sprint(len(body))}
	closeH := [2]string{"Connection", "close"}
	switch how {
	case "chunked-raw", "chunked-raw-trailer", "chunked-one-byte":
		hs := append(append([][2]string{}, std...), [2]string{"Transfer-Encoding", "chunked"}, closeH)
		if how == "chunked-raw-trailer" {
			hs = append(hs, [2]string{"Trailer", "X-Verif-Trailer"})
		}
		if !write([]byte(rawHeaders(rng, "POST", path, "HTTP/1.1", hs))) {
			return framedReply{err: "write failed"}
		}
		cb := chunkedBody(rng, body, how == "chunked-one-byte", how == "chunked-raw-trailer")
		// the chunked stream itself also goes out in pieces that do not respect chunk boundaries
		for off := 0; off < len(cb); {
			n := 1 + rng.Intn(8192)
			if off+n > len(cb) {
				n = len(cb) - off
			}
			if !write(cb[off : off+n]) {
				return framedReply{err: "write failed"}
			}
			off += n
			if rng.Intn(3) == 0 {
				runtime.Gosched()
			}
		}
	case "expect-continue-raw":
		hs := append(append([][2]string{}, std...), cl, [2]string{"Expect", "100-continue"}, closeH)
		if !write([]byte(rawHeaders(rng, "POST", path, "HTTP/1.1", hs))) {
			return framedReply{err: "write failed"}
		}
		resp, err := http.ReadResponse(br, nil)
		if err != nil {
			return framedReply{err: "no interim response: " + err.Error()}
		}
		if resp.StatusCode != http.StatusContinue {
			// a final answer without having asked for the body
			return framedReply{statuses: []int{resp.StatusCode}}
		}
		if !write(body) {
			return framedReply{err: "write failed"}
		}
	case "split-writes":
		hs := append(append([][2]string{}, std...), cl, closeH)
		hdr := []byte(rawHeaders(rng, "POST", path, "HTTP/1.1", hs))
		cut := 1 + rng.Intn(len(hdr)-1)
		if !write(hdr[:cut]) {
			return framedReply{err: "write failed"}
		}
		runtime.Gosched()
		if !write(hdr[cut:]) {
			return framedReply{err: "write failed"}
		}
		for off := 0; off < len(body); {
			n := 1 + rng.Intn(1500)
			if rng.Intn(4) == 0 {
				n = 1 + rng.Intn(8)
			}
			if off+n > len(body) {
				n = len(body) - off
			}
			if !write(body[off : off+n]) {
				return framedReply{err: "write failed"}
			}
			off += n
			runtime.Gosched()
		}
	case "single-write":
		hs := append(append([][2]string{}, std...), cl, closeH)
		if !write(append([]byte(rawHeaders(rng, "POST", path, "HTTP/1.1", hs)), body...)) {
			return framedReply{err: "write failed"}
		}
	case "http10":
		hs := append(append([][2]string{}, std...), cl)
		if !write(append([]byte(rawHeaders(rng, "POST", path, "HTTP/1.0", hs)), body...)) {
			return framedReply{err: "write failed"}
		}
	case "pipelined-pair":
		// the second request directly behind the first body, one with Content-Length, one chunked
		h1 := append(append([][2]string{}, std...), cl)
		h2 := append(append([][2]string{}, std...), [2]string{"Transfer-Encoding", "chunked"}, closeH)
		all := append([]byte(rawHeaders(rng, "POST", path, "HTTP/1.1", h1)), body...)
		all = append(all, []byte(rawHeaders(rng, "POST", path, "HTTP/1.1", h2))...)
		all = append(all, chunkedBody(rng, body, false, false)...)
		if !write(all) {
			return framedReply{err: "write failed"}
		}
		want = 2
	}
	var rep framedReply
	for i := 0; i < want; i++ {
		resp, err := http.ReadResponse(br, nil)
		if err != nil {
			rep.err = err.Error()
			return rep
		}
		_, _ = io.Copy(io.Discard, resp.Body)
		resp.Body.Close()
		rep.statuses = append(rep.statuses, resp.StatusCode)
	}
	return rep
}

// framing re-delivers the recorded request of a valid case in another HTTP framing and applies the
// round-trip oracle to what the server dispatched.
func (c *checker) framing(rng *rand.Rand, tc *tcase, q *recReq, how string) {
	r := c.r
	g := c.rigs[tc.Cfg]
	if g == nil || g.broken {
		return
	}
	wantMap, wantEv := c.lastWantMap, c.lastWantEv
	g.cap.reset()
	rep := g.deliver(rng, how, q.Path, q.Enc, q.Body)
	r.Eval(1)
	r.Event("framing_"+how, 1)
	maps, events := g.cap.snapshot()
	expect := 1
	if how == "pipelined-pair" {
		expect = 2
	}
	replay := map[string]interface{}{"kind": "framing", "framing": how, "case": tc}
	if tc.Reg == nil && len(tc.DPs) > 300 {
		replay["case"] = fmt.Sprintf("%s case #%d of config %s (%d datapoints): re-run with the same seed", tc.Kind, tc.Index, tc.Cfg, len(tc.DPs))
	}
	where := fmt.Sprintf("config %s: the forwarder's %s body (%d bytes, Content-Encoding %q) delivered as %s: statuses %v %s; %d map and %d event dispatches", tc.Cfg, tc.Kind, len(q.Body), q.Enc, how, rep.statuses, rep.err, len(maps), len(events))
	if len(rep.statuses) < expect {
		if !mon2xxAll(rep.statuses) || rep.err != "" {
			r.Violation(fmt.Sprintf("framing-no-response:%s:%s", how, q.Path), where, replay)
		}
		return
	}
	for _, s := range rep.statuses {
		if !ok2xx(s) {
			r.Violation(fmt.Sprintf("framing-rejected:%s:%s:%s", how, q.Path, q.Enc), where+": a valid body must be accepted in every legal framing", replay)
			return
		}
	}
	n, other := len(maps), len(events)
	if tc.Kind == "event" {
		n, other = other, n
	}
	if n != expect || other != 0 {
		r.Violation(fmt.Sprintf("framing-dispatch-count:%s:%s:%s", how, tc.Kind, cmpWord(n)), where+fmt.Sprintf(": %d dispatches expected", expect), replay)
		return
	}
	if tc.Kind == "map" {
		for _, m := range maps {
			if d := ref.Diff(m, wantMap, noTS); len(d) > 0 {
				r.Violation(fmt.Sprintf("framing-map-differs:%s:%s", how, diffClass(d[0])), where+": dispatched map differs from what the forwarder was given: "+strings.Join(first(d, 5), " | "), replay)
				break
			}
		}
	} else {
		for _, e := range events {
			if d := diffEvent(e, wantEv); len(d) > 0 {
				r.Violation(fmt.Sprintf("framing-event-differs:%s:%s", how, strings.SplitN(d[0], " ", 2)[0]), where+": "+strings.Join(d, "; "), replay)
				break
			}
		}
	}
	r.Nontrivial(fmt.Sprintf("framing:%s:%s:%s:%s", how, tc.Kind, q.Enc, sizeClass(len(q.Body))))
}

func mon2xxAll(ss []int) bool {
	for _, s := range ss {
		if !ok2xx(s) {
			return false
		}
	}
	return true
}
