//go:build verif

package c14

// Two further workloads of C14 (the sequential, fault-free round trip lives in check_test.go):
//
//   - concurrent: many senders (real forwarders of several compression configurations, each on its own
//     goroutine, plus direct POSTs of real forwarder bytes recorded earlier) hit ONE ingestion router at
//     the same time with bodies of very different sizes. Every map / event carries a unique request id,
//     so each dispatch is paired with the request that caused it: a 2xx must have dispatched exactly its
//     own content, every (valid) body must get a 2xx, no dispatch may mix two requests.
//
//   - retry: a fault-injecting front before the real ingestion router reads the complete body of the
//     forwarder's FIRST attempt and answers 503 / 500 / resets the connection; the forwarder's own retry
//     (real-clock back-off, 0.25-0.75 s) is let through. What is re-sent must be byte-identical to the
//     first attempt, exactly one dispatch must happen and it must equal what the forwarder was given.

import (
	"bytes"
	"context"
	"fmt"
	"io"
	"math"
	"math/rand"
	"net"
	"net/http"
	"net/http/httptest"
	"sort"
	"strings"
	"sync"
	"time"

	"github.com/atlassian/gostatsd"
	"github.com/atlassian/gostatsd/pkg/statsd"
	"github.com/atlassian/gostatsd/pkg/transport"
	"github.com/atlassian/gostatsd/pkg/web"

	"verif/mon"
	"verif/ref"
)

// ---------------------------------------------------------------------------------------------
// a forwarder on its own, pointed at some URL

type fwdUnit struct {
	cfg     compCfg
	rec     *recorder
	fwd     *statsd.HttpForwarderHandlerV2
	fc      statsd.VerifFlushCoordinator
	cancel  context.CancelFunc
	runDone chan struct{}
}

func newFwdUnit(cfg compCfg, url string, slots int, maxElapsed time.Duration, dynHeaders ...string) (*fwdUnit, error) {
	u := &fwdUnit{cfg: cfg, runDone: make(chan struct{})}
	logger := quietLogger()
	pool := transport.NewTransportPool(logger, clientTimeoutViper())
	cl, err := pool.Get("default")
	if err != nil {
		return nil, err
	}
	u.rec = &recorder{base: cl.Client.Transport}
	cl.Client.Transport = u.rec
	u.fc = statsd.VerifNewFlushCoordinator()
	u.fwd, err = statsd.NewHttpForwarderHandlerV2(logger, "default", url, slots, 10, 1, cfg.Compress, cfg.Type, cfg.Level, maxElapsed, time.Hour, nil, dynHeaders, pool, u.fc)
	if err != nil {
		return nil, err
	}
	ctx, cancel := context.WithCancel(context.Background())
	u.cancel = cancel
	go func() {
		defer close(u.runDone)
		u.fwd.Run(ctx)
	}()
	// the priming "nop" request of Run
	if !mon.WaitUntil(20*time.Second, func() bool { return len(u.rec.snapshot()) >= 1 }) {
		u.close()
		return nil, fmt.Errorf("the forwarder's priming request never arrived")
	}
	return u, nil
}

func (u *fwdUnit) close() {
	u.cancel()
	select {
	case <-u.runDone:
	case <-time.After(10 * time.Second):
	}
}

func (u *fwdUnit) sendMap(mm *gostatsd.MetricMap) bool {
	return watchdogged(func() {
		u.fwd.DispatchMetricMap(context.Background(), mm)
		u.fc.Flush()
		u.fc.WaitForFlush()
	})
}

func (u *fwdUnit) sendEvent(ev *gostatsd.Event) bool {
	return watchdogged(func() {
		u.fwd.DispatchEvent(context.Background(), ev)
		u.fwd.WaitForEvents()
	})
}

func ingestionServer(cap *capture, wrap func(http.Handler) http.Handler) (*httptest.Server, error) {
	hs, err := web.NewHttpServer(quietLogger(), cap, "c14", "", false, false, true, false, nil, nil)
	if err != nil {
		return nil, err
	}
	var h http.Handler = hs.Router
	if wrap != nil {
		h = wrap(h)
	}
	return httptest.NewServer(h), nil
}

func compOf(cfgName string) string { return strings.SplitN(cfgName, "-", 2)[0] }

func ok2xx(status int) bool { return status >= 200 && status <= 299 }

// ---------------------------------------------------------------------------------------------
// concurrent requests at one ingestion router

// longer than any tag key the generators can draw (at most 6 characters), so no random tag can look like an id
const ridPrefix = "verif-request-id:"

// ridOfSeries returns the request ids carried by the series of a flattened map.
func ridsOf(m map[string]*ref.Series) (rids []string, untagged int) {
	seen := map[string]struct{}{}
	for _, s := range m {
		found := false
		for _, t := range s.Tags {
			if strings.HasPrefix(t, ridPrefix) {
				seen[t[len(ridPrefix):]] = struct{}{}
				found = true
			}
		}
		if !found {
			untagged++
		}
	}
	for k := range seen {
		rids = append(rids, k)
	}
	sort.Strings(rids)
	return rids, untagged
}

func eventRID(title string) string {
	if !strings.HasPrefix(title, "R") {
		return ""
	}
	if i := strings.IndexByte(title, ';'); i > 0 {
		return title[1:i]
	}
	return ""
}

// item is one valid request: real forwarder bytes plus what they must decode to.
type item struct {
	RID     string
	Kind    string // map | event
	Cfg     string
	Path    string
	Enc     string
	Body    []byte
	wantMap map[string]*ref.Series
	wantEv  evFields
	tc      *tcase
}

type sendRec struct {
	it     *item
	via    string // forwarder | direct
	status int
	err    string
}

// genConcurrentCase draws a map of a size class chosen so that bodies differ widely in size, every
// datapoint tagged with the request id, or an event with the id in its title.
func genConcurrentCase(rng *rand.Rand, cfg, rid string, idx int) *tcase {
	if idx%5 == 4 {
		tc := genEventCase(rng, cfg, idx)
		tc.Ev.Title = "R" + rid + ";" + tc.Ev.Title
		if rng.Intn(2) == 0 {
			tc.Ev.Text += ustr(rng, 500+rng.Intn(20000), 5, "")
		}
		return tc
	}
	if idx%5 == 2 {
		// a highly regular batch (compresses 100x and more), tagged with the request id
		tc := genRegularCase(rng, cfg, idx, []int{0, 0, 1, 2}[rng.Intn(4)])
		tc.Reg.RID = rid
		return tc
	}
	tc := genMapCase(rng, cfg, idx)
	// size classes: ~30, ~200, ~1000, ~4000 datapoints
	target := []int{20 + rng.Intn(40), 120 + rng.Intn(200), 600 + rng.Intn(900), 2500 + rng.Intn(3000)}[rng.Intn(4)]
	for len(tc.DPs) < target {
		more := genMapCase(rng, cfg, idx)
		tc.DPs = append(tc.DPs, more.DPs...)
	}
	tc.DPs = tc.DPs[:target]
	tc.Ovr = nil
	for i := range tc.DPs {
		tc.DPs[i].Tags = append(append([]string{}, tc.DPs[i].Tags...), ridPrefix+rid)
	}
	return tc
}

var concurrentCfgNames = []string{"off", "none", "zlib-0", "zlib-1", "zlib-6", "zlib-9", "lz4-0", "lz4-4", "lz4-9"}

const directPosters = 16

// concurrent runs `rounds` rounds; in every round all forwarders send a fresh case while 16 further
// goroutines post bodies recorded in earlier rounds, all released by one barrier.
func (c *checker) concurrent(rounds int) {
	r := c.r
	shard, _ := r.Shard()
	cap := &capture{}
	srv, err := ingestionServer(cap, nil)
	if err != nil {
		r.Violation("rig-setup:concurrent", err.Error(), nil)
		return
	}
	defer srv.Close()
	client := &http.Client{Transport: &http.Transport{MaxIdleConnsPerHost: directPosters * 2, MaxConnsPerHost: 0}, Timeout: 60 * time.Second}
	defer client.CloseIdleConnections()
	byName := map[string]compCfg{}
	for _, cfg := range allConfigs() {
		byName[cfg.Name] = cfg
	}
	var units []*fwdUnit
	abandoned := false
	for _, name := range concurrentCfgNames {
		u, err := newFwdUnit(byName[name], srv.URL, 1+len(units)%3, 50*time.Millisecond)
		if err != nil {
			r.Violation("rig-setup:concurrent", fmt.Sprintf("forwarder %s: %v", name, err), nil)
			continue
		}
		units = append(units, u)
		// (a forwarder whose flush is still stuck behind the watchdog must not be shut down under it)
		defer func() {
			if !abandoned {
				u.close()
			}
		}()
	}
	rngs := make([]*rand.Rand, len(units))
	for i := range units {
		rngs[i] = r.Rand(fmt.Sprintf("concurrent/fwd%d", i))
	}
	pick := r.Rand("concurrent/pick")
	var pool []*item
	seq := 0
	for round := 0; round < rounds; round++ {
		r.Case("concurrent round %d: %d forwarders + %d direct posters, pool of %d recorded bodies", round, len(units), directPosters, len(pool))
		cap.reset()
		start := make(chan struct{})
		var wg, ready sync.WaitGroup
		var mu sync.Mutex
		var sends []sendRec
		var fresh []*item
		stuck, clientTimeout := false, false
		for ui, u := range units {
			seq++
			rid := fmt.Sprintf("%d.%d", shard, seq)
			ui, u, idx := ui, u, seq
			wg.Add(1)
			ready.Add(1)
			go func() {
				defer wg.Done()
				tc := genConcurrentCase(rngs[ui], u.cfg.Name, rid, idx)
				it := &item{RID: rid, Kind: tc.Kind, Cfg: u.cfg.Name, tc: tc}
				var mm *gostatsd.MetricMap
				var ev *gostatsd.Event
				if tc.Kind == "map" {
					mm = buildMap(tc)
					it.wantMap = ref.FromMap(mm)
				} else {
					it.wantEv = tc.Ev.fields()
					ev = tc.Ev.event()
				}
				u.rec.reset()
				ready.Done()
				<-start
				okSend := false
				if tc.Kind == "map" {
					okSend = u.sendMap(mm)
				} else {
					okSend = u.sendEvent(ev)
				}
				reqs := u.rec.snapshot()
				mu.Lock()
				defer mu.Unlock()
				if timedOut(reqs) {
					clientTimeout = true
				}
				if !okSend {
					stuck = true
					return
				}
				for _, q := range reqs {
					sends = append(sends, sendRec{it: it, via: "forwarder", status: q.Status, err: q.Err})
				}
				if len(reqs) >= 1 {
					c.noteRegular(tc, reqs[0].Enc, reqs[0].Body, "concurrent")
					it.Path, it.Enc, it.Body = reqs[0].Path, reqs[0].Enc, reqs[0].Body
					fresh = append(fresh, it)
				} else {
					sends = append(sends, sendRec{it: it, via: "forwarder", status: 0, err: "the forwarder made no request"})
				}
			}()
		}
		if len(pool) > 0 {
			for p := 0; p < directPosters; p++ {
				todo := []*item{pool[pick.Intn(len(pool))], pool[pick.Intn(len(pool))]}
				wg.Add(1)
				ready.Add(1)
				go func() {
					defer wg.Done()
					ready.Done()
					<-start
					for _, it := range todo {
						s := sendRec{it: it, via: "direct"}
						req, err := http.NewRequest("POST", srv.URL+it.Path, bytes.NewReader(it.Body))
						if err == nil {
							req.Header.Set("Content-Type", "application/x-protobuf")
							req.Header.Set("Content-Encoding", it.Enc)
							var resp *http.Response
							began := time.Now()
							if resp, err = client.Do(req); err != nil && time.Since(began) >= 55*time.Second && (strings.Contains(err.Error(), "Client.Timeout") || strings.Contains(err.Error(), "deadline exceeded")) {
								// the harness client's own 60 s limit
								mu.Lock()
								clientTimeout = true
								mu.Unlock()
							} else if err == nil {
								_, _ = io.Copy(io.Discard, resp.Body)
								resp.Body.Close()
								s.status = resp.StatusCode
							}
						}
						if err != nil {
							s.err = err.Error()
						}
						mu.Lock()
						sends = append(sends, s)
						mu.Unlock()
					}
				}()
			}
		}
		ready.Wait() // every sender has its body prepared: release them together
		close(start)
		wg.Wait()
		if stuck {
			abandoned = true
			r.Inconclusive("forwarder-flush-watchdog")
			return
		}
		if clientTimeout {
			r.Inconclusive("concurrent-round-client-timeout")
			continue
		}
		c.judgeConcurrent(round, sends, cap)
		pool = append(pool, fresh...)
		if len(pool) > 60 {
			pool = pool[len(pool)-60:]
		}
	}
}

// famOf marks violations that concern a highly regular batch.
func famOf(it *item) string {
	if it != nil && it.tc != nil && it.tc.Reg != nil {
		return ":regular"
	}
	return ""
}

func sizeClass(n int) string {
	if n <= 0 {
		return "0"
	}
	return fmt.Sprintf("2^%d", int(math.Log2(float64(n))))
}

func (c *checker) judgeConcurrent(round int, sends []sendRec, cap *capture) {
	r := c.r
	maps, events := cap.snapshot()
	items := map[string]*item{}
	want2xx := map[string]int{}
	var summary []string
	for _, s := range sends {
		items[s.it.RID] = s.it
		summary = append(summary, fmt.Sprintf("%s/%s/%s/%dB/%d", s.it.RID, s.via, s.it.Enc, len(s.it.Body), s.status))
	}
	sort.Strings(summary)
	replay := func(it *item) interface{} {
		rp := map[string]interface{}{"kind": "concurrent", "round": round, "requests_of_round": summary}
		if it != nil {
			rp["rid"], rp["cfg"] = it.RID, it.Cfg
			if it.tc != nil && len(it.tc.DPs) <= 200 {
				rp["case_of_rid"] = it.tc
			}
		}
		return rp
	}
	for _, s := range sends {
		r.Eval(1)
		r.Event("concurrent_requests_"+s.via, 1)
		if ok2xx(s.status) {
			want2xx[s.it.RID]++
		} else {
			r.Violation(fmt.Sprintf("concurrent-valid-body-rejected:%s:%s%s", s.it.Path, s.it.Enc, famOf(s.it)),
				fmt.Sprintf("round %d, %d requests in flight: a valid forwarder body (request id %s, config %s, Content-Encoding %q, %d bytes, sent by %s) was answered %d %s", round, len(sends), s.it.RID, s.it.Cfg, s.it.Enc, len(s.it.Body), s.via, s.status, s.err), replay(s.it))
		}
		r.Nontrivial(fmt.Sprintf("concurrent:%s:%s:%s:%s", s.via, s.it.Kind, s.it.Enc, sizeClass(len(s.it.Body))))
	}
	gotMaps := map[string][]map[string]*ref.Series{}
	for _, m := range maps {
		rids, untagged := ridsOf(m)
		switch {
		case len(rids) > 1 || (len(rids) == 1 && untagged > 0):
			r.Violation("concurrent-mixture-of-requests:map", fmt.Sprintf("round %d: one dispatched map (%d series) holds series of requests %v and %d series without request id", round, len(m), rids, untagged), replay(items[rids[0]]))
		case len(rids) == 0:
			r.Violation("concurrent-unattributable-dispatch:map", fmt.Sprintf("round %d: a dispatched map with %d series carries no request id of any request", round, len(m)), replay(nil))
		default:
			gotMaps[rids[0]] = append(gotMaps[rids[0]], m)
		}
	}
	gotEvents := map[string][]evFields{}
	for _, e := range events {
		rid := eventRID(e.Title)
		if items[rid] == nil {
			r.Violation("concurrent-unattributable-dispatch:event", fmt.Sprintf("round %d: a dispatched event (title %q) belongs to no request", round, e.Title), replay(nil))
			continue
		}
		gotEvents[rid] = append(gotEvents[rid], e)
	}
	for rid := range gotMaps {
		if items[rid] == nil {
			r.Violation("concurrent-unattributable-dispatch:map", fmt.Sprintf("round %d: a dispatched map carries request id %q, which no request of the round had", round, rid), replay(nil))
		}
	}
	rids := make([]string, 0, len(items))
	for rid := range items {
		rids = append(rids, rid)
	}
	sort.Strings(rids)
	for _, rid := range rids {
		it := items[rid]
		n := len(gotMaps[rid])
		other := len(gotEvents[rid])
		if it.Kind == "event" {
			n, other = other, n
		}
		if n != want2xx[rid] || other != 0 {
			word := "fewer"
			if n > want2xx[rid] || other != 0 {
				word = "more"
			}
			r.Violation(fmt.Sprintf("concurrent-dispatch-count:%s:%s", it.Kind, word),
				fmt.Sprintf("round %d: request id %s (%s, config %s, %d bytes) was answered 2xx %d times but dispatched %d times (%d dispatches of the other kind)", round, rid, it.Kind, it.Cfg, len(it.Body), want2xx[rid], n, other), replay(it))
		}
		if it.Kind == "map" {
			for _, m := range gotMaps[rid] {
				if d := ref.Diff(m, it.wantMap, noTS); len(d) > 0 {
					r.Violation("concurrent-map-differs:"+diffClass(d[0])+famOf(it), fmt.Sprintf("round %d, %d requests in flight: the map dispatched for request id %s (config %s, %d series, %d body bytes) differs from what was sent: %s", round, len(sends), rid, it.Cfg, len(it.wantMap), len(it.Body), strings.Join(first(d, 5), " | ")), replay(it))
				}
			}
		} else {
			for _, e := range gotEvents[rid] {
				if d := diffEvent(e, it.wantEv); len(d) > 0 {
					r.Violation("concurrent-event-differs:"+strings.SplitN(d[0], " ", 2)[0], fmt.Sprintf("round %d: the event dispatched for request id %s differs from what was sent: %s", round, rid, strings.Join(first(d, 4), "; ")), replay(it))
				}
			}
		}
	}
	r.Event("concurrent_rounds", 1)
	if r.WantSample() && round == 2 {
		r.Sample(map[string]interface{}{"concurrent_round": round, "requests(rid/sender/encoding/bytes/status)": first(summary, 12), "requests_in_round": len(sends)})
	}
}

// ---------------------------------------------------------------------------------------------
// the forwarder's retry path

type attempt struct {
	Path   string
	Enc    string
	Body   []byte
	Status int    // what the front / router answered (0 = connection reset)
	Fault  string // non-empty: answered by the fault injector
}

// front reads every request body completely, answers the first `faults` armed attempts with a fault
// and passes everything else to the real router.
type front struct {
	router http.Handler
	mu     sync.Mutex
	armed  bool
	fault  string // "503" | "500" | "reset"
	faults int
	log    []attempt
}

type statusWriter struct {
	http.ResponseWriter
	status int
}

func (w *statusWriter) WriteHeader(s int) {
	if w.status == 0 {
		w.status = s
	}
	w.ResponseWriter.WriteHeader(s)
}

func (f *front) ServeHTTP(w http.ResponseWriter, req *http.Request) {
	body, _ := io.ReadAll(req.Body)
	_ = req.Body.Close()
	a := attempt{Path: req.URL.Path, Enc: req.Header.Get("Content-Encoding"), Body: body}
	f.mu.Lock()
	inject := f.armed && f.faults > 0
	if inject {
		f.faults--
		a.Fault = f.fault
	}
	armed := f.armed
	f.mu.Unlock()
	if inject {
		switch a.Fault {
		case "503":
			a.Status = http.StatusServiceUnavailable
		case "500":
			a.Status = http.StatusInternalServerError
		}
		f.record(a, armed)
		if a.Fault == "reset" {
			if hj, ok := w.(http.Hijacker); ok {
				if conn, _, err := hj.Hijack(); err == nil {
					if tc, ok := conn.(*net.TCPConn); ok {
						_ = tc.SetLinger(0)
					}
					_ = conn.Close()
					return
				}
			}
			a.Status = http.StatusServiceUnavailable
		}
		w.WriteHeader(a.Status)
		_, _ = w.Write([]byte("injected fault"))
		return
	}
	req.Body = io.NopCloser(bytes.NewReader(body))
	sw := &statusWriter{ResponseWriter: w}
	f.router.ServeHTTP(sw, req)
	a.Status = sw.status
	if a.Status == 0 {
		a.Status = http.StatusOK
	}
	f.record(a, armed)
}

func (f *front) record(a attempt, armed bool) {
	if !armed {
		return // the priming request
	}
	f.mu.Lock()
	f.log = append(f.log, a)
	f.mu.Unlock()
}

func (f *front) arm(fault string, n int) {
	f.mu.Lock()
	f.armed, f.fault, f.faults = true, fault, n
	f.mu.Unlock()
}

// rearm forgets the requests seen so far and arms n faults of the given kind.
func (f *front) rearm(fault string, n int) {
	f.mu.Lock()
	f.log = nil
	f.armed, f.fault, f.faults = true, fault, n
	f.mu.Unlock()
}

func (f *front) attempts() []attempt {
	f.mu.Lock()
	defer f.mu.Unlock()
	return append([]attempt(nil), f.log...)
}

// genAllTypesMap draws a map case that holds all four metric types.
func genAllTypesMap(rng *rand.Rand, cfg string, idx int) *tcase {
	for {
		tc := genMapCase(rng, cfg, idx)
		seen := map[int]bool{}
		for _, d := range tc.DPs {
			seen[d.T] = true
		}
		if len(seen) == 4 && len(tc.DPs) < 400 {
			return tc
		}
	}
}

// retryCase runs one map or event through a forwarder whose first attempt is answered with a fault.
// It is safe to run many of them on parallel goroutines (each has its own servers and forwarder).
func (c *checker) retryCase(cfg compCfg, kind, fault string, idx int, tc *tcase) {
	r := c.r
	replay := map[string]interface{}{"kind": "retry", "fault": fault, "cfg": cfg.Name, "item": kind, "index": idx, "case": tc}
	cap := &capture{}
	fr := &front{}
	srv, err := ingestionServer(cap, func(h http.Handler) http.Handler { fr.router = h; return fr })
	if err != nil {
		r.Violation("rig-setup:retry", err.Error(), replay)
		return
	}
	defer srv.Close()
	// 3 s: room for the first retry (0.25-0.75 s) and two more before the forwarder gives up
	u, err := newFwdUnit(cfg, srv.URL, 1+idx%3, 3*time.Second)
	if err != nil {
		r.Violation("rig-setup:retry", err.Error(), replay)
		return
	}
	defer u.close()
	cap.reset()
	fr.arm(fault, 1)
	var wantMap map[string]*ref.Series
	var wantEv evFields
	sent := false
	t0 := time.Now()
	if kind == "map" {
		mm := buildMap(tc)
		wantMap = ref.FromMap(mm)
		t0 = time.Now()
		sent = u.sendMap(mm)
	} else {
		wantEv = tc.Ev.fields()
		sent = u.sendEvent(tc.Ev.event())
	}
	if !sent {
		r.Inconclusive("forwarder-flush-watchdog")
		return
	}
	recs := u.rec.snapshot()
	if timedOut(recs) {
		r.Inconclusive("forwarder-client-timeout")
		return
	}
	// The forwarder's 3 s retry window is real time. It must try again only if the failed first attempt came back
	// well inside it; judged on the recorded bracket [dispatch, first round trip returned to the forwarder]. On a
	// stalled machine the window may legitimately be over: then the case says nothing.
	if len(recs) == 0 || recs[0].At.Sub(t0) >= time.Second {
		if len(fr.attempts()) < 2 {
			r.Inconclusive("retry-first-attempt-slow")
			return
		}
	}
	r.Eval(1)
	r.Event("retry_cases", 1)
	as := fr.attempts()
	maps, events := cap.snapshot()
	comp := compOf(cfg.Name)
	var desc []string
	for _, a := range as {
		desc = append(desc, fmt.Sprintf("%s enc=%q %dB -> %d%s", a.Path, a.Enc, len(a.Body), a.Status, map[bool]string{true: " (injected " + a.Fault + ")", false: ""}[a.Fault != ""]))
	}
	where := fmt.Sprintf("config %s, %s, first attempt answered with %s; attempts seen by the server: [%s]; dispatched %d maps, %d events", cfg.Name, kind, fault, strings.Join(desc, "; "), len(maps), len(events))
	r.Event("retry_attempts", len(as))
	if len(as) == 0 || as[0].Fault == "" {
		r.Violation("retry-first-attempt-missing:"+kind, where, replay)
		return
	}
	if len(as) < 2 {
		r.Violation(fmt.Sprintf("retry-no-second-attempt:%s:%s", kind, fault), where+": the forwarder did not try again within its 3 s window", replay)
	}
	for i, a := range as[1:] {
		if !bytes.Equal(a.Body, as[0].Body) {
			how := "different-bytes"
			if len(a.Body) == 0 {
				how = "empty"
			}
			r.Violation(fmt.Sprintf("retry-body-differs:%s:%s:%s", as[0].Path, comp, how), fmt.Sprintf("%s: attempt %d re-sent %d bytes, the first attempt had %d", where, i+2, len(a.Body), len(as[0].Body)), replay)
		}
		if a.Enc != as[0].Enc || a.Path != as[0].Path {
			r.Violation("retry-headers-differ:"+kind, fmt.Sprintf("%s: attempt %d went to %s with Content-Encoding %q", where, i+2, a.Path, a.Enc), replay)
		}
	}
	if len(as) >= 2 && !ok2xx(as[1].Status) {
		r.Violation(fmt.Sprintf("retry-rejected:%s:%s", as[0].Path, comp), where+": the retry that was let through to the real router was not answered 2xx", replay)
	}
	n, other := len(maps), len(events)
	if kind == "event" {
		n, other = other, n
	}
	if n != 1 || other != 0 {
		r.Violation(fmt.Sprintf("retry-dispatch-count:%s:%s", kind, cmpWord(n)), where+": exactly one dispatch was expected", replay)
	}
	if kind == "map" {
		for _, m := range maps {
			if d := ref.Diff(m, wantMap, noTS); len(d) > 0 {
				r.Violation("retry-roundtrip-map:"+diffClass(d[0]), fmt.Sprintf("%s: dispatched map differs from the %d series given: %s", where, len(wantMap), strings.Join(first(d, 5), " | ")), replay)
			}
		}
	} else {
		for _, e := range events {
			if d := diffEvent(e, wantEv); len(d) > 0 {
				r.Violation("retry-roundtrip-event:"+strings.SplitN(d[0], " ", 2)[0], where+": "+strings.Join(d, "; "), replay)
			}
		}
	}
	r.Nontrivial(fmt.Sprintf("retry:%s:%s:%s", kind, fault, cfg.Name))
	if r.WantSample() && idx%7 == 0 {
		r.Sample(map[string]interface{}{"retry": where})
	}
}

var retryFaults = []string{"503", "500", "reset"}

// retryWave runs a set of retry cases on parallel goroutines (each waits out a real back-off).
func (c *checker) retryWave(wave int, cfgs []compCfg) {
	r := c.r
	shard, _ := r.Shard()
	r.Case("retry wave %d: %d configurations x {map,event}", wave, len(cfgs))
	var wg sync.WaitGroup
	k := 0
	for _, cfg := range cfgs {
		for _, kind := range []string{"map", "event"} {
			cfg, kind := cfg, kind
			idx := wave*1000 + k
			fault := retryFaults[(shard+wave+k)%len(retryFaults)]
			rng := r.Rand(fmt.Sprintf("retry/%d/%d", wave, k))
			var tc *tcase
			if kind == "map" {
				tc = genAllTypesMap(rng, cfg.Name, idx)
			} else {
				tc = genEventCase(rng, cfg.Name, idx)
			}
			k++
			wg.Add(1)
			go func() {
				defer wg.Done()
				c.retryCase(cfg, kind, fault, idx, tc)
			}()
		}
	}
	wg.Wait()
}

// retryConfigs picks the configurations of a wave: quick = one per compression type (off, none, zlib,
// lz4; the level varies with shard and wave), thorough = all 22.
func retryConfigs(all []compCfg, thorough bool, shard, wave int) []compCfg {
	if thorough {
		return all
	}
	byName := map[string]compCfg{}
	for _, c := range all {
		byName[c.Name] = c
	}
	l := (shard*3 + wave*7) % 10
	return []compCfg{byName["off"], byName["none"], byName[fmt.Sprintf("zlib-%d", l)], byName[fmt.Sprintf("lz4-%d", (l+5)%10)]}
}
