//go:build verif

package c14

// Highly regular batches: valid bodies whose compression ratio is far above that of random maps
// (a consolidated flush of a busy fleet looks like this: one timer with tens of thousands of equal
// samples, hundreds of series that differ in a numeric tag suffix, all-zero gauges). A case is a small
// descriptor that is expanded deterministically, so replay files stay small.

import (
	"fmt"
	"math"
	"math/rand"
	"strings"
	"sync"

	"github.com/atlassian/gostatsd"
)

type regCase struct {
	Shape  string `json:"shape"`  // timer-identical | timer-slow | suffix-series | set-runs | zero-gauges | mixed
	N      int    `json:"n"`      // samples per timer / number of series / members per set
	Series int    `json:"series"` // timers or sets
	V      uint64 `json:"v"`      // float64 bits of the (base) value
	Step   int    `json:"step"`   // timer-slow: the value changes every Step samples
	TagLen int    `json:"tag_len"`
	Rate   uint64 `json:"rate"` // float64 bits of the sample rate of timers / counters
	Src    string `json:"src"`
	RID    string `json:"rid,omitempty"` // request id tag (concurrent rounds)
}

var regShapes = []string{"timer-identical", "timer-slow", "suffix-series", "set-runs", "zero-gauges", "mixed", "timer-identical"}

// genRegularCase draws a regular batch. size: 0 small (quick to run), 1 medium, 2 inflates to well over 1 MiB.
func genRegularCase(rng *rand.Rand, cfg string, idx, size int) *tcase {
	g := &regCase{Shape: regShapes[rng.Intn(len(regShapes))], Series: 1 + rng.Intn(3), Step: 1 + rng.Intn(500), TagLen: 4 + rng.Intn(60),
		V: math.Float64bits([]float64{0, 1, 123.5, -7, 1e9, 0.001}[rng.Intn(6)]), Rate: math.Float64bits([]float64{1, 1, 0.5, 0.1}[rng.Intn(4)]),
		Src: []string{"", "10.0.0.1", "i-regular"}[rng.Intn(3)]}
	if rng.Intn(10) == 0 {
		g.TagLen = 500 + rng.Intn(3000)
	}
	// The high-compression lz4 levels (1-9; only level 0 is the fast compressor) of pierrec/lz4 need 0.4-3 s of CPU per 500 KB of equal timer samples
	// (worst for all-zero values; measured without the race detector, roughly ten times that with it), so those
	// configurations only get the small size class with short timers: still > 100x, but affordable.
	slowLz4 := strings.HasPrefix(cfg, "lz4-") && cfg != "lz4-0"
	if slowLz4 {
		size = 0
	}
	// inflated size targets: size 0 up to ~150 KiB, size 1 ~0.2-1 MiB, size 2 ~1.2-4 MiB
	scale := []int{1, 8, 40}[size]
	if g.TagLen > 100 {
		scale = 1 // long tags are repeated in every key and tag list: keep the series count small
	}
	switch g.Shape {
	case "timer-identical", "timer-slow":
		g.N = (1500 + rng.Intn(3000)) * scale
		if size == 2 {
			g.Series = 1
			g.N = 200000 + rng.Intn(80000) // 1.6-2.2 MB of packed doubles: deflate gets close to its 1032x limit
		}
		if slowLz4 {
			g.N = 800 + rng.Intn(1200)
		}
	case "suffix-series", "zero-gauges":
		g.N = (100 + rng.Intn(200)) * scale
	case "set-runs":
		g.N = (300 + rng.Intn(600)) * scale
	default:
		if scale > 4 {
			scale /= 4
		}
		g.N = (200 + rng.Intn(300)) * scale
		if slowLz4 {
			g.N = 100 + rng.Intn(100)
		}
	}
	return &tcase{Kind: "map", Cfg: cfg, Index: idx, Reg: g}
}

func (g *regCase) tags(extra ...string) gostatsd.Tags {
	t := gostatsd.Tags{"cluster:" + strings.Repeat("a", g.TagLen), "kind:regular"}
	t = append(t, extra...)
	if g.RID != "" {
		t = append(t, ridPrefix+g.RID)
	}
	return t
}

// fill expands the descriptor into mm through the real MetricMap.Receive.
func (g *regCase) fill(mm *gostatsd.MetricMap) {
	v, rate := math.Float64frombits(g.V), math.Float64frombits(g.Rate)
	recv := func(typ gostatsd.MetricType, name string, value float64, str string, rt float64, tags gostatsd.Tags) {
		mm.Receive(&gostatsd.Metric{Name: name, Type: typ, Value: value, StringValue: str, Rate: rt, Tags: tags, Source: gostatsd.Source(g.Src), Timestamp: 1000})
	}
	timers := func(n int, slow bool) {
		for s := 0; s < g.Series; s++ {
			tags := g.tags(fmt.Sprintf("timer:%d", s))
			for i := 0; i < n; i++ {
				x := v
				if slow {
					x = v + float64(i/g.Step)
				}
				recv(gostatsd.TIMER, "regular.latency", x, "", rate, tags)
			}
		}
	}
	suffix := func(n int) {
		for i := 0; i < n; i++ {
			tags := g.tags(fmt.Sprintf("shard:%06d", i))
			switch i % 4 {
			case 0:
				recv(gostatsd.COUNTER, "regular.requests", 10, "", rate, tags)
			case 1:
				recv(gostatsd.GAUGE, "regular.queue", v, "", 1, tags)
			case 2:
				recv(gostatsd.TIMER, "regular.latency", v, "", rate, tags)
			default:
				recv(gostatsd.SET, "regular.users", 0, "user-000001", 1, tags)
			}
		}
	}
	sets := func(n int) {
		for s := 0; s < g.Series; s++ {
			tags := g.tags(fmt.Sprintf("set:%d", s))
			prefix := strings.Repeat("x", g.TagLen/4)
			for i := 0; i < n; i++ {
				recv(gostatsd.SET, "regular.users", 0, fmt.Sprintf("%suser-%07d", prefix, i), 1, tags)
			}
		}
	}
	zeros := func(n int) {
		for i := 0; i < n; i++ {
			recv(gostatsd.GAUGE, "regular.idle", 0, "", 1, g.tags(fmt.Sprintf("host:h%05d", i)))
		}
	}
	switch g.Shape {
	case "timer-identical":
		timers(g.N, false)
	case "timer-slow":
		timers(g.N, true)
	case "suffix-series":
		suffix(g.N)
	case "set-runs":
		sets(g.N)
	case "zero-gauges":
		zeros(g.N)
	default:
		timers(g.N*4, g.N%2 == 0)
		suffix(g.N)
		sets(g.N / 2)
		zeros(g.N)
	}
}

func ratioBucket(ratio float64) string {
	switch {
	case ratio < 2:
		return "lt2"
	case ratio < 10:
		return "2-10"
	case ratio < 100:
		return "10-100"
	case ratio < 1000:
		return "100-1000"
	}
	return "ge1000"
}

// ratios keeps the largest inflated/compressed ratio seen per compression type (evidence only).
type ratios struct {
	mu       sync.Mutex
	max      map[string]float64
	inflated map[string]int
}

func (rt *ratios) note(comp string, ratio float64, inflated int) {
	rt.mu.Lock()
	if rt.max == nil {
		rt.max, rt.inflated = map[string]float64{}, map[string]int{}
	}
	if ratio > rt.max[comp] {
		rt.max[comp] = math.Round(ratio*10) / 10
	}
	if inflated > rt.inflated[comp] {
		rt.inflated[comp] = inflated
	}
	rt.mu.Unlock()
}

// noteRegular measures the compression ratio the forwarder achieved for a regular batch with the
// harness' own decompressor and records it.
func (c *checker) noteRegular(tc *tcase, enc string, body []byte, where string) {
	if tc.Reg == nil || len(body) == 0 {
		return
	}
	known, raw, err := hDecompress(enc, body)
	if !known || err != nil {
		return
	}
	ratio := float64(len(raw)) / float64(len(body))
	comp := compOf(tc.Cfg)
	c.r.Event(fmt.Sprintf("regular_ratio:%s:%s", comp, ratioBucket(ratio)), 1)
	if len(raw) > 1<<20 {
		c.r.Event("regular_inflated_over_1MiB:"+comp, 1)
	}
	c.r.Event("regular_batches_"+where, 1)
	c.reg.note(comp, ratio, len(raw))
	c.r.Nontrivial(fmt.Sprintf("regular:%s:%s:%s:%s", where, tc.Reg.Shape, tc.Cfg, ratioBucket(ratio)))
}
