//go:build verif

package c14

// Overlapping posts of ONE forwarder: the first attempt(s) of batch 1 are answered 503 by the front
// (after it has read the whole body); while batch 1 waits in its real back-off, batch 2 and an event are
// dispatched and flushed on the same forwarder and succeed at once; then batch 1's retry is let through.
// With dynamic headers one flush is split into several bodies, which are all alive at the same time.
// Each batch must be dispatched exactly once (piece by piece) with exactly its own content, and what is
// re-sent for batch 1 must be byte-identical to its own first attempt.

import (
	"bytes"
	"context"
	"fmt"
	"math/rand"
	"net/http"
	"sort"
	"strings"
	"sync"
	"time"

	"google.golang.org/protobuf/proto"

	"github.com/atlassian/gostatsd/pb"

	"verif/mon"
	"verif/ref"
)

const regionPrefix = "region:"

var regions = []string{"us-east-1", "eu-west-1", "ap-southeast-2"}

// genOverlapBatch draws a map with the request id on every datapoint; with dyn, every datapoint also gets
// zero or one region tag, so the flush is split by the dynamic header "region".
func genOverlapBatch(rng *rand.Rand, cfg, rid string, idx int, size int, dyn bool) *tcase {
	if !dyn && rng.Intn(4) == 0 {
		tc := genRegularCase(rng, cfg, idx, 0)
		tc.Reg.RID = rid
		return tc
	}
	tc := genMapCase(rng, cfg, idx)
	for len(tc.DPs) < size {
		tc.DPs = append(tc.DPs, genMapCase(rng, cfg, idx).DPs...)
	}
	tc.DPs = tc.DPs[:size]
	tc.Ovr = nil
	for i := range tc.DPs {
		tags := append(append([]string{}, tc.DPs[i].Tags...), ridPrefix+rid)
		if dyn {
			if k := rng.Intn(len(regions) + 1); k < len(regions) {
				tags = append(tags, regionPrefix+regions[k])
			}
		}
		tc.DPs[i].Tags = tags
	}
	return tc
}

// pieces = number of bodies the forwarder makes of a map when it splits by the region tag.
func pieces(want map[string]*ref.Series, dyn bool) int {
	if !dyn {
		return 1
	}
	seen := map[string]struct{}{}
	for _, s := range want {
		var rs []string
		for _, t := range s.Tags {
			if strings.HasPrefix(t, regionPrefix) {
				rs = append(rs, t)
			}
		}
		seen[strings.Join(rs, ",")] = struct{}{}
	}
	return len(seen)
}

func ridsOfBody(path, enc string, body []byte) []string {
	known, raw, err := hDecompress(enc, body)
	if !known || err != nil {
		return nil
	}
	if path == "/v2/event" {
		var msg pb.EventV2
		if proto.Unmarshal(raw, &msg) != nil {
			return nil
		}
		return []string{eventRID(msg.GetTitle())}
	}
	var msg pb.RawMessageV2
	if proto.Unmarshal(raw, &msg) != nil {
		return nil
	}
	rids, _ := ridsOf(seriesOfPB(&msg))
	return rids
}

func (c *checker) overlapCase(cfg compCfg, dyn bool, idx int, rng *rand.Rand) {
	r := c.r
	shard, _ := r.Shard()
	ridA, ridB, ridE := fmt.Sprintf("A%d.%d", shard, idx), fmt.Sprintf("B%d.%d", shard, idx), fmt.Sprintf("E%d.%d", shard, idx)
	sizeA := 100 + rng.Intn(500)
	sizeB := []int{20 + rng.Intn(60), sizeA/2 + rng.Intn(sizeA), 800 + rng.Intn(1500)}[rng.Intn(3)]
	tcA := genOverlapBatch(rng, cfg.Name, ridA, idx, sizeA, dyn)
	tcB := genOverlapBatch(rng, cfg.Name, ridB, idx+1, sizeB, dyn)
	tcE := genEventCase(rng, cfg.Name, idx)
	tcE.Ev.Title = "R" + ridE + ";" + tcE.Ev.Title
	comp := compOf(cfg.Name)
	variant := "one-body"
	if dyn {
		variant = "dynamic-headers"
	}
	replay := map[string]interface{}{"kind": "overlap", "cfg": cfg.Name, "index": idx, "dyn": dyn}
	if len(tcA.DPs) <= 300 && len(tcB.DPs) <= 300 {
		replay["batch1"], replay["batch2"], replay["event"] = tcA, tcB, tcE
	}
	cap := &capture{}
	fr := &front{}
	srv, err := ingestionServer(cap, func(h http.Handler) http.Handler { fr.router = h; return fr })
	if err != nil {
		r.Violation("rig-setup:overlap", err.Error(), replay)
		return
	}
	defer srv.Close()
	var dynHeaders []string
	if dyn {
		dynHeaders = []string{"region"}
	}
	// 10 s window: the first retry still comes after 0.25-0.75 s, but a loaded machine must not make the
	// forwarder give up (dropping a batch after the window is C15's subject, not this check's)
	u, err := newFwdUnit(cfg, srv.URL, 1+idx%3, 10*time.Second, dynHeaders...)
	if err != nil {
		r.Violation("rig-setup:overlap", err.Error(), replay)
		return
	}
	abandoned := false
	defer func() {
		if !abandoned {
			u.close()
		}
	}()
	mmA, mmB := buildMap(tcA), buildMap(tcB)
	wantA, wantB, wantE := ref.FromMap(mmA), ref.FromMap(mmB), tcE.Ev.fields()
	nA, nB := pieces(wantA, dyn), pieces(wantB, dyn)
	cap.reset()
	fr.arm("503", nA)
	ctx := context.Background()
	// batch 1: every body of it gets 503 on its first attempt
	if !watchdogged(func() { u.fwd.DispatchMetricMap(ctx, mmA); u.fc.Flush() }) ||
		!mon.WaitUntil(20*time.Second, func() bool {
			n := 0
			for _, a := range fr.attempts() {
				if a.Fault != "" {
					n++
				}
			}
			return n >= nA
		}) {
		abandoned = true
		r.Inconclusive("overlap-first-attempts-watchdog")
		return
	}
	// batch 1 is in its back-off now: build and send batch 2 and an event on the same forwarder
	okB := watchdogged(func() {
		u.fwd.DispatchMetricMap(ctx, mmB)
		u.fc.Flush()
		u.fwd.DispatchEvent(ctx, tcE.Ev.event())
		for i := 0; i < nA+nB; i++ {
			u.fc.WaitForFlush()
		}
		u.fwd.WaitForEvents()
	})
	if !okB {
		abandoned = true
		r.Inconclusive("overlap-flush-watchdog")
		return
	}
	if timedOut(u.rec.snapshot()) {
		r.Inconclusive("forwarder-client-timeout")
		return
	}
	r.Eval(1)
	as := fr.attempts()
	maps, events := cap.snapshot()
	var desc []string
	firstRetryAt, lastOtherAt := -1, -1
	var faulted []attempt
	for i, a := range as {
		rids := ridsOfBody(a.Path, a.Enc, a.Body)
		desc = append(desc, fmt.Sprintf("#%d %s %dB ids=%v -> %d%s", i, a.Path, len(a.Body), rids, a.Status, map[bool]string{true: " (injected)", false: ""}[a.Fault != ""]))
		if a.Fault != "" {
			faulted = append(faulted, a)
			continue
		}
		if !ok2xx(a.Status) {
			r.Violation(fmt.Sprintf("overlap-rejected:%s:%s", a.Path, comp), fmt.Sprintf("config %s, %s: attempt #%d (%d bytes, ids %v) was answered %d by the real router", cfg.Name, variant, i, len(a.Body), rids, a.Status), replay)
		}
		if len(rids) == 1 && rids[0] == ridA {
			if firstRetryAt < 0 {
				firstRetryAt = i
			}
		} else {
			lastOtherAt = i
		}
	}
	// If the forwarder never re-sent a failed body and nothing was rejected, it gave up (or is still waiting):
	// nothing to judge about the bytes of a retry that does not exist.
	nonFaultRaw, rejectedAny := 0, false
	for _, a := range as {
		if a.Fault == "" {
			if a.Path == "/v2/raw" {
				nonFaultRaw++
			}
			if !ok2xx(a.Status) {
				rejectedAny = true
			}
		}
	}
	if len(faulted) != nA || (nonFaultRaw < nA+nB && !rejectedAny) {
		r.Inconclusive("overlap-no-retry-within-window")
		return
	}
	where := fmt.Sprintf("config %s, %s: batch 1 (%d series, %d bodies, first attempts answered 503), then batch 2 (%d series, %d bodies) and an event during batch 1's back-off; requests seen by the server: [%s]; dispatched %d maps, %d events", cfg.Name, variant, len(wantA), nA, len(wantB), nB, strings.Join(first(desc, 14), "; "), len(maps), len(events))
	// what is re-sent for a body of batch 1 must be that body
	for _, f := range faulted {
		same, bOnly := 0, 0
		for _, a := range as {
			if a.Fault != "" || a.Path != f.Path {
				continue
			}
			if bytes.Equal(a.Body, f.Body) {
				same++
			} else if rids := ridsOfBody(a.Path, a.Enc, a.Body); len(rids) == 1 && rids[0] == ridB {
				bOnly++
			}
		}
		if same != 1 {
			how := "not-resent-identically"
			if same > 1 {
				how = "resent-more-than-once"
			} else if bOnly > nB {
				how = "carries-the-later-batch"
			}
			r.Violation(fmt.Sprintf("overlap-retry-body-differs:%s:%s", comp, how), fmt.Sprintf("%s: a body of batch 1 (%d bytes) whose first attempt failed was re-sent identically %d times; %d requests carried only batch 2 (it has %d bodies)", where, len(f.Body), same, bOnly, nB), replay)
		}
	}
	// every batch dispatched exactly once, piece by piece, with exactly its own content
	got := map[string][]map[string]*ref.Series{}
	for _, m := range maps {
		rids, untagged := ridsOf(m)
		switch {
		case len(rids) > 1 || (len(rids) == 1 && untagged > 0):
			r.Violation("overlap-mixture-of-batches", fmt.Sprintf("%s: one dispatched map (%d series) holds series of %v and %d series without id", where, len(m), rids, untagged), replay)
		case len(rids) == 0 || (rids[0] != ridA && rids[0] != ridB):
			r.Violation("overlap-unattributable-dispatch", fmt.Sprintf("%s: a dispatched map with %d series belongs to neither batch (ids %v)", where, len(m), rids), replay)
		default:
			got[rids[0]] = append(got[rids[0]], m)
		}
	}
	for _, b := range []struct {
		name string
		rid  string
		want map[string]*ref.Series
		n    int
	}{{"batch1", ridA, wantA, nA}, {"batch2", ridB, wantB, nB}} {
		ms := got[b.rid]
		if len(ms) != b.n {
			word := "fewer"
			if len(ms) > b.n {
				word = "more"
			}
			r.Violation(fmt.Sprintf("overlap-dispatch-count:%s:%s", b.name, word), fmt.Sprintf("%s: %s was dispatched as %d maps, its %d bodies should give %d", where, b.name, len(ms), b.n, b.n), replay)
		}
		merged := map[string]*ref.Series{}
		dup := 0
		for _, m := range ms {
			for k, s := range m {
				if _, ok := merged[k]; ok {
					dup++
				}
				merged[k] = s
			}
		}
		if dup > 0 {
			r.Violation("overlap-series-dispatched-twice:"+b.name, fmt.Sprintf("%s: %d series of %s arrived in more than one dispatched map", where, dup, b.name), replay)
		}
		if len(ms) > 0 {
			if d := ref.Diff(merged, b.want, noTS); len(d) > 0 {
				r.Violation(fmt.Sprintf("overlap-map-differs:%s:%s", b.name, diffClass(d[0])), fmt.Sprintf("%s: what was dispatched for %s differs from what the forwarder was given: %s", where, b.name, strings.Join(first(d, 5), " | ")), replay)
			}
		}
	}
	nE := 0
	for _, e := range events {
		if eventRID(e.Title) != ridE {
			r.Violation("overlap-unattributable-dispatch", fmt.Sprintf("%s: a dispatched event (title %q) is not the one given", where, e.Title), replay)
			continue
		}
		nE++
		if d := diffEvent(e, wantE); len(d) > 0 {
			r.Violation("overlap-event-differs:"+strings.SplitN(d[0], " ", 2)[0], where+": "+strings.Join(d, "; "), replay)
		}
	}
	if nE != 1 {
		r.Violation("overlap-dispatch-count:event:"+map[bool]string{true: "fewer", false: "more"}[nE == 0], fmt.Sprintf("%s: the event was dispatched %d times", where, nE), replay)
	}
	overlapped := firstRetryAt >= 0 && lastOtherAt >= 0 && firstRetryAt > 0 && anyBefore(as, ridB, ridE, firstRetryAt)
	r.Event("overlap_cases", 1)
	r.Event("overlap_requests", len(as))
	if overlapped {
		// the later batch / event was built and posted while batch 1 was waiting for its retry
		r.Event("overlap_cases_with_post_during_backoff", 1)
		r.Nontrivial(fmt.Sprintf("overlap:%s:%s:bodies=%d+%d:b2=%s", variant, cfg.Name, nA, nB, sizeClass(len(wantB))))
	}
	if r.WantSample() && idx%4 == 0 {
		r.Sample(map[string]interface{}{"overlap": where})
	}
}

// anyBefore reports whether a request of batch 2 or the event reached the server before index limit.
func anyBefore(as []attempt, ridB, ridE string, limit int) bool {
	for i, a := range as {
		if i >= limit {
			break
		}
		if a.Fault != "" {
			continue
		}
		for _, rid := range ridsOfBody(a.Path, a.Enc, a.Body) {
			if rid == ridB || rid == ridE {
				return true
			}
		}
	}
	return false
}

// overlapWave runs the overlap cases of one wave on parallel goroutines.
func (c *checker) overlapWave(wave int, cfgs []compCfg) {
	r := c.r
	r.Case("overlap wave %d: %d configurations x {one body, dynamic headers}", wave, len(cfgs))
	// at most eight cases at a time: each runs its own server and forwarder and must get its retry out in time
	var wg sync.WaitGroup
	k := 0
	for _, cfg := range cfgs {
		for _, dyn := range []bool{false, true} {
			cfg, dyn := cfg, dyn
			idx := wave*1000 + k*2
			rng := r.Rand(fmt.Sprintf("overlap/%d/%d", wave, k))
			k++
			wg.Add(1)
			go func() {
				defer wg.Done()
				c.overlapCase(cfg, dyn, idx, rng)
			}()
			if k%8 == 0 {
				wg.Wait()
			}
		}
	}
	wg.Wait()
}

// overlapConfigs: quick = off (control), one zlib and one lz4 level per shard and wave; thorough = all 22.
func overlapConfigs(all []compCfg, thorough bool, shard, wave int) []compCfg {
	if thorough {
		return all
	}
	byName := map[string]compCfg{}
	for _, c := range all {
		byName[c.Name] = c
	}
	l := (shard*3 + wave*7 + 1) % 10
	names := []string{"off", fmt.Sprintf("zlib-%d", l), fmt.Sprintf("lz4-%d", (l+4)%10)}
	sort.Strings(names)
	out := make([]compCfg, 0, len(names))
	for _, n := range names {
		out = append(out, byName[n])
	}
	return out
}
