//go:build verif

package c14

// Long-lived forwarder: one forwarder with a small max-request-elapsed-time (3 s) is used over a lifetime
// longer than that window - a batch while it is young, a real pause, then several batches and events - and
// every item is hit by one transient failure (503 / 500 / connection reset on its first attempt, the
// ingesting server being back at once). Whatever the forwarder's age, everything it was given must still
// be decoded exactly once by the ingesting server, from a retry that is byte-identical to the first attempt.
//
// A case lasts 5-7 s of real time (the pause is the workload, not a synchronisation), so only one runs per
// shard in the quick tier, on a background goroutine next to the other phases.

import (
	"bytes"
	"fmt"
	"math/rand"
	"net/http"
	"strings"
	"time"

	"verif/ref"
)

const agedWindow = 3 * time.Second

// agedCase returns the description of a "no retry although well inside the window" observation ("" if none):
// it is a violation only when a second run of the same case shows it again.
func (c *checker) agedCase(cfg compCfg, idx int, rng *rand.Rand, confirm bool) string {
	r := c.r
	cap := &capture{}
	fr := &front{}
	srv, err := ingestionServer(cap, func(h http.Handler) http.Handler { fr.router = h; return fr })
	if err != nil {
		r.Violation("rig-setup:aged", err.Error(), nil)
		return ""
	}
	defer srv.Close()
	born := time.Now() // the forwarder is constructed after this reading: its age is at least time.Since(born) - setup
	u, err := newFwdUnit(cfg, srv.URL, 1+idx%3, agedWindow)
	if err != nil {
		r.Violation("rig-setup:aged", err.Error(), nil)
		return ""
	}
	abandoned := false
	defer func() {
		if !abandoned {
			u.close()
		}
	}()
	born = time.Now() // (after construction: the forwarder is older than anything measured from here)
	comp := compOf(cfg.Name)
	suspicion := ""
	item := func(n int, phase string) bool {
		kind := []string{"map", "event", "map", "event", "map"}[n%5]
		fault := retryFaults[(idx+n)%len(retryFaults)]
		var tc *tcase
		switch {
		case kind == "event":
			tc = genEventCase(rng, cfg.Name, idx*10+n)
		case n%5 == 2:
			tc = genRegularCase(rng, cfg.Name, idx*10+n, 0)
		default:
			tc = genAllTypesMap(rng, cfg.Name, idx*10+n)
		}
		replay := map[string]interface{}{"kind": "aged", "cfg": cfg.Name, "index": idx, "item": n, "phase": phase, "fault": fault, "case": tc}
		cap.reset()
		u.rec.reset()
		fr.rearm(fault, 1)
		var wantMap map[string]*ref.Series
		var wantEv evFields
		age := time.Since(born)
		t0 := time.Now()
		sent := false
		if kind == "map" {
			mm := buildMap(tc)
			wantMap = ref.FromMap(mm)
			t0 = time.Now()
			sent = u.sendMap(mm)
		} else {
			wantEv = tc.Ev.fields()
			sent = u.sendEvent(tc.Ev.event())
		}
		if !sent {
			abandoned = true
			r.Inconclusive("forwarder-flush-watchdog")
			return false
		}
		recs := u.rec.snapshot()
		if timedOut(recs) {
			r.Inconclusive("forwarder-client-timeout")
			return true
		}
		r.Eval(1)
		r.Event("aged_items_"+phase, 1)
		as := fr.attempts()
		maps, events := cap.snapshot()
		var desc []string
		for _, a := range as {
			desc = append(desc, fmt.Sprintf("%s %dB -> %d%s", a.Path, len(a.Body), a.Status, map[bool]string{true: " (injected " + a.Fault + ")", false: ""}[a.Fault != ""]))
		}
		where := fmt.Sprintf("config %s, forwarder aged >= %v with max-request-elapsed-time %v, %s #%d (%s), first attempt answered with %s; requests seen by the server: [%s]; dispatched %d maps, %d events", cfg.Name, age.Round(100*time.Millisecond), agedWindow, kind, n, phase, fault, strings.Join(desc, "; "), len(maps), len(events))
		if len(as) == 0 || as[0].Fault == "" {
			r.Violation("aged-first-attempt-missing:"+kind, where, replay)
			return true
		}
		if len(as) < 2 {
			// No retry. The forwarder may give up only when its window for THIS post is over; judged on the recorded
			// bracket [dispatch, first round trip returned to the forwarder]: well inside the window => it had to retry.
			took := agedWindow
			if len(recs) > 0 {
				took = recs[0].At.Sub(t0)
			}
			if took < agedWindow/3 {
				msg := fmt.Sprintf("%s: the failed first attempt had returned to the forwarder %v after the dispatch, yet it never tried again: what the ingesting server decoded is less than what the forwarder was given", where, took.Round(time.Millisecond))
				suspicion = msg
				if confirm {
					r.Violation(fmt.Sprintf("aged-forwarder-no-retry:%s:%s:%s", phase, kind, fault), msg, replay)
				}
			} else {
				r.Inconclusive("aged-first-attempt-slow")
			}
			return true
		}
		for i, a := range as[1:] {
			if !bytes.Equal(a.Body, as[0].Body) || a.Enc != as[0].Enc || a.Path != as[0].Path {
				r.Violation(fmt.Sprintf("aged-retry-differs:%s:%s", kind, comp), fmt.Sprintf("%s: attempt %d is not the first attempt again", where, i+2), replay)
			}
		}
		if !ok2xx(as[1].Status) {
			r.Violation(fmt.Sprintf("aged-retry-rejected:%s:%s", kind, comp), where, replay)
		}
		nD, other := len(maps), len(events)
		if kind == "event" {
			nD, other = other, nD
		}
		if nD != 1 || other != 0 {
			r.Violation(fmt.Sprintf("aged-dispatch-count:%s:%s:%s", phase, kind, cmpWord(nD)), where+": exactly one dispatch was expected", replay)
		}
		if kind == "map" {
			for _, m := range maps {
				if d := ref.Diff(m, wantMap, noTS); len(d) > 0 {
					r.Violation("aged-map-differs:"+diffClass(d[0]), where+": "+strings.Join(first(d, 5), " | "), replay)
				}
			}
		} else {
			for _, e := range events {
				if d := diffEvent(e, wantEv); len(d) > 0 {
					r.Violation("aged-event-differs:"+strings.SplitN(d[0], " ", 2)[0], where+": "+strings.Join(d, "; "), replay)
				}
			}
		}
		r.Nontrivial(fmt.Sprintf("aged:%s:%s:%s:%s", phase, kind, fault, cfg.Name))
		if r.WantSample() && phase == "older-than-window" && n == 2 {
			r.Sample(map[string]interface{}{"aged_forwarder": where})
		}
		return true
	}
	if !item(0, "young") {
		return suspicion
	}
	// the pause is the workload: let the forwarder grow older than its max-request-elapsed-time
	if rest := agedWindow + 400*time.Millisecond - time.Since(born); rest > 0 {
		time.Sleep(rest)
	}
	for n := 1; n <= 4; n++ {
		if !item(n, "older-than-window") {
			break
		}
		if n == 2 {
			time.Sleep(time.Duration(100+rng.Intn(400)) * time.Millisecond)
		}
	}
	return suspicion
}

// agedRun runs n aged cases one after the other (on a background goroutine of TestCheck).
func (c *checker) agedRun(cfgs []compCfg, n int) {
	r := c.r
	shard, _ := r.Shard()
	names := []string{"zlib-9", "off", "lz4-0", "zlib-1", "none", "lz4-5", "zlib-6", "lz4-9"}
	byName := map[string]compCfg{}
	for _, cfg := range cfgs {
		byName[cfg.Name] = cfg
	}
	for k := 0; k < n; k++ {
		cfg := byName[names[(shard+k*3)%len(names)]]
		idx := shard*100 + k
		if s := c.agedCase(cfg, idx, r.Rand(fmt.Sprintf("aged/%d", k)), false); s != "" {
			// seen once: the same case again, with a fresh forwarder; only a repeat is reported
			if s2 := c.agedCase(cfg, idx, r.Rand(fmt.Sprintf("aged/%d", k)), true); s2 == "" {
				r.Inconclusive("aged-no-retry-seen-once")
			}
		}
		r.Event("aged_cases", 1)
	}
}
