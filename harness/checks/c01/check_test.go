//go:build verif

// C01 — every datapoint lands in exactly one flush: no loss, no duplication.
//
// The real standalone pipeline (DatagramParser x P -> TagHandler -> BackendHandler with W aggregator
// workers and per-worker queue Q -> MetricFlusher on a mock clock -> capturing backend) is fed by G
// concurrent generator goroutines while a driver goroutine fires flush ticks continuously. Every
// timer value and set member is a unique id, counters use small integers with dyadic rates, so the
// oracle over the captured flushes is exact set / sum conservation.
package c01

import (
	"context"
	"errors"
	"fmt"
	"math"
	"math/rand"
	"net"
	"runtime"
	"sort"
	"strconv"
	"strings"
	"sync"
	"sync/atomic"
	"testing"
	"time"

	"github.com/sirupsen/logrus"
	"github.com/spf13/viper"
	"github.com/tilinna/clock"

	"github.com/atlassian/gostatsd"
	"github.com/atlassian/gostatsd/pkg/stats"
	"github.com/atlassian/gostatsd/pkg/statsd"
	"github.com/atlassian/gostatsd/pkg/transport"

	"github.com/atlassian/gostatsd/pkg/cachedinstances/cloudprovider"
	"golang.org/x/time/rate"

	"verif/mon"
	"verif/ref"
)

type config struct {
	Exec      int    `json:"exec"`
	Parsers   int    `json:"parsers"`
	Workers   int    `json:"workers"`
	Queue     int    `json:"queue"`
	Gens      int    `json:"generators"`
	Batches   int    `json:"batches_per_generator"`
	Series    int    `json:"series_per_type"`
	Namespace string `json:"namespace"`
	Expiry    string `json:"expiry"`
	Bursty    bool   `json:"bursty"`
	// Mode "pipeline" wires the stages by hand on a mock clock; "server" runs the real statsd.Server
	// (RunWithCustomSocket: receiver, parser, tag stage, backend handler, flusher exactly as wired in
	// production) on a scripted PacketConn with a real 3 ms flush interval.
	Mode      string `json:"mode"`
	Readers   int    `json:"readers,omitempty"`
	RecvBatch int    `json:"receive_batch,omitempty"`
	// Cloud puts the real CachedCloudProvider (over a scripted provider that always answers, after a varying
	// delay) and the cloud stage into the server: datapoints of a not-yet-known host are parked until its lookup
	// completes; cache entries expire after a few milliseconds, so lookups, refreshes and parked batches keep
	// interleaving for the whole run. Jumbo makes some datagrams as large as UDP allows.
	Cloud bool `json:"cloud,omitempty"`
	Jumbo bool `json:"jumbo,omitempty"`
	// Static are the server's default-tags: the tag stage adds them to every series (they are part of the series
	// identity the oracle expects); some collide with tags that lines or the cloud provider carry themselves.
	Static []string `json:"static_tags,omitempty"`
}

// cloudSources is the host pool of cloud executions; cloudTags / cloudID is what the scripted provider answers.
var cloudSources = func() []string {
	var out []string
	for i := 0; i < 48; i++ {
		out = append(out, fmt.Sprintf("10.9.%d.%d", i/8, 1+i%8))
	}
	return out
}()

func cloudID(src string) string { return "i-" + src }
func cloudTags(src string) []string {
	last := src[strings.LastIndexByte(src, '.')+1:]
	tags := []string{"az:z" + last}
	if last == "2" || last == "5" {
		tags = append(tags, "env:prod") // collides with a tag some lines carry themselves
	}
	return tags
}

// scriptedProvider answers every lookup with the instance derived from the address.
type scriptedProvider struct {
	batch int
	calls atomic.Int64
	ips   atomic.Int64
}

func (p *scriptedProvider) Name() string           { return "scripted" }
func (p *scriptedProvider) MaxInstancesBatch() int { return p.batch }
func (p *scriptedProvider) EstimatedTags() int     { return 2 }
func (p *scriptedProvider) Instance(ctx context.Context, ips ...gostatsd.Source) (map[gostatsd.Source]*gostatsd.Instance, error) {
	n := p.calls.Add(1)
	p.ips.Add(int64(len(ips)))
	switch n % 5 { // varying latency, not a synchronisation
	case 0:
		time.Sleep(time.Duration(n%7) * 100 * time.Microsecond)
	case 1, 2:
		for i := int64(0); i < n%40; i++ {
			runtime.Gosched()
		}
	}
	out := make(map[gostatsd.Source]*gostatsd.Instance, len(ips))
	for _, ip := range ips {
		out[ip] = &gostatsd.Instance{ID: gostatsd.Source(cloudID(string(ip))), Tags: gostatsd.Tags(cloudTags(string(ip)))}
	}
	return out, nil
}

// spyStatser counts flush notifications and accumulates Report()ed counters.
type spyStatser struct {
	stats.Statser
	flushes  atomic.Int64
	mu       sync.Mutex
	reported map[string]uint64
}

func newSpy() *spyStatser {
	return &spyStatser{Statser: stats.NewNullStatser(), reported: map[string]uint64{}}
}

func (s *spyStatser) NotifyFlush(ctx context.Context, d time.Duration) {
	s.flushes.Add(1)
	s.Statser.NotifyFlush(ctx, d)
}

func (s *spyStatser) Report(name string, value *uint64, tags gostatsd.Tags) {
	v := atomic.SwapUint64(value, 0)
	s.mu.Lock()
	s.reported[name] += v
	s.mu.Unlock()
}

func (s *spyStatser) get(name string) uint64 {
	s.mu.Lock()
	defer s.mu.Unlock()
	return s.reported[name]
}

func (s *spyStatser) WithTags(tags gostatsd.Tags) stats.Statser { return s }

// capture is one map handed to the backend.
type capture struct {
	flush  int64
	stamp  int64
	series map[string]*ref.Series
}

type captureBackend struct {
	r       *mon.Run
	spy     *spyStatser
	workers int // server mode: no spy statser; see pending / group below
	mu      sync.Mutex
	all     []capture
	// slim (server mode: thousands of idle series are re-reported every few milliseconds): "no series twice in one
	// flush" is judged online, then series that carry no data are dropped from the stored copy and a gauge is kept
	// only the first time it shows a value
	slim       bool
	// In server mode the flusher cannot be observed directly (null statser). It waits for the callbacks of one
	// flush before it starts the next, so the backend holds the callbacks until every worker has handed its map
	// over: a flush is exactly the set of hand-overs between two releases.
	pending    []gostatsd.SendCallback
	group      int64
	open       bool // callbacks are answered at once (set before the server is stopped)
	curFlush   int64
	curKeys    map[string]bool
	gaugesSeen map[string]map[float64]bool
	problems   []string
}

func (b *captureBackend) Name() string { return "capture" }
func (b *captureBackend) SendEvent(ctx context.Context, e *gostatsd.Event) error {
	return nil
}
func (b *captureBackend) SendMetricsAsync(ctx context.Context, mm *gostatsd.MetricMap, cb gostatsd.SendCallback) {
	// The copy must be synchronous: the aggregator resets the map as soon as this returns.
	c := capture{stamp: b.r.Stamp(), series: ref.FromMap(mm)}
	b.mu.Lock()
	if b.spy != nil {
		c.flush = b.spy.flushes.Load()
	} else {
		c.flush = b.group
	}
	if b.slim {
		if b.curKeys == nil || c.flush != b.curFlush {
			b.curFlush, b.curKeys = c.flush, map[string]bool{}
		}
		if b.gaugesSeen == nil {
			b.gaugesSeen = map[string]map[float64]bool{}
		}
		for k, s := range c.series {
			if b.curKeys[k] && len(b.problems) < 20 {
				b.problems = append(b.problems, fmt.Sprintf("twice-in-one-flush: series %q reported twice in flush %d", k, c.flush))
			}
			b.curKeys[k] = true
			switch s.Type {
			case 1:
				if s.Counter == 0 {
					delete(c.series, k)
				}
			case 2:
				if len(s.Values) == 0 && s.SampledCount == 0 {
					delete(c.series, k)
				}
			case 3:
				if b.gaugesSeen[k] == nil {
					b.gaugesSeen[k] = map[float64]bool{}
				}
				if b.gaugesSeen[k][s.Gauge] {
					delete(c.series, k)
				}
				b.gaugesSeen[k][s.Gauge] = true
			case 4:
				if len(s.Members) == 0 {
					delete(c.series, k)
				}
			}
		}
	}
	b.all = append(b.all, c)
	if b.spy != nil || b.open {
		b.mu.Unlock()
		go cb(nil)
		return
	}
	b.pending = append(b.pending, cb)
	var release []gostatsd.SendCallback
	if len(b.pending) >= b.workers {
		release, b.pending = b.pending, nil
		b.group++
	}
	b.mu.Unlock()
	for _, f := range release {
		go f(nil)
	}
}

// releaseAll answers every held callback and lets later ones through at once (before the server is stopped: a
// flush cut short by the shutdown hands over fewer maps than there are workers).
func (b *captureBackend) releaseAll() {
	b.mu.Lock()
	release := b.pending
	b.pending, b.open = nil, true
	b.mu.Unlock()
	for _, f := range release {
		go f(nil)
	}
}

func (b *captureBackend) onlineProblems() []string {
	b.mu.Lock()
	defer b.mu.Unlock()
	return append([]string(nil), b.problems...)
}

func (b *captureBackend) snapshot() []capture {
	b.mu.Lock()
	defer b.mu.Unlock()
	return append([]capture(nil), b.all...)
}

// expectation accumulated by one generator goroutine.
type expect struct {
	counters map[string]int64   // series key -> sum of trunc(v/rate)
	sampled  map[string]float64 // timer series key -> sum of 1/rate
	timerIDs map[string]map[float64]bool
	members  map[string]map[string]bool
	gauges   map[string]map[float64]bool
	lines    int
}

func newExpect() *expect {
	return &expect{counters: map[string]int64{}, sampled: map[string]float64{}, timerIDs: map[string]map[float64]bool{}, members: map[string]map[string]bool{}, gauges: map[string]map[float64]bool{}}
}

var tagVariants = [][]string{nil, {"env:prod"}, {"env:dev", "region:us"}, {"b", "a:1"}, {"dup", "dup"}}
var sources = []string{"10.0.0.1", "10.0.0.2", "192.168.7.9"}
var rates = []float64{1, 0.5, 0.25, 0.125}

func uniq(tags []string) []string {
	seen := map[string]bool{}
	var out []string
	for _, t := range tags {
		if !seen[t] {
			seen[t] = true
			out = append(out, t)
		}
	}
	return out
}

func seriesKey(typ int, ns, name string, tags []string, source string) string {
	if ns != "" {
		name = ns + "." + name
	}
	return ref.Key(typ, name, ref.TagsKey(uniq(tags), source))
}

func fmtRate(v float64) string {
	return strings.TrimRight(strings.TrimRight(fmt.Sprintf("%.3f", v), "0"), ".")
}

// generator pushes cfg.Batches batches of datagrams into in and returns what it sent.
func generator(g int, cfg config, rng *rand.Rand, in chan<- []*statsd.Datagram, tsBase int64, tsCounter *atomic.Int64, idCounter *atomic.Int64) *expect {
	return generatorTo(g, cfg, rng, func(batch []*statsd.Datagram) { in <- batch }, tsBase, tsCounter, idCounter)
}

func generatorTo(g int, cfg config, rng *rand.Rand, emit func([]*statsd.Datagram), tsBase int64, tsCounter *atomic.Int64, idCounter *atomic.Int64) *expect {
	ex := newExpect()
	for b := 0; b < cfg.Batches; b++ {
		ndg := 1 + rng.Intn(4)
		batch := make([]*statsd.Datagram, 0, ndg)
		for d := 0; d < ndg; d++ {
			src := sources[rng.Intn(len(sources))]
			if cfg.Cloud {
				src = cloudSources[rng.Intn(len(cloudSources))]
			}
			var sb strings.Builder
			nl := 1 + rng.Intn(20)
			if cfg.Jumbo && rng.Intn(6) == 0 {
				nl = 300 + rng.Intn(1900) // capped below at the largest UDP payload
			}
			seenGauge := map[string]bool{}
			for l := 0; l < nl; l++ {
				if sb.Len() > 65507-80 {
					break // the next line might not fit into one UDP datagram
				}
				s := rng.Intn(cfg.Series)
				tags := tagVariants[rng.Intn(len(tagVariants))]
				tagStr := ""
				if len(tags) > 0 {
					tagStr = "|#" + strings.Join(tags, ",")
				}
				src := src
				if cfg.Cloud {
					// what the cloud stage makes of it: the instance's tags are appended, the host becomes the instance id
					tags = append(append([]string(nil), tags...), cloudTags(src)...)
					src = cloudID(src)
				}
				if len(cfg.Static) > 0 {
					tags = append(append([]string(nil), tags...), cfg.Static...)
				}
				switch typ := 1 + rng.Intn(4); typ {
				case 1:
					name := fmt.Sprintf("c.s%d", s)
					if rng.Intn(3) == 0 {
						// fractional values and non-dyadic rates: value/rate is not an integer, so the truncation
						// direction matters (towards zero, also for negative quotients)
						v := float64(rng.Intn(81)-40) / 4
						rate := []float64{1, 0.5, 0.3, 0.7, 0.15}[rng.Intn(5)]
						vs, rs := strconv.FormatFloat(v, 'f', -1, 64), strconv.FormatFloat(rate, 'f', -1, 64)
						fmt.Fprintf(&sb, "%s:%s|c|@%s%s\n", name, vs, rs, tagStr)
						pv, _ := strconv.ParseFloat(vs, 64)
						pr, _ := strconv.ParseFloat(rs, 64)
						ex.counters[seriesKey(1, cfg.Namespace, name, tags, src)] += int64(math.Trunc(pv / pr))
						break
					}
					v := rng.Intn(41) - 20
					rate := rates[rng.Intn(len(rates))]
					fmt.Fprintf(&sb, "%s:%d|c|@%s%s\n", name, v, fmtRate(rate), tagStr)
					ex.counters[seriesKey(1, cfg.Namespace, name, tags, src)] += int64(float64(v) / rate)
				case 2:
					id := float64(idCounter.Add(1))
					rate := rates[rng.Intn(len(rates))]
					name := fmt.Sprintf("t.s%d", s)
					typeLetter := "ms"
					if rng.Intn(4) == 0 {
						typeLetter = "h"
					}
					fmt.Fprintf(&sb, "%s:%.0f|%s|@%s%s\n", name, id, typeLetter, fmtRate(rate), tagStr)
					k := seriesKey(2, cfg.Namespace, name, tags, src)
					if ex.timerIDs[k] == nil {
						ex.timerIDs[k] = map[float64]bool{}
					}
					ex.timerIDs[k][id] = true
					ex.sampled[k] += 1 / rate
				case 3:
					name := fmt.Sprintf("g.s%d", s)
					k := seriesKey(3, cfg.Namespace, name, tags, src)
					if seenGauge[k] {
						continue
					}
					seenGauge[k] = true
					v := float64(idCounter.Add(1))
					fmt.Fprintf(&sb, "%s:%.0f|g%s\n", name, v, tagStr)
					if ex.gauges[k] == nil {
						ex.gauges[k] = map[float64]bool{}
					}
					ex.gauges[k][v] = true
				case 4:
					name := fmt.Sprintf("s.s%d", s)
					member := fmt.Sprintf("m%d", idCounter.Add(1))
					fmt.Fprintf(&sb, "%s:%s|s%s\n", name, member, tagStr)
					k := seriesKey(4, cfg.Namespace, name, tags, src)
					if ex.members[k] == nil {
						ex.members[k] = map[string]bool{}
					}
					ex.members[k][member] = true
				}
				ex.lines++
			}
			msg := []byte(sb.String())
			if rng.Intn(2) == 0 && len(msg) > 0 {
				msg = msg[:len(msg)-1] // no trailing newline
			}
			buf := msg
			batch = append(batch, &statsd.Datagram{
				IP:        gostatsd.Source(src),
				Msg:       msg,
				Timestamp: gostatsd.Nanotime(tsBase + tsCounter.Add(1)),
				DoneFunc: func() {
					for i := range buf {
						buf[i] = 0xAA // the buffer is recycled by the receiver as soon as the parser is done with it
					}
				},
			})
		}
		emit(batch)
		if cfg.Bursty {
			switch rng.Intn(6) {
			case 0:
				for i := 0; i < 50; i++ {
					runtime.Gosched()
				}
			case 1:
				time.Sleep(time.Duration(rng.Intn(300)) * time.Microsecond) // idle phase, not a synchronisation
			}
		}
	}
	return ex
}

func merge(into, from *expect) {
	for k, v := range from.counters {
		into.counters[k] += v
	}
	for k, v := range from.sampled {
		into.sampled[k] += v
	}
	for k, m := range from.timerIDs {
		if into.timerIDs[k] == nil {
			into.timerIDs[k] = map[float64]bool{}
		}
		for id := range m {
			into.timerIDs[k][id] = true
		}
	}
	for k, m := range from.members {
		if into.members[k] == nil {
			into.members[k] = map[string]bool{}
		}
		for id := range m {
			into.members[k][id] = true
		}
	}
	for k, m := range from.gauges {
		if into.gauges[k] == nil {
			into.gauges[k] = map[float64]bool{}
		}
		for id := range m {
			into.gauges[k][id] = true
		}
	}
	into.lines += from.lines
}

// totals recomputed from the captures.
type totals struct {
	counters map[string]int64
	sampled  map[string]float64
	ids      int
	members  int
	problems []string
	spread   map[string]int // series -> number of flushes in which it carried data
}

func analyse(caps []capture, want *expect) *totals {
	t := &totals{counters: map[string]int64{}, sampled: map[string]float64{}, spread: map[string]int{}}
	seenID := map[string]map[float64]int64{}
	seenMember := map[string]map[string]int64{}
	perFlush := map[int64]map[string]bool{}
	add := func(format string, a ...interface{}) {
		if len(t.problems) < 20 {
			t.problems = append(t.problems, fmt.Sprintf(format, a...))
		}
	}
	known := func(k string) bool {
		if _, ok := want.counters[k]; ok {
			return true
		}
		if _, ok := want.timerIDs[k]; ok {
			return true
		}
		if _, ok := want.gauges[k]; ok {
			return true
		}
		_, ok := want.members[k]
		return ok
	}
	for _, c := range caps {
		pf := perFlush[c.flush]
		if pf == nil {
			pf = map[string]bool{}
			perFlush[c.flush] = pf
		}
		for k, s := range c.series {
			if pf[k] {
				add("twice-in-one-flush: series %q reported twice in flush %d", k, c.flush)
			}
			pf[k] = true
			if !known(k) {
				add("never-sent: series %q (tags %q source %q) reported in flush %d but never sent", k, s.Tags, s.Source, c.flush)
				continue
			}
			switch s.Type {
			case 1:
				t.counters[k] += s.Counter
				if s.Counter != 0 {
					t.spread[k]++
				}
			case 2:
				t.sampled[k] += s.SampledCount
				if len(s.Values) > 0 {
					t.spread[k]++
				}
				if seenID[k] == nil {
					seenID[k] = map[float64]int64{}
				}
				for _, v := range s.Values {
					if !want.timerIDs[k][v] {
						add("timer-foreign-value: series %q reported value %v that was never sent to it", k, v)
					} else if f, dup := seenID[k][v]; dup {
						add("timer-duplicate: series %q value %v reported in flush %d and again in flush %d", k, v, f, c.flush)
					} else {
						seenID[k][v] = c.flush
						t.ids++
					}
				}
			case 3:
				if !want.gauges[k][s.Gauge] {
					add("gauge-foreign-value: series %q reported %v, never sent", k, s.Gauge)
				}
			case 4:
				if len(s.Members) > 0 {
					t.spread[k]++
				}
				if seenMember[k] == nil {
					seenMember[k] = map[string]int64{}
				}
				for _, m := range s.Members {
					if !want.members[k][m] {
						add("set-foreign-member: series %q reported member %q that was never sent to it", k, m)
					} else if f, dup := seenMember[k][m]; dup {
						add("set-duplicate: series %q member %q reported in flush %d and again in flush %d", k, m, f, c.flush)
					} else {
						seenMember[k][m] = c.flush
						t.members++
					}
				}
			}
		}
	}
	return t
}

func complete(t *totals, want *expect) bool {
	wantIDs, wantMembers := 0, 0
	for _, m := range want.timerIDs {
		wantIDs += len(m)
	}
	for _, m := range want.members {
		wantMembers += len(m)
	}
	if t.ids != wantIDs || t.members != wantMembers {
		return false
	}
	for k, v := range want.counters {
		if t.counters[k] != v {
			return false
		}
	}
	return true
}

func runExecution(t *testing.T, r *mon.Run, cfg config) {
	r.Case("execution %+v", cfg)
	logger := logrus.New()
	logger.SetLevel(logrus.PanicLevel)
	logrus.SetLevel(logrus.PanicLevel)

	spy := newSpy()
	be := &captureBackend{r: r, spy: spy}
	var expC, expG, expS, expT time.Duration
	switch cfg.Expiry {
	case "never":
	case "immediate":
		expC, expG, expS, expT = -1, -1, -1, -1
	default:
		expC, expG, expS, expT = time.Hour, time.Hour, time.Hour, time.Hour
	}
	af := statsd.AggregatorFactoryFunc(func() statsd.Aggregator {
		return statsd.NewMetricAggregator([]float64{90}, expC, expG, expS, expT, gostatsd.TimerSubtypes{}, 10)
	})
	backends := []gostatsd.Backend{be}
	bh := statsd.NewBackendHandler(backends, 4, cfg.Workers, cfg.Queue, af)
	flushInterval := time.Second
	flusher := statsd.NewMetricFlusher(flushInterval, 0, false, bh, backends)
	th := statsd.NewTagHandlerFromViper(viper.New(), bh, nil)
	in := make(chan []*statsd.Datagram)
	parser := statsd.NewDatagramParser(in, cfg.Namespace, false, 0, th, 0, false, logger)

	mock := clock.NewMock(time.Now())
	ctx, cancel := context.WithCancel(stats.NewContext(clock.Context(context.Background(), mock), spy))
	var wg sync.WaitGroup
	start := func(f func(context.Context)) {
		wg.Add(1)
		go func() { defer wg.Done(); f(ctx) }()
	}
	start(bh.Run)
	start(flusher.Run)
	start(parser.RunMetricsContext)
	for i := 0; i < cfg.Parsers; i++ {
		start(parser.Run)
	}
	// the flusher registers its ticker asynchronously
	if !mon.WaitUntil(30*time.Second, func() bool { return mock.Len() >= 1 }) {
		r.Inconclusive("flusher-ticker-not-registered")
		cancel()
		return
	}

	// flush driver: fires ticks continuously, racing the merges on every shard
	stopTicks := make(chan struct{})
	var tickWG sync.WaitGroup
	tickWG.Add(1)
	go func() {
		defer tickWG.Done()
		tr := r.Rand(fmt.Sprintf("exec%d-ticker", cfg.Exec))
		for {
			select {
			case <-stopTicks:
				return
			default:
			}
			mock.Add(flushInterval)
			for i, n := 0, tr.Intn(40); i < n; i++ {
				runtime.Gosched()
			}
		}
	}()

	tsBase := time.Now().UnixNano()
	var tsCounter, idCounter atomic.Int64
	idCounter.Store(int64(cfg.Exec) << 32 % (1 << 50))
	exps := make([]*expect, cfg.Gens)
	var gwg sync.WaitGroup
	flushesBefore := spy.flushes.Load()
	for g := 0; g < cfg.Gens; g++ {
		gwg.Add(1)
		go func(g int) {
			defer gwg.Done()
			exps[g] = generator(g, cfg, r.Rand(fmt.Sprintf("exec%d-gen%d", cfg.Exec, g)), in, tsBase, &tsCounter, &idCounter)
		}(g)
	}
	gwg.Wait()
	flushesDuring := spy.flushes.Load() - flushesBefore
	want := newExpect()
	for _, e := range exps {
		merge(want, e)
	}

	// Quiescence 1: the parsers have dispatched every line (their own counter, reported at flush notifications).
	ok := mon.WaitUntil(60*time.Second, func() bool { return spy.get("parser.metrics_received") >= uint64(want.lines) })
	close(stopTicks)
	tickWG.Wait()
	if !ok {
		r.Violation("parser-lost-lines", fmt.Sprintf("parser.metrics_received=%d after 60s, %d valid lines were sent (%+v)", spy.get("parser.metrics_received"), want.lines, cfg), cfg)
		cancel()
		return
	}
	if got := spy.get("parser.metrics_received"); got != uint64(want.lines) {
		r.Violation("parser-count", fmt.Sprintf("parser.metrics_received=%d, %d valid lines were sent", got, want.lines), cfg)
	}
	if bad := spy.get("parser.bad_lines_seen"); bad != 0 {
		r.Violation("parser-bad-lines", fmt.Sprintf("%d well-formed lines counted as bad", bad), cfg)
	}

	// Quiescence 2: flush until everything sent is accounted for. A queued batch survives one flush with
	// probability <= 1/2 (random select between queue and flush command), so 200 flushes is a logical bound.
	oneFlush := func() bool {
		before := len(be.snapshot())
		mock.Add(flushInterval)
		return mon.WaitUntil(30*time.Second, func() bool { return len(be.snapshot()) >= before+cfg.Workers })
	}
	extra := 0
	var tot *totals
	for ; extra < 200; extra++ {
		if !oneFlush() {
			r.Inconclusive("flush-did-not-complete")
			cancel()
			return
		}
		tot = analyse(be.snapshot(), want)
		if complete(tot, want) {
			break
		}
	}
	// three more flushes: nothing may arrive late or twice
	for i := 0; i < 3; i++ {
		if !oneFlush() {
			r.Inconclusive("flush-did-not-complete")
			cancel()
			return
		}
	}
	caps := be.snapshot()
	tot = analyse(caps, want)
	cancel()
	wg.Wait()

	// ---- verdict
	report := func(sig, detail string) {
		r.Violation(sig, detail+fmt.Sprintf(" [config %+v, %d flush maps, %d lines]", cfg, len(caps), want.lines), cfg)
	}
	for _, p := range tot.problems {
		report(strings.SplitN(p, ":", 2)[0], p)
	}
	keys := make([]string, 0, len(want.counters))
	for k := range want.counters {
		keys = append(keys, k)
	}
	sort.Strings(keys)
	for _, k := range keys {
		if tot.counters[k] != want.counters[k] {
			report("counter-sum", fmt.Sprintf("counter %q: sum over all flushes %d, expected sum of trunc(value/rate) %d", k, tot.counters[k], want.counters[k]))
			break
		}
	}
	for k, ids := range want.timerIDs {
		n := 0
		for _, c := range caps {
			if s, ok := c.series[k]; ok {
				n += len(s.Values)
			}
		}
		if n != len(ids) {
			report("timer-multiset", fmt.Sprintf("timer %q: %d values reported over all flushes, %d sent", k, n, len(ids)))
			break
		}
		if tot.sampled[k] != want.sampled[k] {
			report("timer-sampled-count", fmt.Sprintf("timer %q: sampled counts sum to %v, sum of 1/rate is %v", k, tot.sampled[k], want.sampled[k]))
			break
		}
	}
	for k, ms := range want.members {
		n := 0
		for _, c := range caps {
			if s, ok := c.series[k]; ok {
				n += len(s.Members)
			}
		}
		if n != len(ms) {
			report("set-members", fmt.Sprintf("set %q: %d members reported over all flushes, %d sent", k, n, len(ms)))
			break
		}
	}
	// group sanity: exactly Workers maps per flush
	perFlush := map[int64]int{}
	for _, c := range caps {
		perFlush[c.flush]++
	}
	var lastFlush int64
	for f := range perFlush {
		if f > lastFlush {
			lastFlush = f
		}
	}
	for f, n := range perFlush {
		// the newest flush may still be in progress when the snapshot is taken (a tick buffered in the
		// ticker channel): it may have handed over fewer maps so far, never more
		if n > cfg.Workers || (n != cfg.Workers && f != lastFlush) {
			report("maps-per-flush", fmt.Sprintf("flush %d handed %d maps to the backend, %d aggregators", f, n, cfg.Workers))
			break
		}
	}

	// ---- coverage accounting
	multi := 0
	for _, n := range tot.spread {
		if n >= 2 {
			multi++
		}
	}
	dataFlushes := map[int64]bool{}
	for _, c := range caps {
		for _, s := range c.series {
			if s.Counter != 0 || len(s.Values) > 0 || len(s.Members) > 0 {
				dataFlushes[c.flush] = true
			}
		}
	}
	r.Eval(1)
	r.Event("flush_maps", len(caps))
	r.Event("flushes", len(perFlush))
	r.Event("flushes_during_dispatch", int(flushesDuring))
	r.Event("flushes_carrying_data", len(dataFlushes))
	r.Event("datapoints", want.lines)
	r.Event("series_in_2+_flushes", multi)
	r.Event("extra_flushes_to_quiesce", extra)
	if flushesDuring >= 1 && multi >= 1 {
		bucket := func(n int) int {
			b := 0
			for n > 0 {
				b++
				n >>= 1
			}
			return b
		}
		r.Nontrivial(fmt.Sprintf("P%d W%d Q%d G%d %s %s df%d multi%d", cfg.Parsers, cfg.Workers, cfg.Queue, cfg.Gens, cfg.Namespace, cfg.Expiry, bucket(len(dataFlushes)), bucket(multi)))
	}
	if r.WantSample() {
		r.Sample(map[string]interface{}{"config": cfg, "lines_sent": want.lines, "flush_maps_captured": len(caps), "flushes_while_generators_ran": flushesDuring,
			"flushes_carrying_data": len(dataFlushes), "series_with_data_in_2+_flushes": multi, "series": len(tot.spread)})
	}
}

// ---------------------------------------------------------------------------------------------
// server mode: the real statsd.Server on a scripted socket

type pkt struct {
	data []byte
	addr net.Addr
}

type scriptConn struct {
	ch     chan pkt
	closed chan struct{}
	once   sync.Once
	read   atomic.Int64
}

func (c *scriptConn) ReadFrom(b []byte) (int, net.Addr, error) {
	select {
	case p := <-c.ch:
		n := copy(b, p.data)
		c.read.Add(1)
		return n, p.addr, nil
	case <-c.closed:
		return 0, nil, errors.New("use of closed network connection")
	}
}
func (c *scriptConn) WriteTo(b []byte, addr net.Addr) (int, error) { return len(b), nil }
func (c *scriptConn) Close() error                                 { c.once.Do(func() { close(c.closed) }); return nil }
func (c *scriptConn) LocalAddr() net.Addr {
	return &net.UDPAddr{IP: net.IPv4(127, 0, 0, 1), Port: 8125}
}
func (c *scriptConn) SetDeadline(time.Time) error      { return nil }
func (c *scriptConn) SetReadDeadline(time.Time) error  { return nil }
func (c *scriptConn) SetWriteDeadline(time.Time) error { return nil }

func runServerExecution(t *testing.T, r *mon.Run, cfg config) {
	r.Case("server execution %+v", cfg)
	logrus.SetLevel(logrus.PanicLevel)
	be := &captureBackend{r: r, workers: cfg.Workers, slim: true}
	var expC, expG, expS, expT time.Duration
	switch cfg.Expiry {
	case "never":
	case "immediate":
		expC, expG, expS, expT = -1, -1, -1, -1
	default:
		expC, expG, expS, expT = time.Hour, time.Hour, time.Hour, time.Hour
	}
	v := viper.New()
	srv := &statsd.Server{
		Backends: []gostatsd.Backend{be}, ExpiryIntervalCounter: expC, ExpiryIntervalGauge: expG, ExpiryIntervalSet: expS, ExpiryIntervalTimer: expT,
		FlushInterval: 3 * time.Millisecond, MaxReaders: cfg.Readers, MaxParsers: cfg.Parsers, MaxWorkers: cfg.Workers, MaxQueueSize: cfg.Queue,
		MaxConcurrentEvents: 4, ReceiveBatchSize: cfg.RecvBatch, Namespace: cfg.Namespace, StatserType: gostatsd.StatserNull, PercentThreshold: []float64{90},
		HistogramLimit: 10, ServerMode: "standalone", DisableInternalEvents: true, Viper: v, TransportPool: transport.NewTransportPool(logrus.StandardLogger(), v),
	}
	srv.DefaultTags = append(gostatsd.Tags(nil), cfg.Static...)
	var prov *scriptedProvider
	if cfg.Cloud {
		// composed like cmd/gostatsd does: the cache is a runnable of the server and its CachedInstances
		prov = &scriptedProvider{batch: 1 + cfg.Exec%32}
		ci := cloudprovider.NewCachedCloudProvider(logrus.StandardLogger(), rate.NewLimiter(rate.Inf, 1), prov, gostatsd.CacheOptions{
			CacheRefreshPeriod: 2 * time.Millisecond, CacheEvictAfterIdlePeriod: 7 * time.Millisecond, CacheTTL: 4 * time.Millisecond, CacheNegativeTTL: 4 * time.Millisecond,
		})
		srv.CachedInstances = ci
		srv.Runnables = append(srv.Runnables, ci.Run)
	}
	conn := &scriptConn{ch: make(chan pkt), closed: make(chan struct{})}
	ctx, cancel := context.WithCancel(context.Background())
	done := make(chan error, 1)
	go func() { done <- srv.RunWithCustomSocket(ctx, func() (net.PacketConn, error) { return conn, nil }) }()

	tsBase := time.Now().UnixNano()
	var tsCounter, idCounter atomic.Int64
	idCounter.Store(int64(cfg.Exec) << 32 % (1 << 50))
	exps := make([]*expect, cfg.Gens)
	var sent atomic.Int64
	var gwg sync.WaitGroup
	for g := 0; g < cfg.Gens; g++ {
		gwg.Add(1)
		go func(g int) {
			defer gwg.Done()
			emit := func(batch []*statsd.Datagram) {
				for _, dg := range batch {
					conn.ch <- pkt{data: dg.Msg, addr: &net.UDPAddr{IP: net.ParseIP(string(dg.IP)), Port: 1000 + g}}
					sent.Add(1)
				}
			}
			exps[g] = generatorTo(g, cfg, r.Rand(fmt.Sprintf("exec%d-gen%d", cfg.Exec, g)), emit, tsBase, &tsCounter, &idCounter)
		}(g)
	}
	gwg.Wait()
	want := newExpect()
	for _, e := range exps {
		merge(want, e)
	}
	// every datagram has been read by a receiver goroutine (the channel is unbuffered); now the flusher's own
	// real-time ticks must bring everything out. "Lost" is decided on progress, not on a fixed time: as long as
	// the amount of accounted data keeps growing (a backlog of parked or queued batches is draining) the wait goes
	// on; 45 s without any progress, four orders of magnitude above the flush interval, ends it.
	var tot *totals
	ok := false
	progress, lastProgress, begin := int64(-1), time.Now(), time.Now()
	for {
		tot = analyse(be.snapshot(), want)
		if complete(tot, want) {
			ok = true
			break
		}
		p := int64(tot.ids + tot.members)
		for _, v := range tot.counters {
			if v < 0 {
				v = -v
			}
			p += v
		}
		if p != progress {
			progress, lastProgress = p, time.Now()
		}
		if time.Since(lastProgress) > 45*time.Second || time.Since(begin) > 20*time.Minute {
			break
		}
		time.Sleep(40 * time.Millisecond)
	}
	// a few more flushes: nothing may arrive late or twice
	n0 := len(be.snapshot())
	mon.WaitUntil(30*time.Second, func() bool { return len(be.snapshot()) >= n0+3*cfg.Workers })
	caps := be.snapshot()
	online := be.onlineProblems() // taken before the server is stopped: a flush cut short by the shutdown hands over fewer maps than workers
	tot = analyse(caps, want)
	be.releaseAll()
	cancel()
	select {
	case <-done:
	case <-time.After(60 * time.Second):
		r.Inconclusive("server-did-not-stop")
	}
	report := func(sig, detail string) {
		r.Violation(sig, detail+fmt.Sprintf(" [config %+v, %d flush maps, %d lines]", cfg, len(caps), want.lines), cfg)
	}
	for _, p := range append(tot.problems, online...) {
		report(strings.SplitN(p, ":", 2)[0], p)
	}
	if !ok || !complete(tot, want) {
		for k, v := range want.counters {
			if tot.counters[k] != v {
				report("counter-sum", fmt.Sprintf("counter %q: sum over all flushes %d, expected sum of trunc(value/rate) %d (no further data arrived for 45 s after the last datagram was read)", k, tot.counters[k], v))
				break
			}
		}
		wantIDs, wantMembers := 0, 0
		for _, m := range want.timerIDs {
			wantIDs += len(m)
		}
		for _, m := range want.members {
			wantMembers += len(m)
		}
		if tot.ids != wantIDs {
			report("timer-multiset", fmt.Sprintf("%d distinct timer values reported over all flushes, %d sent", tot.ids, wantIDs))
		}
		if tot.members != wantMembers {
			report("set-members", fmt.Sprintf("%d distinct set members reported over all flushes, %d sent", tot.members, wantMembers))
		}
	}
	for k := range want.timerIDs {
		if tot.sampled[k] != want.sampled[k] {
			report("timer-sampled-count", fmt.Sprintf("timer %q: sampled counts sum to %v, sum of 1/rate is %v", k, tot.sampled[k], want.sampled[k]))
			break
		}
	}
	multi := 0
	for _, n := range tot.spread {
		if n >= 2 {
			multi++
		}
	}
	r.Eval(1)
	r.Event("server_mode_executions", 1)
	r.Event("flush_maps", len(caps))
	r.Event("datapoints", want.lines)
	r.Event("datagrams_through_receiver", int(sent.Load()))
	r.Event("series_in_2+_flushes", multi)
	if prov != nil {
		r.Event("cloud_lookup_calls", int(prov.calls.Load()))
		r.Event("cloud_lookup_sources", int(prov.ips.Load()))
	}
	if multi >= 1 {
		r.Nontrivial(fmt.Sprintf("server R%d P%d W%d Q%d G%d B%d %s %s cloud%v jumbo%v static%v", cfg.Readers, cfg.Parsers, cfg.Workers, cfg.Queue, cfg.Gens, cfg.RecvBatch, cfg.Namespace, cfg.Expiry, cfg.Cloud, cfg.Jumbo, cfg.Static))
	}
}

func TestCheck(t *testing.T) {
	r := mon.Start(t, "C01")
	defer r.Finish()
	r.Rule("one execution = the real parser/tag/backend-handler/aggregator/flusher pipeline with a PRNG-chosen (parsers, workers, queue, generators, namespace, expiry, burstiness) fed 1.5k-6k well-formed lines by concurrent generators while a driver fires flush ticks continuously; oracle = exact conservation over all captured flush maps (counter sums, timer value ids, sampled counts, set members, no foreign series, no series twice per flush). Non-trivial: at least one flush began while generators were still dispatching AND at least one series carried data in two or more flushes; distinct by (configuration, log2 bucket of data-carrying flushes, log2 bucket of multi-flush series).")
	r.Assume("the harness' capturing backend copies the map synchronously inside SendMetricsAsync")
	r.Assume("a batch queued for a worker survives a flush command with probability <= 1/2, so 200 quiescent flushes drain every queue")
	var c config
	if p := r.ReplayPayload(); p != nil && mon.ReplayCase(p, &c) != nil {
		if c.Mode == "server" {
			runServerExecution(t, r, c)
		} else {
			runExecution(t, r, c)
		}
		r.Nontrivial("replay-a")
		r.Nontrivial("replay-b")
		return
	}
	n := r.N(64, 6400)
	rng := r.Rand("configs")
	shard, _ := r.Shard()
	maxPW := r.Pick(4, 16)
	queues := []int{0, 1, 2}
	if r.Thorough() {
		queues = []int{0, 1, 2, 8, 64}
	}
	for i := 0; i < n; i++ {
		cfg := config{
			Exec:      shard*100000 + i,
			Parsers:   1 + rng.Intn(maxPW),
			Workers:   1 + rng.Intn(maxPW),
			Queue:     queues[rng.Intn(len(queues))],
			Gens:      1 + rng.Intn(4),
			Batches:   20 + rng.Intn(r.Pick(30, 180)),
			Series:    1 + rng.Intn(r.Pick(3, 6)),
			Namespace: []string{"", "ns"}[rng.Intn(2)],
			Expiry:    []string{"never", "immediate", "1h"}[rng.Intn(3)],
			Bursty:    rng.Intn(2) == 0,
		}
		if i%3 == 2 {
			cfg.Mode, cfg.Readers, cfg.RecvBatch = "server", 1+rng.Intn(4), []int{1, 2, 10, 50, 200, 600}[rng.Intn(6)]
			if cfg.RecvBatch > 64 && cfg.Readers > 2 {
				cfg.Readers = 2 // one 64 KiB buffer per message of a batch and reader
			}
			cfg.Cloud, cfg.Jumbo = rng.Intn(2) == 0, rng.Intn(2) == 0
			cfg.Static = [][]string{nil, nil, {"st:1"}, {"env:prod", "dc:x"}, {"dup", "zone:9"}}[rng.Intn(5)]
			if cfg.Jumbo && cfg.Batches > 60 {
				cfg.Batches = 60 // a jumbo datagram carries up to 2000 lines: keeps the longest execution near a minute
			}
			runServerExecution(t, r, cfg)
		} else {
			cfg.Mode = "pipeline"
			runExecution(t, r, cfg)
		}
		if r.Violations() > 8 {
			break
		}
	}
}
