//go:build verif

package c18

// Flusher level of C18: the real MetricFlusher runs on a mock clock and is observed where a user sees a
// flush: at Aggregator.Flush (clock reading + elapsed-time argument) and at Backend.SendMetricsAsync.
//
// Synchronisation is logical. After each advancement the monitor waits until either the flush it
// triggers has completed, or the flusher has consumed the tick (NotifyFlush) and come back to wait for the
// next one (it asks its context for Done() once per loop iteration) without having flushed. The second
// outcome is not taken on trust: the verdict only uses ticks after which a later NotifyFlush was seen
// (MetricFlusher.Run is one goroutine: it cannot consume tick k+1 before it is through with tick k).
// A watchdog expiry is reproduced once and then reported as a violation of bounded progress.

import (
	"context"
	"fmt"
	"sync"
	"sync/atomic"
	"time"

	"github.com/tilinna/clock"

	"github.com/atlassian/gostatsd"
	"github.com/atlassian/gostatsd/pkg/stats"
	"github.com/atlassian/gostatsd/pkg/statsd"

	"verif/mon"
)

type flushRec struct {
	Reading int64 `json:"clock_unix_ns"`
	D       int64 `json:"elapsed_ns"`
	Worker  int   `json:"worker"`
	Seq     int   `json:"flush_seq"`
	Tick    int64 `json:"tick"` // number of ticks the flusher had consumed (NotifyFlush calls) when Flush ran
}

type sendRec struct {
	Reading int64 `json:"clock_unix_ns"`
	Backend int   `json:"backend"`
	Tick    int64 `json:"tick"`
}

type notifyRec struct {
	Reading int64 `json:"clock_unix_ns"`
	D       int64 `json:"elapsed_ns"`
}

// tickProbe is the Statser of the flusher's context: NotifyFlush is called once per consumed tick, on the
// flusher's goroutine, before the aggregators are flushed.
type tickProbe struct {
	*stats.NullStatser
	clk      *recClock
	mu       sync.Mutex
	recs     []notifyRec
	notifies atomic.Int64 // published after the record is stored
}

func (s *tickProbe) NotifyFlush(ctx context.Context, d time.Duration) {
	now := s.clk.Now().UnixNano()
	s.mu.Lock()
	s.recs = append(s.recs, notifyRec{Reading: now, D: int64(d)})
	s.mu.Unlock()
	s.notifies.Add(1)
}

func (s *tickProbe) snapshot() []notifyRec {
	s.mu.Lock()
	defer s.mu.Unlock()
	return append([]notifyRec(nil), s.recs...)
}

// loopCtx counts how often the flusher asks for Done(): once per iteration of its select loop.
type loopCtx struct {
	context.Context
	done atomic.Int64
}

func (c *loopCtx) Done() <-chan struct{} {
	ch := c.Context.Done()
	c.done.Add(1)
	return ch
}

type fakeAggs struct {
	clk     *recClock
	probe   *tickProbe
	n       int
	sendMap bool
	mu      sync.Mutex
	recs    []flushRec
	seq     int
	hold    chan struct{} // when non-nil the next Process call stays busy until it is closed
	flushed atomic.Int64  // completed flushes (the Wait function returned by Process was called)
	parked  atomic.Int64
}

type fakeAgg struct {
	p      *fakeAggs
	worker int
	seq    int
	tick   int64
}

func (a *fakeAgg) ReceiveMap(*gostatsd.MetricMap) {}
func (a *fakeAgg) Reset()                         {}
func (a *fakeAgg) Process(fn statsd.ProcessFunc) {
	if a.p.sendMap {
		fn(gostatsd.NewMetricMap(false))
	}
}
func (a *fakeAgg) Flush(d time.Duration) {
	now := a.p.clk.Now()
	a.p.mu.Lock()
	a.p.recs = append(a.p.recs, flushRec{Reading: now.UnixNano(), D: int64(d), Worker: a.worker, Seq: a.seq, Tick: a.tick})
	a.p.mu.Unlock()
}

func (p *fakeAggs) Process(ctx context.Context, fn statsd.DispatcherProcessFunc) gostatsd.Wait {
	p.mu.Lock()
	seq := p.seq
	p.seq++
	hold := p.hold
	p.hold = nil
	p.mu.Unlock()
	tick := p.probe.notifies.Load()
	for w := 0; w < p.n; w++ {
		fn(w, &fakeAgg{p: p, worker: w, seq: seq, tick: tick})
	}
	if hold != nil {
		p.parked.Add(1)
		<-hold
	}
	return func() { p.flushed.Add(1) }
}

func (p *fakeAggs) snapshot() []flushRec {
	p.mu.Lock()
	defer p.mu.Unlock()
	return append([]flushRec(nil), p.recs...)
}

// captureBackend records the clock reading at which the flusher hands it a flush.
type captureBackend struct {
	idx   int
	clk   *recClock
	probe *tickProbe
	mu    *sync.Mutex
	recs  *[]sendRec
}

func (b *captureBackend) Name() string { return fmt.Sprintf("capture%d", b.idx) }
func (b *captureBackend) SendEvent(context.Context, *gostatsd.Event) error {
	return nil
}
func (b *captureBackend) SendMetricsAsync(ctx context.Context, mm *gostatsd.MetricMap, cb gostatsd.SendCallback) {
	now := b.clk.Now().UnixNano()
	b.mu.Lock()
	*b.recs = append(*b.recs, sendRec{Reading: now, Backend: b.idx, Tick: b.probe.notifies.Load()})
	b.mu.Unlock()
	cb(nil)
}

// flusherCase runs one flusher case; a watchdog expiry is reproduced once (see tickerCase).
func (k *checker) flusherCase(c *alignCase) {
	stall := k.runFlusher(c)
	if stall == "" {
		return
	}
	k.r.Event("watchdog_expiry_reproduced", 1)
	switch again := k.runFlusher(c); again {
	case stall:
		k.dead["flusher"] = true
		k.r.Violation(k.sigPrefix(c)+"flush-never-arrives:"+stall+":"+c.Pattern, fmt.Sprintf("aligned flusher %s: %s in two runs of the same deterministic mock-clock script (watchdog %v each)", c.describe(), stall, watchdog), map[string]interface{}{"case": c})
	case "":
		k.r.Event("watchdog_expiry_not_reproduced", 1)
	default:
		k.r.Inconclusive(stall)
	}
}

func (k *checker) sigPrefix(c *alignCase) string {
	if c.Config != nil {
		return "config:"
	}
	return ""
}

func (c *alignCase) describe() string {
	s := fmt.Sprintf("interval=%v offset=%v start=%v", time.Duration(c.IntervalNs), time.Duration(c.OffsetNs), time.Unix(0, c.StartNs).UTC())
	if c.WallAnchored {
		s += fmt.Sprintf(" (start-up %v before a boundary)", time.Duration(c.LeadNs))
	}
	if c.Config != nil {
		b := "construction failed"
		if c.Built != nil {
			b = fmt.Sprintf("FlushInterval=%v FlushOffset=%v FlushAligned=%v", time.Duration(c.Built.IntervalNs), time.Duration(c.Built.OffsetNs), c.Built.Aligned)
		}
		s += fmt.Sprintf(" configured by cmd/gostatsd %v env %v file %q (server built with %s)", c.Config.Args, c.Config.Env, c.Config.File, b)
	}
	return s
}

// runFlusher returns "" when the case was evaluated (or set aside), or the stage at which a watchdog expired.
func (k *checker) runFlusher(c *alignCase) (stall string) {
	if c.WallAnchored {
		// MetricFlusher.Run takes its start-up instant from the real clock; in production that is the clock
		// the ticker runs on. The boundary lies LeadNs after start-up.
		c.StartNs = time.Now().UnixNano()
		c.OffsetNs = mod(c.StartNs+c.LeadNs, c.IntervalNs)
	}
	k.r.Case("%s", c)
	start := time.Unix(0, c.StartNs).UTC()
	// what the flusher is built with: the case's values, or what cmd/gostatsd made of the configuration
	bInterval, bOffset, bAligned := time.Duration(c.IntervalNs), time.Duration(c.OffsetNs), true
	if c.Built != nil {
		bInterval, bOffset, bAligned = time.Duration(c.Built.IntervalNs), time.Duration(c.Built.OffsetNs), c.Built.Aligned
	}
	rc := &recClock{Mock: clock.NewMock(start)}
	probe := &tickProbe{NullStatser: &stats.NullStatser{}, clk: rc}
	base, cancel := context.WithCancel(context.Background())
	ctx := &loopCtx{Context: stats.NewContext(clock.Context(base, rc), probe)}
	aggs := &fakeAggs{clk: rc, probe: probe, n: c.Aggregators, sendMap: c.Backends > 0}
	var sendMu sync.Mutex
	var sends []sendRec
	var backends []gostatsd.Backend
	for b := 0; b < c.Backends; b++ {
		backends = append(backends, &captureBackend{idx: b, clk: rc, probe: probe, mu: &sendMu, recs: &sends})
	}
	f := statsd.NewMetricFlusher(bInterval, bOffset, bAligned, aggs, backends)
	done := make(chan struct{})
	go func() { defer close(done); f.Run(ctx) }()
	var open chan struct{}
	finish := func() {
		aggs.mu.Lock()
		aggs.hold = nil
		aggs.mu.Unlock()
		if open != nil {
			close(open)
			open = nil
		}
		cancel()
		<-done
	}
	s := &sched{rc: rc}
	if _, ok := s.init(start); !ok {
		finish()
		return "flusher-ticker-never-armed"
	}
	var triggers []int64
	adv := func() string {
		_, fired, ok := s.advance(step{Kind: "next"})
		if !ok {
			if s.mismatch {
				return "clock-model-mismatch"
			}
			return "flusher-ticker-not-rearmed"
		}
		if !fired.IsZero() {
			triggers = append(triggers, fired.UnixNano())
		}
		return ""
	}
	// settle waits for the outcome of an advancement made when n0 ticks had been consumed, f0 flushes had
	// completed and p0 flushes had parked: "flushed" / "parked" (wantPark), "idle" (a tick was consumed and the
	// flusher is back in its select without that), or "" (watchdog).
	//
	// "idle" is only looked for while the monitor knows how many ticks have fired (quiescent): after the
	// aggregators were kept busy over several deadlines a buffered tick may still be on its way to the flusher,
	// and "consumed a tick since n0" would no longer mean "consumed the tick of this advancement".
	quiescent := true
	settle := func(n0, f0, p0 int64, wantPark bool) string {
		hit := func() bool {
			if wantPark {
				return aggs.parked.Load() > p0
			}
			return aggs.flushed.Load() > f0
		}
		what := ""
		mon.WaitUntil(watchdog, func() bool {
			if hit() {
				what = "hit"
				return true
			}
			if !quiescent {
				return false
			}
			n := probe.notifies.Load()
			if d := ctx.done.Load(); n > n0 && d >= n+1 {
				// flushing happens before the flusher's next Done(): look once more
				if hit() {
					what = "hit"
				} else {
					what = "idle"
				}
				return true
			}
			return false
		})
		return what
	}
	bail := func(reason string) string {
		finish()
		if reason == "clock-model-mismatch" {
			k.r.Inconclusive(reason)
			return ""
		}
		return reason
	}
	idleTicks := 0
	for _, st := range c.Steps {
		n0, f0, p0 := probe.notifies.Load(), aggs.flushed.Load(), aggs.parked.Load()
		if st.Kind == "hold" {
			// the next flush keeps the aggregators busy while N more deadlines pass
			open = make(chan struct{})
			aggs.mu.Lock()
			aggs.hold = open
			aggs.mu.Unlock()
		}
		if why := adv(); why != "" {
			return bail(why)
		}
		if st.Kind == "hold" {
			switch settle(n0, f0, p0, true) {
			case "":
				return bail("flush-not-started")
			case "idle":
				// the tick was consumed without flushing: nothing to keep busy
				aggs.mu.Lock()
				aggs.hold = nil
				aggs.mu.Unlock()
				close(open)
				open = nil
				idleTicks++
				k.r.Event("tick_consumed_without_flush", 1)
				continue
			}
			for j := 0; j < st.N; j++ {
				if why := adv(); why != "" {
					return bail(why)
				}
			}
			k.r.Event("flush_blocked_over_deadlines", st.N)
			quiescent = false
			close(open)
			open = nil
		}
		// every advancement fires the ticker, so at least one flush follows (possibly for an older tick
		// that was still buffered)
		switch settle(n0, f0, p0, false) {
		case "":
			return bail("flush-not-completed")
		case "idle":
			idleTicks++
			k.r.Event("tick_consumed_without_flush", 1)
		}
	}
	if idleTicks > 0 && quiescent {
		// one more tick: when it has been consumed, the flusher is certainly through with all earlier ones
		n0, f0, p0 := probe.notifies.Load(), aggs.flushed.Load(), aggs.parked.Load()
		if why := adv(); why != "" {
			return bail(why)
		}
		if settle(n0, f0, p0, false) == "" {
			return bail("flush-not-completed")
		}
	}
	finish()
	recs := aggs.snapshot()
	notes := probe.snapshot()
	sendMu.Lock()
	sent := append([]sendRec(nil), sends...)
	sendMu.Unlock()
	k.r.Eval(1)
	k.r.Event("flushes", len(recs))
	k.r.Event("backend_sends", len(sent))
	k.classes(c)
	witness := map[string]interface{}{"case": c, "flushes": recs, "backend_sends": sent, "ticks_consumed": notes, "trigger_instants": triggers}
	sig := c.Pattern
	if !c.Divides {
		sig += ":interval-not-dividing-a-day"
	}
	if c.WallAnchored {
		sig += ":clock-as-in-production" // mock clock started at the real now, which the flusher reads at start-up
	}
	mk := func(kind string) string {
		if c.Config != nil {
			return "config:" + kind + ":" + c.Config.sigClass()
		}
		return kind + ":" + sig
	}
	interval, offset := time.Duration(c.IntervalNs), time.Duration(c.OffsetNs)
	limit := c.StartNs + c.IntervalNs // "no later than one interval after start-up"
	if len(recs) == 0 {
		// Ticks were consumed and the flusher came back for more, but the aggregators were never flushed. All
		// ticks but the last are certain (a later NotifyFlush followed them).
		if len(notes) >= 2 && notes[len(notes)-2].Reading >= limit {
			k.r.Violation(mk("first-flush-late"), fmt.Sprintf("aligned flusher %s: the flusher consumed %d ticks (clock at %v by then, one interval after start-up is %v) and went back to waiting each time without flushing the aggregators", c.describe(), len(notes)-1, time.Unix(0, notes[len(notes)-2].Reading).UTC(), time.Unix(0, limit).UTC()), witness)
			return ""
		}
		k.r.Inconclusive("no-flush-observed")
		return ""
	}
	readings := make([]int64, len(recs))
	for i, rec := range recs {
		readings[i] = rec.Reading
	}
	if !c.judgeAligned(readings) {
		k.r.Violation(mk("flush-misaligned"), fmt.Sprintf("aligned flusher %s: clock readings at Aggregator.Flush %v are not all offset+n*interval for interval=%v offset=%v", c.describe(), fmtTimes(readings), interval, offset), witness)
	}
	if recs[0].Reading > limit {
		skipped := ""
		if recs[0].Tick > 1 {
			skipped = fmt.Sprintf(" (it was triggered by tick %d; the flusher consumed %d earlier tick(s) without flushing the aggregators)", recs[0].Tick, recs[0].Tick-1)
		}
		k.r.Violation(mk("first-flush-late"), fmt.Sprintf("aligned flusher %s: the aggregators' first flush happened at %v, later than one interval after start-up (%v)%s", c.describe(), time.Unix(0, recs[0].Reading).UTC(), time.Unix(0, limit).UTC(), skipped), witness)
	}
	for _, rec := range recs {
		if rec.Seq == 0 {
			continue // seeded from the real clock, not judged
		}
		k.r.Event("elapsed_judged", 1)
		if rec.D > c.IntervalNs {
			k.r.Event("elapsed_several_intervals", 1)
		}
		if rec.D <= 0 || rec.D%c.IntervalNs != 0 {
			k.r.Violation(mk("flush-elapsed-not-multiple"), fmt.Sprintf("aligned flusher %s: flush #%d was given elapsed time %v, not a positive multiple of the interval %v", c.describe(), rec.Seq, time.Duration(rec.D), interval), witness)
			break
		}
	}
	// what the backends see
	if c.Backends > 0 {
		if len(sent) > 0 { // whether every flush reaches every backend is not this property's business
			sr := make([]int64, len(sent))
			for i, x := range sent {
				sr[i] = x.Reading
			}
			if c.judgeAligned(readings) && !c.judgeAligned(append(sr, readings...)) {
				k.r.Violation(mk("backend-flush-misaligned"), fmt.Sprintf("aligned flusher %s: clock readings at Backend.SendMetricsAsync %v are not all offset+n*interval", c.describe(), fmtTimes(sr)), witness)
			}
			if sent[0].Reading > limit && recs[0].Reading <= limit {
				k.r.Violation(mk("backend-first-flush-late"), fmt.Sprintf("aligned flusher %s: the backends' first flush happened at %v, later than one interval after start-up (%v)", c.describe(), time.Unix(0, sent[0].Reading).UTC(), time.Unix(0, limit).UTC()), witness)
			}
		}
	}
	if k.r.WantSample() && c.OffsetNs != 0 && c.StartClass != "on-boundary" && (c.Config != nil || c.WallAnchored || c.Backends > 0) {
		k.r.Sample(witness)
	}
	return ""
}
