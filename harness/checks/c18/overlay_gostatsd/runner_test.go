//go:build verif

package main

// Scenario runner of the C18 monitor, laid over cmd/gostatsd by verif/ovl (go test -overlay): for every
// scenario (command line, environment, configuration file) it runs the real setupConfiguration() and
// constructServer() and writes down the flush settings of the statsd.Server they produce. No oracle here.

import (
	"encoding/json"
	"fmt"
	"io"
	"os"
	"path/filepath"
	"strings"
	"testing"

	"github.com/sirupsen/logrus"
)

type c18Scenario struct {
	Args    []string `json:"args"`
	Env     []string `json:"env"`
	File    string   `json:"file"`
	FileExt string   `json:"file_ext"`
}

type c18Result struct {
	Err        string `json:"err,omitempty"`
	IntervalNs int64  `json:"flush_interval_ns"`
	OffsetNs   int64  `json:"flush_offset_ns"`
	Aligned    bool   `json:"flush_aligned"`
	ServerMode string `json:"server_mode"`
}

func c18ClearEnv() {
	for _, e := range os.Environ() {
		if strings.HasPrefix(e, "GSD_") {
			os.Unsetenv(e[:strings.IndexByte(e, '=')])
		}
	}
}

func c18One(dir string, i int, sc c18Scenario) (res c18Result) {
	defer func() {
		if p := recover(); p != nil {
			res = c18Result{Err: fmt.Sprintf("panic: %v", p)}
		}
	}()
	c18ClearEnv()
	defer c18ClearEnv()
	for _, e := range sc.Env {
		if j := strings.IndexByte(e, '='); j > 0 {
			os.Setenv(e[:j], e[j+1:])
		}
	}
	args := append([]string{"gostatsd"}, sc.Args...)
	if sc.File != "" {
		path := filepath.Join(dir, fmt.Sprintf("c18-%d.%s", i, sc.FileExt))
		if err := os.WriteFile(path, []byte(sc.File), 0o644); err != nil {
			return c18Result{Err: "runner: " + err.Error()}
		}
		defer os.Remove(path)
		args = append(args, "--config-path", path)
	}
	os.Args = args
	v, _, err := setupConfiguration()
	if err != nil {
		return c18Result{Err: "setupConfiguration: " + err.Error()}
	}
	s, err := constructServer(v)
	if err != nil {
		return c18Result{Err: "constructServer: " + err.Error()}
	}
	return c18Result{IntervalNs: int64(s.FlushInterval), OffsetNs: int64(s.FlushOffset), Aligned: s.FlushAligned, ServerMode: s.ServerMode}
}

func TestVerifRunner(t *testing.T) {
	in, out := os.Getenv("C18_SCENARIOS"), os.Getenv("C18_RESULTS")
	if in == "" || out == "" {
		t.Skip("C18_SCENARIOS / C18_RESULTS unset")
	}
	raw, err := os.ReadFile(in)
	if err != nil {
		t.Fatal(err)
	}
	var scs []c18Scenario
	if err := json.Unmarshal(raw, &scs); err != nil {
		t.Fatal(err)
	}
	logrus.SetOutput(io.Discard)
	oldArgs := os.Args
	defer func() { os.Args = oldArgs }()
	dir := t.TempDir()
	results := make([]c18Result, len(scs))
	for i, sc := range scs {
		results[i] = c18One(dir, i, sc)
	}
	os.Args = oldArgs
	b, _ := json.Marshal(results)
	if err := os.WriteFile(out, b, 0o644); err != nil {
		t.Fatal(err)
	}
}
