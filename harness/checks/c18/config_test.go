//go:build verif

package c18

// Configuration phase of C18. "t minus the configured offset is an exact multiple of the flush interval"
// is a statement about the configuration text a user writes (README: flush-aligned, flush-interval
// "Defaults to 1s", flush-offset "with an offset of 7s and an interval of 10s, it will flush at
// 12:47:10+7 = 12:47:17"; with no offset configured "12:47:20, 12:47:30"). The real setupConfiguration() and
// constructServer() of cmd/gostatsd (reached through verif/ovl) turn random command lines / environments /
// configuration files into a statsd.Server; the real MetricFlusher is then built from exactly that server's
// FlushInterval / FlushOffset / FlushAligned (as pkg/statsd createStandaloneSink does), driven on a mock
// clock, and the flush instants are judged against the configured text.

import (
	"encoding/json"
	"fmt"
	"math/rand"
	"os"
	"path/filepath"
	"runtime"
	"strings"
	"testing"
	"time"

	"verif/mon"
	"verif/ovl"
)

// documented defaults (README)
const (
	documentedFlushInterval = int64(time.Second)
	documentedFlushOffset   = int64(0)
)

var configParams = [3]string{"flush-aligned", "flush-interval", "flush-offset"}

// setting is one parameter of an invocation: not given, or given as Text through Source.
type setting struct {
	Given  bool   `json:"given"`
	Text   string `json:"text,omitempty"`
	Source string `json:"source,omitempty"` // flag | env | file
}

// invocation is one way of configuring aligned flushing. Settings: 0 flush-aligned, 1 flush-interval, 2 flush-offset.
type invocation struct {
	Kind        string     `json:"kind"` // flag | env | toml | yaml | mixed
	Settings    [3]setting `json:"settings"`
	FileExt     string     `json:"file_ext,omitempty"`
	SplitArg    bool       `json:"split_flag_value"` // --key value instead of --key=value
	BareBool    bool       `json:"bare_bool_flag"`   // --flush-aligned instead of --flush-aligned=true
	OffsetClass string     `json:"offset_class"`
	// derived
	Args []string `json:"args"`
	Env  []string `json:"env"`
	File string   `json:"file,omitempty"`
}

// builtFlush is what cmd/gostatsd constructed.
type builtFlush struct {
	IntervalNs int64  `json:"flush_interval_ns"`
	OffsetNs   int64  `json:"flush_offset_ns"`
	Aligned    bool   `json:"flush_aligned"`
	ServerMode string `json:"server_mode"`
	Err        string `json:"err,omitempty"`
}

func envName(param string) string {
	return "GSD_" + strings.ToUpper(strings.ReplaceAll(param, "-", "_"))
}

func (inv *invocation) render() {
	inv.Args, inv.Env, inv.File = []string{"--backends=stdout"}, nil, ""
	var lines []string
	for i, s := range inv.Settings {
		if !s.Given {
			continue
		}
		name := configParams[i]
		switch s.Source {
		case "flag":
			switch {
			case i == 0 && inv.BareBool:
				inv.Args = append(inv.Args, "--"+name)
			case i != 0 && inv.SplitArg && !strings.HasPrefix(s.Text, "-"):
				inv.Args = append(inv.Args, "--"+name, s.Text)
			default:
				inv.Args = append(inv.Args, "--"+name+"="+s.Text)
			}
		case "env":
			inv.Env = append(inv.Env, envName(name)+"="+s.Text)
		case "file":
			val := `"` + s.Text + `"`
			if i == 0 {
				val = s.Text // a boolean
			}
			if inv.FileExt == "yaml" {
				lines = append(lines, name+": "+val)
			} else {
				lines = append(lines, name+" = "+val)
			}
		}
	}
	if len(lines) > 0 {
		inv.File = strings.Join(lines, "\n") + "\n"
	}
}

// configured re-states the documentation: the interval is the given one, else 1s; the offset is the given
// one, else none.
func (inv *invocation) configured() (interval, offset int64, err error) {
	interval, offset = documentedFlushInterval, documentedFlushOffset
	if s := inv.Settings[1]; s.Given {
		d, e := time.ParseDuration(s.Text)
		if e != nil {
			return 0, 0, e
		}
		interval = int64(d)
	}
	if s := inv.Settings[2]; s.Given {
		d, e := time.ParseDuration(s.Text)
		if e != nil {
			return 0, 0, e
		}
		offset = int64(d)
	}
	return interval, offset, nil
}

func (inv *invocation) intervalClass() string {
	if inv.Settings[1].Given {
		return "interval=given"
	}
	return "interval=default"
}

// sigClass: the stable class of a configuration for violation signatures.
func (inv *invocation) sigClass() string {
	return inv.intervalClass() + ":offset=" + inv.OffsetClass
}

func (inv *invocation) classKey() string {
	src := ""
	for _, s := range inv.Settings {
		if s.Given {
			src += s.Source[:2]
		} else {
			src += "--"
		}
	}
	return fmt.Sprintf("%s|%s|i=%s|off=%s", inv.Kind, src, inv.Settings[1].Text, inv.OffsetClass)
}

// flush intervals a configuration may name (Go duration text is derived from them)
var configIntervals = []time.Duration{
	100 * time.Millisecond, 250 * time.Millisecond, 300 * time.Millisecond, 500 * time.Millisecond, time.Second, 1500 * time.Millisecond,
	2 * time.Second, 3 * time.Second, 5 * time.Second, 10 * time.Second, 10 * time.Second, 15 * time.Second, 20 * time.Second, 30 * time.Second,
	time.Minute, time.Minute, 90 * time.Second, 2 * time.Minute, 5 * time.Minute, 7 * time.Second, 11 * time.Second,
}

// spell writes a duration the way a user might: Go's own notation, milliseconds, or seconds.
func spell(rng *rand.Rand, d time.Duration) string {
	switch rng.Intn(3) {
	case 0:
		if d%time.Millisecond == 0 {
			return fmt.Sprintf("%dms", int64(d/time.Millisecond))
		}
	case 1:
		if d%time.Second == 0 {
			return fmt.Sprintf("%ds", int64(d/time.Second))
		}
	}
	return d.String()
}

func genInvocation(rng *rand.Rand) *invocation {
	inv := &invocation{SplitArg: rng.Intn(2) == 0, BareBool: rng.Intn(2) == 0}
	inv.Kind = []string{"flag", "env", "toml", "yaml", "mixed"}[rng.Intn(5)]
	inv.FileExt = []string{"toml", "yaml"}[rng.Intn(2)]
	src := func() string {
		switch inv.Kind {
		case "flag", "env":
			return inv.Kind
		case "toml", "yaml":
			inv.FileExt = inv.Kind
			return "file"
		}
		return []string{"flag", "env", "file"}[rng.Intn(3)]
	}
	// aligned flushing is enabled in every case: the property says nothing about the other mode
	inv.Settings[0] = setting{Given: true, Text: "true", Source: src()}
	interval := documentedFlushInterval
	if rng.Intn(5) != 0 {
		interval = int64(configIntervals[rng.Intn(len(configIntervals))])
		inv.Settings[1] = setting{Given: true, Text: spell(rng, time.Duration(interval)), Source: src()}
	}
	ms := int64(time.Millisecond)
	var off int64
	given := true
	switch k := rng.Intn(12); {
	case k < 3:
		given, inv.OffsetClass = false, "unset"
	case k < 4:
		off, inv.OffsetClass = 0, "zero"
	case k < 6:
		off, inv.OffsetClass = (1+rng.Int63n(999))*ms, "sub-second"
	case k < 9 && interval >= int64(2*time.Second):
		off, inv.OffsetClass = (1+rng.Int63n(interval/int64(time.Second)-1))*int64(time.Second), "seconds-below-interval"
		if rng.Intn(3) == 0 {
			off += 500 * ms
		}
	case k < 10:
		off, inv.OffsetClass = (1+rng.Int63n(maxI(interval/ms-1, 1)))*ms, "below-interval"
	case k < 11:
		off, inv.OffsetClass = interval+rng.Int63n(2*interval/ms)*ms, "beyond-interval"
	default:
		off, inv.OffsetClass = -(1+rng.Int63n(2*interval/ms))*ms, "negative"
	}
	if given {
		inv.Settings[2] = setting{Given: true, Text: spell(rng, time.Duration(off)), Source: src()}
	}
	inv.render()
	return inv
}

// ---------------------------------------------------------------------------------------------------

func overlayDir() string {
	_, file, _, _ := runtime.Caller(0)
	return filepath.Join(filepath.Dir(file), "overlay_gostatsd")
}

// construct runs the real configuration code of cmd/gostatsd over the invocations (one child process).
func construct(bin, tag string, invs []*invocation) ([]builtFlush, error) {
	out := os.Getenv("VERIF_OUT")
	type scenario struct {
		Args    []string `json:"args"`
		Env     []string `json:"env"`
		File    string   `json:"file"`
		FileExt string   `json:"file_ext"`
	}
	scs := make([]scenario, len(invs))
	for i, inv := range invs {
		scs[i] = scenario{Args: inv.Args, Env: inv.Env, File: inv.File, FileExt: inv.FileExt}
	}
	in := filepath.Join(out, "c18-scenarios-"+tag+".json")
	res := filepath.Join(out, "c18-results-"+tag+".json")
	b, _ := json.Marshal(scs)
	if err := os.WriteFile(in, b, 0o644); err != nil {
		return nil, err
	}
	_ = os.Remove(res)
	output, err := ovl.Run(bin, "TestVerifRunner", []string{"C18_SCENARIOS=" + in, "C18_RESULTS=" + res}, "300s")
	raw, rerr := os.ReadFile(res)
	if rerr != nil {
		tail := string(output)
		if len(tail) > 1500 {
			tail = tail[len(tail)-1500:]
		}
		return nil, fmt.Errorf("runner wrote no results (%v): %s", err, tail)
	}
	var built []builtFlush
	if err := json.Unmarshal(raw, &built); err != nil || len(built) != len(invs) {
		return nil, fmt.Errorf("runner results unreadable: %v (%d for %d scenarios)", err, len(built), len(invs))
	}
	return built, nil
}

// configCase: the case that drives the flusher cmd/gostatsd would run for inv.
func configCase(rng *rand.Rand, inv *invocation, built builtFlush) (*alignCase, error) {
	interval, offset, err := inv.configured()
	if err != nil {
		return nil, err
	}
	c := &alignCase{Mode: "flusher", IntervalNs: interval, OffsetNs: offset, OffsetClass: inv.OffsetClass, Config: inv, Built: &built}
	c.Divides = (86400*int64(time.Second))%interval == 0
	pickStart(rng, c)
	genFlusherSteps(rng, c)
	return c, nil
}

func (k *checker) judgeConfigCase(t *testing.T, c *alignCase) {
	b := c.Built
	switch {
	case b.Err != "":
		// a documented way of configuring aligned flushing is refused: not a flush instant, so not judged here
		t.Logf("config phase: %v env %v file %q: %s", c.Config.Args, c.Config.Env, c.Config.File, b.Err)
		k.r.Inconclusive("config-construction-failed")
	case b.ServerMode != "standalone":
		k.r.Inconclusive("config-unexpected-server-mode")
	case b.IntervalNs <= 0:
		// nothing can be driven with it (a ticker of a non-positive period panics)
		k.r.Eval(1)
		k.r.Violation("config:flush-interval-not-positive:"+c.Config.sigClass(), fmt.Sprintf("aligned flusher %s: the server's flush interval is not positive", c.describe()), map[string]interface{}{"case": c})
	default:
		k.flusherCase(c)
	}
}

func configPhase(t *testing.T, r *mon.Run, k *checker) {
	bin, err := ovl.Build("c18cfg", "./cmd/gostatsd", overlayDir(), false)
	if err != nil {
		t.Logf("config phase: %v", err)
		r.Inconclusive("config-phase-skipped:overlay-build-failed")
		return
	}
	rng := r.Rand("c18-config")
	n := r.N(640, 24000)
	shard, _ := r.Shard()
	const batch = 400
	for done := 0; done < n; done += batch {
		m := batch
		if n-done < m {
			m = n - done
		}
		invs := make([]*invocation, m)
		for i := range invs {
			invs[i] = genInvocation(rng)
		}
		built, err := construct(bin, fmt.Sprintf("%d-%d", shard, done), invs)
		if err != nil {
			t.Logf("config phase: %v", err)
			r.Inconclusive("config-runner-failed")
			return
		}
		for i, inv := range invs {
			c, err := configCase(rng, inv, built[i])
			if err != nil {
				r.Inconclusive("config-harness-bad-duration")
				continue
			}
			r.Event("config_invocations", 1)
			r.Event("config_invocations:"+inv.Kind, 1)
			k.judgeConfigCase(t, c)
			if r.Violations() > 16 || k.dead["flusher"] {
				return
			}
		}
	}
}

// replayConfig re-runs the configuration code for the stored invocation and then the stored script.
func replayConfig(t *testing.T, r *mon.Run, k *checker, c *alignCase) {
	bin, err := ovl.Build("c18cfg", "./cmd/gostatsd", overlayDir(), false)
	if err != nil {
		t.Logf("replay: %v", err)
		r.Inconclusive("config-phase-skipped:overlay-build-failed")
		return
	}
	c.Config.render()
	built, err := construct(bin, "replay", []*invocation{c.Config})
	if err != nil {
		t.Logf("replay: %v", err)
		r.Inconclusive("config-runner-failed")
		return
	}
	c.Built = &built[0]
	k.judgeConfigCase(t, c)
}
