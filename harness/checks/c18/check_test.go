//go:build verif

// C18 — aligned flushing happens exactly on interval boundaries.
//
// Mode "ticker": the real aligned ticker (internal/util, reached through statsd.VerifNewAlignedTicker)
// runs on a mock clock that the monitor advances by exact steps, jumps and without draining the channel.
// Mode "flusher": the real MetricFlusher in aligned mode runs on a mock clock; a fake AggregateProcesser
// records the clock reading at Aggregator.Flush and the elapsed time argument.
//
// The oracle is arithmetic on what was recorded: (t - offset) mod interval == 0, strict increase, first
// tick/flush no later than start + interval, later elapsed times positive multiples of the interval.
package c18

import (
	"context"
	"fmt"
	"math/big"
	"math/rand"
	"sync"
	"testing"
	"time"

	"github.com/tilinna/clock"

	"github.com/atlassian/gostatsd/pkg/statsd"

	"verif/mon"
)

const watchdog = 30 * time.Second

// ---------------------------------------------------------------------------------------------------
// case description

type step struct {
	// Kind: "next" exact step to the pending deadline, consumed; "jump" Add(D), consumed;
	// "hold-next"/"hold-jump": same advancement but the channel is not drained (slow consumer);
	// in flusher mode "hold" parks the aggregator inside Flush for N exact steps.
	Kind string `json:"kind"`
	D    int64  `json:"d_ns,omitempty"`
	N    int    `json:"n,omitempty"`
}

type alignCase struct {
	Mode        string `json:"mode"` // ticker | flusher
	StartNs     int64  `json:"start_unix_ns"`
	IntervalNs  int64  `json:"interval_ns"`
	OffsetNs    int64  `json:"offset_ns"`
	Steps       []step `json:"steps"`
	Aggregators int    `json:"aggregators,omitempty"`
	StartClass  string `json:"start_class"`
	OffsetClass string `json:"offset_class"`
	Pattern     string `json:"pattern"`
	Divides     bool   `json:"interval_divides_day"`
	// flusher mode
	Backends int `json:"backends,omitempty"` // capturing backends behind the flusher
	// WallAnchored: the flusher takes its start-up instant from the real clock, so the mock clock starts at
	// the real "now" too (as in production, where the two are the same clock). The case fixes how long before
	// a boundary start-up happens (LeadNs); StartNs and OffsetNs (= (start+lead) mod interval) are derived when
	// the case runs and are recorded for the witness only.
	WallAnchored bool  `json:"wall_anchored,omitempty"`
	LeadNs       int64 `json:"lead_ns,omitempty"`
	// configuration phase: IntervalNs / OffsetNs above are what the configuration text says; the flusher is
	// driven with what cmd/gostatsd constructed from it.
	Config *invocation `json:"config,omitempty"`
	Built  *builtFlush `json:"built,omitempty"`
}

func (c *alignCase) String() string {
	s := fmt.Sprintf("%s start=%d interval=%d offset=%d steps=%v aggs=%d backends=%d", c.Mode, c.StartNs, c.IntervalNs, c.OffsetNs, c.Steps, c.Aggregators, c.Backends)
	if c.WallAnchored {
		s += fmt.Sprintf(" wall-anchored lead=%d", c.LeadNs)
	}
	if c.Config != nil {
		s += fmt.Sprintf(" config: args=%v env=%v file=%q", c.Config.Args, c.Config.Env, c.Config.File)
	}
	return s
}

// intervals between 1ms and 1h that divide 86400s: a multiple of such an interval counted from the
// Unix epoch is also one counted from Go's zero time (the two are 719162 whole days apart).
var dividing = []time.Duration{
	time.Millisecond, 2 * time.Millisecond, 5 * time.Millisecond, 10 * time.Millisecond, 25 * time.Millisecond, 50 * time.Millisecond,
	100 * time.Millisecond, 125 * time.Millisecond, 128 * time.Millisecond, 250 * time.Millisecond, 375 * time.Millisecond, 500 * time.Millisecond,
	time.Second, 1500 * time.Millisecond, 2 * time.Second, 3 * time.Second, 5 * time.Second, 6 * time.Second, 10 * time.Second, 15 * time.Second,
	30 * time.Second, 45 * time.Second, time.Minute, 90 * time.Second, 2 * time.Minute, 5 * time.Minute, 10 * time.Minute, 15 * time.Minute,
	30 * time.Minute, time.Hour,
}

// other intervals: judged under "either reading (epoch or zero time), applied consistently".
var nonDividing = []time.Duration{
	7 * time.Millisecond, 13 * time.Millisecond, 999 * time.Millisecond, 1001 * time.Millisecond, 7 * time.Second, 11 * time.Second,
	17 * time.Second, 7 * time.Minute, 13 * time.Minute, 59 * time.Minute,
}

var zeroToEpochNs = new(big.Int).Mul(big.NewInt(62135596800), big.NewInt(1_000_000_000))

// zmod = (nanoseconds between Go's zero time and the Unix epoch) mod interval.
func zmod(interval int64) int64 {
	return new(big.Int).Mod(zeroToEpochNs, big.NewInt(interval)).Int64()
}

func mod(a, m int64) int64 {
	r := a % m
	if r < 0 {
		r += m
	}
	return r
}

// remainders of (t - offset) modulo interval under the two readings.
func (c *alignCase) rems(unixNs int64) (epoch, zero int64) {
	epoch = mod(mod(unixNs, c.IntervalNs)-mod(c.OffsetNs, c.IntervalNs), c.IntervalNs)
	zero = mod(epoch+zmod(c.IntervalNs), c.IntervalNs)
	return
}

func genCase(rng *rand.Rand, mode string) *alignCase {
	c := &alignCase{Mode: mode}
	if rng.Intn(8) == 0 {
		c.IntervalNs = int64(nonDividing[rng.Intn(len(nonDividing))])
	} else {
		c.IntervalNs = int64(dividing[rng.Intn(len(dividing))])
		c.Divides = true
	}
	i := c.IntervalNs
	switch k := rng.Intn(16); {
	case k < 3:
		c.OffsetNs, c.OffsetClass = 0, "zero"
	case k < 7:
		c.OffsetNs, c.OffsetClass = 1+rng.Int63n(maxI(i/2-1, 1)), "low"
		if c.OffsetNs >= i {
			c.OffsetNs = i - 1
		}
	case k < 11:
		c.OffsetNs, c.OffsetClass = i/2+rng.Int63n(i-i/2), "high"
	case k < 12:
		c.OffsetNs, c.OffsetClass = i-1, "max"
	case k < 13:
		c.OffsetNs, c.OffsetClass = i/2, "half"
	case k < 15:
		c.OffsetNs, c.OffsetClass = i+rng.Int63n(3*i), "beyond"
	default:
		c.OffsetNs, c.OffsetClass = -(1 + rng.Int63n(2*i)), "negative"
	}
	pickStart(rng, c)
	if mode == "flusher" {
		if c.Divides && rng.Intn(2) == 0 {
			// start-up a chosen lead before a boundary, on the clock the flusher itself reads at start-up
			c.WallAnchored, c.OffsetNs, c.StartNs, c.OffsetClass = true, 0, 0, "derived"
			switch rng.Intn(8) {
			case 0:
				c.LeadNs, c.StartClass = 1, "lead-1ns"
			case 1:
				c.LeadNs, c.StartClass = 1+rng.Int63n(maxI(i/1000, 1)), "lead-under-1/1000"
			case 2, 3:
				c.LeadNs, c.StartClass = 1+rng.Int63n(maxI(i/10-1, 1)), "lead-under-1/10"
			case 4:
				c.LeadNs, c.StartClass = i/10+rng.Int63n(i-i/10-i/10), "lead-mid"
			case 5:
				c.LeadNs, c.StartClass = i-i/10+rng.Int63n(i/10), "lead-over-9/10"
			case 6:
				c.LeadNs, c.StartClass = i-1, "lead-interval-1ns"
			default:
				c.LeadNs, c.StartClass = i, "lead-full-interval"
			}
		}
		genFlusherSteps(rng, c)
		return c
	}
	// ticker patterns
	half := func(k int64) int64 { return k*i + i/2 }
	switch p := rng.Intn(10); {
	case p < 3:
		c.Pattern = "exact"
		for s, n := 0, 3+rng.Intn(8); s < n; s++ {
			c.Steps = append(c.Steps, step{Kind: "next"})
		}
	case p < 5:
		c.Pattern = "jump-first"
		c.Steps = append(c.Steps, step{Kind: "jump", D: half(1 + rng.Int63n(4))})
		for s, n := 0, 2+rng.Intn(5); s < n; s++ {
			if rng.Intn(2) == 0 {
				c.Steps = append(c.Steps, step{Kind: "jump", D: half(rng.Int63n(4))})
			} else {
				c.Steps = append(c.Steps, step{Kind: "next"})
			}
		}
	case p < 7:
		c.Pattern = "jump-later"
		c.Steps = append(c.Steps, step{Kind: "next"})
		for s, n := 0, 3+rng.Intn(6); s < n; s++ {
			switch rng.Intn(3) {
			case 0:
				c.Steps = append(c.Steps, step{Kind: "next"})
			case 1:
				c.Steps = append(c.Steps, step{Kind: "jump", D: half(rng.Int63n(5))})
			default:
				c.Steps = append(c.Steps, step{Kind: "jump", D: 1 + rng.Int63n(3*i)})
			}
		}
	case p < 9:
		c.Pattern = "slow-consumer"
		for s, n := 0, rng.Intn(3); s < n; s++ {
			c.Steps = append(c.Steps, step{Kind: "next"})
		}
		for s, n := 0, 2+rng.Intn(5); s < n; s++ {
			c.Steps = append(c.Steps, step{Kind: "hold-next"})
		}
		for s, n := 0, 2+rng.Intn(4); s < n; s++ {
			c.Steps = append(c.Steps, step{Kind: "next"})
		}
	default:
		c.Pattern = "mixed"
		for s, n := 0, 5+rng.Intn(10); s < n; s++ {
			switch rng.Intn(5) {
			case 0:
				c.Steps = append(c.Steps, step{Kind: "jump", D: half(rng.Int63n(4))})
			case 1:
				c.Steps = append(c.Steps, step{Kind: "hold-next"})
			case 2:
				c.Steps = append(c.Steps, step{Kind: "hold-jump", D: half(rng.Int63n(3))})
			default:
				c.Steps = append(c.Steps, step{Kind: "next"})
			}
		}
		c.Steps = append(c.Steps, step{Kind: "next"}, step{Kind: "next"})
	}
	return c
}

// pickStart chooses the start instant of a case whose interval and offset are set.
func pickStart(rng *rand.Rand, c *alignCase) {
	i := c.IntervalNs
	// an arbitrary instant between 1700 and 2200 (UnixNano is exact in that range), mostly after 1990
	var base int64
	if rng.Intn(6) == 0 {
		base = -8_500_000_000_000_000_000 + rng.Int63n(8_400_000_000_000_000_000) // 1700..1969
	} else {
		base = 631_152_000_000_000_000 + rng.Int63n(6_600_000_000_000_000_000) // 1990..2199
	}
	// the boundary at or before base under the reading the implementation is documented to use
	// (time.Truncate counts from the zero time; identical to the epoch reading when the interval divides a day)
	_, zr := c.rems(base)
	boundary := base - zr
	switch rng.Intn(8) {
	case 0, 1:
		c.StartNs, c.StartClass = boundary, "on-boundary"
	case 2:
		c.StartNs, c.StartClass = boundary+1, "boundary+1ns"
	case 3:
		c.StartNs, c.StartClass = boundary-1, "boundary-1ns"
	case 4:
		c.StartNs, c.StartClass = boundary+i/2, "mid"
	default:
		c.StartNs, c.StartClass = base, "arbitrary"
	}
}

// genFlusherSteps: exact steps, optionally the aggregators kept busy while deadlines pass; 0-2 backends.
func genFlusherSteps(rng *rand.Rand, c *alignCase) {
	c.Aggregators = 1 + rng.Intn(3)
	c.Backends = rng.Intn(3)
	n := 3 + rng.Intn(5)
	c.Pattern = "exact"
	for s := 0; s < n; s++ {
		if s > 0 && rng.Intn(5) == 0 {
			c.Steps = append(c.Steps, step{Kind: "hold", N: 1 + rng.Intn(3)})
			c.Pattern = "blocked-flush"
		} else {
			c.Steps = append(c.Steps, step{Kind: "next"})
		}
	}
}

func maxI(a, b int64) int64 {
	if a > b {
		return a
	}
	return b
}

// ---------------------------------------------------------------------------------------------------
// recording clock: a clock.Mock that also notes when timers and tickers are created, so the monitor
// knows the pending deadline (to decide whether an advancement fires) without guessing.

type created struct {
	at time.Time
	d  time.Duration
}

type recClock struct {
	*clock.Mock
	mu      sync.Mutex
	timers  []created
	tickers []created
}

func (c *recClock) NewTimer(d time.Duration) *clock.Timer {
	at := c.Mock.Now()
	c.mu.Lock()
	c.timers = append(c.timers, created{at, d})
	c.mu.Unlock()
	return c.Mock.NewTimer(d)
}

func (c *recClock) NewTicker(d time.Duration) *clock.Ticker {
	at := c.Mock.Now()
	c.mu.Lock()
	c.tickers = append(c.tickers, created{at, d})
	c.mu.Unlock()
	return c.Mock.NewTicker(d)
}

func (c *recClock) snapshot() (timers, tickers []created) {
	c.mu.Lock()
	defer c.mu.Unlock()
	return append([]created(nil), c.timers...), append([]created(nil), c.tickers...)
}

// sched is the monitor's model of the mock's single pending deadline (mock semantics only: a timer
// fires once at its deadline, a ticker fires once per Add/AddNext call and is re-armed at
// deadline + (floor((now-deadline)/period)+1)*period).
type sched struct {
	rc         *recClock
	hasTicker  bool
	pending    time.Time
	period     time.Duration
	firstExact bool // the first deadline was hit exactly, so the repeating ticker started on it
	firstSeen  bool
	mismatch   bool
}

// init waits for the first timer (or ticker) to exist. It returns the instant of an immediate fire
// (non-positive initial wait), or the zero time.
func (s *sched) init(start time.Time) (fired time.Time, ok bool) {
	if !mon.WaitUntil(watchdog, func() bool { return s.rc.Len() > 0 }) {
		return time.Time{}, false
	}
	timers, tickers := s.rc.snapshot()
	if len(timers) > 0 && timers[0].d <= 0 {
		// fired on creation; the ticker is created right after
		if !mon.WaitUntil(watchdog, func() bool { _, tk := s.rc.snapshot(); return len(tk) > 0 && s.rc.Len() > 0 }) {
			return time.Time{}, false
		}
		_, tickers = s.rc.snapshot()
		s.armTicker(tickers[0])
		s.firstExact, s.firstSeen = true, true
		return start, true
	}
	if len(timers) > 0 {
		s.pending = timers[0].at.Add(timers[0].d)
		return time.Time{}, true
	}
	if len(tickers) > 0 { // no initial timer at all (a plain ticker)
		s.armTicker(tickers[0])
		s.firstExact, s.firstSeen = true, true
		return time.Time{}, true
	}
	return time.Time{}, false
}

func (s *sched) armTicker(c created) {
	s.hasTicker = true
	s.period = c.d
	s.pending = c.at.Add(c.d)
}

// advance moves the mock and returns the instant at which the pending timer fired (zero: nothing fired).
// After ok == false, s.mismatch tells a clock-model mismatch (not judged) from a watchdog expiry.
func (s *sched) advance(st step) (now, fired time.Time, ok bool) {
	s.mismatch = false
	if !mon.WaitUntil(watchdog, func() bool { return s.rc.Len() > 0 }) {
		return time.Time{}, time.Time{}, false
	}
	switch st.Kind {
	case "jump", "hold-jump":
		now = s.rc.Add(time.Duration(st.D))
	default:
		now, _ = s.rc.AddNext()
		if !now.Equal(s.pending) {
			// the mock had another pending deadline than the one the monitor derived from the recorded
			// timer/ticker creations: do not judge this case
			s.mismatch = true
			return now, time.Time{}, false
		}
	}
	if s.pending.After(now) {
		return now, time.Time{}, true
	}
	fired = s.pending
	if !s.hasTicker {
		if !mon.WaitUntil(watchdog, func() bool { _, tk := s.rc.snapshot(); return len(tk) > 0 && s.rc.Len() > 0 }) {
			return now, fired, false
		}
		_, tickers := s.rc.snapshot()
		s.armTicker(tickers[0])
		s.firstExact, s.firstSeen = fired.Equal(now), true
	} else {
		k := now.Sub(s.pending)/s.period + 1
		s.pending = s.pending.Add(k * s.period)
	}
	return now, fired, true
}

// ---------------------------------------------------------------------------------------------------

type checker struct {
	r *mon.Run
	// dead: a confirmed stall (two watchdog expiries on the same script) was reported for this mode; further
	// cases of the mode would only wait for the same watchdog again
	dead map[string]bool
}

type tickRec struct {
	Value   int64 `json:"tick_unix_ns"`
	RemE    int64 `json:"rem_epoch"`
	RemZ    int64 `json:"rem_zero"`
	MockNow int64 `json:"mock_now_unix_ns"`
}

func recv(ch <-chan time.Time) (time.Time, bool) {
	select {
	case v := <-ch:
		return v, true
	default:
	}
	t := time.NewTimer(watchdog)
	defer t.Stop()
	select {
	case v := <-ch:
		return v, true
	case <-t.C:
		return time.Time{}, false
	}
}

// judgeAligned reports whether every instant is a boundary under one of the two readings.
func (c *alignCase) judgeAligned(ns []int64) bool {
	allE, allZ := true, true
	for _, v := range ns {
		e, z := c.rems(v)
		allE = allE && e == 0
		allZ = allZ && z == 0
	}
	return allE || allZ
}

func (k *checker) classes(c *alignCase) {
	switch {
	case c.Config != nil:
		k.r.Nontrivial("config|" + c.Config.classKey() + "|" + c.Pattern)
	case c.WallAnchored:
		k.r.Nontrivial(fmt.Sprintf("%s|i=%d|%s|%s|backends=%v", c.Mode, c.IntervalNs, c.StartClass, c.Pattern, c.Backends > 0))
	case c.OffsetNs != 0 || (c.Pattern != "exact"):
		k.r.Nontrivial(fmt.Sprintf("%s|i=%d|off=%s|%s", c.Mode, c.IntervalNs, c.OffsetClass, c.Pattern))
	}
}

// tickerCase runs one ticker case. A watchdog expiry (a timer that is never armed, a tick that is never
// delivered in this deterministic script) is reproduced once: the same expiry again is a violation of bounded
// progress (the first tick is promised within one interval of the mock clock, which has passed), anything
// else is inconclusive.
func (k *checker) tickerCase(c *alignCase) {
	stall := k.runTicker(c)
	if stall == "" {
		return
	}
	k.r.Event("watchdog_expiry_reproduced", 1)
	switch again := k.runTicker(c); again {
	case stall:
		k.dead["ticker"] = true
		k.r.Violation("tick-never-arrives:"+stall+":"+c.Pattern, fmt.Sprintf("interval=%v offset=%v start=%v: %s in two runs of the same deterministic mock-clock script (watchdog %v each)", time.Duration(c.IntervalNs), time.Duration(c.OffsetNs), time.Unix(0, c.StartNs).UTC(), stall, watchdog), map[string]interface{}{"case": c})
	case "":
		k.r.Event("watchdog_expiry_not_reproduced", 1) // evaluated by the second run
	default:
		k.r.Inconclusive(stall)
	}
}

// runTicker returns "" when the case was evaluated (or set aside as inconclusive), or the stage at which
// a watchdog expired.
func (k *checker) runTicker(c *alignCase) (stall string) {
	k.r.Case("%s", c)
	start := time.Unix(0, c.StartNs).UTC()
	interval, offset := time.Duration(c.IntervalNs), time.Duration(c.OffsetNs)
	rc := &recClock{Mock: clock.NewMock(start)}
	ctx, cancel := context.WithCancel(clock.Context(context.Background(), rc))
	defer cancel()
	ch, stop := statsd.VerifNewAlignedTicker(ctx, interval, offset)
	defer stop()

	s := &sched{rc: rc}
	var ticks []tickRec
	var triggers []int64
	take := func() bool {
		v, ok := recv(ch)
		if !ok {
			return false
		}
		e, z := c.rems(v.UnixNano())
		ticks = append(ticks, tickRec{Value: v.UnixNano(), RemE: e, RemZ: z, MockNow: rc.Now().UnixNano()})
		return true
	}
	fired, ok := s.init(start)
	if !ok {
		return "ticker-never-armed"
	}
	undrained := 0 // fires whose tick was not taken yet
	if !fired.IsZero() {
		triggers = append(triggers, fired.UnixNano())
		undrained++
	}
	for _, st := range c.Steps {
		_, fired, ok := s.advance(st)
		if !ok {
			if s.mismatch {
				k.r.Inconclusive("clock-model-mismatch")
				return ""
			}
			return "ticker-not-rearmed"
		}
		if !fired.IsZero() {
			k.r.Event("timer_fired", 1)
			triggers = append(triggers, fired.UnixNano())
			undrained++
		}
		hold := st.Kind == "hold-next" || st.Kind == "hold-jump"
		if !hold && undrained > 0 {
			// one blocking receive: the channel has capacity 1, at least one tick of the undrained fires is
			// (or will be) in it; further ones may have been dropped by the ticker.
			if !take() {
				return "tick-not-delivered"
			}
			if undrained > 1 {
				k.r.Event("slow_consumer_episode", 1)
			}
			undrained = 0
		}
	}
	// drain what is left without blocking
	for {
		select {
		case v := <-ch:
			e, z := c.rems(v.UnixNano())
			ticks = append(ticks, tickRec{Value: v.UnixNano(), RemE: e, RemZ: z, MockNow: rc.Now().UnixNano()})
			continue
		default:
		}
		break
	}
	k.r.Eval(1)
	k.r.Event("ticks", len(ticks))
	if len(ticks) == 0 {
		k.r.Inconclusive("no-tick-observed")
		return ""
	}
	k.classes(c)

	witness := map[string]interface{}{"case": c, "ticks": ticks, "trigger_instants": triggers, "first_deadline_hit_exactly": s.firstExact}
	sigSuffix := c.Pattern
	if !c.Divides {
		sigSuffix += ":interval-not-dividing-a-day"
	}
	// 1. every tick value is on a boundary
	vals := make([]int64, len(ticks))
	for i, t := range ticks {
		vals[i] = t.Value
	}
	if !c.judgeAligned(vals) {
		k.r.Violation("tick-misaligned:"+sigSuffix, fmt.Sprintf("interval=%v offset=%v start=%v: tick values %v are not all offset+n*interval (remainders epoch/zero: %v)", interval, offset, start, fmtTimes(vals), remsOf(ticks)), witness)
	}
	// 2. strictly increasing
	for i := 1; i < len(ticks); i++ {
		if ticks[i].Value <= ticks[i-1].Value {
			k.r.Violation("tick-not-increasing:"+sigSuffix, fmt.Sprintf("interval=%v offset=%v start=%v: tick %d (%v) is not after tick %d (%v)", interval, offset, start, i, time.Unix(0, ticks[i].Value).UTC(), i-1, time.Unix(0, ticks[i-1].Value).UTC()), witness)
			break
		}
	}
	// 3. the first tick is no later than start + interval (the first received tick is the first sent:
	// the channel was empty when it was sent)
	if ticks[0].Value > c.StartNs+c.IntervalNs {
		k.r.Violation("first-tick-late:"+sigSuffix, fmt.Sprintf("interval=%v offset=%v start=%v: first tick %v is later than start+interval %v", interval, offset, start, time.Unix(0, ticks[0].Value).UTC(), start.Add(interval)), witness)
	}
	if len(triggers) > 0 && triggers[0] > c.StartNs+c.IntervalNs {
		k.r.Violation("first-trigger-late:"+sigSuffix, fmt.Sprintf("interval=%v offset=%v start=%v: the first timer was armed for %v, later than start+interval %v", interval, offset, start, time.Unix(0, triggers[0]).UTC(), start.Add(interval)), witness)
	}
	// 4. the clock instants at which ticks were triggered are boundaries too, as long as the clock was
	// advanced exactly onto the first deadline (after overshooting it the repeating ticker legitimately
	// starts late and only the tick values are re-rounded).
	if s.firstSeen && s.firstExact && len(triggers) > 0 {
		k.r.Event("trigger_instants_judged", len(triggers))
		if !c.judgeAligned(append(append([]int64(nil), triggers...), vals...)) && c.judgeAligned(vals) {
			k.r.Violation("trigger-misaligned:"+sigSuffix, fmt.Sprintf("interval=%v offset=%v start=%v: ticks were triggered at clock instants %v, not all offset+n*interval", interval, offset, start, fmtTimes(triggers)), witness)
		}
	}
	if k.r.WantSample() && c.OffsetNs != 0 && c.Pattern != "exact" {
		k.r.Sample(witness)
	}
	return ""
}

func fmtTimes(ns []int64) []string {
	out := make([]string, len(ns))
	for i, v := range ns {
		out[i] = time.Unix(0, v).UTC().Format("2006-01-02T15:04:05.000000000Z")
	}
	return out
}

func remsOf(t []tickRec) [][2]int64 {
	out := make([][2]int64, len(t))
	for i := range t {
		out[i] = [2]int64{t[i].RemE, t[i].RemZ}
	}
	return out
}

func TestCheck(t *testing.T) {
	r := mon.Start(t, "C18")
	defer r.Finish()
	r.Rule("cases: (ticker) the real aligned ticker on a mock clock: start instant on a boundary / 1ns either side / mid / arbitrary between 1700 and 2200, interval from a pool of 30 divisors of 86400s between 1ms and 1h (7/8) or 10 other intervals (1/8, judged under either reading of 'multiple', applied consistently), offset zero / low / half / high / interval-1ns / beyond the interval / negative, advancement pattern exact steps / jump over the first deadline / jumps of k.5 intervals and arbitrary lengths later / slow consumer (2-6 deadlines pass undrained) / mixed; (flusher) the real MetricFlusher in aligned mode with 1-3 fake aggregators and 0-2 capturing backends, exact steps, optionally aggregators kept busy while 1-3 deadlines pass; half of the flusher cases start the mock clock at the real now (the clock the flusher reads at start-up) a chosen lead before a boundary (1ns / under 1/1000 / under 1/10 / mid / over 9/10 of the interval / interval-1ns / a full interval; the offset is derived from it, the absolute instant is the only thing not fixed by the seed); (config) random command line / environment / toml / yaml / mixed configurations of flush-aligned, flush-interval (21 values, three spellings, or not given) and flush-offset (not given / zero / sub-second / whole seconds below the interval / below / beyond the interval / negative) through the real setupConfiguration()+constructServer() of cmd/gostatsd, then the real flusher built from exactly the constructed server's fields, driven as above and judged against the configured text (README defaults: interval 1s, no offset). Non-trivial: non-zero offset or a non-exact pattern, a start anchored to the real clock, a configuration; distinct by (mode, interval, offset class, pattern), (interval, lead class, pattern, backends), (source kind, sources per key, interval text, offset class, pattern).")
	r.Assume("tilinna/clock Mock semantics (timer fires at its deadline value; ticker fires once per Add and is re-armed on its own grid); time.Time/UnixNano arithmetic; MetricFlusher.Run is one goroutine (a later NotifyFlush means the earlier tick has been dealt with); pkg/statsd builds its flusher from Server.FlushInterval/FlushOffset/FlushAligned (createStandaloneSink cannot be run on a mock clock: RunWithCustomSocket takes no clock from its context)")
	k := &checker{r: r, dead: map[string]bool{}}

	if p := r.ReplayPayload(); p != nil {
		var w struct {
			Case *alignCase `json:"case"`
		}
		if mon.ReplayCase(p, &w) == nil || w.Case == nil {
			t.Skip("no case in replay file")
		}
		switch {
		case w.Case.Config != nil:
			replayConfig(t, r, k, w.Case)
		case w.Case.Mode == "flusher":
			k.flusherCase(w.Case)
		default:
			k.tickerCase(w.Case)
		}
		r.Nontrivial("replay-a")
		r.Nontrivial("replay-b")
		return
	}

	rng := r.Rand("c18")
	nTicker := r.N(5000, 1000000)
	nFlusher := r.N(500, 50000)
	for i := 0; i < nTicker; i++ {
		k.tickerCase(genCase(rng, "ticker"))
		if r.Violations() > 8 || k.dead["ticker"] {
			break
		}
	}
	for i := 0; i < nFlusher; i++ {
		k.flusherCase(genCase(rng, "flusher"))
		if r.Violations() > 12 || k.dead["flusher"] {
			break
		}
	}
	if !k.dead["flusher"] {
		configPhase(t, r, k)
	}
}
