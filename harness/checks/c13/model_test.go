//go:build verif

package c13

import (
	"fmt"
	"math/rand"
	"regexp"
	"sort"
	"strings"
)

// ---------------------------------------------------------------------------------------------------
// case description (also the replay payload)

type podSpec struct {
	NS          string            `json:"ns"`
	Name        string            `json:"name"`
	Phase       string            `json:"phase"`
	Deleting    bool              `json:"deletion_timestamp_set,omitempty"`
	HostNetwork bool              `json:"host_network,omitempty"`
	HostIP      string            `json:"host_ip,omitempty"`
	PodIP       string            `json:"pod_ip,omitempty"`
	Labels      map[string]string `json:"labels,omitempty"`
	Annotations map[string]string `json:"annotations,omitempty"`
	RV          int               `json:"rv"`
	Node        string            `json:"node,omitempty"` // spec.nodeName; "" stands for node1
}

func (p *podSpec) id() string { return p.NS + "/" + p.Name }

func (p *podSpec) clone() *podSpec {
	q := *p
	q.Labels = cloneMap(p.Labels)
	q.Annotations = cloneMap(p.Annotations)
	return &q
}

func cloneMap(m map[string]string) map[string]string {
	out := make(map[string]string, len(m))
	for k, v := range m {
		out[k] = v
	}
	return out
}

type lookup struct {
	IP    string `json:"ip"`
	Times int    `json:"times"`
	Sink  bool   `json:"via_ipsink,omitempty"`
	// Consume: after the lookup a metric or event from this IP goes through the real consumers of the
	// answer (CloudHandler -> TagHandler -> a sink that keys by FormatTagsKey), then the IP is looked up again
	Consume *consume `json:"consume,omitempty"`
}

type op struct {
	Kind      string   `json:"kind"` // add | update | delete
	Why       string   `json:"why,omitempty"`
	Pod       podSpec  `json:"pod"` // new version (add, update) or last version (delete)
	Tombstone bool     `json:"tombstone,omitempty"`
	Lookups   []lookup `json:"lookups,omitempty"`
}

func (o op) String() string {
	p := o.Pod
	s := fmt.Sprintf("%s %s[%s ip=%q host=%q", o.Kind, p.id(), p.Phase, p.PodIP, p.HostIP)
	if p.HostNetwork {
		s += " hostNetwork"
	}
	if p.Deleting {
		s += " terminating"
	}
	s += fmt.Sprintf(" L=%v A=%v]", p.Labels, p.Annotations)
	if o.Why != "" {
		s += " (" + o.Why + ")"
	}
	return s
}

type history struct {
	Mode    string `json:"mode"`   // seq | forced | concurrent
	Engine  string `json:"engine"` // direct | informer
	LabelRe string `json:"label_regex"`
	AnnRe   string `json:"annotation_regex"`
	Ops     []op   `json:"ops"`
	// forced interleaving: the lookup of ParkIP is parked before Ops[ParkAt:] are applied
	ParkAt  int    `json:"park_at,omitempty"`
	ParkIP  string `json:"park_ip,omitempty"`
	Variant string `json:"variant,omitempty"`
	// engine "config": the provider is built by NewProviderFromViper from Conf; Ops[:ListFirst] happen before it
	// starts (they reach it through the initial list), the rest through the watch
	Conf      *k8sConf `json:"k8s_config,omitempty"`
	ListFirst int      `json:"ops_before_start,omitempty"`
	// consumers of lookup answers (mode "consume")
	Pipe *pipeConf `json:"pipeline,omitempty"`
	// mode "burst": lookups through IpSink/InfoSource under back-pressure, interleaved with Ops
	Script  []bstep `json:"script,omitempty"`
	Pattern string  `json:"pattern,omitempty"`
}

// ---------------------------------------------------------------------------------------------------
// reference: pods -> answer

type answer struct {
	ID   string   `json:"id"`
	Tags []string `json:"tags"` // sorted multiset
}

func (a *answer) String() string {
	if a == nil {
		return "<nothing>"
	}
	return fmt.Sprintf("%s%q", a.ID, a.Tags)
}

func sameAnswer(a, b *answer) bool {
	if a == nil || b == nil {
		return a == nil && b == nil
	}
	if a.ID != b.ID || len(a.Tags) != len(b.Tags) {
		return false
	}
	for i := range a.Tags {
		if a.Tags[i] != b.Tags[i] {
			return false
		}
	}
	return true
}

// holds reports whether the pod is the kind of pod whose IP identifies it: it has an IP, is running (not
// finished, not being deleted) and does not share the host's network.
func holds(p *podSpec) bool {
	if p.PodIP == "" {
		return false
	}
	if p.Phase == "Succeeded" || p.Phase == "Failed" || p.Deleting {
		return false
	}
	if p.HostNetwork || p.PodIP == p.HostIP {
		return false
	}
	return true
}

// refTagName is the documented rule (CLOUDPROVIDERS.md "Tag names and values"): a key the regex does not
// match gives no tag; otherwise the tag name is the text of the capture group named "tag" when that
// matched non-empty text, else the whole key.
func refTagName(re *regexp.Regexp, key string) (string, bool) {
	loc := re.FindStringSubmatchIndex(key)
	if loc == nil {
		return "", false
	}
	if gi := re.SubexpIndex("tag"); gi >= 0 {
		if s, e := loc[2*gi], loc[2*gi+1]; s >= 0 && e > s {
			return key[s:e], true
		}
	}
	return key, true
}

type config struct {
	labelRe, annRe *regexp.Regexp
	// visible: which pods the configuration lets the provider watch (nil: the whole cluster)
	visible func(p *podSpec) bool
}

func (c *config) answerOf(p *podSpec) *answer {
	a := &answer{ID: p.NS + "/" + p.Name, Tags: []string{}}
	if c.labelRe != nil {
		for k, v := range p.Labels {
			if n, ok := refTagName(c.labelRe, k); ok {
				a.Tags = append(a.Tags, n+":"+v)
			}
		}
	}
	if c.annRe != nil {
		for k, v := range p.Annotations {
			if n, ok := refTagName(c.annRe, k); ok {
				a.Tags = append(a.Tags, n+":"+v)
			}
		}
	}
	sort.Strings(a.Tags)
	return a
}

// model is the set of pods that currently exist.
type model struct {
	cfg  *config
	pods map[string]*podSpec
}

func newModel(cfg *config) *model { return &model{cfg: cfg, pods: map[string]*podSpec{}} }

func (m *model) apply(o *op) {
	switch o.Kind {
	case "add", "update":
		m.pods[o.Pod.id()] = o.Pod.clone()
	case "delete":
		delete(m.pods, o.Pod.id())
	}
}

func (m *model) holder(ip string) *podSpec {
	var h *podSpec
	for _, p := range m.pods {
		if m.cfg.visible != nil && !m.cfg.visible(p) {
			continue
		}
		if holds(p) && p.PodIP == ip {
			if h != nil {
				panic("generator invariant broken: two pods hold " + ip)
			}
			h = p
		}
	}
	return h
}

func (m *model) answer(ip string) *answer {
	if h := m.holder(ip); h != nil {
		return m.cfg.answerOf(h)
	}
	return nil
}

// ---------------------------------------------------------------------------------------------------
// pools

var regexPool = []string{
	"", // disabled
	`^gostatsd\.atlassian\.com/(?P<tag>.*)$`,
	`^app`,
	`^(app|label)`,
	`^(?:team|app)\.(?P<tag>[a-z0-9]+)$`,
	`(?P<tag>[a-z]+)$`,
	`^(?P<ns>[a-z]+)/(?P<tag>[a-z0-9-]*)$`,
	`^x-(?P<tag>[a-z]*)-id$|^plain$`,
	`^(?P<tag>v)?er`,
	`tier`,
	`^(product\.company\.com/|gostatsd\.atlassian\.com/)(?P<tag>.*)$`,
	`.`,
	`^(?P<first>[a-z]+)\.(?P<tag>[a-z]*)\.(?P<last>[a-z]+)$`,
}

var keyPool = []string{
	"app", "application", "label", "team", "tier", "frontier", "team.core", "app.v2", "a..c", "x.y.z", "x-trace-id", "x--id", "plain",
	"version", "er", "verbose", "gostatsd.atlassian.com/", "gostatsd.atlassian.com/tag1", "product.company.com/tag2", "ns/", "ns/svc-1",
	"UPPER", "k8s.io/Name9",
}

var valuePool = []string{"v1", "v2", "v3", "", "blue", "x:y", "v1"}

var ipPool = []string{"10.0.0.1", "10.0.0.2", "10.0.0.3"}

const nodeIP = "192.168.0.10"
const unknownIP = "10.9.9.9"

var podIDs = [][2]string{{"default", "web-0"}, {"default", "web-1"}, {"kube-system", "web-0"}, {"team-a", "db"}, {"team-a", "web-1"}}

// hand-derived expectations that validate refTagName itself ("" with ok=false: no tag).
var refSelfTest = []struct {
	re, key, want string
	ok            bool
}{
	{`^gostatsd\.atlassian\.com/(?P<tag>.*)$`, "gostatsd.atlassian.com/tag1", "tag1", true},
	{`^gostatsd\.atlassian\.com/(?P<tag>.*)$`, "gostatsd.atlassian.com/", "gostatsd.atlassian.com/", true},
	{`^gostatsd\.atlassian\.com/(?P<tag>.*)$`, "app", "", false},
	{`^app`, "application", "application", true},
	{`^app`, "team", "", false},
	{`^(app|label)`, "label", "label", true},
	{`^(?:team|app)\.(?P<tag>[a-z0-9]+)$`, "team.core", "core", true},
	{`^(?:team|app)\.(?P<tag>[a-z0-9]+)$`, "app.v2", "v2", true},
	{`^(?:team|app)\.(?P<tag>[a-z0-9]+)$`, "team", "", false},
	{`(?P<tag>[a-z]+)$`, "x-trace-id", "id", true},
	{`(?P<tag>[a-z]+)$`, "k8s.io/Name9", "", false},
	{`(?P<tag>[a-z]+)$`, "UPPER", "", false},
	{`(?P<tag>[a-z]+)$`, "ns/", "", false},
	{`(?P<tag>[a-z]+)$`, "team.core", "core", true},
	{`^(?P<ns>[a-z]+)/(?P<tag>[a-z0-9-]*)$`, "ns/svc-1", "svc-1", true},
	{`^(?P<ns>[a-z]+)/(?P<tag>[a-z0-9-]*)$`, "ns/", "ns/", true},
	{`^(?P<ns>[a-z]+)/(?P<tag>[a-z0-9-]*)$`, "product.company.com/tag2", "", false},
	{`^x-(?P<tag>[a-z]*)-id$|^plain$`, "x-trace-id", "trace", true},
	{`^x-(?P<tag>[a-z]*)-id$|^plain$`, "x--id", "x--id", true},
	{`^x-(?P<tag>[a-z]*)-id$|^plain$`, "plain", "plain", true},
	{`^(?P<tag>v)?er`, "version", "v", true},
	{`^(?P<tag>v)?er`, "er", "er", true},
	{`^(?P<tag>v)?er`, "frontier", "", false},
	{`tier`, "frontier", "frontier", true},
	{`^(product\.company\.com/|gostatsd\.atlassian\.com/)(?P<tag>.*)$`, "product.company.com/tag2", "tag2", true},
	{`^(?P<first>[a-z]+)\.(?P<tag>[a-z]*)\.(?P<last>[a-z]+)$`, "a..c", "a..c", true},
	{`^(?P<first>[a-z]+)\.(?P<tag>[a-z]*)\.(?P<last>[a-z]+)$`, "x.y.z", "y", true},
	{`.`, "UPPER", "UPPER", true},
}

func compileOrNil(s string) *regexp.Regexp {
	if s == "" {
		return nil
	}
	return regexp.MustCompile(s)
}

// ---------------------------------------------------------------------------------------------------
// generator of histories

type gen struct {
	rng    *rand.Rand
	pods   map[string]*podSpec
	rv     int
	everIP map[string]bool // IPs that had a holder at some time
}

func newGen(rng *rand.Rand) *gen {
	return &gen{rng: rng, pods: map[string]*podSpec{}, everIP: map[string]bool{}}
}

func (g *gen) held(ip, except string) bool {
	for id, p := range g.pods {
		if id != except && holds(p) && p.PodIP == ip {
			return true
		}
	}
	return false
}

func (g *gen) randMap(n int) map[string]string {
	m := map[string]string{}
	for i := 0; i < n; i++ {
		m[keyPool[g.rng.Intn(len(keyPool))]] = valuePool[g.rng.Intn(len(valuePool))]
	}
	return m
}

// pickIP prefers an IP that was held before and is free now (re-use), then any free one.
func (g *gen) pickIP(except string) string {
	var reuse, free []string
	for _, ip := range ipPool {
		if !g.held(ip, except) {
			free = append(free, ip)
			if g.everIP[ip] {
				reuse = append(reuse, ip)
			}
		}
	}
	if len(reuse) > 0 && g.rng.Intn(3) != 0 {
		return reuse[g.rng.Intn(len(reuse))]
	}
	if len(free) > 0 && g.rng.Intn(8) != 0 {
		return free[g.rng.Intn(len(free))]
	}
	return ipPool[g.rng.Intn(len(ipPool))]
}

var phases = []string{"Pending", "Running", "Running", "Running", "Succeeded", "Failed"}

func (g *gen) newPod(id [2]string) *podSpec {
	p := &podSpec{NS: id[0], Name: id[1], HostIP: nodeIP}
	p.Phase = phases[g.rng.Intn(4)]
	if g.rng.Intn(12) == 0 {
		p.Phase = phases[4+g.rng.Intn(2)]
	}
	if g.rng.Intn(6) != 0 {
		p.PodIP = g.pickIP(p.id())
	}
	if g.rng.Intn(10) == 0 {
		p.HostNetwork = true
		if g.rng.Intn(2) == 0 && p.PodIP != "" {
			p.HostIP = p.PodIP
		}
	}
	p.Labels = g.randMap(g.rng.Intn(4))
	p.Annotations = g.randMap(g.rng.Intn(4))
	return p
}

func (g *gen) editMap(m map[string]string) (map[string]string, string) {
	out := cloneMap(m)
	keys := make([]string, 0, len(out))
	for k := range out {
		keys = append(keys, k)
	}
	sort.Strings(keys)
	switch c := g.rng.Intn(4); {
	case c == 0 && len(keys) > 0:
		delete(out, keys[g.rng.Intn(len(keys))])
		return out, "remove-key"
	case c == 1 && len(keys) > 0:
		k := keys[g.rng.Intn(len(keys))]
		old := out[k]
		for i := 0; i < 4 && out[k] == old; i++ {
			out[k] = valuePool[g.rng.Intn(len(valuePool))]
		}
		return out, "change-value"
	case c == 2 && len(keys) > 0:
		// rename a key: which keys match changes while the value stays
		k := keys[g.rng.Intn(len(keys))]
		v := out[k]
		delete(out, k)
		out[keyPool[g.rng.Intn(len(keyPool))]] = v
		return out, "rename-key"
	default:
		out[keyPool[g.rng.Intn(len(keyPool))]] = valuePool[g.rng.Intn(len(valuePool))]
		return out, "add-key"
	}
}

// edit returns a modified copy of p and a description of what changed.
func (g *gen) edit(p *podSpec) (*podSpec, string) {
	q := p.clone()
	switch c := g.rng.Intn(100); {
	case c < 22:
		var how string
		q.Labels, how = g.editMap(q.Labels)
		return q, "labels:" + how
	case c < 40:
		var how string
		q.Annotations, how = g.editMap(q.Annotations)
		return q, "annotations:" + how
	case c < 62:
		switch {
		case q.PodIP == "":
			q.PodIP = g.pickIP(q.id())
			return q, "ip:set"
		case g.rng.Intn(3) == 0:
			q.PodIP = ""
			return q, "ip:unset"
		default:
			old := q.PodIP
			for i := 0; i < 6 && q.PodIP == old; i++ {
				q.PodIP = g.pickIP(q.id())
			}
			return q, "ip:change"
		}
	case c < 80:
		old := q.Phase
		for q.Phase == old {
			q.Phase = phases[g.rng.Intn(len(phases))]
		}
		return q, "phase:" + q.Phase
	case c < 86:
		if !q.Deleting {
			q.Deleting = true
			return q, "terminating"
		}
		q.Deleting = false
		return q, "terminating-cleared"
	case c < 93:
		q.HostNetwork = !q.HostNetwork
		return q, fmt.Sprintf("hostnetwork:%v", q.HostNetwork)
	default:
		if q.HostIP == q.PodIP && q.PodIP != "" {
			q.HostIP = nodeIP
			return q, "hostip:node"
		}
		if q.PodIP != "" {
			q.HostIP = q.PodIP
			return q, "hostip:=podip"
		}
		q.HostIP = ""
		return q, "hostip:unset"
	}
}

// next produces one more event that keeps the invariant "at most one pod holds an IP".
func (g *gen) next() op {
	for try := 0; ; try++ {
		var absent [][2]string
		var present []string
		for _, id := range podIDs {
			if _, ok := g.pods[id[0]+"/"+id[1]]; ok {
				present = append(present, id[0]+"/"+id[1])
			} else {
				absent = append(absent, id)
			}
		}
		c := g.rng.Intn(100)
		var o op
		switch {
		case len(present) == 0 || (len(absent) > 0 && c < 22):
			p := g.newPod(absent[g.rng.Intn(len(absent))])
			o = op{Kind: "add", Pod: *p}
		case c < 36:
			p := g.pods[present[g.rng.Intn(len(present))]]
			o = op{Kind: "delete", Pod: *p.clone(), Tombstone: g.rng.Intn(6) == 0}
		default:
			p := g.pods[present[g.rng.Intn(len(present))]]
			// prefer editing a pod that holds an IP: those are the interesting transitions
			if !holds(p) && g.rng.Intn(2) == 0 {
				p = g.pods[present[g.rng.Intn(len(present))]]
			}
			q, why := g.edit(p)
			o = op{Kind: "update", Pod: *q, Why: why}
		}
		if o.Kind != "delete" && holds(&o.Pod) && g.held(o.Pod.PodIP, o.Pod.id()) {
			if try < 20 {
				continue
			}
			// give up on this shape: a harmless label edit of an existing pod, or an IP-less add
			if o.Kind == "add" {
				o.Pod.PodIP = ""
			} else {
				p := g.pods[o.Pod.id()]
				q := p.clone()
				q.Labels["app"] = valuePool[g.rng.Intn(3)]
				o = op{Kind: "update", Pod: *q, Why: "labels:fallback"}
			}
		}
		g.commit(&o)
		return o
	}
}

func (g *gen) commit(o *op) {
	g.rv++
	o.Pod.RV = g.rv
	if o.Kind == "delete" {
		delete(g.pods, o.Pod.id())
		return
	}
	g.pods[o.Pod.id()] = o.Pod.clone()
	if holds(&o.Pod) {
		g.everIP[o.Pod.PodIP] = true
	}
}

func (g *gen) lookups(sink bool) []lookup {
	var ls []lookup
	for _, ip := range ipPool {
		if g.rng.Intn(5) != 0 {
			ls = append(ls, lookup{IP: ip, Times: 1 + g.rng.Intn(2), Sink: sink && g.rng.Intn(3) == 0})
		}
	}
	if g.rng.Intn(10) == 0 {
		ls = append(ls, lookup{IP: []string{unknownIP, nodeIP}[g.rng.Intn(2)], Times: 1})
	}
	g.rng.Shuffle(len(ls), func(i, j int) { ls[i], ls[j] = ls[j], ls[i] })
	return ls
}

func pickRegexes(rng *rand.Rand) (string, string) {
	l := regexPool[rng.Intn(len(regexPool))]
	a := regexPool[rng.Intn(len(regexPool))]
	if rng.Intn(4) == 0 {
		a = regexPool[1] // the documented default
	}
	return l, a
}

func genSeq(rng *rand.Rand, engine string, maxSteps int) *history {
	h := &history{Mode: "seq", Engine: engine}
	h.LabelRe, h.AnnRe = pickRegexes(rng)
	g := newGen(rng)
	n := maxSteps/2 + rng.Intn(maxSteps/2+1)
	for i := 0; i < n; i++ {
		o := g.next()
		if engine == "informer" {
			o.Tombstone = false // the informer decides itself how a deletion is delivered
		}
		o.Lookups = g.lookups(engine == "informer")
		h.Ops = append(h.Ops, o)
	}
	return h
}

func genConcurrent(rng *rand.Rand, engine string, steps int) *history {
	h := &history{Mode: "concurrent", Engine: engine}
	h.LabelRe, h.AnnRe = pickRegexes(rng)
	g := newGen(rng)
	for i := 0; i < steps; i++ {
		h.Ops = append(h.Ops, g.next())
	}
	return h
}

var forcedVariants = []string{"update-labels", "update-annotations", "delete", "delete-tombstone", "finish", "terminating", "ip-change", "ip-unset", "hostnetwork", "delete-then-reuse", "finish-then-reuse"}

// genForced builds the D11 schedule: a pod holds ParkIP, nothing is memoised for it, a lookup is parked
// between reading the informer and storing the memo, Ops[ParkAt:] are applied and observed, the lookup is
// released, and later lookups must reflect the final state.
func genForced(rng *rand.Rand, engine string) *history {
	h := &history{Mode: "forced", Engine: engine}
	// regexes under which the edited key gives a tag, so that versions are distinguishable
	h.LabelRe = []string{`^app`, `^(app|label)`, `.`, `(?P<tag>[a-z]+)$`}[rng.Intn(4)]
	h.AnnRe = []string{`^gostatsd\.atlassian\.com/(?P<tag>.*)$`, `.`, `^(product\.company\.com/|gostatsd\.atlassian\.com/)(?P<tag>.*)$`}[rng.Intn(3)]
	h.Variant = forcedVariants[rng.Intn(len(forcedVariants))]
	g := newGen(rng)
	x := ipPool[rng.Intn(len(ipPool))]
	h.ParkIP = x
	add := func(o op) { g.commit(&o); h.Ops = append(h.Ops, o) }
	// some unrelated pods first
	for i, n := 0, rng.Intn(3); i < n; i++ {
		id := podIDs[2+i]
		q := g.newPod(id)
		if q.PodIP == x || (holds(q) && g.held(q.PodIP, q.id())) {
			q.PodIP = ""
		}
		o := op{Kind: "add", Pod: *q}
		add(o)
		h.Ops[len(h.Ops)-1].Lookups = []lookup{{IP: ipPool[rng.Intn(3)], Times: 1}}
	}
	p := &podSpec{NS: podIDs[0][0], Name: podIDs[0][1], Phase: phases[rng.Intn(4)], HostIP: nodeIP, PodIP: x,
		Labels: map[string]string{"app": "v2"}, Annotations: map[string]string{"gostatsd.atlassian.com/rel": "r2"}}
	if rng.Intn(2) == 0 {
		// the memo was filled and invalidated once before
		p1 := p.clone()
		p1.Labels["app"] = "v1"
		add(op{Kind: "add", Pod: *p1})
		h.Ops[len(h.Ops)-1].Lookups = []lookup{{IP: x, Times: 1 + rng.Intn(2)}}
		add(op{Kind: "update", Pod: *p, Why: "labels:v1->v2"})
		h.Variant += "+refilled"
	} else {
		add(op{Kind: "add", Pod: *p})
	}
	h.ParkAt = len(h.Ops)
	q := p.clone()
	other := ipPool[(indexOf(ipPool, x)+1)%len(ipPool)]
	second := &podSpec{NS: podIDs[1][0], Name: podIDs[1][1], Phase: "Running", HostIP: nodeIP, PodIP: x,
		Labels: map[string]string{"app": "other"}, Annotations: map[string]string{}}
	switch strings.SplitN(h.Variant, "+", 2)[0] {
	case "update-labels":
		q.Labels["app"] = "v3"
		add(op{Kind: "update", Pod: *q, Why: "labels:v2->v3"})
	case "update-annotations":
		q.Annotations["gostatsd.atlassian.com/rel"] = "r3"
		add(op{Kind: "update", Pod: *q, Why: "annotations:r2->r3"})
	case "delete":
		add(op{Kind: "delete", Pod: *q})
	case "delete-tombstone":
		add(op{Kind: "delete", Pod: *q, Tombstone: engine == "direct"})
	case "finish":
		q.Phase = phases[4+rng.Intn(2)]
		add(op{Kind: "update", Pod: *q, Why: "phase:" + q.Phase})
	case "terminating":
		q.Deleting = true
		add(op{Kind: "update", Pod: *q, Why: "terminating"})
	case "ip-change":
		if g.held(other, q.id()) {
			q.PodIP = ""
		} else {
			q.PodIP = other
		}
		add(op{Kind: "update", Pod: *q, Why: "ip:change"})
	case "ip-unset":
		q.PodIP = ""
		add(op{Kind: "update", Pod: *q, Why: "ip:unset"})
	case "hostnetwork":
		q.HostNetwork = true
		add(op{Kind: "update", Pod: *q, Why: "hostnetwork:true"})
	case "delete-then-reuse":
		add(op{Kind: "delete", Pod: *q})
		add(op{Kind: "add", Pod: *second})
	case "finish-then-reuse":
		q.Phase = "Succeeded"
		add(op{Kind: "update", Pod: *q, Why: "phase:Succeeded"})
		add(op{Kind: "add", Pod: *second})
	}
	return h
}

func indexOf(s []string, v string) int {
	for i := range s {
		if s[i] == v {
			return i
		}
	}
	return 0
}
