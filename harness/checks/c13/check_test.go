//go:build verif

// C13 — Kubernetes lookups reflect the current pod holding an IP.
//
// The real k8s provider is driven with histories of pod add/update/delete events, (a) directly at its
// indexer + invalidation handler, (b) through a fake clientset and its own informer (waiting for the
// k8s.on* hook points), (c) with a lookup parked at k8s.beforeMemoStore while the pod changes, and
// (d) with concurrent lookups. Every answer of Peek / InfoSource is compared with an independent
// reference function from the set of existing pods to the expected (identity, tag multiset).
package c13

import (
	"encoding/json"
	"fmt"
	"regexp"
	"strings"
	"sync"
	"sync/atomic"
	"testing"

	"github.com/atlassian/gostatsd"
	"github.com/atlassian/gostatsd/pkg/verifhook"

	"verif/mon"
)

type checker struct {
	r *mon.Run
	// a burst script failed to progress twice: further burst cases would each cost two watchdogs
	stuckReported bool
}

// ipTrack follows, per IP, how the expected answer evolved, to classify cases and failures.
type ipTrack struct {
	pattern    []string
	lastHolder string
	memo       bool      // a lookup answered for the current holder version
	prev       []*answer // earlier expectations
	lastChange string
}

type tracker struct {
	ips map[string]*ipTrack
}

func newTracker() *tracker {
	t := &tracker{ips: map[string]*ipTrack{}}
	for _, ip := range ipPool {
		t.ips[ip] = &ipTrack{lastChange: "never-held"}
	}
	return t
}

func lossReason(o *op) string {
	if o.Kind == "delete" {
		if o.Tombstone {
			return "delete-tombstone"
		}
		return "delete"
	}
	w := o.Why
	switch {
	case strings.HasPrefix(w, "phase:"):
		return "finished"
	case strings.HasPrefix(w, "terminating"):
		return "terminating"
	case strings.HasPrefix(w, "hostnetwork"):
		return "hostnetwork"
	case strings.HasPrefix(w, "hostip"):
		return "hostip-equals-podip"
	case w == "ip:unset":
		return "ip-unset"
	case strings.HasPrefix(w, "ip:"):
		return "ip-changed"
	}
	return "update"
}

func (t *tracker) note(o *op, before, after map[string]*answer) {
	for _, ip := range ipPool {
		b, a := before[ip], after[ip]
		if sameAnswer(a, b) {
			continue
		}
		it := t.ips[ip]
		m := ""
		if it.memo {
			m = "m"
		}
		switch {
		case b == nil:
			switch {
			case it.lastHolder == "":
				it.pattern = append(it.pattern, "+new")
			case it.lastHolder == a.ID:
				it.pattern = append(it.pattern, "+back")
			default:
				it.pattern = append(it.pattern, "+REUSE")
			}
			it.lastChange = "gained-holder"
		case a == nil:
			it.pattern = append(it.pattern, "-"+lossReason(o)+m)
			it.lastChange = "holder-left:" + lossReason(o)
		default:
			kind := "edit"
			if i := strings.Index(o.Why, ":"); i > 0 {
				kind = "edit-" + o.Why[:i]
			}
			it.pattern = append(it.pattern, kind+m)
			it.lastChange = "holder-edited"
		}
		if b != nil {
			it.prev = append(it.prev, b)
		}
		if a != nil {
			it.lastHolder = a.ID
		}
		it.memo = false
	}
}

func (t *tracker) looked(ip string, want *answer) {
	if it := t.ips[ip]; it != nil && want != nil {
		it.memo = true
	}
}

// nontrivial returns the class keys of the IPs whose pattern shows a re-use by a second pod or a holder
// leaving (or changing) while its answer was memoised.
func (t *tracker) nontrivial(prefix string) []string {
	var out []string
	for _, ip := range ipPool {
		it := t.ips[ip]
		hit := false
		for _, tok := range it.pattern {
			if tok == "+REUSE" || (strings.HasPrefix(tok, "-") && strings.HasSuffix(tok, "m")) {
				hit = true
			}
		}
		if hit {
			p := it.pattern
			if len(p) > 8 {
				p = p[:8]
			}
			out = append(out, prefix+"|"+strings.Join(p, " "))
		}
	}
	return out
}

func snapshot(m *model) map[string]*answer {
	s := map[string]*answer{}
	for _, ip := range ipPool {
		s[ip] = m.answer(ip)
	}
	return s
}

// judge compares one answer with the reference and reports a classified violation.
func (k *checker) judge(prefix string, h *history, step int, ip string, got, want *answer, it *ipTrack, trace []string) bool {
	return k.judgeSig(prefix, nil, h, step, ip, got, want, it, trace)
}

// judgeSig is judge with a decorator for the failure kind (to name the configuration class in the sig).
func (k *checker) judgeSig(prefix string, deco func(kind string) string, h *history, step int, ip string, got, want *answer, it *ipTrack, trace []string) bool {
	if sameAnswer(got, want) {
		return true
	}
	sig := ""
	stale := false
	if it != nil && got != nil {
		for _, p := range it.prev {
			if sameAnswer(p, got) {
				stale = true
			}
		}
	}
	switch {
	case stale:
		sig = "stale-answer:after-" + it.lastChange
	case want == nil:
		sig = "answer-without-holder"
	case got == nil:
		sig = "no-answer-for-holder"
	case got.ID != want.ID:
		sig = "wrong-identity"
	default:
		sig = "wrong-tags"
	}
	if deco != nil {
		sig = deco(sig)
	}
	k.r.Violation(prefix+":"+sig,
		fmt.Sprintf("label regex %q, annotation regex %q; after step %d lookup of %s answered %v, expected %v\nhistory:\n  %s", h.LabelRe, h.AnnRe, step, ip, got, want, strings.Join(trace, "\n  ")),
		h)
	return false
}

func compile(h *history) *config {
	return &config{labelRe: compileOrNil(h.LabelRe), annRe: compileOrNil(h.AnnRe)}
}

// runSeq: sequential history with lookups after every step (modes a and b).
func (k *checker) caseLine(h *history, no int) {
	if h.Engine == "direct" && (h.Mode == "seq" || h.Mode == "consume") {
		// sequential direct-drive cases run on this goroutine only: a panic is caught by Guard with the
		// whole history as witness, so the write-ahead line stays short
		k.r.Case("%s-direct #%d label=%q annotation=%q ops=%d", h.Mode, no, h.LabelRe, h.AnnRe, len(h.Ops))
		return
	}
	b, _ := json.Marshal(h)
	k.r.Case("%s", b)
}

func (k *checker) guarded(h *history, f func()) {
	k.r.Guard(h.Mode+"-"+h.Engine+":panic", h, f)
}

func (k *checker) runSeq(h *history, no int) {
	k.caseLine(h, no)
	cfg := compile(h)
	e, err := newEngine(h.Engine, cfg)
	if err != nil {
		k.r.Inconclusive("engine-start:" + h.Engine)
		return
	}
	defer e.close()
	m := newModel(cfg)
	tr := newTracker()
	prefix := "seq-" + h.Engine
	var trace []string
	if h.Pipe != nil {
		prefix = "consume-" + h.Engine
		if e.pipe, err = newPipeline(e.p, h.Pipe); err != nil {
			k.r.Inconclusive("pipeline-config-unreadable")
			return
		}
		trace = append(trace, "consumers: CloudHandler -> TagHandler(static tags "+fmt.Sprintf("%q", h.Pipe.Static)+", filters: "+strings.ReplaceAll(strings.TrimSpace(h.Pipe.Text), "\n", " ; ")+") -> sink keyed by FormatTagsKey")
	}
	ok := true
	nLook := 0
	for i := range h.Ops {
		o := &h.Ops[i]
		before := snapshot(m)
		if err := e.apply(o); err != nil {
			k.r.Inconclusive("apply:" + h.Engine)
			return
		}
		k.r.Event("pod_"+o.Kind, 1)
		m.apply(o)
		tr.note(o, before, snapshot(m))
		trace = append(trace, fmt.Sprintf("%d: %s", i, o))
		for _, l := range o.Lookups {
			want := m.answer(l.IP)
			for t := 0; t < l.Times; t++ {
				got, err := e.peek(l.IP, l.Sink)
				if err != nil {
					k.r.Violation(prefix+":lookup-failed", err.Error(), h)
					return
				}
				nLook++
				via := "Peek"
				if l.Sink && h.Engine == "informer" {
					via = "IpSink"
					k.r.Event("lookup_via_ipsink", 1)
				}
				trace = append(trace, fmt.Sprintf("   %s(%s) = %v", via, l.IP, got))
				if !k.judge(prefix, h, i, l.IP, got, want, tr.ips[l.IP], trace) {
					ok = false
				}
				tr.looked(l.IP, want)
			}
			if ok && l.Consume != nil && e.pipe != nil {
				// hand the answer to its real consumers, then the IP must still answer for the model
				e.pipe.feed(l.IP, l.Consume)
				own := "untagged"
				if len(l.Consume.Tags) > 0 {
					own = "tagged"
				}
				k.r.Event("consumed_"+own+"_"+l.Consume.Kind, 1)
				trace = append(trace, fmt.Sprintf("   %s %s from %s with own tags %q through the consumers", own, l.Consume.Kind, l.IP, l.Consume.Tags))
				got, err := e.peek(l.IP, false)
				if err != nil {
					k.r.Violation(prefix+":lookup-failed", err.Error(), h)
					return
				}
				nLook++
				trace = append(trace, fmt.Sprintf("   Peek(%s) = %v", l.IP, got))
				deco := func(kind string) string {
					return "answer-changed-after-consumers:" + own + "-" + l.Consume.Kind + ":" + kind
				}
				if !k.judgeSig(prefix, deco, h, i, l.IP, got, want, nil, trace) {
					ok = false
				}
				if want != nil {
					k.r.Nontrivial(fmt.Sprintf("consume|%s|%s|%s|filters=%d|static=%d|answer-tags=%d", h.Engine, own, l.Consume.Kind, strings.Count(h.Pipe.Text, "[filter."), len(h.Pipe.Static), minInt(len(want.Tags), 3)))
				}
			}
			if !ok {
				break
			}
		}
		if !ok {
			break
		}
	}
	k.r.Eval(1)
	k.r.Event("lookups", nLook)
	if e.pipe != nil {
		k.r.Event("items_reaching_sink", e.pipe.sink.items)
	}
	classes := tr.nontrivial(h.Engine)
	for _, c := range classes {
		k.r.Nontrivial(c)
	}
	if len(classes) > 0 && len(trace) < 60 && k.r.WantSample() {
		k.r.Sample(map[string]interface{}{"mode": prefix, "label_regex": h.LabelRe, "annotation_regex": h.AnnRe, "history": trace})
	}
}

// runForced: the D11 schedule.
func (k *checker) runForced(h *history) {
	k.caseLine(h, 0)
	cfg := compile(h)
	e, err := newEngine(h.Engine, cfg)
	if err != nil {
		k.r.Inconclusive("engine-start:" + h.Engine)
		return
	}
	defer e.close()
	m := newModel(cfg)
	tr := newTracker()
	prefix := "forced-" + h.Engine
	var trace []string
	step := func(i int, lookups bool) bool {
		o := &h.Ops[i]
		before := snapshot(m)
		if err := e.apply(o); err != nil {
			k.r.Inconclusive("apply:" + h.Engine)
			return false
		}
		m.apply(o)
		tr.note(o, before, snapshot(m))
		trace = append(trace, fmt.Sprintf("%d: %s", i, o))
		if !lookups {
			return true
		}
		for _, l := range o.Lookups {
			for t := 0; t < l.Times; t++ {
				got, err := e.peek(l.IP, false)
				if err != nil {
					k.r.Violation(prefix+":lookup-failed", err.Error(), h)
					return false
				}
				trace = append(trace, fmt.Sprintf("   Peek(%s) = %v", l.IP, got))
				if !k.judge(prefix, h, i, l.IP, got, m.answer(l.IP), tr.ips[l.IP], trace) {
					return false
				}
				tr.looked(l.IP, m.answer(l.IP))
			}
		}
		return true
	}
	for i := 0; i < h.ParkAt; i++ {
		if !step(i, true) {
			return
		}
	}
	x := h.ParkIP
	allowed := []*answer{m.answer(x)}
	parked := make(chan struct{})
	release := make(chan struct{})
	var releaseOnce sync.Once
	doRelease := func() { releaseOnce.Do(func() { close(release) }) }
	var first atomic.Bool
	verifhook.Set("k8s.beforeMemoStore", func(arg string) {
		if arg == x && first.CompareAndSwap(false, true) {
			close(parked)
			<-release
		}
	})
	defer verifhook.Clear("k8s.beforeMemoStore")
	defer doRelease()
	res := make(chan *gostatsd.Instance, 1)
	go func() {
		inst, _ := e.p.Peek(gostatsd.Source(x))
		res <- inst
	}()
	wd := mon.WaitUntil(watchdog, func() bool {
		select {
		case <-parked:
			return true
		default:
			return len(res) > 0
		}
	})
	select {
	case <-parked:
	default:
		if !wd {
			k.r.Inconclusive("lookup-never-reached-hook")
		} else {
			k.r.Inconclusive("lookup-answered-without-reaching-hook")
		}
		return
	}
	trace = append(trace, fmt.Sprintf("   Peek(%s) parked between informer read and memo store", x))
	k.r.Event("lookup_parked", 1)
	for i := h.ParkAt; i < len(h.Ops); i++ {
		if !step(i, false) {
			return
		}
		allowed = append(allowed, m.answer(x))
	}
	doRelease()
	parkedGot := toAnswer(<-res)
	trace = append(trace, fmt.Sprintf("   parked Peek(%s) released = %v", x, parkedGot))
	k.r.Eval(1)
	explained := false
	for _, a := range allowed {
		if sameAnswer(a, parkedGot) {
			explained = true
		}
	}
	if !explained {
		k.r.Violation(prefix+":parked-lookup-answer-matches-no-version", fmt.Sprintf("parked lookup of %s answered %v; versions during the lookup: %v\n  %s", x, parkedGot, allowed, strings.Join(trace, "\n  ")), h)
	}
	base := strings.SplitN(h.Variant, "+", 2)[0]
	for round := 0; round < 2; round++ {
		for _, ip := range ipPool {
			got, err := e.peek(ip, false)
			if err != nil {
				k.r.Violation(prefix+":lookup-failed", err.Error(), h)
				return
			}
			want := m.answer(ip)
			trace = append(trace, fmt.Sprintf("   later Peek(%s) = %v", ip, got))
			if !sameAnswer(got, want) {
				staleVersion := false
				for _, a := range allowed[:len(allowed)-1] {
					if sameAnswer(a, got) {
						staleVersion = true
					}
				}
				if ip == x && staleVersion {
					k.r.Violation(prefix+":later-lookup-stale-after-"+base,
						fmt.Sprintf("label regex %q, annotation regex %q: a lookup of %s was parked before its memo store while [%s] was applied and observed; a later lookup answered %v, expected %v\n  %s", h.LabelRe, h.AnnRe, x, base, got, want, strings.Join(trace, "\n  ")), h)
				} else {
					k.judge(prefix, h, len(h.Ops)-1, ip, got, want, tr.ips[ip], trace)
				}
				return
			}
		}
	}
	k.r.Nontrivial("forced|" + h.Engine + "|" + h.Variant)
	if k.r.WantSample() && len(trace) < 30 {
		k.r.Sample(map[string]interface{}{"mode": prefix, "variant": h.Variant, "label_regex": h.LabelRe, "annotation_regex": h.AnnRe, "history": trace})
	}
}

type observation struct {
	ip        string
	completed int64 // events fully observed before the lookup was issued
	started   int64 // events started before the lookup returned
	got       *answer
}

// runConcurrent: lookups on three goroutines while events are applied; an answer must be the expected
// one for some state between the last event observed before the call and the last event started before
// the return (single-writer register per IP).
func (k *checker) runConcurrent(h *history, caseNo int) {
	k.caseLine(h, caseNo)
	cfg := compile(h)
	e, err := newEngine(h.Engine, cfg)
	if err != nil {
		k.r.Inconclusive("engine-start:" + h.Engine)
		return
	}
	defer e.close()
	m := newModel(cfg)
	exp := []map[string]*answer{snapshot(m)}
	changes := map[string]int{}
	for i := range h.Ops {
		m.apply(&h.Ops[i])
		s := snapshot(m)
		for _, ip := range ipPool {
			if !sameAnswer(s[ip], exp[len(exp)-1][ip]) {
				changes[ip]++
			}
		}
		exp = append(exp, s)
	}
	var started, completed, done atomic.Int64
	tokens := make(chan struct{}, 1024)
	const lookers = 3
	obs := make([][]observation, lookers)
	var failed atomic.Value
	var wg sync.WaitGroup
	for w := 0; w < lookers; w++ {
		wg.Add(1)
		go func(w int) {
			defer wg.Done()
			rng := k.r.Rand(fmt.Sprintf("looker/%d/%d", caseNo, w))
			for range tokens {
				ip := ipPool[rng.Intn(len(ipPool))]
				sink := w == 0 && rng.Intn(4) == 0
				c := completed.Load()
				got, err := e.peek(ip, sink)
				s := started.Load()
				if err != nil {
					failed.Store(err.Error())
				}
				obs[w] = append(obs[w], observation{ip, c, s, got})
				done.Add(1)
			}
		}(w)
	}
	drv := k.r.Rand(fmt.Sprintf("driver/%d", caseNo))
	issued := int64(0)
	applyErr := false
	for i := range h.Ops {
		n := int64(2 + drv.Intn(7))
		for j := int64(0); j < n; j++ {
			tokens <- struct{}{}
		}
		target := issued + drv.Int63n(n+1)
		issued += n
		if !mon.WaitUntil(watchdog, func() bool { return done.Load() >= target }) {
			applyErr = true
			break
		}
		started.Store(int64(i + 1))
		if err := e.apply(&h.Ops[i]); err != nil {
			applyErr = true
			break
		}
		completed.Store(int64(i + 1))
	}
	for j := 0; j < 6; j++ {
		tokens <- struct{}{}
	}
	close(tokens)
	wg.Wait()
	if applyErr {
		k.r.Inconclusive("concurrent-apply:" + h.Engine)
		return
	}
	prefix := "concurrent-" + h.Engine
	if f := failed.Load(); f != nil {
		k.r.Violation(prefix+":lookup-failed", f.(string), h)
		return
	}
	k.r.Eval(1)
	total, overlapping := 0, 0
	for w := range obs {
		for _, o := range obs[w] {
			total++
			if o.started > o.completed {
				overlapping++
			}
			okv := false
			for v := o.completed; v <= o.started; v++ {
				if sameAnswer(exp[v][o.ip], o.got) {
					okv = true
				}
			}
			if okv {
				continue
			}
			kind := "unexplained"
			for v := int64(0); v < o.completed; v++ {
				if sameAnswer(exp[v][o.ip], o.got) {
					kind = "stale"
				}
			}
			var want []string
			for v := o.completed; v <= o.started; v++ {
				want = append(want, exp[v][o.ip].String())
			}
			var ops []string
			for i := range h.Ops {
				ops = append(ops, fmt.Sprintf("%d: %s", i+1, h.Ops[i]))
			}
			k.r.Violation(prefix+":answer-outside-window:"+kind,
				fmt.Sprintf("label regex %q, annotation regex %q: lookup of %s issued after event %d was observed and answered before event %d started returned %v; allowed %v\n  %s", h.LabelRe, h.AnnRe, o.ip, o.completed, o.started+1, o.got, want, strings.Join(ops, "\n  ")), h)
			return
		}
	}
	// quiescent: every IP must now answer for the final state
	final := exp[len(exp)-1]
	for _, ip := range ipPool {
		got, err := e.peek(ip, false)
		if err != nil || !sameAnswer(got, final[ip]) {
			k.r.Violation(prefix+":stale-at-quiescence", fmt.Sprintf("after all %d events were observed and all lookups returned, lookup of %s answered %v, expected %v", len(h.Ops), ip, got, final[ip]), h)
			return
		}
	}
	k.r.Event("concurrent_lookups", total)
	k.r.Event("concurrent_lookups_overlapping_an_event", overlapping)
	for _, ip := range ipPool {
		if changes[ip] >= 2 {
			c := changes[ip]
			if c > 6 {
				c = 6
			}
			k.r.Nontrivial(fmt.Sprintf("concurrent|%s|answer-changes=%d|overlap=%v", h.Engine, c, overlapping > 0))
		}
	}
}

func minInt(a, b int) int {
	if a < b {
		return a
	}
	return b
}

func (k *checker) selfTest(t *testing.T) {
	for _, c := range refSelfTest {
		got, ok := refTagName(regexp.MustCompile(c.re), c.key)
		if ok != c.ok || got != c.want {
			t.Fatalf("reference self-test: regex %q key %q: got (%q,%v), hand-derived (%q,%v)", c.re, c.key, got, ok, c.want, c.ok)
		}
	}
	for _, re := range regexPool {
		if re != "" && regexp.MustCompile(re).MatchString("") {
			t.Fatalf("regex pool entry %q can match the empty string", re)
		}
	}
}

func TestCheck(t *testing.T) {
	r := mon.Start(t, "C13")
	defer r.Finish()
	r.Rule("cases: (a) direct-drive histories of 12-25 add/update/delete events over 5 pod identities (3 namespaces) and 3 IPs applied to the real provider's indexer then its invalidation handler (deletes sometimes as tombstones): phases Pending/Running/Succeeded/Failed, deletion timestamp, hostNetwork, hostIP==podIP, IP set/unset/changed/re-used by another pod only after the previous holder stopped holding it, label/annotation add/remove/rename/change; 12 label x 12 annotation regexes (or disabled) with/without the named group, with other groups, with groups matching empty text; after every step 1-2 Peek lookups of most IPs (plus unknown/host IPs). (b) the same through a fake clientset and the provider's own informer (Provider.Run), each API call followed by waiting for the k8s.on* hook; lookups via Peek and via IpSink/InfoSource. (c) forced interleaving: a lookup parked at k8s.beforeMemoStore while the holder is updated/deleted/finishes/moves/is replaced, then released, then later lookups. (d) three goroutines looking up while events are applied, judged against the window of states between call and return. (e) consumers: histories as in (a)/(b) in which most lookups are followed by a counter/gauge/timer/set/event from that IP, untagged (nil or empty tag slice) or with 1-3 own tags, travelling through the real CloudHandler -> TagHandler built by NewTagHandlerFromViper from random filter configuration text (0-2 filters with drop-tags/match-tags/match-metrics/drop-host/drop-metric patterns drawn from the tags the reference expects in that history, 0-2 static tags) -> a sink keying by FormatTagsKey; the IP is then looked up again and must still answer for the reference. (f) configuration: the provider is built by k8s.NewProviderFromViper from random TOML/YAML text (annotation-tag-regex and label-tag-regex absent / empty / custom, watch-cluster absent/true/false x node-name absent/empty/node1/node2, resync-period, kube-api-qps/burst, user-agent, kubeconfig-path and optionally kubeconfig-context) against a scripted HTTP API server that serves list+watch of pods with resource versions and honours the fieldSelector; 0-5 events happen before start-up (initial list), 6-15 in total, pods live on 3 nodes; lookups via Peek and IpSink are compared with the reference parameterised by the documented meaning of the keys. (g) back-pressure: on the informer and configuration engines a sequential script pushes bursts of 2-20 lookups (repeated and distinct, held and unheld IPs) into IpSink() while InfoSource() is not read (released after the burst, sometimes keeping up to 3 answers queued across the next burst), or read once per 2-4 submissions, with pod events between and inside bursts; every lookup must be answered exactly once for its own IP with the reference answer of a state inside its window (from its submission to the next interaction with Run), no answer for an IP nobody asked for, no surplus answer to a final sentinel lookup; a step that does not complete is re-run once and then reported. Non-trivial: a history in which an IP is re-used by a second pod, or a holder leaves while its answer is memoised (a/b); every forced case; concurrent cases whose answer for an IP changes at least twice. every consumed item whose IP has a holder (e), distinct by (engine, untagged/tagged, item kind, number of filters, static tags, size of the answer); burst cases with at least 3 answers queued at once (g), distinct by (engine, pattern, queue depth class, events); every configuration case (f), distinct by (format, regex key classes, watch-cluster/node-name classes, list used, holder on another node seen, holder hidden by the node filter seen). Distinct by (engine, per-IP pattern of gain/edit/loss-with-reason/re-use events, first 8), by (engine, variant) for forced, by (engine, number of changes, overlap seen) for concurrent.")
	r.Assume("Go regexp (FindStringSubmatchIndex/SubexpIndex) as the definition of 'matches' and of the text of group 'tag' (validated against hand-derived expectations at start-up); client-go's store/informer and the fake clientset deliver exactly one handler call per API call; the scripted API server's field-selector semantics (fields.ParseSelector over the pod field labels the real server supports); CLOUDPROVIDERS.md and the parameter comments in k8s.go as the meaning of the [k8s] keys")
	k := &checker{r: r}
	k.selfTest(t)

	if p := r.ReplayPayload(); p != nil {
		h := &history{}
		if mon.ReplayCase(p, h) == nil {
			t.Skip("no case in replay file")
		}
		n := 1
		if h.Mode == "concurrent" {
			n = 50
		}
		for i := 0; i < n; i++ {
			if h.Mode == "burst" {
				k.burstCase(h, i)
				continue
			}
			if h.Engine == "config" {
				k.guarded(h, func() { k.runConfig(h, i) })
				continue
			}
			switch h.Mode {
			case "forced":
				k.guarded(h, func() { k.runForced(h) })
			case "concurrent":
				k.guarded(h, func() { k.runConcurrent(h, i) })
			default:
				k.guarded(h, func() { k.runSeq(h, i) })
			}
		}
		r.Nontrivial("replay-a")
		r.Nontrivial("replay-b")
		return
	}

	rng := r.Rand("c13")
	nDirect := r.N(5000, 500000)
	nInformer := r.N(120, 10000)
	nForced := r.N(160, 16000)
	nConc := r.N(80, 8000)
	for i := 0; i < nDirect && r.Violations() < 12; i++ {
		h := genSeq(rng, "direct", 25)
		k.guarded(h, func() { k.runSeq(h, i) })
	}
	for i := 0; i < nForced && r.Violations() < 16; i++ {
		engine := "direct"
		if i%4 == 3 {
			engine = "informer"
		}
		h := genForced(rng, engine)
		k.guarded(h, func() { k.runForced(h) })
	}
	for i := 0; i < nInformer && r.Violations() < 20; i++ {
		h := genSeq(rng, "informer", 14)
		k.guarded(h, func() { k.runSeq(h, i) })
	}
	nConsume := r.N(1200, 60000)
	for i := 0; i < nConsume && r.Violations() < 28; i++ {
		engine := "direct"
		if i%16 == 15 {
			engine = "informer"
		}
		h := genConsume(rng, engine)
		k.guarded(h, func() { k.runSeq(h, i) })
	}
	nConfig := r.N(240, 8000)
	for i := 0; i < nConfig && r.Violations() < 32; i++ {
		h := genConfig(rng)
		k.guarded(h, func() { k.runConfig(h, i) })
	}
	nBurst := r.N(240, 8000)
	for i := 0; i < nBurst && r.Violations() < 36 && !k.stuckReported; i++ {
		engine := "informer"
		if i%4 == 3 {
			engine = "config"
		}
		k.burstCase(genBurst(rng, engine), i)
	}
	for i := 0; i < nConc && r.Violations() < 24; i++ {
		engine := "direct"
		if i%4 == 3 {
			engine = "informer"
		}
		h := genConcurrent(rng, engine, 10+rng.Intn(10))
		k.guarded(h, func() { k.runConcurrent(h, i) })
	}
}
