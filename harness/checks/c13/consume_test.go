//go:build verif

package c13

import (
	"context"
	"fmt"
	"math/rand"
	"sort"
	"strings"

	"github.com/spf13/viper"

	"github.com/atlassian/gostatsd"
	"github.com/atlassian/gostatsd/pkg/statsd"
)

// consume: one item from an IP that travels through the real consumers of the lookup answer.
type consume struct {
	Kind string   `json:"kind"` // counter | gauge | timer | set | event
	Tags []string `json:"tags"` // the item's own tags; empty: untagged
}

// pipeConf: the stages behind the cloud handler, as configuration text (FILTERING.md) plus static tags.
type pipeConf struct {
	Text   string   `json:"filter_config_toml"`
	Static []string `json:"static_tags,omitempty"`
}

// sink is the stage after the tag handler. Like the aggregation stages it keys every value by
// FormatTagsKey, which sorts the item's tag slice in place.
type sink struct {
	items int
	keys  []string
}

func (s *sink) key(src gostatsd.Source, tags gostatsd.Tags) {
	s.items++
	if len(s.keys) < 4 {
		s.keys = append(s.keys, gostatsd.FormatTagsKey(src, tags))
	} else {
		_ = gostatsd.FormatTagsKey(src, tags)
	}
}

func (s *sink) DispatchMetricMap(ctx context.Context, mm *gostatsd.MetricMap) {
	mm.Counters.Each(func(_, _ string, c gostatsd.Counter) { s.key(c.Source, c.Tags) })
	mm.Gauges.Each(func(_, _ string, g gostatsd.Gauge) { s.key(g.Source, g.Tags) })
	mm.Timers.Each(func(_, _ string, t gostatsd.Timer) { s.key(t.Source, t.Tags) })
	mm.Sets.Each(func(_, _ string, st gostatsd.Set) { s.key(st.Source, st.Tags) })
}
func (s *sink) DispatchEvent(ctx context.Context, e *gostatsd.Event) { s.key(e.Source, e.Tags) }
func (s *sink) EstimatedTags() int                                   { return 0 }
func (s *sink) WaitForEvents()                                       {}

type pipeline struct {
	ch   *statsd.CloudHandler
	sink *sink
}

// newPipeline: CloudHandler(provider) -> TagHandler built from configuration text -> sink.
func newPipeline(p gostatsd.CachedInstances, pc *pipeConf) (*pipeline, error) {
	v := viper.New()
	v.SetConfigType("toml")
	if err := v.ReadConfig(strings.NewReader(pc.Text)); err != nil {
		return nil, err
	}
	s := &sink{}
	th := statsd.NewTagHandlerFromViper(v, s, append(gostatsd.Tags(nil), pc.Static...))
	return &pipeline{ch: statsd.NewCloudHandler(p, th), sink: s}, nil
}

func (pl *pipeline) feed(ip string, c *consume) {
	ctx := context.Background()
	tags := append(gostatsd.Tags(nil), c.Tags...)
	if len(c.Tags) == 0 && len(ip)%2 == 0 {
		tags = gostatsd.Tags{} // empty but non-nil
	}
	src := gostatsd.Source(ip)
	if c.Kind == "event" {
		pl.ch.DispatchEvent(ctx, &gostatsd.Event{Title: "c13", Text: "x", Source: src, Tags: tags})
		return
	}
	m := &gostatsd.Metric{Name: "c13.lookup", Value: 1, Rate: 1, Source: src, Tags: tags}
	switch c.Kind {
	case "gauge":
		m.Type = gostatsd.GAUGE
	case "timer":
		m.Type = gostatsd.TIMER
	case "set":
		m.Type = gostatsd.SET
		m.StringValue = "member"
	default:
		m.Type = gostatsd.COUNTER
	}
	mm := gostatsd.NewMetricMap(false)
	mm.Receive(m)
	pl.ch.DispatchMetricMap(ctx, mm)
}

var consumeKinds = []string{"counter", "counter", "gauge", "timer", "set", "event"}

func tomlList(xs []string) string {
	q := make([]string, len(xs))
	for i, x := range xs {
		q[i] = "'" + x + "'"
	}
	return "[" + strings.Join(q, ", ") + "]"
}

// genConsume: a sequential history (direct or informer engine) whose lookups are followed by items
// travelling through CloudHandler -> TagHandler(filters from configuration text) -> sink. The filter
// patterns are drawn from the tags the reference expects somewhere in the history, so that drop rules
// and duplicates actually meet pod-derived tags.
func genConsume(rng *rand.Rand, engine string) *history {
	h := genSeq(rng, engine, 20)
	h.Mode = "consume"
	// which tags can a lookup answer in this history
	cfg := compile(h)
	m := newModel(cfg)
	seen := map[string]bool{}
	var pool []string
	for i := range h.Ops {
		m.apply(&h.Ops[i])
		for _, ip := range ipPool {
			if a := m.answer(ip); a != nil {
				for _, t := range a.Tags {
					if !seen[t] && !strings.Contains(t, "'") {
						seen[t] = true
						pool = append(pool, t)
					}
				}
			}
		}
	}
	sort.Strings(pool)
	pick := func() string {
		if len(pool) == 0 || rng.Intn(5) == 0 {
			return []string{"env:prod", "app:v1", "zz:top", "a:b"}[rng.Intn(4)]
		}
		return pool[rng.Intn(len(pool))]
	}
	pattern := func() string {
		t := pick()
		name := t
		if i := strings.Index(t, ":"); i >= 0 {
			name = t[:i]
		}
		switch rng.Intn(6) {
		case 0:
			return t
		case 1:
			return name + ":*"
		case 2:
			if len(name) > 2 {
				return name[:2] + "*"
			}
			return name + "*"
		case 3:
			return "!" + name + ":*"
		case 4:
			return "regex:" + regexpQuote(name)
		default:
			return name + ":*"
		}
	}
	pc := &pipeConf{}
	var b strings.Builder
	nf := rng.Intn(3)
	var names []string
	for i := 0; i < nf; i++ {
		names = append(names, fmt.Sprintf("f%d", i))
	}
	if nf > 0 {
		if rng.Intn(2) == 0 {
			fmt.Fprintf(&b, "filters = '%s'\n", strings.Join(names, " "))
		} else {
			fmt.Fprintf(&b, "filters = %s\n", tomlList(names))
		}
	}
	for _, n := range names {
		fmt.Fprintf(&b, "\n[filter.%s]\n", n)
		if rng.Intn(4) == 0 {
			fmt.Fprintf(&b, "match-metrics = %s\n", tomlList([]string{[]string{"c13.*", "c13.lookup", "other.*", "!other.*"}[rng.Intn(4)]}))
		}
		if rng.Intn(4) == 0 {
			fmt.Fprintf(&b, "match-tags = %s\n", tomlList([]string{pattern()}))
		}
		var drops []string
		for j, k := 0, 1+rng.Intn(3); j < k; j++ {
			drops = append(drops, pattern())
		}
		if rng.Intn(8) != 0 {
			fmt.Fprintf(&b, "drop-tags = %s\n", tomlList(drops))
		}
		if rng.Intn(3) == 0 {
			b.WriteString("drop-host = true\n")
		}
		if rng.Intn(12) == 0 {
			b.WriteString("drop-metric = true\n")
		}
	}
	pc.Text = b.String()
	for j, k := 0, rng.Intn(3); j < k; j++ {
		pc.Static = append(pc.Static, pick())
	}
	h.Pipe = pc
	for i := range h.Ops {
		for j := range h.Ops[i].Lookups {
			if rng.Intn(3) == 0 {
				continue
			}
			c := &consume{Kind: consumeKinds[rng.Intn(len(consumeKinds))]}
			if rng.Intn(2) == 0 {
				for t, k := 0, 1+rng.Intn(3); t < k; t++ {
					c.Tags = append(c.Tags, pick())
				}
			}
			h.Ops[i].Lookups[j].Consume = c
		}
	}
	return h
}

func regexpQuote(s string) string {
	var b strings.Builder
	b.WriteString("^")
	for _, r := range s {
		if strings.ContainsRune(`\.+*?()|[]{}^$`, r) {
			b.WriteByte('\\')
		}
		b.WriteRune(r)
	}
	return b.String()
}
