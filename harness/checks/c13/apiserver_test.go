//go:build verif

package c13

import (
	"encoding/json"
	"fmt"
	"net/http"
	"net/http/httptest"
	"strconv"
	"sync"

	core_v1 "k8s.io/api/core/v1"
	meta_v1 "k8s.io/apimachinery/pkg/apis/meta/v1"
	"k8s.io/apimachinery/pkg/fields"
)

// apiServer is a scripted Kubernetes API server for /api/v1/pods: list and watch with resource versions,
// and - unlike client-go's fake clientset - with the request's fieldSelector applied to list results and
// to streamed watch events, as the real API server does for pods.
type apiServer struct {
	srv *httptest.Server

	mu       sync.Mutex
	rv       int
	pods     map[string]*core_v1.Pod
	log      []apiEvent
	watchers map[*apiWatcher]struct{}
	lists    []apiList // every list request, in order
	watches  []string  // field selector of every watch request, in order
	started  chan struct{}
	startOne sync.Once
}

type apiEvent struct {
	rv  int
	typ string
	pod *core_v1.Pod
}

type apiList struct {
	Selector string `json:"field_selector"`
	Items    int    `json:"items"`
}

type apiWatcher struct {
	sel fields.Selector
	ch  chan apiEvent
}

// the field labels the real API server supports for pods
func podFields(p *core_v1.Pod) fields.Set {
	return fields.Set{
		"metadata.name":            p.Name,
		"metadata.namespace":       p.Namespace,
		"spec.nodeName":            p.Spec.NodeName,
		"spec.restartPolicy":       string(p.Spec.RestartPolicy),
		"spec.schedulerName":       p.Spec.SchedulerName,
		"spec.serviceAccountName":  p.Spec.ServiceAccountName,
		"status.phase":             string(p.Status.Phase),
		"status.podIP":             p.Status.PodIP,
		"status.nominatedNodeName": p.Status.NominatedNodeName,
	}
}

func parsePodSelector(s string) (fields.Selector, error) {
	sel, err := fields.ParseSelector(s)
	if err != nil {
		return nil, err
	}
	known := podFields(&core_v1.Pod{})
	for _, r := range sel.Requirements() {
		if _, ok := known[r.Field]; !ok {
			return nil, fmt.Errorf("field label not supported: %s", r.Field)
		}
	}
	return sel, nil
}

func newAPIServer() *apiServer {
	a := &apiServer{pods: map[string]*core_v1.Pod{}, watchers: map[*apiWatcher]struct{}{}, started: make(chan struct{}), rv: 100}
	a.srv = httptest.NewServer(http.HandlerFunc(a.serve))
	return a
}

func (a *apiServer) close() {
	a.srv.CloseClientConnections()
	a.srv.Close()
}

func badRequest(w http.ResponseWriter, msg string) {
	w.Header().Set("Content-Type", "application/json")
	w.WriteHeader(http.StatusBadRequest)
	_ = json.NewEncoder(w).Encode(&meta_v1.Status{
		TypeMeta: meta_v1.TypeMeta{Kind: "Status", APIVersion: "v1"},
		Status:   meta_v1.StatusFailure, Message: msg, Reason: meta_v1.StatusReasonBadRequest, Code: http.StatusBadRequest,
	})
}

func typed(p *core_v1.Pod) *core_v1.Pod {
	q := p.DeepCopy()
	q.TypeMeta = meta_v1.TypeMeta{Kind: "Pod", APIVersion: "v1"}
	return q
}

func (a *apiServer) serve(w http.ResponseWriter, r *http.Request) {
	if r.URL.Path != "/api/v1/pods" || r.Method != http.MethodGet {
		http.NotFound(w, r)
		return
	}
	q := r.URL.Query()
	sel, err := parsePodSelector(q.Get("fieldSelector"))
	if err != nil {
		badRequest(w, err.Error())
		return
	}
	if v := q.Get("watch"); v == "true" || v == "1" {
		a.serveWatch(w, r, sel, q.Get("fieldSelector"), q.Get("resourceVersion"))
		return
	}
	a.mu.Lock()
	list := &core_v1.PodList{
		TypeMeta: meta_v1.TypeMeta{Kind: "PodList", APIVersion: "v1"},
		ListMeta: meta_v1.ListMeta{ResourceVersion: strconv.Itoa(a.rv)},
	}
	for _, p := range a.pods {
		if sel.Matches(podFields(p)) {
			list.Items = append(list.Items, *p.DeepCopy())
		}
	}
	a.lists = append(a.lists, apiList{Selector: q.Get("fieldSelector"), Items: len(list.Items)})
	a.mu.Unlock()
	w.Header().Set("Content-Type", "application/json")
	_ = json.NewEncoder(w).Encode(list)
}

func (a *apiServer) serveWatch(w http.ResponseWriter, r *http.Request, sel fields.Selector, rawSel, fromRV string) {
	from, _ := strconv.Atoi(fromRV)
	wt := &apiWatcher{sel: sel, ch: make(chan apiEvent, 1024)}
	a.mu.Lock()
	var backlog []apiEvent
	for _, ev := range a.log {
		if ev.rv > from && sel.Matches(podFields(ev.pod)) {
			backlog = append(backlog, ev)
		}
	}
	a.watchers[wt] = struct{}{}
	a.watches = append(a.watches, rawSel)
	a.mu.Unlock()
	defer func() {
		a.mu.Lock()
		delete(a.watchers, wt)
		a.mu.Unlock()
	}()
	w.Header().Set("Content-Type", "application/json")
	w.WriteHeader(http.StatusOK)
	fl, _ := w.(http.Flusher)
	enc := json.NewEncoder(w)
	send := func(ev apiEvent) bool {
		if err := enc.Encode(map[string]interface{}{"type": ev.typ, "object": typed(ev.pod)}); err != nil {
			return false
		}
		if fl != nil {
			fl.Flush()
		}
		return true
	}
	for _, ev := range backlog {
		if !send(ev) {
			return
		}
	}
	if fl != nil {
		fl.Flush()
	}
	a.startOne.Do(func() { close(a.started) })
	for {
		select {
		case <-r.Context().Done():
			return
		case ev := <-wt.ch:
			if !send(ev) {
				return
			}
		}
	}
}

// push records a pod event and hands it to every watch stream whose selector matches the pod. It returns
// the number of streams the event went to and the number of open streams.
func (a *apiServer) push(kind string, pod *core_v1.Pod) (delivered, open int) {
	a.mu.Lock()
	defer a.mu.Unlock()
	a.rv++
	pod = pod.DeepCopy()
	pod.ResourceVersion = strconv.Itoa(a.rv)
	key := pod.Namespace + "/" + pod.Name
	typ := ""
	switch kind {
	case "add":
		typ = "ADDED"
		a.pods[key] = pod
	case "update":
		typ = "MODIFIED"
		a.pods[key] = pod
	case "delete":
		typ = "DELETED"
		delete(a.pods, key)
	}
	ev := apiEvent{rv: a.rv, typ: typ, pod: pod}
	a.log = append(a.log, ev)
	for wt := range a.watchers {
		open++
		if wt.sel.Matches(podFields(pod)) {
			select {
			case wt.ch <- ev:
				delivered++
			default:
			}
		}
	}
	return
}

func (a *apiServer) requests() (lists []apiList, watches []string) {
	a.mu.Lock()
	defer a.mu.Unlock()
	return append([]apiList(nil), a.lists...), append([]string(nil), a.watches...)
}
