//go:build verif

package c13

import (
	"context"
	"fmt"
	"io"
	"sort"
	"sync"
	"time"

	"github.com/sirupsen/logrus"
	core_v1 "k8s.io/api/core/v1"
	meta_v1 "k8s.io/apimachinery/pkg/apis/meta/v1"
	"k8s.io/apimachinery/pkg/watch"
	"k8s.io/client-go/kubernetes/fake"
	kube_testing "k8s.io/client-go/testing"
	"k8s.io/client-go/tools/cache"

	"github.com/atlassian/gostatsd"
	"github.com/atlassian/gostatsd/pkg/cachedinstances/k8s"
	"github.com/atlassian/gostatsd/pkg/verifhook"
)

const watchdog = 30 * time.Second

var quietLogger = func() *logrus.Logger {
	l := logrus.New()
	l.Out = io.Discard
	l.Level = logrus.ErrorLevel
	return l
}()

var deletionTime = meta_v1.NewTime(time.Unix(1_700_000_000, 0))

func nodeOf(s *podSpec) string {
	if s.Node == "" {
		return "node1"
	}
	return s.Node
}

func mkPod(s *podSpec) *core_v1.Pod {
	p := &core_v1.Pod{
		ObjectMeta: meta_v1.ObjectMeta{
			Name:            s.Name,
			Namespace:       s.NS,
			Labels:          cloneMap(s.Labels),
			Annotations:     cloneMap(s.Annotations),
			ResourceVersion: fmt.Sprint(s.RV),
		},
		Spec:   core_v1.PodSpec{HostNetwork: s.HostNetwork, NodeName: nodeOf(s)},
		Status: core_v1.PodStatus{Phase: core_v1.PodPhase(s.Phase), HostIP: s.HostIP, PodIP: s.PodIP},
	}
	if s.Deleting {
		t := deletionTime
		p.DeletionTimestamp = &t
	}
	return p
}

// engine drives the real provider either directly (store update, then the invalidation handler, as the
// informer contract prescribes) or through a fake clientset and the provider's own informer.
type engine struct {
	kind string
	p    *k8s.Provider

	// direct
	idx    cache.Indexer
	h      cache.ResourceEventHandler
	stored map[string]*core_v1.Pod

	// informer
	cs      *fake.Clientset
	cancel  context.CancelFunc
	runDone chan struct{}
	events  chan string
	sinkMu  sync.Mutex

	// config: provider built from configuration text against the scripted API server
	api   *apiServer
	dir   string
	hooks bool

	// consumers of lookup answers
	pipe *pipeline
}

func newEngine(kind string, cfg *config) (*engine, error) {
	e := &engine{kind: kind, stored: map[string]*core_v1.Pod{}}
	e.cs = fake.NewSimpleClientset()
	watching := make(chan struct{})
	var once sync.Once
	if kind == "informer" {
		// the fake tracker has no resource versions: an object created between the informer's List and its
		// Watch would be lost, so the first API call waits until the watch exists (a logical condition).
		e.cs.PrependWatchReactor("*", func(action kube_testing.Action) (bool, watch.Interface, error) {
			w, err := e.cs.Tracker().Watch(action.GetResource(), action.GetNamespace())
			if err != nil {
				return false, nil, err
			}
			once.Do(func() { close(watching) })
			return true, w, nil
		})
	}
	p, err := k8s.NewProvider(quietLogger, e.cs, k8s.PodInformerOptions{ResyncPeriod: 0, WatchCluster: true}, cfg.annRe, cfg.labelRe)
	if err != nil {
		return nil, err
	}
	e.p = p
	if kind == "direct" {
		e.idx = p.VerifIndexer()
		e.h = p.VerifHandler()
		return e, nil
	}
	e.events = make(chan string, 256)
	verifhook.Set("k8s.onAdd", func(string) { e.events <- "add" })
	verifhook.Set("k8s.onUpdate", func(string) { e.events <- "update" })
	verifhook.Set("k8s.onDelete", func(string) { e.events <- "delete" })
	ctx, cancel := context.WithCancel(context.Background())
	e.cancel = cancel
	e.runDone = make(chan struct{})
	go func() { defer close(e.runDone); p.Run(ctx) }()
	select {
	case <-watching:
	case <-time.After(watchdog):
		e.close()
		return nil, fmt.Errorf("informer watch never started")
	}
	return e, nil
}

func (e *engine) close() {
	if e.kind == "config" {
		if e.cancel != nil {
			e.cancel()
			<-e.runDone
		}
		e.closeConfig()
		return
	}
	if e.kind != "informer" {
		return
	}
	e.cancel()
	<-e.runDone
	verifhook.Clear("k8s.onAdd")
	verifhook.Clear("k8s.onUpdate")
	verifhook.Clear("k8s.onDelete")
}

// apply makes the provider observe one pod event; it returns when the event handler has finished.
func (e *engine) apply(o *op) error {
	pod := mkPod(&o.Pod)
	id := o.Pod.id()
	if e.kind == "direct" {
		switch o.Kind {
		case "add":
			if err := e.idx.Add(pod); err != nil {
				return err
			}
			e.stored[id] = pod
			e.h.OnAdd(pod)
		case "update":
			old := e.stored[id]
			if old == nil {
				return fmt.Errorf("update of unknown pod %s", id)
			}
			if err := e.idx.Update(pod); err != nil {
				return err
			}
			e.stored[id] = pod
			e.h.OnUpdate(old, pod)
		case "delete":
			old := e.stored[id]
			if old == nil {
				return fmt.Errorf("delete of unknown pod %s", id)
			}
			if err := e.idx.Delete(old); err != nil {
				return err
			}
			delete(e.stored, id)
			if o.Tombstone {
				e.h.OnDelete(cache.DeletedFinalStateUnknown{Key: id, Obj: old})
			} else {
				e.h.OnDelete(old)
			}
		}
		return nil
	}
	ctx := context.Background()
	var err error
	switch o.Kind {
	case "add":
		_, err = e.cs.CoreV1().Pods(o.Pod.NS).Create(ctx, pod, meta_v1.CreateOptions{})
	case "update":
		_, err = e.cs.CoreV1().Pods(o.Pod.NS).Update(ctx, pod, meta_v1.UpdateOptions{})
	case "delete":
		err = e.cs.CoreV1().Pods(o.Pod.NS).Delete(ctx, o.Pod.Name, meta_v1.DeleteOptions{})
	}
	if err != nil {
		return err
	}
	select {
	case got := <-e.events:
		if got != o.Kind {
			return fmt.Errorf("informer delivered %q for %q", got, o.Kind)
		}
	case <-time.After(watchdog):
		return fmt.Errorf("informer never delivered %q", o.Kind)
	}
	return nil
}

// peek looks an IP up, through Peek or through the IpSink/InfoSource pair served by Provider.Run.
func (e *engine) peek(ip string, sink bool) (*answer, error) {
	if !sink || e.kind == "direct" {
		inst, hit := e.p.Peek(gostatsd.Source(ip))
		if !hit {
			return nil, fmt.Errorf("Peek reported a cache miss")
		}
		return toAnswer(inst), nil
	}
	e.sinkMu.Lock()
	defer e.sinkMu.Unlock()
	select {
	case e.p.IpSink() <- gostatsd.Source(ip):
	case <-time.After(watchdog):
		return nil, fmt.Errorf("IpSink not accepting")
	}
	select {
	case info := <-e.p.InfoSource():
		if string(info.IP) != ip {
			return nil, fmt.Errorf("InfoSource answered for %q instead of %q", info.IP, ip)
		}
		return toAnswer(info.Instance), nil
	case <-time.After(watchdog):
		return nil, fmt.Errorf("InfoSource never answered")
	}
}

func toAnswer(inst *gostatsd.Instance) *answer {
	if inst == nil {
		return nil
	}
	a := &answer{ID: string(inst.ID), Tags: append([]string{}, inst.Tags...)}
	sort.Strings(a.Tags)
	return a
}
