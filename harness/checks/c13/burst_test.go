//go:build verif

package c13

import (
	"fmt"
	"math/rand"
	"strings"
	"time"

	"github.com/atlassian/gostatsd"
)

// bstep is one step of a back-pressure script, executed sequentially by the monitor:
//   - submit: push IP into Provider.IpSink() (never blocks for long: Run always receives)
//   - read:   take N answers from Provider.InfoSource() (only scheduled while at least N are outstanding)
//   - event:  the next pod event of the history is applied and observed
type bstep struct {
	Kind string `json:"kind"`
	IP   string `json:"ip,omitempty"`
	N    int    `json:"n,omitempty"`
}

var burstIPs = []string{"10.0.0.1", "10.0.0.2", "10.0.0.3", "10.0.0.1", "10.0.0.2", "10.0.0.3", unknownIP, nodeIP, "10.9.9.7"}

// genBurst: pod history on a provider whose Run loop is used through IpSink/InfoSource while the consumer
// of InfoSource is not reading (released after the burst), reads slowly (one answer per k submissions) or
// alternates; bursts of 2..20 lookups of repeated and distinct, held and unheld IPs; pod events between and
// inside bursts.
func genBurst(rng *rand.Rand, engine string) *history {
	h := &history{Mode: "burst", Engine: engine}
	if engine == "config" {
		h.Conf = genConf(rng)
		if w := h.Conf.Watch; w != nil && !*w && (h.Conf.Node == nil || *h.Conf.Node == "") {
			n := nodePool[0]
			h.Conf.Node = &n
		}
		h.LabelRe, h.AnnRe, _, _ = h.Conf.effective()
	} else {
		h.LabelRe, h.AnnRe = pickRegexes(rng)
	}
	g := newGen(rng)
	nodes := map[string]string{}
	event := func() {
		o := g.next()
		o.Tombstone = false
		if o.Kind == "add" {
			nodes[o.Pod.id()] = nodePool[rng.Intn(len(nodePool))]
		}
		if engine == "config" {
			o.Pod.Node = nodes[o.Pod.id()]
		}
		h.Ops = append(h.Ops, o)
		h.Script = append(h.Script, bstep{Kind: "event"})
	}
	for i, n := 0, 2+rng.Intn(4); i < n; i++ {
		event()
	}
	h.Pattern = []string{"released-after-burst", "slow-reader", "mixed"}[rng.Intn(3)]
	outstanding := 0
	bursts := 1 + rng.Intn(3)
	for b := 0; b < bursts; b++ {
		size := 2 + rng.Intn(19)
		if rng.Intn(3) == 0 {
			size = 2 + rng.Intn(4)
		}
		pat := h.Pattern
		if pat == "mixed" {
			pat = []string{"released-after-burst", "slow-reader"}[rng.Intn(2)]
		}
		k := 2 + rng.Intn(3)
		narrow := rng.Intn(3) == 0 // a burst that hammers one or two IPs
		for s := 0; s < size; s++ {
			ip := burstIPs[rng.Intn(len(burstIPs))]
			if narrow {
				ip = burstIPs[rng.Intn(2)]
			}
			h.Script = append(h.Script, bstep{Kind: "submit", IP: ip})
			outstanding++
			if pat == "slow-reader" && (s+1)%k == 0 {
				h.Script = append(h.Script, bstep{Kind: "read", N: 1})
				outstanding--
			}
			if rng.Intn(6) == 0 {
				event()
			}
		}
		// release the consumer: everything, or all but a few which stay queued across the next burst
		keep := 0
		if b+1 < bursts && rng.Intn(3) == 0 {
			keep = rng.Intn(minInt(outstanding, 3) + 1)
		}
		if outstanding-keep > 0 {
			h.Script = append(h.Script, bstep{Kind: "read", N: outstanding - keep})
			outstanding = keep
		}
		for i, n := 0, rng.Intn(3); i < n; i++ {
			event()
		}
	}
	if outstanding > 0 {
		h.Script = append(h.Script, bstep{Kind: "read", N: outstanding})
	}
	return h
}

type submission struct {
	ip       string
	from, to int // versions (number of observed events) the answer may reflect
}

type burstOutcome int

const (
	burstDone burstOutcome = iota
	burstStuck
	burstSkipped
)

// runBurst executes the script once. stuck=true: a read or submit did not complete within the watchdog.
func (k *checker) runBurst(h *history, no int, second bool) burstOutcome {
	k.caseLine(h, no)
	var cfg *config
	var e *engine
	var err error
	if h.Engine == "config" {
		labelRe, annRe, visible, _ := h.Conf.effective()
		cfg = &config{labelRe: compileOrNil(labelRe), annRe: compileOrNil(annRe), visible: visible}
		saved := h.ListFirst
		h.ListFirst = 0
		e, err = newConfigEngine(h)
		h.ListFirst = saved
	} else {
		cfg = compile(h)
		e, err = newEngine(h.Engine, cfg)
	}
	if err != nil {
		k.r.Inconclusive("engine-start:" + h.Engine)
		return burstSkipped
	}
	defer e.close()
	m := newModel(cfg)
	exp := []map[string]*answer{{}}
	answerAt := func(v int, ip string) *answer { return exp[v][ip] }
	snap := func() map[string]*answer {
		s := map[string]*answer{}
		for _, ip := range burstIPs {
			s[ip] = m.answer(ip)
		}
		return s
	}
	exp[0] = snap()
	prefix := "burst-" + h.Engine
	trace := []string{"pattern: " + h.Pattern}
	var subs []*submission
	var open []*submission // submissions whose window is still growing (no Run interaction after them yet)
	type got struct {
		ip  string
		ans *answer
	}
	var answers []got
	outstanding := map[string]int{}
	version, nextOp := 0, 0
	closeWindows := func() {
		for _, s := range open {
			s.to = version
		}
		open = open[:0]
	}
	maxQueued, queued := 0, 0
	for si, st := range h.Script {
		switch st.Kind {
		case "event":
			o := &h.Ops[nextOp]
			nextOp++
			if h.Engine == "config" {
				err = e.applyConfig(o)
			} else {
				err = e.apply(o)
			}
			if err != nil {
				k.r.Inconclusive("apply:" + h.Engine)
				return burstSkipped
			}
			m.apply(o)
			version++
			exp = append(exp, snap())
			trace = append(trace, fmt.Sprintf("%d: event %s", si, o))
		case "submit":
			select {
			case e.p.IpSink() <- gostatsd.Source(st.IP):
			case <-time.After(watchdog):
				trace = append(trace, fmt.Sprintf("%d: IpSink() did not accept %s", si, st.IP))
				return k.stuck(prefix, h, second, "ipsink-not-accepting", trace)
			}
			// Run has finished every earlier submission before it received this one
			closeWindows()
			s := &submission{ip: st.IP, from: version, to: -1}
			subs = append(subs, s)
			open = append(open, s)
			outstanding[st.IP]++
			queued++
			if queued > maxQueued {
				maxQueued = queued
			}
			trace = append(trace, fmt.Sprintf("%d: submit %s (queued answers: %d)", si, st.IP, queued))
		case "read":
			for j := 0; j < st.N; j++ {
				var info gostatsd.InstanceInfo
				select {
				case info = <-e.p.InfoSource():
				case <-time.After(watchdog):
					trace = append(trace, fmt.Sprintf("%d: InfoSource() delivered nothing although %d lookups are unanswered", si, queued))
					return k.stuck(prefix, h, second, "lookup-never-answered", trace)
				}
				closeWindows()
				queued--
				ip := string(info.IP)
				a := toAnswer(info.Instance)
				trace = append(trace, fmt.Sprintf("%d: answer for %q = %v", si, ip, a))
				if outstanding[ip] == 0 {
					k.r.Violation(prefix+":answer-for-ip-not-asked", fmt.Sprintf("InfoSource delivered an answer for IP %q (%v) while no lookup of that IP is outstanding (outstanding: %v)\n  %s", ip, a, outstanding, strings.Join(trace, "\n  ")), h)
					return burstDone
				}
				outstanding[ip]--
				answers = append(answers, got{ip, a})
			}
		}
	}
	closeWindows()
	// nothing is outstanding now: a sentinel lookup must be answered by itself, not by a left-over
	sentinel := "10.9.9.1"
	select {
	case e.p.IpSink() <- gostatsd.Source(sentinel):
		select {
		case info := <-e.p.InfoSource():
			if string(info.IP) != sentinel || info.Instance != nil {
				k.r.Violation(prefix+":surplus-answer", fmt.Sprintf("after every lookup had been answered once, InfoSource delivered {%q %v} to a fresh lookup of %s\n  %s", info.IP, toAnswer(info.Instance), sentinel, strings.Join(trace, "\n  ")), h)
				return burstDone
			}
		case <-time.After(watchdog):
			return k.stuck(prefix, h, second, "lookup-never-answered", trace)
		}
	case <-time.After(watchdog):
		return k.stuck(prefix, h, second, "ipsink-not-accepting", trace)
	}
	k.r.Eval(1)
	k.r.Event("burst_lookups", len(subs))
	k.r.Event("burst_events", version)
	// every answer must be the reference's for a state inside the window of one submission of its IP,
	// each submission used once (answers may come in any order)
	byIP := map[string][]*submission{}
	for _, s := range subs {
		byIP[s.ip] = append(byIP[s.ip], s)
	}
	ansByIP := map[string][]*answer{}
	for _, g := range answers {
		ansByIP[g.ip] = append(ansByIP[g.ip], g.ans)
	}
	fits := func(s *submission, a *answer) bool {
		for v := s.from; v <= s.to; v++ {
			if sameAnswer(answerAt(v, s.ip), a) {
				return true
			}
		}
		return false
	}
	for ip, as := range ansByIP {
		ss := byIP[ip]
		// maximum bipartite matching answers -> lookups (augmenting paths)
		owner := make([]int, len(ss)) // lookup j is matched to answer owner[j]
		for j := range owner {
			owner[j] = -1
		}
		var try func(i int, seen []bool) bool
		try = func(i int, seen []bool) bool {
			for j, s := range ss {
				if seen[j] || !fits(s, as[i]) {
					continue
				}
				seen[j] = true
				if owner[j] < 0 || try(owner[j], seen) {
					owner[j] = i
					return true
				}
			}
			return false
		}
		matchAll := func() bool {
			for i := range as {
				if !try(i, make([]bool, len(ss))) {
					return false
				}
			}
			return true
		}
		if len(as) != len(ss) || !matchAll() {
			var want []string
			for _, s := range ss {
				var w []string
				for v := s.from; v <= s.to; v++ {
					w = append(w, answerAt(v, ip).String())
				}
				want = append(want, "{"+strings.Join(w, " | ")+"}")
			}
			var gotS []string
			for _, a := range as {
				gotS = append(gotS, a.String())
			}
			k.r.Violation(prefix+":answers-do-not-match-lookups", fmt.Sprintf("label regex %q, annotation regex %q: %d lookups of %s got answers %v; allowed per lookup %v\n  %s", h.LabelRe, h.AnnRe, len(ss), ip, gotS, want, strings.Join(trace, "\n  ")), h)
			return burstDone
		}
	}
	q := maxQueued
	switch {
	case q > 12:
		q = 13
	case q > 6:
		q = 7
	case q > 3:
		q = 4
	}
	if maxQueued >= 3 {
		k.r.Nontrivial(fmt.Sprintf("burst|%s|%s|max-queued>=%d|events=%d", h.Engine, h.Pattern, q, minInt(version, 8)))
		k.r.Event("burst_cases_with_3_or_more_queued", 1)
	}
	if maxQueued >= 3 && len(trace) < 45 && k.r.WantSample() {
		k.r.Sample(map[string]interface{}{"mode": prefix, "history": trace})
	}
	return burstDone
}

// stuck: bounded progress of this deterministic script is what the statement promises (a lookup is
// answered); the first expiry is re-run once, the second is reported.
func (k *checker) stuck(prefix string, h *history, second bool, what string, trace []string) burstOutcome {
	if second {
		k.stuckReported = true
		k.r.Violation(prefix+":"+what, fmt.Sprintf("in two runs of the same script a step did not complete within %v\n  %s", watchdog, strings.Join(trace, "\n  ")), h)
		return burstDone
	}
	return burstStuck
}

func (k *checker) burstCase(h *history, no int) {
	k.guarded(h, func() {
		if k.runBurst(h, no, false) == burstStuck {
			k.r.Event("burst_script_rerun_after_watchdog", 1)
			if k.runBurst(h, no, true) == burstStuck {
				k.r.Inconclusive("burst-watchdog")
			}
		}
	})
}
