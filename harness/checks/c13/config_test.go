//go:build verif

package c13

import (
	"context"
	"fmt"
	"math/rand"
	"os"
	"path/filepath"
	"strings"
	"time"

	"github.com/spf13/viper"

	"github.com/atlassian/gostatsd/pkg/cachedinstances/k8s"
	"github.com/atlassian/gostatsd/pkg/verifhook"
)

// k8sConf is the [k8s] stanza of a gostatsd configuration file, as text keys (nil: key absent).
type k8sConf struct {
	Format    string  `json:"format"` // toml | yaml
	Ann       *string `json:"annotation_tag_regex"`
	Label     *string `json:"label_tag_regex"`
	Watch     *bool   `json:"watch_cluster"`
	Node      *string `json:"node_name"`
	Resync    string  `json:"resync_period,omitempty"`
	QPS       int     `json:"kube_api_qps,omitempty"`
	Burst     int     `json:"kube_api_burst,omitempty"`
	UserAgent string  `json:"user_agent,omitempty"`
	Context   bool    `json:"select_context_by_name,omitempty"`
}

// documented default of annotation-tag-regex (CLOUDPROVIDERS.md: "Matches any annotation beginning with
// gostatsd.atlassian.com/", tag name = the rest of the key)
const documentedDefaultAnnotationRegex = `^gostatsd\.atlassian\.com/(?P<tag>.*)$`

func (c *k8sConf) text(kubeconfig string) string {
	var kv [][2]string
	q := func(s string) string { return "'" + s + "'" }
	kv = append(kv, [2]string{"kubeconfig-path", q(kubeconfig)})
	if c.Context {
		kv = append(kv, [2]string{"kubeconfig-context", q("harness")})
	}
	if c.Ann != nil {
		kv = append(kv, [2]string{"annotation-tag-regex", q(*c.Ann)})
	}
	if c.Label != nil {
		kv = append(kv, [2]string{"label-tag-regex", q(*c.Label)})
	}
	if c.Watch != nil {
		kv = append(kv, [2]string{"watch-cluster", fmt.Sprint(*c.Watch)})
	}
	if c.Node != nil {
		kv = append(kv, [2]string{"node-name", q(*c.Node)})
	}
	if c.Resync != "" {
		kv = append(kv, [2]string{"resync-period", q(c.Resync)})
	}
	if c.QPS > 0 {
		kv = append(kv, [2]string{"kube-api-qps", fmt.Sprint(c.QPS)})
	}
	if c.Burst > 0 {
		kv = append(kv, [2]string{"kube-api-burst", fmt.Sprint(c.Burst)})
	}
	if c.UserAgent != "" {
		kv = append(kv, [2]string{"user-agent", q(c.UserAgent)})
	}
	var b strings.Builder
	if c.Format == "yaml" {
		b.WriteString("cloud-provider: k8s\nk8s:\n")
		for _, e := range kv {
			fmt.Fprintf(&b, "  %s: %s\n", e[0], e[1])
		}
	} else {
		b.WriteString("cloud-provider = 'k8s'\n\n[k8s]\n")
		for _, e := range kv {
			fmt.Fprintf(&b, "%s = %s\n", e[0], e[1])
		}
	}
	return b.String()
}

// effective states what the documentation says the keys mean.
//   - annotation-tag-regex: absent -> the documented default; '' -> ignore all annotations
//   - label-tag-regex: absent or '' -> no labels
//   - watch-cluster: absent -> true; true -> every pod of the cluster, node-name is not used
//   - watch-cluster false -> only pods on node-name, which must then be given
func (c *k8sConf) effective() (labelRe, annRe string, visible func(*podSpec) bool, invalid bool) {
	annRe = documentedDefaultAnnotationRegex
	if c.Ann != nil {
		annRe = *c.Ann
	}
	if c.Label != nil {
		labelRe = *c.Label
	}
	watchAll := c.Watch == nil || *c.Watch
	if watchAll {
		return labelRe, annRe, nil, false
	}
	if c.Node == nil || *c.Node == "" {
		return labelRe, annRe, nil, true
	}
	node := *c.Node
	return labelRe, annRe, func(p *podSpec) bool { return nodeOf(p) == node }, false
}

func optClass(set bool, empty bool) string {
	switch {
	case !set:
		return "absent"
	case empty:
		return "empty"
	}
	return "set"
}

func (c *k8sConf) tagClass() string {
	return "annotation-regex=" + optClass(c.Ann != nil, c.Ann != nil && *c.Ann == "") + ",label-regex=" + optClass(c.Label != nil, c.Label != nil && *c.Label == "")
}

func (c *k8sConf) watchClass() string {
	w := "absent"
	if c.Watch != nil {
		w = fmt.Sprint(*c.Watch)
	}
	return "watch-cluster=" + w + ",node-name=" + optClass(c.Node != nil, c.Node != nil && *c.Node == "")
}

var nodePool = []string{"node1", "node2", "node3"}

func genConf(rng *rand.Rand) *k8sConf {
	c := &k8sConf{Format: "toml"}
	if rng.Intn(4) == 0 {
		c.Format = "yaml"
	}
	str := func(s string) *string { return &s }
	switch k := rng.Intn(10); {
	case k < 3:
	case k < 6:
		c.Ann = str("")
	default:
		c.Ann = str(regexPool[1+rng.Intn(len(regexPool)-1)])
	}
	switch k := rng.Intn(10); {
	case k < 3:
	case k < 5:
		c.Label = str("")
	default:
		c.Label = str(regexPool[1+rng.Intn(len(regexPool)-1)])
	}
	switch k := rng.Intn(20); {
	case k < 7:
	case k < 13:
		b := true
		c.Watch = &b
	default:
		b := false
		c.Watch = &b
	}
	switch k := rng.Intn(20); {
	case k < 5:
	case k < 6:
		c.Node = str("")
	default:
		c.Node = str(nodePool[rng.Intn(2)])
	}
	if c.Watch != nil && !*c.Watch && (c.Node == nil || *c.Node == "") && rng.Intn(4) != 0 {
		// the combination without a node name is rejected at start-up; keep it rare
		c.Node = str(nodePool[rng.Intn(2)])
	}
	c.Resync = []string{"", "", "0", "30m", "1h"}[rng.Intn(5)]
	if rng.Intn(3) == 0 {
		c.QPS = 5 + rng.Intn(100)
		c.Burst = c.QPS + rng.Intn(50)
	}
	if rng.Intn(4) == 0 {
		c.UserAgent = "gostatsd-verif"
	}
	c.Context = rng.Intn(4) == 0
	return c
}

// genConfig: a configuration text plus a pod history; every pod incarnation lives on one node.
func genConfig(rng *rand.Rand) *history {
	h := &history{Mode: "seq", Engine: "config", Conf: genConf(rng)}
	h.LabelRe, h.AnnRe, _, _ = h.Conf.effective()
	g := newGen(rng)
	n := 6 + rng.Intn(10)
	h.ListFirst = rng.Intn(6)
	if h.ListFirst > n {
		h.ListFirst = n
	}
	nodes := map[string]string{}
	for i := 0; i < n; i++ {
		o := g.next()
		o.Tombstone = false
		id := o.Pod.id()
		if o.Kind == "add" {
			nodes[id] = nodePool[rng.Intn(len(nodePool))]
		}
		o.Pod.Node = nodes[id]
		if i >= h.ListFirst {
			o.Lookups = g.lookups(true)
		}
		h.Ops = append(h.Ops, o)
	}
	return h
}

func kubeconfigText(serverURL string, byContext bool) string {
	current := "harness"
	if byContext {
		// the current context points nowhere; the configuration has to select "harness" by name
		current = "dead"
	}
	return fmt.Sprintf(`apiVersion: v1
kind: Config
clusters:
- name: fake
  cluster:
    server: %s
- name: dead
  cluster:
    server: http://127.0.0.1:1
contexts:
- name: harness
  context:
    cluster: fake
    user: fake
- name: dead
  context:
    cluster: dead
    user: fake
current-context: %s
users:
- name: fake
  user: {}
`, serverURL, current)
}

type rejectedError struct{ err error }

func (r rejectedError) Error() string { return r.err.Error() }

// newConfigEngine builds the provider the way cmd/gostatsd does - configuration text -> viper ->
// k8s.NewProviderFromViper -> kubeconfig -> real client-go clientset and informer - against the scripted
// API server, and waits until the pods of the initial list were handed to the provider's event handler.
func newConfigEngine(h *history) (*engine, error) {
	e := &engine{kind: "config"}
	e.api = newAPIServer()
	for i := 0; i < h.ListFirst && i < len(h.Ops); i++ {
		e.api.push(h.Ops[i].Kind, mkPod(&h.Ops[i].Pod))
	}
	dir, err := os.MkdirTemp("", "verif-c13-cfg")
	if err != nil {
		e.api.close()
		return nil, err
	}
	e.dir = dir
	kc := filepath.Join(dir, "kubeconfig")
	if err := os.WriteFile(kc, []byte(kubeconfigText(e.api.srv.URL, h.Conf.Context)), 0o600); err != nil {
		e.closeConfig()
		return nil, err
	}
	v := viper.New()
	v.SetConfigType(h.Conf.Format)
	if err := v.ReadConfig(strings.NewReader(h.Conf.text(kc))); err != nil {
		e.closeConfig()
		return nil, fmt.Errorf("configuration text unreadable: %v", err)
	}
	e.events = make(chan string, 256)
	verifhook.Set("k8s.onAdd", func(string) { e.events <- "add" })
	verifhook.Set("k8s.onUpdate", func(string) { e.events <- "update" })
	verifhook.Set("k8s.onDelete", func(string) { e.events <- "delete" })
	e.hooks = true
	ci, err := k8s.NewProviderFromViper(v, quietLogger, "verif")
	if err != nil {
		e.closeConfig()
		return nil, rejectedError{err}
	}
	p, ok := ci.(*k8s.Provider)
	if !ok {
		e.closeConfig()
		return nil, fmt.Errorf("NewProviderFromViper returned %T", ci)
	}
	e.p = p
	ctx, cancel := context.WithCancel(context.Background())
	e.cancel = cancel
	e.runDone = make(chan struct{})
	go func() { defer close(e.runDone); p.Run(ctx) }()
	select {
	case <-e.api.started:
	case <-time.After(watchdog):
		e.close()
		return nil, fmt.Errorf("informer watch never started")
	}
	// the informer's list is the last list request before its watch; each listed pod gives one OnAdd
	lists, _ := e.api.requests()
	want := 0
	if len(lists) > 0 {
		want = lists[len(lists)-1].Items
	}
	for i := 0; i < want; i++ {
		select {
		case got := <-e.events:
			if got != "add" {
				e.close()
				return nil, fmt.Errorf("informer delivered %q for a listed pod", got)
			}
		case <-time.After(watchdog):
			e.close()
			return nil, fmt.Errorf("listed pod never delivered")
		}
	}
	return e, nil
}

func (e *engine) closeConfig() {
	if e.hooks {
		verifhook.Clear("k8s.onAdd")
		verifhook.Clear("k8s.onUpdate")
		verifhook.Clear("k8s.onDelete")
		e.hooks = false
	}
	if e.api != nil {
		e.api.close()
	}
	if e.dir != "" {
		_ = os.RemoveAll(e.dir)
	}
}

// applyConfig sends the event through the API server's watch streams; it waits for the provider's event
// handler exactly when the server wrote the event to the provider's stream (the server applies the field
// selector the provider asked for, as the real one does).
func (e *engine) applyConfig(o *op) error {
	delivered, open := e.api.push(o.Kind, mkPod(&o.Pod))
	if open != 1 {
		return fmt.Errorf("%d watch streams open", open)
	}
	if delivered == 0 {
		return nil
	}
	select {
	case got := <-e.events:
		if got != o.Kind {
			return fmt.Errorf("informer delivered %q for %q", got, o.Kind)
		}
	case <-time.After(watchdog):
		return fmt.Errorf("informer never delivered %q", o.Kind)
	}
	return nil
}

// runConfig: a history observed by a provider that was built from configuration text.
func (k *checker) runConfig(h *history, no int) {
	k.caseLine(h, no)
	labelRe, annRe, visible, invalid := h.Conf.effective()
	h.LabelRe, h.AnnRe = labelRe, annRe
	cfg := &config{labelRe: compileOrNil(labelRe), annRe: compileOrNil(annRe), visible: visible}
	e, err := newConfigEngine(h)
	confText := h.Conf.text("<kubeconfig>")
	if err != nil {
		if rj, ok := err.(rejectedError); ok {
			k.r.Eval(1)
			if invalid {
				k.r.Event("config_rejected_as_documented", 1)
				k.r.Nontrivial("config|rejected|" + h.Conf.watchClass())
				return
			}
			k.r.Violation("config:provider-not-built:"+h.Conf.watchClass(), fmt.Sprintf("NewProviderFromViper failed for a documented configuration: %v\n%s", rj.err, confText), h)
			return
		}
		k.r.Inconclusive("engine-start:config")
		return
	}
	defer e.close()
	if invalid {
		// watch-cluster=false without a node name: the documentation promises a start-up failure, the
		// statement says nothing about lookups then
		k.r.Event("config_without_node_name_accepted", 1)
		return
	}
	m := newModel(cfg)
	tr := newTracker()
	trace := []string{"configuration (" + h.Conf.Format + "):", "  " + strings.ReplaceAll(strings.TrimSpace(confText), "\n", "\n    ")}
	deco := func(kind string) string {
		if kind == "wrong-tags" {
			return kind + ":" + h.Conf.tagClass()
		}
		return kind + ":" + h.Conf.watchClass()
	}
	sawOtherNode, sawFiltered := false, false
	nLook := 0
	look := func(step int, l lookup) bool {
		want := m.answer(l.IP)
		for t := 0; t < l.Times; t++ {
			got, err := e.peek(l.IP, l.Sink)
			if err != nil {
				k.r.Violation("config:lookup-failed", err.Error(), h)
				return false
			}
			nLook++
			trace = append(trace, fmt.Sprintf("   lookup(%s) = %v", l.IP, got))
			if !k.judgeSig("config", deco, h, step, l.IP, got, want, tr.ips[l.IP], trace) {
				return false
			}
			tr.looked(l.IP, want)
		}
		return true
	}
	flags := func() {
		for _, p := range m.pods {
			if !holds(p) {
				continue
			}
			if visible != nil && !visible(p) {
				sawFiltered = true
			} else if h.Conf.Node != nil && *h.Conf.Node != "" && nodeOf(p) != *h.Conf.Node {
				sawOtherNode = true
			}
		}
	}
	for i := 0; i < h.ListFirst && i < len(h.Ops); i++ {
		before := snapshot(m)
		m.apply(&h.Ops[i])
		tr.note(&h.Ops[i], before, snapshot(m))
		trace = append(trace, fmt.Sprintf("%d (before start, node %s): %s", i, nodeOf(&h.Ops[i].Pod), h.Ops[i]))
	}
	flags()
	ok := true
	if h.ListFirst > 0 {
		k.r.Event("config_pods_via_initial_list", len(m.pods))
		for _, ip := range ipPool {
			if !look(h.ListFirst-1, lookup{IP: ip, Times: 1}) {
				ok = false
				break
			}
		}
	}
	for i := h.ListFirst; ok && i < len(h.Ops); i++ {
		o := &h.Ops[i]
		before := snapshot(m)
		if err := e.applyConfig(o); err != nil {
			k.r.Inconclusive("apply:config")
			return
		}
		k.r.Event("config_pod_"+o.Kind, 1)
		m.apply(o)
		tr.note(o, before, snapshot(m))
		flags()
		trace = append(trace, fmt.Sprintf("%d (node %s): %s", i, nodeOf(&o.Pod), o))
		for _, l := range o.Lookups {
			if !look(i, l) {
				ok = false
				break
			}
		}
	}
	k.r.Eval(1)
	k.r.Event("config_lookups", nLook)
	k.r.Nontrivial(fmt.Sprintf("config|%s|%s|%s|list=%v|other-node-holder=%v|filtered-holder=%v", h.Conf.Format, h.Conf.tagClass(), h.Conf.watchClass(), h.ListFirst > 0, sawOtherNode, sawFiltered))
	if ok && (sawOtherNode || sawFiltered) && len(trace) < 70 && k.r.WantSample() {
		k.r.Sample(map[string]interface{}{"mode": "config", "history": trace})
	}
}
