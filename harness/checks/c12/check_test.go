//go:build verif

// C12 — the instance cache answers every lookup once and never forgets good data on error.
//
// The real CachedCloudProvider.Run is driven with a scripted CloudProvider (per call: full, partial,
// empty, error, error+partial; batch limit 1/2/5/16), clients on IpSink / InfoSource, Peek readers and
// refresh ticks fired through a clock.Mock. The provider takes its ticker from the context clock but
// reads the real clock for `expires` and `lastAccess`; the cache automaton of this monitor therefore
// keeps a real-time bracket [lo, hi] for each of those readings and fires a refresh tick only at an
// instant whose idle / TTL decision is the same for every reading in the brackets.
package c12

import (
	"context"
	"errors"
	"fmt"
	"io"
	"math/rand"
	"runtime"
	"sort"
	"strconv"
	"strings"
	"sync"
	"testing"
	"time"

	"github.com/sirupsen/logrus"
	"github.com/tilinna/clock"
	"golang.org/x/time/rate"

	"github.com/atlassian/gostatsd"
	"github.com/atlassian/gostatsd/pkg/cachedinstances/cloudprovider"
	"github.com/atlassian/gostatsd/pkg/stats"

	"verif/mon"
)

func wallNow() time.Time { return time.Now().Round(0) } // wall clock reading only, like UnixNano()

// ---------------------------------------------------------------------------------------------
// spy Statser

type gaugeRec struct {
	key string
	v   float64
}

type spyStatser struct {
	mu     sync.Mutex
	flush  chan time.Duration
	closed bool
	recs   []gaugeRec
	full   int
}

const (
	gPos      = "cloudprovider.cache_positive"
	gNeg      = "cloudprovider.cache_negative"
	lastGauge = "cloudprovider.cache_refresh_negative"
)

func (s *spyStatser) NotifyFlush(ctx context.Context, d time.Duration) {
	s.mu.Lock()
	defer s.mu.Unlock()
	if s.flush == nil || s.closed {
		return
	}
	select {
	case s.flush <- d:
	default:
	}
}

func (s *spyStatser) RegisterFlush() (<-chan time.Duration, func()) {
	s.mu.Lock()
	defer s.mu.Unlock()
	s.flush = make(chan time.Duration)
	return s.flush, func() {
		s.mu.Lock()
		s.closed = true
		s.mu.Unlock()
	}
}

func (s *spyStatser) Gauge(name string, value float64, tags gostatsd.Tags) {
	s.mu.Lock()
	s.recs = append(s.recs, gaugeRec{name, value})
	if name == lastGauge {
		s.full++
	}
	s.mu.Unlock()
}
func (s *spyStatser) Count(name string, amount float64, tags gostatsd.Tags)           {}
func (s *spyStatser) Increment(name string, tags gostatsd.Tags)                       {}
func (s *spyStatser) Report(name string, value *uint64, tags gostatsd.Tags)           {}
func (s *spyStatser) TimingMS(name string, ms float64, tags gostatsd.Tags)            {}
func (s *spyStatser) TimingDuration(name string, d time.Duration, tags gostatsd.Tags) {}
func (s *spyStatser) NewTimer(name string, tags gostatsd.Tags) *stats.Timer           { return &stats.Timer{} }
func (s *spyStatser) WithTags(tags gostatsd.Tags) stats.Statser                       { return s }
func (s *spyStatser) Event(ctx context.Context, e *gostatsd.Event)                    {}
func (s *spyStatser) WaitForEvents()                                                  {}

func (s *spyStatser) complete() int {
	s.mu.Lock()
	defer s.mu.Unlock()
	return s.full
}

func (s *spyStatser) emissions() []map[string]float64 {
	s.mu.Lock()
	defer s.mu.Unlock()
	var out []map[string]float64
	cur := map[string]float64{}
	for _, g := range s.recs {
		cur[g.key] = g.v
		if g.key == lastGauge {
			out = append(out, cur)
			cur = map[string]float64{}
		}
	}
	return out
}

// emission runs a private RunMetrics with a fresh spy until one complete emission was observed.
// The Run goroutine accepts an emission request only while parked in its select (the request is a
// non-blocking send), so every emission seen here was produced after everything the Run goroutine
// had received before this function started - in particular a refresh tick already placed in the
// ticker channel - was handled.
func emission(parent context.Context, ccp *cloudprovider.CachedCloudProvider, wd time.Duration) ([]map[string]float64, bool) {
	spy := &spyStatser{}
	ctx, cancel := context.WithCancel(parent)
	done := make(chan struct{})
	go func() {
		defer close(done)
		ccp.RunMetrics(ctx, spy)
	}()
	ok := mon.WaitUntil(wd, func() bool {
		spy.NotifyFlush(ctx, 0)
		return spy.complete() >= 1
	})
	cancel()
	<-done
	return spy.emissions(), ok
}

// ---------------------------------------------------------------------------------------------
// scripted CloudProvider

type provCall struct {
	N          int
	Ips        []string
	Outcome    byte
	Results    []*gostatsd.Instance // per position of Ips
	Ret        time.Time            // wall clock when Instance returned
	StartStamp int64
}

type provider struct {
	r      *mon.Run
	batch  int
	script string
	tail   *rand.Rand // random outcomes after the script (concurrent mode); nil = full

	mu    sync.Mutex
	calls []provCall
	occ   map[string]int

	// hold support: when armed, the next Instance call blocks (after its bookkeeping) until the
	// harness closes releaseC or the context ends
	started  int // calls begun (completed ones are in calls)
	armed    bool
	holding  bool
	heldIps  []string
	releaseC chan struct{}
}

// arm makes the next provider call block until release; later outcomes are drawn from tail.
func (p *provider) arm(tail *rand.Rand) {
	p.mu.Lock()
	p.armed, p.releaseC, p.tail = true, make(chan struct{}), tail
	p.mu.Unlock()
}

func (p *provider) held() ([]string, bool) {
	p.mu.Lock()
	defer p.mu.Unlock()
	return append([]string(nil), p.heldIps...), p.holding
}

func (p *provider) release() {
	p.mu.Lock()
	if p.releaseC != nil {
		close(p.releaseC)
		p.releaseC = nil
	}
	p.mu.Unlock()
}

func (p *provider) occAll() map[string]int {
	p.mu.Lock()
	defer p.mu.Unlock()
	o := map[string]int{}
	for k, v := range p.occ {
		o[k] = v
	}
	return o
}

const outcomes = "FPEXY" // full, partial, empty, error, error+partial

func srcIndex(ip string) int {
	i := strings.LastIndexByte(ip, '.')
	n, _ := strconv.Atoi(ip[i+1:])
	return n
}

func mkInstance(ip string, call int) *gostatsd.Instance {
	return &gostatsd.Instance{ID: gostatsd.Source("i-" + ip), Tags: gostatsd.Tags{"src:" + ip, "ver:" + strconv.Itoa(call)}}
}

func instVer(i *gostatsd.Instance) int {
	if i == nil || len(i.Tags) < 2 {
		return 0
	}
	n, _ := strconv.Atoi(strings.TrimPrefix(i.Tags[1], "ver:"))
	return n
}

func instString(i *gostatsd.Instance) string {
	if i == nil {
		return "nil"
	}
	return string(i.ID) + "/" + strings.Join(i.Tags, ",")
}

func (p *provider) Name() string           { return "scripted" }
func (p *provider) MaxInstancesBatch() int { return p.batch }
func (p *provider) EstimatedTags() int     { return 2 }

func (p *provider) Instance(ctx context.Context, ips ...gostatsd.Source) (map[gostatsd.Source]*gostatsd.Instance, error) {
	p.mu.Lock()
	defer p.mu.Unlock()
	n := len(p.calls) + 1
	p.started++
	out := byte('F')
	if n-1 < len(p.script) {
		out = p.script[n-1]
	} else if p.tail != nil {
		out = outcomes[p.tail.Intn(len(outcomes))]
		if p.tail.Intn(2) == 0 {
			out = 'F'
		}
	}
	c := provCall{N: n, Outcome: out, StartStamp: p.r.Stamp()}
	res := map[gostatsd.Source]*gostatsd.Instance{}
	for _, ip := range ips {
		s := string(ip)
		c.Ips = append(c.Ips, s)
		p.occ[s]++
		present := true
		switch out {
		case 'E', 'X':
			present = false
		case 'P', 'Y':
			present = (srcIndex(s)+n)%2 != 0
		}
		var inst *gostatsd.Instance
		if present {
			if inst = res[ip]; inst == nil {
				inst = mkInstance(s, n)
				res[ip] = inst
			}
		} else if (srcIndex(s)+n)%4 == 0 {
			res[ip] = nil // explicit "not found" entry instead of an absent key
		}
		c.Results = append(c.Results, inst)
	}
	var err error
	switch out {
	case 'X':
		res, err = nil, errors.New("scripted provider failure")
	case 'Y':
		err = errors.New("scripted provider failure with partial data")
	}
	if p.armed {
		p.armed, p.holding, p.heldIps = false, true, c.Ips
		rel := p.releaseC
		p.r.Event("provider_calls_held_open", 1)
		p.mu.Unlock()
		select {
		case <-rel:
		case <-ctx.Done():
		}
		p.mu.Lock()
		p.holding = false
	}
	c.Ret = wallNow()
	p.calls = append(p.calls, c)
	p.r.Event("provider_calls", 1)
	p.r.Event("provider_outcome_"+string(out), 1)
	return res, err
}

// progress returns how many provider calls have begun and how many have returned.
func (p *provider) progress() (started, completed int) {
	p.mu.Lock()
	defer p.mu.Unlock()
	return p.started, len(p.calls)
}

func (p *provider) callCount() int {
	p.mu.Lock()
	defer p.mu.Unlock()
	return len(p.calls)
}

func (p *provider) occurrences(s string) int {
	p.mu.Lock()
	defer p.mu.Unlock()
	return p.occ[s]
}

func (p *provider) since(i int) []provCall {
	p.mu.Lock()
	defer p.mu.Unlock()
	return append([]provCall(nil), p.calls[i:]...)
}

// ---------------------------------------------------------------------------------------------
// InfoSource drainer

type answer struct {
	Src   string
	Inst  *gostatsd.Instance
	Stamp int64
}

type drainer struct {
	r     *mon.Run
	mu    sync.Mutex
	ans   []answer
	cnt   map[string]int
	pause chan struct{} // while non-nil the consumer does not read InfoSource (a slow consumer)
}

func (d *drainer) setPause(c chan struct{}) {
	d.mu.Lock()
	d.pause = c
	d.mu.Unlock()
}

func (d *drainer) run(ctx context.Context, src <-chan gostatsd.InstanceInfo) {
	for {
		d.mu.Lock()
		gate := d.pause
		d.mu.Unlock()
		if gate != nil {
			select {
			case <-ctx.Done():
				return
			case <-gate:
				d.setPause(nil)
			}
		}
		select {
		case <-ctx.Done():
			return
		case info := <-src:
			st := d.r.Stamp()
			d.mu.Lock()
			d.ans = append(d.ans, answer{string(info.IP), info.Instance, st})
			d.cnt[string(info.IP)]++
			d.mu.Unlock()
			d.r.Event("answers", 1)
		}
	}
}

func (d *drainer) count(s string) int {
	d.mu.Lock()
	defer d.mu.Unlock()
	return d.cnt[s]
}

func (d *drainer) total() int {
	d.mu.Lock()
	defer d.mu.Unlock()
	return len(d.ans)
}

func (d *drainer) all() []answer {
	d.mu.Lock()
	defer d.mu.Unlock()
	return append([]answer(nil), d.ans...)
}

// ---------------------------------------------------------------------------------------------
// environment

type regime struct {
	name string
	opts gostatsd.CacheOptions
}

var regimes = []regime{
	{"hours", gostatsd.CacheOptions{CacheRefreshPeriod: time.Millisecond, CacheTTL: time.Hour, CacheNegativeTTL: 10 * time.Minute, CacheEvictAfterIdlePeriod: 2 * time.Hour}},
	{"millis", gostatsd.CacheOptions{CacheRefreshPeriod: 100 * time.Microsecond, CacheTTL: 40 * time.Millisecond, CacheNegativeTTL: 25 * time.Millisecond, CacheEvictAfterIdlePeriod: 90 * time.Millisecond}},
	{"short-negative-short-idle", gostatsd.CacheOptions{CacheRefreshPeriod: 250 * time.Microsecond, CacheTTL: time.Hour, CacheNegativeTTL: 30 * time.Millisecond, CacheEvictAfterIdlePeriod: 300 * time.Millisecond}},
	{"short-positive", gostatsd.CacheOptions{CacheRefreshPeriod: 100 * time.Microsecond, CacheTTL: 20 * time.Millisecond, CacheNegativeTTL: time.Hour, CacheEvictAfterIdlePeriod: 2 * time.Hour}},
}

type env struct {
	r      *mon.Run
	ctx    context.Context
	cancel context.CancelFunc
	mock   *clock.Mock
	t0m    time.Time
	opts   gostatsd.CacheOptions
	ccp    *cloudprovider.CachedCloudProvider
	prov   *provider
	dr     *drainer
	wg     sync.WaitGroup
	next   time.Time // stamp the mock ticker will put on its next tick
}

func newEnv(r *mon.Run, opts gostatsd.CacheOptions, batch int, script string, tail *rand.Rand) (*env, bool) {
	return newEnvLim(r, opts, batch, script, tail, nil)
}

// limiterChoice draws the request limiter of a case from its own PRNG stream: unlimited, or a finite
// rate with a small burst (1-3 provider calls). One provider call is one request, whatever its batch size.
func limiterChoice(rng *rand.Rand) (*rate.Limiter, string) {
	if rng.Intn(2) == 0 {
		return nil, "unlimited"
	}
	b := 1 + rng.Intn(3)
	rt := []int{500, 2000, 10000}[rng.Intn(3)]
	return rate.NewLimiter(rate.Limit(rt), b), fmt.Sprintf("%d/s burst %d", rt, b)
}

func newEnvLim(r *mon.Run, opts gostatsd.CacheOptions, batch int, script string, tail *rand.Rand, lim *rate.Limiter) (*env, bool) {
	if lim == nil {
		lim = rate.NewLimiter(rate.Inf, 1)
	}
	e := &env{r: r, opts: opts}
	e.t0m = wallNow()
	e.mock = clock.NewMock(e.t0m)
	ctx, cancel := context.WithCancel(context.Background())
	e.ctx, e.cancel = clock.Context(ctx, e.mock), cancel
	e.prov = &provider{r: r, batch: batch, script: script, tail: tail, occ: map[string]int{}}
	e.dr = &drainer{r: r, cnt: map[string]int{}}
	logger := logrus.New()
	logger.SetOutput(io.Discard)
	e.ccp = cloudprovider.NewCachedCloudProvider(logger, lim, e.prov, opts)
	e.wg.Add(2)
	go func() { defer e.wg.Done(); e.ccp.Run(e.ctx) }()
	go func() { defer e.wg.Done(); e.dr.run(e.ctx, e.ccp.InfoSource()) }()
	// the refresh ticker is created inside Run; its lattice starts at the mock's (unchanged) start time
	ok := mon.WaitUntil(10*time.Second, func() bool { return e.mock.Len() >= 1 })
	e.next = e.t0m.Add(opts.CacheRefreshPeriod)
	return e, ok
}

func (e *env) close() {
	e.cancel()
	e.wg.Wait()
}

// fire moves the mock clock to target (>= e.next): exactly one tick is delivered, stamped with the
// earliest pending deadline, and the next deadline becomes the first lattice point after target.
func (e *env) fire(target time.Time) time.Time {
	stamp := e.next
	p := e.opts.CacheRefreshPeriod
	e.mock.Set(target)
	e.next = stamp.Add((target.Sub(stamp)/p + 1) * p)
	e.r.Event("refresh_ticks", 1)
	return stamp
}

func (e *env) submit(src string, wd time.Duration) bool {
	select {
	case e.ccp.IpSink() <- gostatsd.Source(src):
		e.r.Event("submissions", 1)
		return true
	case <-time.After(wd):
		return false
	}
}

type replayCase struct {
	Mode   string   `json:"mode"`
	Index  int      `json:"index"`
	Script string   `json:"script"`
	Batch  int      `json:"batch"`
	Regime string   `json:"regime"`
	Focus  bool     `json:"focused"`
	Steps  []string `json:"steps,omitempty"`
}

// ---------------------------------------------------------------------------------------------
// sequential mode: cache automaton with bracketed real time

type entry struct {
	inst         *gostatsd.Instance
	expLo, expHi time.Time // bracket of `expires`
	laLo, laHi   time.Time // bracket of `lastAccess`
}

type seq struct {
	*env
	limName string
	dry     bool        // violations are collected in held instead of being reported
	held    [][2]string // (sig, detail)
	idx     int
	script  string
	batch   int
	focus   bool
	reg     regime
	rng     *rand.Rand
	wd      time.Duration
	pool    []string

	entries map[string]*entry
	exp     map[string]int // expected cumulative provider occurrences (= answers) per source
	applied int
	ticked  bool
	log     []string

	sawFailedRefresh, sawPartial, sawEvict, sawRequery, sawFlip bool

	bad            bool
	progress       string
	progressDetail string
	inconclusive   string
}

func (s *seq) logf(f string, a ...interface{}) { s.log = append(s.log, fmt.Sprintf(f, a...)) }
func (s *seq) replay() replayCase {
	return replayCase{Mode: "seq", Index: s.idx, Script: s.script, Batch: s.batch, Regime: s.reg.name, Focus: s.focus, Steps: s.log}
}
func (s *seq) header() string {
	return fmt.Sprintf("provider script %q then full, batch limit %d, request limiter %s, options %s %+v", s.script, s.batch, s.limName, s.reg.name, s.reg.opts)
}
func (s *seq) violation(sig, detail string) {
	s.bad = true
	if s.dry {
		// judged on a state that may still be moving: kept back until the caller knows it was stable
		s.held = append(s.held, [2]string{sig, detail + "\n" + s.header() + "\nhistory: " + strings.Join(s.log, " ; ")})
		return
	}
	s.r.Violation(sig, detail+"\n"+s.header()+"\nhistory: "+strings.Join(s.log, " ; "), s.replay())
}
func (s *seq) stuck(sig, detail string) {
	if s.progress == "" {
		s.progress = sig
		s.progressDetail = detail + "\n" + s.header() + "\nhistory: " + strings.Join(s.log, " ; ")
	}
}
func (s *seq) live() bool { return !s.bad && s.progress == "" && s.inconclusive == "" }

func (s *seq) counts() (pos, neg int) {
	for _, e := range s.entries {
		if e.inst != nil {
			pos++
		} else {
			neg++
		}
	}
	return
}

// handle is the automaton's transition for one answer (one position of one provider call).
func (s *seq) handle(src string, res *gostatsd.Instance, lo, hi time.Time) {
	ttl := s.opts.CacheTTL
	if res == nil {
		ttl = s.opts.CacheNegativeTTL
	}
	e := s.entries[src]
	if e == nil {
		s.entries[src] = &entry{inst: res, expLo: lo.Add(ttl), expHi: hi.Add(ttl), laLo: lo, laHi: hi}
		return
	}
	if res == nil {
		if e.inst != nil {
			s.sawFailedRefresh = true // good data must survive
		}
	} else {
		if e.inst == nil {
			s.sawFlip = true
		}
		e.inst = res
	}
	e.expLo, e.expHi = lo.Add(ttl), hi.Add(ttl)
}

func (s *seq) applyCalls(hi time.Time) {
	calls := s.prov.since(s.applied)
	s.applied += len(calls)
	for _, c := range calls {
		if len(c.Ips) > s.batch {
			s.violation("batch-limit-exceeded", fmt.Sprintf("provider call %d asked for %d sources, MaxInstancesBatch is %d", c.N, len(c.Ips), s.batch))
		}
		absent, present := 0, 0
		for i, ip := range c.Ips {
			s.handle(ip, c.Results[i], c.Ret, hi)
			if c.Results[i] == nil {
				absent++
			} else {
				present++
			}
		}
		if (c.Outcome == 'P' || c.Outcome == 'Y') && absent > 0 {
			s.sawPartial = true
		}
		s.logf("  call%d[%c %s]", c.N, c.Outcome, strings.Join(c.Ips, ","))
	}
}

// settle waits until every expected query was made and answered, checks that nothing else was
// queried or answered, and feeds the provider calls to the automaton.
func (s *seq) settle(tok, what string) {
	ok := mon.WaitUntil(s.wd, func() bool {
		for _, src := range s.pool {
			if s.prov.occurrences(src) < s.exp[src] || s.dr.count(src) < s.exp[src] {
				return false
			}
		}
		return true
	})
	hi := wallNow()
	if !ok {
		for _, src := range s.pool {
			if o := s.prov.occurrences(src); o < s.exp[src] {
				s.stuck("never-queried:"+tok, fmt.Sprintf("source %s should have been queried %d times by now (%s) but appears in %d provider calls", src, s.exp[src], what, o))
				return
			}
		}
		for _, src := range s.pool {
			if a := s.dr.count(src); a < s.exp[src] {
				s.stuck("answer-missing", fmt.Sprintf("source %s was queried %d times but only %d answers arrived on InfoSource", src, s.exp[src], a))
				return
			}
		}
		return
	}
	s.exact()
	s.applyCalls(hi)
}

func (s *seq) exact() {
	for _, src := range s.pool {
		a := s.dr.count(src) // answers first: a query counted later can only make "a > o" less likely
		o := s.prov.occurrences(src)
		if o > s.exp[src] {
			s.violation("unexpected-provider-query", fmt.Sprintf("source %s appears in %d provider calls, only %d lookups were requested (submissions + entries past their TTL at a refresh tick)", src, o, s.exp[src]))
			return
		}
		if a > o {
			s.violation("more-answers-than-queries", fmt.Sprintf("source %s was queried %d times but %d answers arrived on InfoSource", src, o, a))
			return
		}
	}
}

// sync waits for a stats emission (which also proves that the Run goroutine has handled everything
// it received before) and, if compare, checks the cache-size gauges against the automaton.
func (s *seq) sync(compare bool) {
	ems, ok := emission(s.ctx, s.ccp, s.wd)
	if !ok {
		s.inconclusive = "stats-emission-not-observed"
		return
	}
	s.r.Event("stats_emissions", len(ems))
	if !compare {
		return
	}
	pos, neg := s.counts()
	for _, em := range ems {
		if gp, gn := em[gPos], em[gNeg]; gp != float64(pos) || gn != float64(neg) {
			which := gPos
			if gp == float64(pos) {
				which = gNeg
			}
			s.violation("gauge-mismatch:"+which, fmt.Sprintf("emitted cache_positive=%v cache_negative=%v, the cache holds %d positive and %d negative entries (%s)", gp, gn, pos, neg, s.describe()))
			return
		}
	}
}

func (s *seq) describe() string {
	var keys []string
	for k := range s.entries {
		keys = append(keys, k)
	}
	sort.Strings(keys)
	var out []string
	for _, k := range keys {
		out = append(out, k+"="+instString(s.entries[k].inst))
	}
	return strings.Join(out, " ")
}

func (s *seq) stepSubmit(n int) {
	var srcs []string
	for i := 0; i < n; i++ {
		src := s.pool[s.rng.Intn(len(s.pool))]
		if i > 0 && s.rng.Intn(4) == 0 {
			src = srcs[s.rng.Intn(len(srcs))] // duplicate submission
		}
		srcs = append(srcs, src)
	}
	s.submitList(srcs)
}

func (s *seq) submitList(srcs []string) {
	s.logf("submit[%s]", strings.Join(srcs, ","))
	for _, src := range srcs {
		s.exp[src]++
		if !s.submit(src, s.wd) {
			s.inconclusive = "ipsink-blocked"
			return
		}
	}
	s.settle("after-submission", "after its submission")
	if s.live() {
		s.sync(true)
	}
}

func sameInstance(a, b *gostatsd.Instance) bool {
	if a == nil || b == nil {
		return a == b
	}
	return instString(a) == instString(b)
}

func (s *seq) peek(src string, why string) {
	before := wallNow()
	inst, hit := s.ccp.Peek(gostatsd.Source(src))
	after := wallNow()
	s.r.Event("peeks", 1)
	e := s.entries[src]
	s.logf("peek[%s]=%s,%v", src, instString(inst), hit)
	switch {
	case e == nil && hit:
		s.violation("peek-hit-without-entry", fmt.Sprintf("Peek(%s) %s is a hit (%s) although the source was never answered or was evicted", src, why, instString(inst)))
	case e != nil && !hit:
		s.violation("peek-miss-on-cached-entry", fmt.Sprintf("Peek(%s) %s is a miss although the entry (%s) was answered and is not evicted", src, why, instString(e.inst)))
	case e != nil && e.inst != nil && inst == nil:
		s.violation("good-instance-forgotten", fmt.Sprintf("Peek(%s) %s returns nil although the source had resolved to %s and only failed/empty refreshes followed", src, why, instString(e.inst)))
	case e != nil && !sameInstance(e.inst, inst):
		s.violation("peek-wrong-instance", fmt.Sprintf("Peek(%s) %s returns %s, the last successful lookup gave %s", src, why, instString(inst), instString(e.inst)))
	}
	if e != nil && hit {
		e.laLo, e.laHi = before, after
	}
}

// decide gives the automaton's verdict for a refresh tick stamped d on one entry.
func (s *seq) decide(e *entry, d time.Time) (evict, requery, ambiguous bool) {
	idle := s.opts.CacheEvictAfterIdlePeriod
	switch {
	case d.After(e.laHi.Add(idle)):
		return true, false, false
	case !d.After(e.laLo.Add(idle)):
	default:
		return false, false, true
	}
	switch {
	case d.After(e.expHi):
		return false, true, false
	case !d.After(e.expLo):
		return false, false, false
	}
	return false, false, true
}

func (s *seq) ambiguousAt(d time.Time) bool {
	for _, e := range s.entries {
		if _, _, amb := s.decide(e, d); amb {
			return true
		}
	}
	return false
}

// candidates lists lattice instants >= from at which every entry's decision is unambiguous, one per
// region between the bracketed idle / TTL boundaries.
func (s *seq) candidates(from time.Time) []time.Time {
	type iv struct{ lo, hi time.Time }
	var f []iv
	idle := s.opts.CacheEvictAfterIdlePeriod
	for _, e := range s.entries {
		f = append(f, iv{e.laLo.Add(idle), e.laHi.Add(idle)}, iv{e.expLo, e.expHi})
	}
	sort.Slice(f, func(i, j int) bool { return f[i].lo.Before(f[j].lo) })
	p := s.opts.CacheRefreshPeriod
	m := p
	if m < 200*time.Microsecond {
		m = 200 * time.Microsecond
	}
	align := func(t time.Time) time.Time { return s.t0m.Add(t.Sub(s.t0m) / p * p) }
	var out []time.Time
	cur := from
	for _, v := range f {
		end := v.lo.Add(-m)
		if !end.Before(cur) {
			w := align(cur.Add(end.Sub(cur) / 2))
			if w.Before(cur) {
				w = w.Add(p)
			}
			if !w.After(end) {
				out = append(out, w)
			}
		}
		if h := v.hi.Add(m); h.After(cur) {
			cur = h
		}
	}
	w := align(cur.Add(10 * time.Second))
	out = append(out, w)
	return out
}

// tick fires one refresh tick stamped d (the mock's pending deadline) by moving the clock to target.
func (s *seq) tick(target time.Time) {
	d := s.next
	var evicted, requeried []string
	var keys []string
	for k := range s.entries {
		keys = append(keys, k)
	}
	sort.Strings(keys)
	for _, k := range keys {
		ev, rq, _ := s.decide(s.entries[k], d)
		if ev {
			evicted = append(evicted, k)
		} else if rq {
			requeried = append(requeried, k)
		}
	}
	s.logf("tick[t0+%v evicts=%v requeries=%v]", d.Sub(s.t0m), evicted, requeried)
	for _, k := range evicted {
		delete(s.entries, k)
		s.sawEvict = true
	}
	for _, k := range requeried {
		s.exp[k]++
		s.sawRequery = true
	}
	s.r.Event("model_evictions", len(evicted))
	s.r.Event("model_requeries", len(requeried))
	s.ticked = true
	s.fire(target)
	// barrier: the emission proves doRefresh has run; its gauges are compared only when no refresh
	// lookup can be in flight
	s.sync(len(requeried) == 0)
	if !s.live() {
		return
	}
	for _, k := range evicted {
		s.peek(k, "after the refresh tick that found it idle longer than the idle period")
		if !s.live() {
			return
		}
	}
	s.settle("after-ttl-expiry-tick", "after the refresh tick that found it past its TTL")
	if s.live() && len(requeried) > 0 {
		s.sync(true)
	}
}

// tickTo makes the refresh ticker deliver a tick stamped w (a lattice instant >= the pending deadline
// at which every decision is unambiguous). If w is later than the pending deadline, that deadline is
// delivered first (the mock stamps a tick with the earliest pending deadline, not with the target).
func (s *seq) tickTo(w time.Time) {
	if w.After(s.next) {
		if s.ambiguousAt(s.next) {
			s.r.Event("tick_skipped_pending_deadline_ambiguous", 1)
			return
		}
		s.tick(w.Add(-s.opts.CacheRefreshPeriod))
		if !s.live() {
			return
		}
		if !s.next.Equal(w) {
			s.inconclusive = "tick-lattice-mismatch"
			return
		}
		if s.ambiguousAt(w) {
			s.inconclusive = "aimed-tick-became-ambiguous"
			return
		}
	}
	s.tick(w)
}

func (s *seq) stepTick() {
	c := s.candidates(s.next)
	// the last candidate lies 10 s above every boundary (everything idle); take it rarely
	i := len(c) - 1
	if len(c) > 1 && s.rng.Intn(8) != 0 {
		i = s.rng.Intn(len(c) - 1)
	}
	s.tickTo(c[i])
}

// refreshInstant returns a lattice instant just past every entry's TTL bracket and before every
// entry's idle boundary, if there is one.
func (s *seq) refreshInstant() (time.Time, bool) {
	if len(s.entries) == 0 {
		return time.Time{}, false
	}
	p := s.opts.CacheRefreshPeriod
	m := p
	if m < 200*time.Microsecond {
		m = 200 * time.Microsecond
	}
	var top time.Time
	for _, e := range s.entries {
		if e.expHi.After(top) {
			top = e.expHi
		}
	}
	w := s.t0m.Add(top.Add(m).Sub(s.t0m)/p*p + p)
	if w.Before(s.next) {
		w = s.next
	}
	if s.ambiguousAt(w) {
		return time.Time{}, false
	}
	for _, e := range s.entries {
		if ev, _, _ := s.decide(e, w); ev {
			return time.Time{}, false
		}
	}
	return w, true
}

// focused drives one refresh round per script position: keep the entries in use, fire a tick just
// past their TTL, let the provider answer the refresh with the next scripted outcome.
func (s *seq) focused() {
	perm := s.rng.Perm(len(s.pool))
	m := 1 + s.rng.Intn(3)
	if m > len(perm) {
		m = len(perm)
	}
	var first []string
	for _, i := range perm[:m] {
		first = append(first, s.pool[i])
	}
	s.submitList(first)
	rounds := len(s.script) + s.rng.Intn(2)
	for i := 0; i < rounds && s.live(); i++ {
		var keys []string
		for k := range s.entries {
			keys = append(keys, k)
		}
		sort.Strings(keys)
		for _, k := range keys {
			if s.live() && s.rng.Intn(5) != 0 {
				s.peek(k, "")
			}
		}
		if !s.live() {
			return
		}
		if w, ok := s.refreshInstant(); ok {
			s.tickTo(w)
		} else {
			s.stepTick()
		}
		if s.live() && s.rng.Intn(3) == 0 {
			s.stepSubmit(1)
		}
	}
}

func (s *seq) classes() []string {
	if !(s.sawFailedRefresh || s.sawPartial || s.sawEvict) {
		return nil
	}
	return []string{fmt.Sprintf("seq:%s:b%d:f%v:failedrefresh=%v:partial=%v:evict=%v:requery=%v:flip=%v", s.script, s.batch, s.focus, s.sawFailedRefresh, s.sawPartial, s.sawEvict, s.sawRequery, s.sawFlip)}
}

type caseSpec struct {
	script  string
	batch   int
	focused bool // one refresh round per script position instead of a free history
}

func runSeq(r *mon.Run, idx int, spec caseSpec, wd time.Duration) *seq {
	rng := r.Rand(fmt.Sprintf("seq-%d", idx))
	reg := regimes[rng.Intn(len(regimes))]
	lim, limName := limiterChoice(r.Rand(fmt.Sprintf("seq-%d-limiter", idx)))
	e, ok := newEnvLim(r, reg.opts, spec.batch, spec.script, nil, lim)
	r.Event("cases_with_limiter_"+strings.SplitN(limName, " ", 2)[0], 1)
	s := &seq{env: e, limName: limName, idx: idx, script: spec.script, batch: spec.batch, focus: spec.focused, reg: reg, rng: rng, wd: wd, entries: map[string]*entry{}, exp: map[string]int{}}
	defer s.close()
	if !ok {
		s.inconclusive = "refresh-ticker-not-created"
		return s
	}
	npool := 1 + rng.Intn(5)
	for i := 0; i < npool; i++ {
		s.pool = append(s.pool, fmt.Sprintf("10.2.0.%d", i+1))
	}
	if spec.focused {
		s.focused()
	} else {
		s.stepSubmit(2 + rng.Intn(3))
		steps := 5 + rng.Intn(12)
		for i := 0; i < steps && s.live(); i++ {
			switch k := rng.Intn(100); {
			case k < 30:
				s.stepSubmit(1 + rng.Intn(4))
			case k < 50:
				s.peek(s.pool[rng.Intn(len(s.pool))], "")
			case k < 90:
				s.stepTick()
			default:
				s.logf("gap")
				time.Sleep(3 * time.Millisecond) // not synchronisation: separates real-clock readings of neighbouring steps
			}
		}
	}
	if s.live() && s.ticked {
		// observation window for queries nobody asked for (the lookup dispatcher batches for 10 ms)
		time.Sleep(15 * time.Millisecond)
		s.exact()
	}
	if s.live() {
		s.sync(true)
	}
	for _, src := range s.pool {
		if s.live() {
			s.peek(src, "at the end of the history")
		}
	}
	if s.live() {
		s.checkAnswers()
	}
	return s
}

// checkAnswers compares, per source, the multiset of answers with the multiset of provider results.
func (s *seq) checkAnswers() {
	want := map[string][]string{}
	for _, c := range s.prov.since(0) {
		for i, ip := range c.Ips {
			want[ip] = append(want[ip], instString(c.Results[i]))
		}
	}
	got := map[string][]string{}
	for _, a := range s.dr.all() {
		got[a.Src] = append(got[a.Src], instString(a.Inst))
	}
	if d := diffMultisets(want, got); d != "" {
		s.violation("answers-differ-from-provider-results", d)
	}
}

func diffMultisets(want, got map[string][]string) string {
	keys := map[string]bool{}
	for k := range want {
		keys[k] = true
	}
	for k := range got {
		keys[k] = true
	}
	var ks []string
	for k := range keys {
		ks = append(ks, k)
	}
	sort.Strings(ks)
	for _, k := range ks {
		w, g := append([]string(nil), want[k]...), append([]string(nil), got[k]...)
		sort.Strings(w)
		sort.Strings(g)
		if strings.Join(w, "|") != strings.Join(g, "|") {
			return fmt.Sprintf("source %s: provider results %v, answers on InfoSource %v", k, w, g)
		}
	}
	return ""
}

// ---------------------------------------------------------------------------------------------
// held-provider scenarios: a provider call stays blocked across refresh ticks

var heldRegime = regime{"held-hours", gostatsd.CacheOptions{CacheRefreshPeriod: 200 * time.Microsecond, CacheTTL: time.Hour, CacheNegativeTTL: 10 * time.Minute, CacheEvictAfterIdlePeriod: 2 * time.Hour}}

type held struct {
	*seq
	minExp, maxExp map[string]int  // bounds of provider occurrences per source
	pending        map[string]bool // a refresh lookup for the source is queued or in flight
	evictedInHold  int
	ticksInHold    int
}

// between returns a lattice instant in [lo, hi] (and not before the pending ticker deadline).
func (s *seq) between(lo, hi time.Time) (time.Time, bool) {
	p := s.opts.CacheRefreshPeriod
	if lo.Before(s.next) {
		lo = s.next
	}
	if hi.Before(lo) {
		return time.Time{}, false
	}
	w := s.t0m.Add(lo.Add(hi.Sub(lo)/2).Sub(s.t0m) / p * p)
	if w.Before(lo) {
		w = w.Add(p)
	}
	if w.After(hi) {
		return time.Time{}, false
	}
	return w, true
}

func (s *seq) margin() time.Duration {
	if m := s.opts.CacheRefreshPeriod; m > 200*time.Microsecond {
		return m
	}
	return 200 * time.Microsecond
}

func (s *seq) gap() {
	s.logf("gap")
	time.Sleep(4 * time.Millisecond) // not synchronisation: separates real-clock readings of neighbouring steps
}

// tickHeld fires one refresh tick (stamped with the pending deadline) while the provider call is held.
// No answer can be produced during the hold, so the cache changes only by eviction.
func (h *held) tickHeld(target time.Time) {
	s := h.seq
	d := s.next
	var keys, evicted, requeried, again []string
	for k := range s.entries {
		keys = append(keys, k)
	}
	sort.Strings(keys)
	for _, k := range keys {
		ev, rq, _ := s.decide(s.entries[k], d)
		switch {
		case ev:
			evicted = append(evicted, k)
		case rq && h.pending[k]:
			again = append(again, k)
		case rq:
			requeried = append(requeried, k)
		}
	}
	s.logf("tick-while-provider-call-held[t0+%v evicts=%v requeries=%v past-ttl-with-lookup-outstanding=%v]", d.Sub(s.t0m), evicted, requeried, again)
	for _, k := range evicted {
		delete(s.entries, k)
		s.sawEvict = true
	}
	for _, k := range requeried {
		h.minExp[k]++
		h.maxExp[k]++
		h.pending[k] = true
		s.sawRequery = true
	}
	for _, k := range again {
		h.maxExp[k]++ // the tree queues it once more; the statement does not say either way
	}
	h.evictedInHold += len(evicted)
	h.ticksInHold++
	s.r.Event("model_evictions", len(evicted))
	s.r.Event("model_evictions_while_lookup_outstanding", len(evicted))
	s.ticked = true
	s.fire(target)
	s.sync(false) // barrier: doRefresh has run
	if !s.live() {
		return
	}
	if _, holding := s.prov.held(); !holding {
		s.inconclusive = "provider-call-no-longer-held"
		return
	}
	for _, k := range evicted {
		inst, hit := s.ccp.Peek(gostatsd.Source(k))
		s.r.Event("peeks", 1)
		s.logf("peek[%s]=%s,%v", k, instString(inst), hit)
		if hit {
			s.violation("idle-entry-not-evicted-while-lookup-outstanding", fmt.Sprintf("Peek(%s) is still a hit (%s) after the refresh tick at t0+%v, at which the entry had been unused for longer than the idle period %v; a provider call has been blocked since an earlier tick and refresh lookups are queued behind it", k, instString(inst), d.Sub(s.t0m), s.opts.CacheEvictAfterIdlePeriod))
			return
		}
	}
	s.sync(true) // gauges go down with the evictions although a lookup is outstanding
}

func (h *held) tickHeldTo(w time.Time) {
	s := h.seq
	if w.After(s.next) {
		if s.ambiguousAt(s.next) {
			s.inconclusive = "pending-deadline-ambiguous-during-hold"
			return
		}
		h.tickHeld(w.Add(-s.opts.CacheRefreshPeriod))
		if !s.live() {
			return
		}
	}
	if !s.next.Equal(w) || s.ambiguousAt(w) {
		s.inconclusive = "aimed-tick-became-ambiguous"
		return
	}
	h.tickHeld(w)
}

func runHeld(r *mon.Run, idx int, batch int, wd time.Duration) *held {
	rng := r.Rand(fmt.Sprintf("held-%d", idx))
	e, ok := newEnv(r, heldRegime.opts, batch, "", nil)
	s := &seq{env: e, idx: idx, script: "held", batch: batch, reg: heldRegime, rng: rng, wd: wd, entries: map[string]*entry{}, exp: map[string]int{}}
	h := &held{seq: s, pending: map[string]bool{}}
	defer s.close()
	if !ok {
		s.inconclusive = "refresh-ticker-not-created"
		return h
	}
	na := batch + 2 + rng.Intn(2)
	var grpA, grpB []string
	for i := 0; i < na+2; i++ {
		src := fmt.Sprintf("10.4.0.%d", i+1)
		s.pool = append(s.pool, src)
		if i < na {
			grpA = append(grpA, src)
		} else {
			grpB = append(grpB, src)
		}
	}
	idle, m := s.opts.CacheEvictAfterIdlePeriod, s.margin()
	// A: resolved first, used last. B1, B2: resolved later (so they pass their TTL later), never used again.
	s.submitList(grpA)
	for _, b := range grpB {
		if s.live() {
			s.gap()
			s.submitList([]string{b})
		}
	}
	if s.live() {
		s.gap()
	}
	for _, a := range grpA {
		if s.live() {
			s.peek(a, "")
		}
	}
	if !s.live() {
		return h
	}
	// tick 1: every A entry is past its TTL, B is not, nothing is idle
	var lo, hi time.Time
	for _, a := range grpA {
		if x := s.entries[a].expHi.Add(m); x.After(lo) {
			lo = x
		}
	}
	hi = s.entries[grpB[0]].expLo.Add(-m)
	w1, ok := s.between(lo, hi)
	if !ok || s.ambiguousAt(w1) {
		s.inconclusive = "held-no-unambiguous-instant"
		return h
	}
	if w1.After(s.next) {
		if s.ambiguousAt(s.next) {
			s.inconclusive = "pending-deadline-ambiguous"
			return h
		}
		s.tick(w1.Add(-s.opts.CacheRefreshPeriod))
		if !s.live() {
			return h
		}
		if !s.next.Equal(w1) || s.ambiguousAt(w1) {
			s.inconclusive = "aimed-tick-became-ambiguous"
			return h
		}
	}
	h.minExp, h.maxExp = map[string]int{}, map[string]int{}
	for _, src := range s.pool {
		h.minExp[src], h.maxExp[src] = s.exp[src], s.exp[src]
	}
	s.prov.arm(r.Rand(fmt.Sprintf("held-%d-provider", idx)))
	for _, a := range grpA {
		if _, rq, _ := s.decide(s.entries[a], w1); !rq {
			s.inconclusive = "held-no-unambiguous-instant"
			s.prov.release()
			return h
		}
		h.minExp[a]++
		h.maxExp[a]++
		h.pending[a] = true
	}
	s.sawRequery = true
	s.logf("tick[t0+%v requeries=%v] provider armed: the next call blocks", w1.Sub(s.t0m), grpA)
	s.ticked = true
	s.fire(w1)
	defer s.prov.release()
	if !mon.WaitUntil(s.wd, func() bool { _, holding := s.prov.held(); return holding }) {
		s.stuck("never-queried:after-ttl-expiry-tick", fmt.Sprintf("%d entries were past their TTL at the refresh tick but no provider call was made", len(grpA)))
		return h
	}
	heldIps, _ := s.prov.held()
	s.logf("provider call held open with %v; %d refresh lookups queue behind it", heldIps, len(grpA)-len(heldIps))
	s.sync(true)
	// ticks 2.. : one B entry after the other passes its idle deadline while the call stays blocked
	for i, b := range grpB {
		if !s.live() {
			return h
		}
		lo = s.entries[b].laHi.Add(idle).Add(m)
		if i+1 < len(grpB) {
			hi = s.entries[grpB[i+1]].laLo.Add(idle).Add(-m)
		} else {
			hi = s.entries[grpA[0]].laLo.Add(idle).Add(-m)
		}
		w, ok := s.between(lo, hi)
		if !ok || s.ambiguousAt(w) {
			s.inconclusive = "held-no-unambiguous-instant"
			return h
		}
		if ev, _, _ := s.decide(s.entries[b], w); !ev {
			s.inconclusive = "held-no-unambiguous-instant"
			return h
		}
		h.tickHeldTo(w)
	}
	if !s.live() {
		return h
	}
	// release: every outstanding query gets exactly one answer
	before := s.prov.occAll()
	s.logf("release the held call")
	s.prov.release()
	quiet := func() bool {
		occ := s.prov.occAll()
		for _, src := range s.pool {
			if occ[src] < h.minExp[src] || s.dr.count(src) != occ[src] {
				return false
			}
		}
		return true
	}
	stable := false
	for try := 0; try < 8 && !stable; try++ {
		if !mon.WaitUntil(s.wd, quiet) {
			break
		}
		o1 := s.prov.occAll()
		time.Sleep(15 * time.Millisecond) // observation window: the dispatcher batches for 10 ms
		o2 := s.prov.occAll()
		stable = quiet()
		for k, v := range o2 {
			if o1[k] != v {
				stable = false
			}
		}
	}
	if !stable {
		occ := s.prov.occAll()
		for _, src := range s.pool {
			if occ[src] < h.minExp[src] {
				s.stuck("never-queried:after-release", fmt.Sprintf("source %s was past its TTL at a refresh tick while a provider call was blocked; after the release it appears in %d provider calls, expected at least %d", src, occ[src], h.minExp[src]))
				return h
			}
		}
		for _, src := range s.pool {
			if a := s.dr.count(src); a < occ[src] {
				s.stuck("answer-missing", fmt.Sprintf("after the held call was released: source %s was queried %d times but only %d answers arrived on InfoSource", src, occ[src], a))
				return h
			}
		}
		s.inconclusive = "held-run-not-quiescent"
		return h
	}
	// The refresh lookups queued during the hold drain at the pace of the scheduler: "stable for 15 ms" does
	// not prove that the last provider call has been made. The final judgement is therefore made on a
	// snapshot and reported only if no provider call began or returned while it was being made (every call
	// that had returned was answered, so the cache held exactly the calls the automaton was fed); otherwise
	// it is thrown away and made again.
	for attempt := 0; ; attempt++ {
		if attempt == 10 || !mon.WaitUntil(s.wd, quiet) {
			s.inconclusive = "held-run-not-quiescent"
			return h
		}
		st1, co1 := s.prov.progress()
		s.dry, s.held, s.bad = true, nil, false
		answers := map[string]int{}
		for _, src := range s.pool {
			answers[src] = s.dr.count(src) // answers before queries: a later query cannot make this look wrong
		}
		occ := s.prov.occAll()
		for _, src := range s.pool {
			switch {
			case answers[src] > occ[src]:
				s.violation("more-answers-than-queries", fmt.Sprintf("after the held call was released: source %s was queried %d times but %d answers arrived on InfoSource", src, occ[src], answers[src]))
			case occ[src] > h.maxExp[src]:
				s.violation("unexpected-provider-query", fmt.Sprintf("after the held call was released: source %s appears in %d provider calls (%d before the release); submissions plus every tick at which it was past its TTL give at most %d", src, occ[src], before[src], h.maxExp[src]))
			}
			s.exp[src] = occ[src]
		}
		if s.live() {
			s.applyCalls(wallNow())
		}
		if s.live() {
			s.sync(true)
		}
		for _, src := range s.pool {
			if s.live() {
				s.peek(src, "after the held provider call was released and every lookup answered")
			}
		}
		if s.live() {
			s.checkAnswers()
		}
		s.dry = false
		st2, co2 := s.prov.progress()
		if st1 == co1 && st2 == st1 && co2 == co1 && (quiet() || s.bad) {
			for _, v := range s.held {
				s.r.Violation(v[0], v[1], s.replay())
			}
			break
		}
		// the provider was called meanwhile: what was judged is not a state of the cache
		s.r.Event("held_final_judgement_repeated", 1)
		s.bad, s.held, s.inconclusive = false, nil, ""
	}
	return h
}

func heldCase(r *mon.Run, idx int) (abort bool) {
	batch := 1 + idx%2
	r.Case("held %d batch=%d", idx, batch)
	h := runHeld(r, idx, batch, 4*time.Second)
	r.Eval(1)
	s := h.seq
	switch {
	case s.bad:
		return false
	case s.progress != "":
		h2 := runHeld(r, idx, batch, 4*time.Second)
		if h2.progress == s.progress {
			r.Violation(s.progress, h2.progressDetail+"\n(reproduced twice with a 4 s watchdog each)", h2.replay())
			return true
		}
		r.Inconclusive("watchdog:" + s.progress)
		return false
	case s.inconclusive != "":
		r.Inconclusive(s.inconclusive)
		return false
	}
	r.Event("held_histories", 1)
	if h.evictedInHold >= 1 && h.ticksInHold >= 2 {
		r.Nontrivial(fmt.Sprintf("held:b%d:sources=%d:evicted-during-hold=%d:ticks-during-hold=%d:failedrefresh=%v", batch, len(s.pool), h.evictedInHold, h.ticksInHold, s.sawFailedRefresh))
		if r.WantSample() && idx == 0 {
			r.Sample(map[string]interface{}{"mode": "held-provider-call", "batch_limit": batch, "options": s.reg.name, "history": s.log})
		}
	}
	return false
}

// ---------------------------------------------------------------------------------------------
// concurrent mode

type peekRec struct {
	Src           string
	Before, After int64
	Hit           bool
	Inst          *gostatsd.Instance
}

func runConc(r *mon.Run, idx int, wd time.Duration) bool {
	rng := r.Rand(fmt.Sprintf("conc-%d", idx))
	batch := []int{1, 2, 5, 16}[rng.Intn(4)]
	reg := regimes[0]
	lim, limName := limiterChoice(r.Rand(fmt.Sprintf("conc-%d-limiter", idx)))
	e, ok := newEnvLim(r, reg.opts, batch, "", r.Rand(fmt.Sprintf("conc-%d-provider", idx)), lim)
	defer e.close()
	r.Eval(1)
	if !ok {
		r.Inconclusive("refresh-ticker-not-created")
		return false
	}
	npool := 2 + rng.Intn(4)
	pool := make([]string, npool)
	for i := range pool {
		pool[i] = fmt.Sprintf("10.3.0.%d", i+1)
	}
	nc := 2 + rng.Intn(3)
	per := 4 + rng.Intn(12)
	rc := replayCase{Mode: "conc", Index: idx, Batch: batch, Regime: reg.name, Steps: []string{fmt.Sprintf("sources=%d clients=%d submissions-per-client=%d request-limiter=%s", npool, nc, per, limName)}}

	subs := make([]map[string]int, nc)
	var cwg sync.WaitGroup
	blocked := make([]bool, nc)
	for g := 0; g < nc; g++ {
		g := g
		grng := r.Rand(fmt.Sprintf("conc-%d-client%d", idx, g))
		subs[g] = map[string]int{}
		cwg.Add(1)
		go func() {
			defer cwg.Done()
			for i := 0; i < per; i++ {
				src := pool[grng.Intn(len(pool))]
				if !e.submit(src, wd) {
					blocked[g] = true
					return
				}
				subs[g][src]++
				if grng.Intn(3) == 0 {
					runtime.Gosched()
				}
			}
		}()
	}
	stop := make(chan struct{})
	var bwg sync.WaitGroup
	peeks := make([][]peekRec, 2)
	for g := 0; g < 2; g++ {
		g := g
		grng := r.Rand(fmt.Sprintf("conc-%d-peeker%d", idx, g))
		bwg.Add(1)
		go func() {
			defer bwg.Done()
			for i := 0; i < 4000; i++ {
				select {
				case <-stop:
					return
				default:
				}
				src := pool[grng.Intn(len(pool))]
				b := r.Stamp()
				inst, hit := e.ccp.Peek(gostatsd.Source(src))
				a := r.Stamp()
				peeks[g] = append(peeks[g], peekRec{src, b, a, hit, inst})
				runtime.Gosched()
			}
		}()
	}
	// refresh ticks close to the start of the lattice: nothing is idle or expired there, but doRefresh
	// walks the cache while Peek and handleInstanceInfo run
	bwg.Add(1)
	go func() {
		defer bwg.Done()
		for i := 0; i < 50; i++ {
			select {
			case <-stop:
				return
			default:
			}
			e.mock.Add(reg.opts.CacheRefreshPeriod)
			r.Event("refresh_ticks", 1)
			runtime.Gosched()
		}
	}()
	bwg.Add(1)
	go func() {
		defer bwg.Done()
		for {
			select {
			case <-stop:
				return
			default:
			}
			ems, ok := emission(e.ctx, e.ccp, wd)
			if ok {
				r.Event("stats_emissions", len(ems))
				for _, em := range ems {
					if v := em[gPos] + em[gNeg]; v < 0 || v > float64(npool) || em[gPos] < 0 || em[gNeg] < 0 {
						r.Violation("gauge-out-of-range", fmt.Sprintf("cache_positive=%v cache_negative=%v with %d sources in total", em[gPos], em[gNeg], npool), rc)
					}
				}
			}
			runtime.Gosched()
		}
	}()

	cwg.Wait()
	want := map[string]int{}
	total := 0
	for g := range subs {
		if blocked[g] {
			close(stop)
			bwg.Wait()
			r.Inconclusive("ipsink-blocked")
			return false
		}
		for k, v := range subs[g] {
			want[k] += v
			total += v
		}
	}
	quiet := mon.WaitUntil(wd, func() bool { return e.dr.total() >= total })
	close(stop)
	bwg.Wait()
	if !quiet {
		r.Inconclusive("concurrent-run-not-quiescent")
		return false
	}
	// nothing was past its TTL at any tick fired, so every query is a submission
	time.Sleep(15 * time.Millisecond) // observation window for queries / answers nobody asked for
	calls := e.prov.since(0)
	answers := e.dr.all()
	occ := map[string]int{}
	wantRes := map[string][]string{}
	model := map[string]*gostatsd.Instance{}
	present := map[string]bool{}
	for _, c := range calls {
		if len(c.Ips) > batch {
			r.Violation("batch-limit-exceeded", fmt.Sprintf("concurrent run: provider call %d asked for %d sources, limit %d", c.N, len(c.Ips), batch), rc)
		}
		for i, ip := range c.Ips {
			occ[ip]++
			wantRes[ip] = append(wantRes[ip], instString(c.Results[i]))
			if !present[ip] || c.Results[i] != nil {
				model[ip] = c.Results[i] // a nil result never replaces what is cached
			}
			present[ip] = true
		}
	}
	gotRes := map[string][]string{}
	for _, a := range answers {
		gotRes[a.Src] = append(gotRes[a.Src], instString(a.Inst))
	}
	for _, src := range pool {
		if occ[src] < want[src] {
			r.Violation("never-queried:concurrent", fmt.Sprintf("concurrent run: %s was submitted %d times but appears in %d provider calls although every submission was answered", src, want[src], occ[src]), rc)
		} else if occ[src] > want[src] {
			r.Violation("unexpected-provider-query", fmt.Sprintf("concurrent run: %s was submitted %d times and no entry was past its TTL, but it appears in %d provider calls", src, want[src], occ[src]), rc)
		}
	}
	if d := diffMultisets(wantRes, gotRes); d != "" {
		r.Violation("answers-differ-from-provider-results", "concurrent run: "+d, rc)
	}
	// Peek log: sound ordering checks against answers already received and calls already started
	type succ struct {
		ver   int
		stamp int64
	}
	firstAnswer := map[string]int64{}
	succAnswers := map[string][]succ{}
	for _, a := range answers {
		if _, ok := firstAnswer[a.Src]; !ok {
			firstAnswer[a.Src] = a.Stamp
		}
		if a.Inst != nil {
			succAnswers[a.Src] = append(succAnswers[a.Src], succ{instVer(a.Inst), a.Stamp})
		}
	}
	npeeks, hits := 0, 0
	for _, ps := range peeks {
		for _, p := range ps {
			npeeks++
			if !p.Hit {
				if st, ok := firstAnswer[p.Src]; ok && st < p.Before {
					r.Violation("peek-miss-on-cached-entry", fmt.Sprintf("concurrent run: Peek(%s) missed after an answer for it had been received from InfoSource and nothing was evicted", p.Src), rc)
				}
				continue
			}
			hits++
			started := false
			for _, c := range calls {
				if c.StartStamp < p.After {
					for i, ip := range c.Ips {
						if ip == p.Src && (p.Inst == nil || sameInstance(c.Results[i], p.Inst)) {
							started = true
						}
					}
				}
			}
			if !started {
				r.Violation("peek-hit-without-entry", fmt.Sprintf("concurrent run: Peek(%s) returned %s which no provider call started before had produced", p.Src, instString(p.Inst)), rc)
			}
			for _, sa := range succAnswers[p.Src] {
				if sa.stamp < p.Before && (p.Inst == nil || instVer(p.Inst) < sa.ver) {
					sig := "peek-wrong-instance"
					if p.Inst == nil {
						sig = "good-instance-forgotten"
					}
					r.Violation(sig, fmt.Sprintf("concurrent run: Peek(%s) returned %s after the successful answer ver:%d had been received", p.Src, instString(p.Inst), sa.ver), rc)
					break
				}
			}
		}
	}
	r.Event("peeks", npeeks)
	// final state
	pos, neg := 0, 0
	failedAfterGood := false
	for _, src := range pool {
		if !present[src] {
			continue
		}
		if model[src] != nil {
			pos++
		} else {
			neg++
		}
		inst, hit := e.ccp.Peek(gostatsd.Source(src))
		if !hit {
			r.Violation("peek-miss-on-cached-entry", fmt.Sprintf("concurrent run, at the end: Peek(%s) is a miss, expected %s", src, instString(model[src])), rc)
		} else if model[src] != nil && inst == nil {
			r.Violation("good-instance-forgotten", fmt.Sprintf("concurrent run, at the end: Peek(%s) is nil, the last successful lookup gave %s", src, instString(model[src])), rc)
		} else if !sameInstance(inst, model[src]) {
			r.Violation("peek-wrong-instance", fmt.Sprintf("concurrent run, at the end: Peek(%s)=%s, the last successful lookup gave %s", src, instString(inst), instString(model[src])), rc)
		}
		good := false
		for _, res := range wantRes[src] {
			if res != "nil" {
				good = true
			} else if good {
				failedAfterGood = true
			}
		}
	}
	if ems, ok := emission(e.ctx, e.ccp, wd); ok {
		for _, em := range ems {
			if em[gPos] != float64(pos) || em[gNeg] != float64(neg) {
				which := gPos
				if em[gPos] == float64(pos) {
					which = gNeg
				}
				r.Violation("gauge-mismatch:"+which, fmt.Sprintf("concurrent run, at the end: cache_positive=%v cache_negative=%v, the cache holds %d positive and %d negative entries", em[gPos], em[gNeg], pos, neg), rc)
			}
		}
	} else {
		r.Inconclusive("stats-emission-not-observed")
	}
	// everything is idle three hours later: two Sets, the first delivers the stale pending deadline
	e.mock.Set(e.t0m.Add(3 * time.Hour))
	if _, ok := emission(e.ctx, e.ccp, wd); ok {
		e.mock.Add(reg.opts.CacheRefreshPeriod)
		if ems, ok := emission(e.ctx, e.ccp, wd); ok {
			for _, em := range ems {
				if em[gPos] != 0 || em[gNeg] != 0 {
					which := gPos
					if em[gPos] == 0 {
						which = gNeg
					}
					r.Violation("gauge-mismatch:"+which, fmt.Sprintf("concurrent run: after a refresh tick three hours later (idle period 2h) cache_positive=%v cache_negative=%v, expected 0/0", em[gPos], em[gNeg]), rc)
				}
			}
			for _, src := range pool {
				if inst, hit := e.ccp.Peek(gostatsd.Source(src)); hit {
					r.Violation("idle-entry-survived-refresh", fmt.Sprintf("concurrent run: Peek(%s)=%s is still a hit after a refresh tick three hours (idle period 2h) after its last use", src, instString(inst)), rc)
				}
			}
		}
	}
	if failedAfterGood || hits > 0 {
		r.Nontrivial(fmt.Sprintf("conc:b%d:clients=%d:sources=%d:failedAfterGood=%v", batch, nc, npool, failedAfterGood))
	}
	r.Event("concurrent_runs", 1)
	return true
}

// ---------------------------------------------------------------------------------------------
// churn runs: idle deadlines pass while Peek readers hammer the same entries (model-free oracle)

func runChurn(r *mon.Run, idx int, wd time.Duration) bool {
	rng := r.Rand(fmt.Sprintf("churn-%d", idx))
	batch := []int{2, 5, 16}[rng.Intn(3)]
	opts := gostatsd.CacheOptions{CacheRefreshPeriod: 100 * time.Microsecond, CacheTTL: time.Hour, CacheNegativeTTL: time.Hour, CacheEvictAfterIdlePeriod: time.Duration(2+rng.Intn(4)) * time.Millisecond}
	e, ok := newEnv(r, opts, batch, "", r.Rand(fmt.Sprintf("churn-%d-provider", idx)))
	defer e.close()
	r.Eval(1)
	if !ok {
		r.Inconclusive("refresh-ticker-not-created")
		return false
	}
	universe := 40 + rng.Intn(100)
	pool := make([]string, universe)
	for i := range pool {
		pool[i] = fmt.Sprintf("10.5.0.%d", i+1)
	}
	npeek := 3 + rng.Intn(3)
	nticks := 150 + rng.Intn(250)
	rc := replayCase{Mode: "churn", Index: idx, Batch: batch, Regime: fmt.Sprintf("idle=%v", opts.CacheEvictAfterIdlePeriod), Steps: []string{fmt.Sprintf("sources=%d peekers=%d ticks=%d", universe, npeek, nticks)}}
	submitted := 0
	for _, src := range pool {
		if !e.submit(src, wd) {
			r.Inconclusive("ipsink-blocked")
			return false
		}
		submitted++
	}
	stop := make(chan struct{})
	var bg sync.WaitGroup
	for g := 0; g < npeek; g++ {
		grng := r.Rand(fmt.Sprintf("churn-%d-peeker%d", idx, g))
		bg.Add(1)
		go func() {
			defer bg.Done()
			n := 0
			for {
				select {
				case <-stop:
					r.Event("peeks", n)
					return
				default:
				}
				// a burst over neighbouring entries, then a pause comparable to the idle period
				// (pacing of the workload: entries must get idle between two reads)
				base := grng.Intn(len(pool))
				for k := 0; k < 1+grng.Intn(12); k++ {
					e.ccp.Peek(gostatsd.Source(pool[(base+k)%len(pool)]))
					n++
				}
				time.Sleep(time.Duration(grng.Intn(400)) * time.Microsecond)
			}
		}()
	}
	// clients keep re-submitting, so that evicted sources come back
	resub := make([]int, 2)
	blocked := make([]bool, 2)
	var cwg sync.WaitGroup
	for g := 0; g < 2; g++ {
		g := g
		grng := r.Rand(fmt.Sprintf("churn-%d-client%d", idx, g))
		cwg.Add(1)
		go func() {
			defer cwg.Done()
			for i := 0; i < nticks/2; i++ {
				if !e.submit(pool[grng.Intn(len(pool))], wd) {
					blocked[g] = true
					return
				}
				resub[g]++
				time.Sleep(time.Duration(grng.Intn(300)) * time.Microsecond)
			}
		}()
	}
	// refresh ticks stamped (about) with the real time: whether an entry is idle at a tick depends on
	// when it was last read - schedule dependent, and not asserted
	for i := 0; i < nticks; i++ {
		e.mock.Set(wallNow())
		r.Event("refresh_ticks", 1)
		time.Sleep(time.Duration(50+rng.Intn(200)) * time.Microsecond)
	}
	cwg.Wait()
	close(stop)
	bg.Wait()
	for g := range resub {
		if blocked[g] {
			r.Inconclusive("ipsink-blocked")
			return false
		}
		submitted += resub[g]
	}
	if !mon.WaitUntil(wd, func() bool { return e.dr.total() >= submitted }) {
		r.Inconclusive("churn-run-not-quiescent")
		return false
	}
	ems, ok := emission(e.ctx, e.ccp, wd) // also the barrier for the last tick
	if !ok {
		r.Inconclusive("stats-emission-not-observed")
		return false
	}
	// nothing can change any more: no tick pending, no lookup outstanding. Probe every source once.
	pos, neg := 0, 0
	for _, src := range pool {
		if inst, hit := e.ccp.Peek(gostatsd.Source(src)); hit {
			if inst != nil {
				pos++
			} else {
				neg++
			}
		}
	}
	em := ems[len(ems)-1]
	if em[gPos] != float64(pos) || em[gNeg] != float64(neg) {
		which := gPos
		if em[gPos] == float64(pos) {
			which = gNeg
		}
		r.Violation("gauge-differs-from-cache-content:"+which, fmt.Sprintf("after %d refresh ticks raced by %d Peek readers over %d sources (idle period %v) and with nothing outstanding: cache_positive=%v cache_negative=%v, but probing every source finds %d entries with and %d without an instance", nticks, npeek, universe, opts.CacheEvictAfterIdlePeriod, em[gPos], em[gNeg], pos, neg), rc)
	}
	r.Event("churn_runs", 1)
	r.Event("churn_entries_evicted_at_end", universe-pos-neg)
	r.Event("churn_resubmissions", submitted-universe)
	if e.prov.callCount() > (universe+batch-1)/batch && universe-pos-neg > 0 {
		// sources were evicted and came back (more provider traffic than the initial fill) and some are gone at the end
		r.Nontrivial(fmt.Sprintf("churn:b%d:idle=%v:peekers=%d:size=%d", batch, opts.CacheEvictAfterIdlePeriod, npeek, universe/20))
	}
	return true
}

// ---------------------------------------------------------------------------------------------
// burst runs: a finite request limiter, provider batch limits above and below its burst, bursts of new
// sources larger than both

type burstResult struct {
	progress, detail string
	inconclusive     string
	rc               replayCase
}

func runBurst(r *mon.Run, idx int, wd time.Duration) burstResult {
	rng := r.Rand(fmt.Sprintf("burst-%d", idx))
	burst := []int{1, 2, 3, 5, 15}[rng.Intn(5)]
	batch := []int{1, 2, 5, 16, 32}[rng.Intn(5)]
	rounds := 2 + rng.Intn(3)
	sizes := make([]int, rounds)
	total := 0
	for i := range sizes {
		sizes[i] = []int{1, burst, burst + 1, 2*burst + 3, batch + 1, 40}[rng.Intn(6)]
		total += sizes[i]
	}
	// every provider call is one request: pick the rate so that all calls fit into a fraction of a second
	calls := total
	if batch > 1 {
		calls = total/batch + rounds + 1
	}
	rt := 200
	if calls*5 > rt {
		rt = calls * 5
	}
	limName := fmt.Sprintf("%d/s burst %d", rt, burst)
	res := burstResult{rc: replayCase{Mode: "burst", Index: idx, Batch: batch, Regime: limName, Steps: []string{fmt.Sprintf("bursts of new sources %v", sizes)}}}
	e, ok := newEnvLim(r, regimes[0].opts, batch, "", r.Rand(fmt.Sprintf("burst-%d-provider", idx)), rate.NewLimiter(rate.Limit(rt), burst))
	defer e.close()
	if !ok {
		res.inconclusive = "refresh-ticker-not-created"
		return res
	}
	desc := fmt.Sprintf("request limiter %s, provider batch limit %d, bursts of new sources %v", limName, batch, sizes)
	want := map[string]int{}
	var pool []string
	next := 0
	for round, n := range sizes {
		var srcs []string
		for i := 0; i < n; i++ {
			next++
			srcs = append(srcs, fmt.Sprintf("10.8.%d.%d", next/200, next%200+1))
		}
		if round > 0 && rng.Intn(2) == 0 {
			srcs = append(srcs, pool[rng.Intn(len(pool))]) // and one that is already cached
		}
		for _, src := range srcs {
			if !e.submit(src, wd) {
				// nobody takes the submission: the lookup dispatcher is gone or stuck
				res.progress = "never-queried:submission-not-accepted"
				res.detail = fmt.Sprintf("IpSink does not accept %s (round %d): nothing reads submissions any more\n%s", src, round+1, desc)
				return res
			}
			want[src]++
		}
		pool = append(pool, srcs[:n]...)
		okq := mon.WaitUntil(wd, func() bool {
			for src, w := range want {
				if e.prov.occurrences(src) < w || e.dr.count(src) < w {
					return false
				}
			}
			return true
		})
		if !okq {
			for src, w := range want {
				if o := e.prov.occurrences(src); o < w {
					res.progress = "never-queried:after-burst-submission"
					res.detail = fmt.Sprintf("%s was submitted %d times (round %d of bursts) but appears in %d provider calls\n%s", src, w, round+1, o, desc)
					return res
				}
			}
			for src, w := range want {
				if a := e.dr.count(src); a < w {
					res.progress = "answer-missing"
					res.detail = fmt.Sprintf("%s was queried %d times but %d answers arrived on InfoSource (round %d of bursts)\n%s", src, w, a, round+1, desc)
					return res
				}
			}
		}
	}
	time.Sleep(15 * time.Millisecond) // observation window for queries / answers nobody asked for
	wantRes, gotRes := map[string][]string{}, map[string][]string{}
	model := map[string]*gostatsd.Instance{}
	present := map[string]bool{}
	over := 0
	for _, c := range e.prov.since(0) {
		if len(c.Ips) > batch {
			r.Violation("batch-limit-exceeded", fmt.Sprintf("burst run: provider call %d asked for %d sources, limit %d\n%s", c.N, len(c.Ips), batch, desc), res.rc)
		}
		if len(c.Ips) > burst {
			over++
		}
		for i, ip := range c.Ips {
			wantRes[ip] = append(wantRes[ip], instString(c.Results[i]))
			if !present[ip] || c.Results[i] != nil {
				model[ip] = c.Results[i]
			}
			present[ip] = true
		}
	}
	for _, a := range e.dr.all() {
		gotRes[a.Src] = append(gotRes[a.Src], instString(a.Inst))
	}
	for src, w := range want {
		if o := e.prov.occurrences(src); o != w {
			r.Violation("unexpected-provider-query", fmt.Sprintf("burst run: %s was submitted %d times and nothing was past its TTL, but it appears in %d provider calls\n%s", src, w, o, desc), res.rc)
		}
	}
	if d := diffMultisets(wantRes, gotRes); d != "" {
		r.Violation("answers-differ-from-provider-results", "burst run: "+d+"\n"+desc, res.rc)
	}
	pos, neg := 0, 0
	for src := range want {
		inst, hit := e.ccp.Peek(gostatsd.Source(src))
		if model[src] != nil {
			pos++
		} else {
			neg++
		}
		switch {
		case !hit:
			r.Violation("peek-miss-on-cached-entry", fmt.Sprintf("burst run: Peek(%s) is a miss after its answer was received\n%s", src, desc), res.rc)
		case model[src] != nil && inst == nil:
			r.Violation("good-instance-forgotten", fmt.Sprintf("burst run: Peek(%s) is nil, the last successful lookup gave %s\n%s", src, instString(model[src]), desc), res.rc)
		case !sameInstance(inst, model[src]):
			r.Violation("peek-wrong-instance", fmt.Sprintf("burst run: Peek(%s)=%s, expected %s\n%s", src, instString(inst), instString(model[src]), desc), res.rc)
		}
	}
	if ems, ok := emission(e.ctx, e.ccp, wd); ok {
		em := ems[len(ems)-1]
		if em[gPos] != float64(pos) || em[gNeg] != float64(neg) {
			which := gPos
			if em[gPos] == float64(pos) {
				which = gNeg
			}
			r.Violation("gauge-mismatch:"+which, fmt.Sprintf("burst run: cache_positive=%v cache_negative=%v, the cache holds %d positive and %d negative entries\n%s", em[gPos], em[gNeg], pos, neg, desc), res.rc)
		}
	}
	r.Event("burst_runs", 1)
	r.Event("burst_provider_calls_larger_than_limiter_burst", over)
	if over > 0 {
		r.Nontrivial(fmt.Sprintf("burst:limiter-burst=%d:batch=%d:rounds=%d:max-burst-of-sources=%d", burst, batch, rounds, maxInt(sizes)))
	}
	return res
}

func maxInt(l []int) int {
	m := 0
	for _, x := range l {
		if x > m {
			m = x
		}
	}
	return m
}

func burstCase(r *mon.Run, idx int) (abort bool) {
	r.Case("burst %d", idx)
	res := runBurst(r, idx, 4*time.Second)
	r.Eval(1)
	switch {
	case res.inconclusive != "":
		r.Inconclusive(res.inconclusive)
	case res.progress != "":
		res2 := runBurst(r, idx, 4*time.Second)
		if res2.progress == res.progress {
			r.Violation(res.progress, res2.detail+"\n(reproduced twice with a 4 s watchdog each)", res2.rc)
			return true
		}
		r.Inconclusive("watchdog:" + res.progress)
	}
	return false
}

// ---------------------------------------------------------------------------------------------
// long-hold history: a provider call, and an InfoSource consumer, that take several seconds

type longHoldResult struct {
	progress, detail string
	rc               replayCase
	inconclusive     string
}

// runLongHold runs two lanes side by side for `hold` of real time (workload shaping, like an upstream
// latency): lane 1 holds a provider call with a batch of >= 4 sources open, lane 2 answers at once
// but its consumer does not read InfoSource. After the release every source of either batch must get
// exactly one answer.
func runLongHold(r *mon.Run, idx int, hold, wd time.Duration) longHoldResult {
	rng := r.Rand(fmt.Sprintf("longhold-%d", idx))
	res := longHoldResult{rc: replayCase{Mode: "longhold", Index: idx}}
	n := 4 + rng.Intn(3)
	batch := []int{5, 16}[rng.Intn(2)]
	if n > batch {
		n = batch
	}
	script := string(outcomes[rng.Intn(len(outcomes))])
	res.rc.Batch, res.rc.Script = batch, script
	res.rc.Steps = []string{fmt.Sprintf("hold=%v sources=%d", hold, n)}
	e1, ok1 := newEnv(r, heldRegime.opts, batch, script, nil)
	defer e1.close()
	e2, ok2 := newEnv(r, heldRegime.opts, batch, script, nil)
	defer e2.close()
	if !ok1 || !ok2 {
		res.inconclusive = "refresh-ticker-not-created"
		return res
	}
	var srcs []string
	for i := 0; i < n; i++ {
		srcs = append(srcs, fmt.Sprintf("10.6.0.%d", i+1))
	}
	e1.prov.arm(nil)
	defer e1.prov.release()
	gate := make(chan struct{})
	e2.dr.setPause(gate)
	released := false
	defer func() {
		if !released {
			close(gate)
		}
	}()
	for _, src := range srcs {
		if !e1.submit(src, wd) || !e2.submit(src, wd) {
			res.inconclusive = "ipsink-blocked"
			return res
		}
	}
	if !mon.WaitUntil(wd, func() bool { _, h := e1.prov.held(); return h }) {
		res.inconclusive = "long-hold-provider-call-not-reached"
		return res
	}
	if !mon.WaitUntil(wd, func() bool { return e2.prov.callCount() >= 1 }) {
		res.inconclusive = "long-hold-provider-call-not-reached"
		return res
	}
	heldIps, _ := e1.prov.held()
	time.Sleep(hold) // the latency itself
	e1.prov.release()
	close(gate)
	released = true
	check := func(e *env, lane, tok string, want map[string]int) bool {
		okq := mon.WaitUntil(wd, func() bool {
			for s, w := range want {
				if e.dr.count(s) < w {
					return false
				}
			}
			return true
		})
		if !okq {
			for _, s := range srcs {
				if a := e.dr.count(s); a < want[s] {
					res.progress = "answer-missing:" + tok
					res.detail = fmt.Sprintf("%s for %v (batch limit %d, outcome %s, sources %v): source %s was queried %d times but %d answers arrived on InfoSource within %v after the release", lane, hold, batch, script, srcs, s, want[s], a, wd)
					return false
				}
			}
		}
		time.Sleep(15 * time.Millisecond) // observation window for a second answer
		for _, s := range srcs {
			if a, o := e.dr.count(s), e.prov.occurrences(s); a != o {
				r.Violation("more-answers-than-queries", fmt.Sprintf("%s for %v: source %s was queried %d times, %d answers arrived", lane, hold, s, o, a), res.rc)
				return false
			}
		}
		wantRes, gotRes := map[string][]string{}, map[string][]string{}
		for _, c := range e.prov.since(0) {
			for i, ip := range c.Ips {
				wantRes[ip] = append(wantRes[ip], instString(c.Results[i]))
			}
		}
		for _, a := range e.dr.all() {
			gotRes[a.Src] = append(gotRes[a.Src], instString(a.Inst))
		}
		if d := diffMultisets(wantRes, gotRes); d != "" {
			r.Violation("answers-differ-from-provider-results", lane+": "+d, res.rc)
			return false
		}
		return true
	}
	want := map[string]int{}
	for _, s := range srcs {
		want[s] = 1
	}
	r.Event("long_hold_lanes", 2)
	if len(heldIps) >= 4 {
		r.Nontrivial(fmt.Sprintf("longhold:b%d:n=%d:%s", batch, len(heldIps), script))
	}
	if !check(e1, "a provider call held open", "after-long-provider-call", want) {
		return res
	}
	check(e2, "an InfoSource consumer that did not read", "after-slow-infosource-consumer", want)
	return res
}

func longHoldCase(r *mon.Run, idx int) {
	hold := 6*time.Second + time.Duration(r.Rand(fmt.Sprintf("longhold-%d-d", idx)).Intn(1000))*time.Millisecond
	r.Case("longhold %d hold=%v", idx, hold)
	res := runLongHold(r, idx, hold, 4*time.Second)
	r.Eval(1)
	switch {
	case res.inconclusive != "":
		r.Inconclusive(res.inconclusive)
	case res.progress != "":
		res2 := runLongHold(r, idx, hold, 4*time.Second)
		if res2.progress == res.progress {
			r.Violation(res.progress, res2.detail+"\n(reproduced twice)", res2.rc)
		} else {
			r.Inconclusive("watchdog:" + res.progress)
		}
	}
}

// ---------------------------------------------------------------------------------------------

// caseList enumerates all provider outcome scripts up to maxLen, crossed with the batch limits, and
// adds `extra` PRNG-drawn scripts of length 3-4 (the same list in every shard).
func caseList(r *mon.Run, maxLen, extra int) []caseSpec {
	var scripts []string
	var rec func(prefix string)
	rec = func(prefix string) {
		if len(prefix) > 0 {
			scripts = append(scripts, prefix)
		}
		if len(prefix) == maxLen {
			return
		}
		for i := 0; i < len(outcomes); i++ {
			rec(prefix + string(outcomes[i]))
		}
	}
	rec("")
	var out []caseSpec
	for _, sc := range scripts {
		for _, b := range []int{1, 2, 5, 16} {
			out = append(out, caseSpec{sc, b, true}, caseSpec{sc, b, false})
		}
	}
	g := r.RandGlobal("extra-scripts")
	for i := 0; i < extra; i++ {
		n := 3 + g.Intn(2)
		sc := ""
		for j := 0; j < n; j++ {
			sc += string(outcomes[g.Intn(len(outcomes))])
		}
		out = append(out, caseSpec{sc, []int{1, 2, 5, 16}[g.Intn(4)], g.Intn(2) == 0})
	}
	return out
}

func seqCase(r *mon.Run, idx int, spec caseSpec) (abort bool) {
	r.Case("seq %d script=%s batch=%d focused=%v", idx, spec.script, spec.batch, spec.focused)
	s := runSeq(r, idx, spec, 4*time.Second)
	r.Eval(1)
	switch {
	case s.bad:
		return false
	case s.progress != "":
		s2 := runSeq(r, idx, spec, 4*time.Second)
		if s2.progress == s.progress {
			r.Violation(s.progress, s2.progressDetail+"\n(reproduced twice with a 4 s watchdog each)", s2.replay())
			return true
		}
		r.Inconclusive("watchdog:" + s.progress)
		return false
	case s.inconclusive != "":
		r.Inconclusive(s.inconclusive)
	}
	for flag, on := range map[string]bool{"histories_with_failed_refresh_of_resolved_source": s.sawFailedRefresh, "histories_with_partial_result": s.sawPartial,
		"histories_with_eviction": s.sawEvict, "histories_with_ttl_requery": s.sawRequery, "histories_with_negative_to_positive_flip": s.sawFlip} {
		if on {
			r.Event(flag, 1)
		}
	}
	for _, c := range s.classes() {
		r.Nontrivial(c)
		if r.WantSample() && (s.sawFailedRefresh || s.sawEvict) {
			r.Sample(map[string]interface{}{"mode": "sequential", "provider_script": s.script, "batch_limit": s.batch, "focused_on_refresh_rounds": s.focus, "options": s.reg.name, "history": s.log})
		}
	}
	return false
}

func TestCheck(t *testing.T) {
	r := mon.Start(t, "C12")
	defer r.Finish()
	r.Rule("sequential cases: every provider outcome script over {F full, P partial, E empty, X error, Y error+partial} up to length 2 (quick) / 4 (thorough) crossed with MaxInstancesBatch 1,2,5,16 (plus PRNG scripts of length 3-4 in quick), each wrapped in a PRNG history of 6-17 steps over {submit 1-4 sources incl. duplicates, Peek, refresh tick at an instant chosen in a region between the bracketed idle/TTL boundaries, 3 ms real gap}, cache options drawn from four sets (hours / tens of ms); held cases: batch limit 1 or 2, batch+2..3 resolved sources brought past their TTL in one tick while the provider call that follows is held open by the harness, so refresh lookups queue behind it; during the hold two more resolved sources pass their idle deadline one after the other at further ticks (4 ticks in all incl. the mock's stale deadlines) and must be evicted (Peek miss, gauges) although a lookup is outstanding; after the release every query is answered once (a second enqueue of a source already queued is allowed, not required); churn runs: 40-140 resolved sources, idle period 2-5 ms, 150-400 refresh ticks stamped with the real time while 3-5 Peek readers and 2 re-submitting clients work on the same entries; at quiescence the cache-size gauges must equal what a probe of every source finds (which entries survive is not asserted); one long-hold history per run (a provider call with >= 4 sources held open, and an InfoSource consumer that does not read, for 6-7 s of real time): every source still gets exactly one answer; burst runs: request limiter with burst 1/2/3/5/15 and a rate that lets all calls through in a fraction of a second, provider batch limit 1/2/5/16/32, 2-4 rounds of 1 / burst / burst+1 / 2*burst+3 / batch+1 / 40 new sources, every source must be queried and answered exactly once (distinct by limiter burst, batch limit, rounds, largest burst; counted when a provider call was larger than the limiter's burst); sequential and concurrent cases draw their limiter (unlimited or 500-10000/s with burst 1-3) from their own PRNG stream; configuration cases: random flag / env / toml / yaml settings of the four cloud-cache-* keys through cmd/gostatsd's setupConfiguration + newCachedInstancesFromViper (overlay runner), refresh ticks at instants derived from the configured text (distinct by the four values and how they were set; counted when the plan contains an eviction or a re-query); concurrent cases: 2-4 submitting clients, 2 Peek readers, no-op refresh ticks, emitter, random provider outcomes. Non-trivial: the history contained a failed/empty refresh of a resolved source, a partial result with an absent source, or an eviction; distinct by (script, batch limit, which of these occurred); concurrent runs by (batch, clients, sources, failed-after-good).")
	r.Assume("real-clock readings of the provider (expires, lastAccess) lie inside the wall-clock brackets recorded by the harness around the provider call / Peek; the wall clock does not jump during a case")
	r.Assume("a stats emission is accepted by the Run goroutine only while it is parked in select (non-blocking hand-over), which is used as the barrier for a processed refresh tick")

	if p := r.ReplayPayload(); p != nil {
		rc, ok := mon.ReplayCase(p, &replayCase{}).(*replayCase)
		if !ok || rc == nil {
			t.Skip("no case in replay file")
		}
		if rc.Mode == "conc" {
			r.Case("conc %d", rc.Index)
			runConc(r, rc.Index, 10*time.Second)
		} else if rc.Mode == "churn" {
			r.Case("churn %d", rc.Index)
			runChurn(r, rc.Index, 10*time.Second)
		} else if rc.Mode == "longhold" {
			longHoldCase(r, rc.Index)
		} else if rc.Mode == "burst" {
			burstCase(r, rc.Index)
		} else if rc.Script == "held" {
			heldCase(r, rc.Index)
		} else {
			seqCase(r, rc.Index, caseSpec{rc.Script, rc.Batch, rc.Focus})
		}
		r.Nontrivial("replay-a")
		r.Nontrivial("replay-b")
		return
	}

	// one long-hold history per quick run (shard 0 only; shards 0-3 in the thorough tier); it spends
	// 6-7 s of real time waiting, so it runs beside the other cases of its shard
	var lh sync.WaitGroup
	defer lh.Wait()
	if sh, _ := r.Shard(); sh < r.Pick(1, 4) {
		lh.Add(1)
		go func() {
			defer lh.Done()
			longHoldCase(r, sh)
		}()
	}
	for i, n := 0, r.N(24, 480); i < n; i++ {
		if heldCase(r, i) {
			r.Extra("aborted_after_progress_violation", 1)
			return
		}
	}
	list := caseList(r, r.Pick(2, 4), r.Pick(72, 0))
	r.Extra("enumerated_script_length", r.Pick(2, 4))
	for i, spec := range list {
		if !r.Mine(i) {
			continue
		}
		if seqCase(r, i, spec) {
			r.Extra("aborted_after_progress_violation", 1)
			return
		}
	}
	for i, n := 0, r.N(48, 640); i < n; i++ {
		if burstCase(r, i) {
			r.Extra("aborted_after_progress_violation", 1)
			return
		}
	}
	configPhase(r, r.N(48, 640))
	for i, n := 0, r.N(24, 320); i < n; i++ {
		r.Case("churn %d", i)
		runChurn(r, i, 10*time.Second)
	}
	nConc := r.N(32, 320)
	stuck := 0
	for i := 0; i < nConc && stuck < 2; i++ {
		r.Case("conc %d", i)
		if runConc(r, i, 10*time.Second) {
			stuck = 0
		} else {
			stuck++
		}
	}
}
