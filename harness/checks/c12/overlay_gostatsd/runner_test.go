//go:build verif

package main

// Scenario runner of the C12 monitor, laid over cmd/gostatsd by verif/ovl (go test -overlay). For every
// scenario (command line, environment, configuration file setting the documented cloud-cache-* keys) it runs
// the real setupConfiguration(), builds the instance cache with the real
// newCachedInstancesFromViper(logger, scriptedProvider, v), runs it on a mock clock, submits three sources
// (always found / never found / found once, then failing), fires the refresh ticks the scenario lists and
// writes down what it saw after each of them. No oracle here.

import (
	"context"
	"encoding/json"
	"fmt"
	"io"
	"os"
	"path/filepath"
	"strings"
	"sync"
	"testing"
	"time"

	"github.com/sirupsen/logrus"
	"github.com/tilinna/clock"

	"github.com/atlassian/gostatsd"
	"github.com/atlassian/gostatsd/pkg/stats"
)

type c12Tick struct {
	OffsetNs int64          `json:"offset_ns"` // target of the clock move, relative to the start of the mock clock
	Expect   map[string]int `json:"expect"`    // provider occurrences per source the check expects by then (only to know how long to wait)
}

type c12Scenario struct {
	Args    []string  `json:"args"`
	Env     []string  `json:"env"`
	File    string    `json:"file"`
	FileExt string    `json:"file_ext"`
	Sources []string  `json:"sources"`
	Ticks   []c12Tick `json:"ticks"`
	WaitMs  int       `json:"wait_ms"`
	ShiftNs int64     `json:"start_shift_ns"`
}

type c12Peek struct {
	Hit  bool   `json:"hit"`
	Inst string `json:"inst"` // "" = nil
}

type c12Obs struct {
	Occ      map[string]int     `json:"occ"`
	Answers  map[string]int     `json:"answers"`
	Peeks    map[string]c12Peek `json:"peeks"`
	Pos      float64            `json:"cache_positive"`
	Neg      float64            `json:"cache_negative"`
	Emitted  bool               `json:"emitted"`
	TimedOut bool               `json:"timed_out"`
}

type c12Result struct {
	Err        string   `json:"err,omitempty"`
	Refresh    string   `json:"cloud_cache_refresh_period"`
	Idle       string   `json:"cloud_cache_evict_after_idle_period"`
	TTL        string   `json:"cloud_cache_ttl"`
	NegTTL     string   `json:"cloud_cache_negative_ttl"`
	Initial    c12Obs   `json:"initial"`
	Ticks      []c12Obs `json:"ticks"`
	DurationMs int64    `json:"duration_ms"`
}

// ---- scripted provider: the last digit of the source decides

type c12Provider struct {
	mu    sync.Mutex
	calls int
	occ   map[string]int
}

func (p *c12Provider) Name() string           { return "c12-scripted" }
func (p *c12Provider) MaxInstancesBatch() int { return 16 }
func (p *c12Provider) EstimatedTags() int     { return 1 }
func (p *c12Provider) Instance(ctx context.Context, ips ...gostatsd.Source) (map[gostatsd.Source]*gostatsd.Instance, error) {
	p.mu.Lock()
	defer p.mu.Unlock()
	p.calls++
	out := map[gostatsd.Source]*gostatsd.Instance{}
	for _, ip := range ips {
		s := string(ip)
		p.occ[s]++
		found := false
		switch s[len(s)-1] {
		case '2':
			found = true
		case '4':
			found = p.occ[s] == 1 // resolves once, every refresh fails
		}
		if found {
			out[ip] = &gostatsd.Instance{ID: gostatsd.Source(fmt.Sprintf("i-%s-q%d", s, p.occ[s])), Tags: gostatsd.Tags{"src:" + s}}
		}
	}
	return out, nil
}
func (p *c12Provider) snapshot() map[string]int {
	p.mu.Lock()
	defer p.mu.Unlock()
	o := map[string]int{}
	for k, v := range p.occ {
		o[k] = v
	}
	return o
}

// ---- spy statser for the emission barrier

type c12Spy struct {
	mu     sync.Mutex
	flush  chan time.Duration
	closed bool
	vals   map[string]float64
	full   int
}

func (s *c12Spy) NotifyFlush(ctx context.Context, d time.Duration) {
	s.mu.Lock()
	defer s.mu.Unlock()
	if s.flush == nil || s.closed {
		return
	}
	select {
	case s.flush <- d:
	default:
	}
}
func (s *c12Spy) RegisterFlush() (<-chan time.Duration, func()) {
	s.mu.Lock()
	defer s.mu.Unlock()
	s.flush = make(chan time.Duration)
	return s.flush, func() { s.mu.Lock(); s.closed = true; s.mu.Unlock() }
}
func (s *c12Spy) Gauge(name string, value float64, tags gostatsd.Tags) {
	s.mu.Lock()
	if s.full == 0 {
		s.vals[name] = value
	}
	if name == "cloudprovider.cache_refresh_negative" {
		s.full++
	}
	s.mu.Unlock()
}
func (s *c12Spy) Count(string, float64, gostatsd.Tags)                {}
func (s *c12Spy) Increment(string, gostatsd.Tags)                     {}
func (s *c12Spy) Report(string, *uint64, gostatsd.Tags)               {}
func (s *c12Spy) TimingMS(string, float64, gostatsd.Tags)             {}
func (s *c12Spy) TimingDuration(string, time.Duration, gostatsd.Tags) {}
func (s *c12Spy) NewTimer(string, gostatsd.Tags) *stats.Timer         { return &stats.Timer{} }
func (s *c12Spy) WithTags(gostatsd.Tags) stats.Statser                { return s }
func (s *c12Spy) Event(context.Context, *gostatsd.Event)              {}
func (s *c12Spy) WaitForEvents()                                      {}
func (s *c12Spy) done() bool {
	s.mu.Lock()
	defer s.mu.Unlock()
	return s.full >= 1
}

type c12Emitter interface {
	RunMetrics(ctx context.Context, statser stats.Statser)
}

// c12Emission: a stats emission is accepted by the cache's Run goroutine only while it is parked in its
// select, i.e. after a refresh tick already placed in the ticker channel was handled.
func c12Emission(parent context.Context, em c12Emitter, wait time.Duration) (pos, neg float64, ok bool) {
	spy := &c12Spy{vals: map[string]float64{}}
	ctx, cancel := context.WithCancel(parent)
	fin := make(chan struct{})
	go func() { defer close(fin); em.RunMetrics(ctx, spy) }()
	deadline := time.Now().Add(wait)
	for !spy.done() && time.Now().Before(deadline) {
		spy.NotifyFlush(ctx, 0)
		time.Sleep(100 * time.Microsecond)
	}
	ok = spy.done()
	cancel()
	<-fin
	spy.mu.Lock()
	pos, neg = spy.vals["cloudprovider.cache_positive"], spy.vals["cloudprovider.cache_negative"]
	spy.mu.Unlock()
	return
}

func c12ClearEnv() {
	for _, e := range os.Environ() {
		if strings.HasPrefix(e, "GSD_") {
			os.Unsetenv(e[:strings.IndexByte(e, '=')])
		}
	}
}

func c12One(dir string, i int, sc c12Scenario) (res c12Result) {
	defer func() {
		if p := recover(); p != nil {
			res.Err = fmt.Sprintf("panic: %v", p)
		}
	}()
	begin := time.Now()
	c12ClearEnv()
	defer c12ClearEnv()
	for _, e := range sc.Env {
		if j := strings.IndexByte(e, '='); j > 0 {
			os.Setenv(e[:j], e[j+1:])
		}
	}
	args := append([]string{"gostatsd"}, sc.Args...)
	if sc.File != "" {
		path := filepath.Join(dir, fmt.Sprintf("c12-%d.%s", i, sc.FileExt))
		if err := os.WriteFile(path, []byte(sc.File), 0o644); err != nil {
			return c12Result{Err: "runner: " + err.Error()}
		}
		defer os.Remove(path)
		args = append(args, "--config-path", path)
	}
	os.Args = args
	v, _, err := setupConfiguration()
	if err != nil {
		return c12Result{Err: "setupConfiguration: " + err.Error()}
	}
	logger := logrus.New()
	logger.SetOutput(io.Discard)
	prov := &c12Provider{occ: map[string]int{}}
	ci := newCachedInstancesFromViper(logger, prov, v)
	res.Refresh, res.Idle = v.GetDuration(gostatsd.ParamCacheRefreshPeriod).String(), v.GetDuration(gostatsd.ParamCacheEvictAfterIdlePeriod).String()
	res.TTL, res.NegTTL = v.GetDuration(gostatsd.ParamCacheTTL).String(), v.GetDuration(gostatsd.ParamCacheNegativeTTL).String()
	rn, ok1 := ci.(gostatsd.Runner)
	em, ok2 := ci.(c12Emitter)
	if !ok1 || !ok2 {
		return c12Result{Err: "runner: cached instances is not a Runner / metric emitter"}
	}
	wait := time.Duration(sc.WaitMs) * time.Millisecond

	// the cache takes its refresh ticker from the context clock, and reads the real clock for expiry and
	// last access: the mock starts at the real time
	// (plus the shift the scenario asks for, which moves the ticker lattice)
	t0 := time.Now().Round(0).Add(time.Duration(sc.ShiftNs))
	mock := clock.NewMock(t0)
	base, cancel := context.WithCancel(context.Background())
	ctx := clock.Context(base, mock)
	var wg sync.WaitGroup
	defer wg.Wait()
	defer cancel()
	wg.Add(2)
	go func() { defer wg.Done(); rn.Run(ctx) }()
	var amu sync.Mutex
	answers := map[string]int{}
	go func() {
		defer wg.Done()
		for {
			select {
			case <-ctx.Done():
				return
			case in := <-ci.InfoSource():
				amu.Lock()
				answers[string(in.IP)]++
				amu.Unlock()
			}
		}
	}()
	for dl := time.Now().Add(wait); mock.Len() < 1 && time.Now().Before(dl); {
		time.Sleep(100 * time.Microsecond)
	}
	if mock.Len() < 1 {
		return c12Result{Err: "runner: refresh ticker not created"}
	}

	observe := func(expect map[string]int) c12Obs {
		o := c12Obs{}
		reached := func() bool {
			occ := prov.snapshot()
			amu.Lock()
			defer amu.Unlock()
			for s, n := range expect {
				if occ[s] < n || answers[s] < occ[s] {
					return false
				}
			}
			for s, n := range occ {
				if answers[s] < n {
					return false
				}
			}
			return true
		}
		dl := time.Now().Add(wait)
		for !reached() && time.Now().Before(dl) {
			time.Sleep(200 * time.Microsecond)
		}
		o.TimedOut = !reached()
		time.Sleep(15 * time.Millisecond) // the lookup dispatcher batches for 10 ms: a query nobody expects shows up in here
		if !o.TimedOut {
			for dl := time.Now().Add(wait); !reached() && time.Now().Before(dl); {
				time.Sleep(200 * time.Microsecond)
			}
		}
		o.Pos, o.Neg, o.Emitted = c12Emission(ctx, em, wait)
		o.Occ = prov.snapshot()
		amu.Lock()
		o.Answers = map[string]int{}
		for k, n := range answers {
			o.Answers[k] = n
		}
		amu.Unlock()
		o.Peeks = map[string]c12Peek{}
		for _, s := range sc.Sources {
			inst, hit := ci.Peek(gostatsd.Source(s))
			p := c12Peek{Hit: hit}
			if inst != nil {
				p.Inst = string(inst.ID)
			}
			o.Peeks[s] = p
		}
		return o
	}

	first := map[string]int{}
	for _, s := range sc.Sources {
		select {
		case ci.IpSink() <- gostatsd.Source(s):
		case <-time.After(wait):
			return c12Result{Err: "runner: IpSink blocked"}
		}
		first[s] = 1
	}
	res.Initial = observe(first)
	for _, tk := range sc.Ticks {
		mock.Set(t0.Add(time.Duration(tk.OffsetNs)))
		if _, _, ok := c12Emission(ctx, em, wait); !ok { // barrier: the tick was handled
			res.Ticks = append(res.Ticks, c12Obs{TimedOut: true})
			break
		}
		o := observe(tk.Expect)
		res.Ticks = append(res.Ticks, o)
		if o.TimedOut {
			break // what was expected never came: the rest of the plan no longer applies
		}
	}
	res.DurationMs = time.Since(begin).Milliseconds()
	return res
}

func TestVerifC12Runner(t *testing.T) {
	in, out := os.Getenv("C12_SCENARIOS"), os.Getenv("C12_RESULTS")
	if in == "" || out == "" {
		t.Skip("C12_SCENARIOS / C12_RESULTS unset")
	}
	raw, err := os.ReadFile(in)
	if err != nil {
		t.Fatal(err)
	}
	var scs []c12Scenario
	if err := json.Unmarshal(raw, &scs); err != nil {
		t.Fatal(err)
	}
	logrus.SetOutput(io.Discard)
	oldArgs := os.Args
	defer func() { os.Args = oldArgs }()
	dir := t.TempDir()
	results := make([]c12Result, len(scs))
	for i, sc := range scs {
		results[i] = c12One(dir, i, sc)
	}
	os.Args = oldArgs
	b, _ := json.Marshal(results)
	if err := os.WriteFile(out, b, 0o644); err != nil {
		t.Fatal(err)
	}
}
