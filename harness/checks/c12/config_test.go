//go:build verif

// C12, configuration phase: the cache options as cmd/gostatsd really constructs them.
//
// An in-package runner (overlay_gostatsd/, laid over cmd/gostatsd by verif/ovl) runs the real
// setupConfiguration() on a random command line / environment / configuration file that sets the documented
// keys cloud-cache-refresh-period, cloud-cache-evict-after-idle-period, cloud-cache-ttl and
// cloud-cache-negative-ttl, builds the cache with the real newCachedInstancesFromViper around a scripted
// provider and runs it on a mock clock that starts at the real time. Three sources are submitted (always
// found / never found / found once and failing afterwards); refresh ticks are then fired at lattice instants
// chosen from the CONFIGURED TEXT, at least 10 s (more than the real duration of a scenario) on either side
// of each configured boundary. The provider reads the real clock for expiry and last access, and the real
// clock hardly moves during a scenario, so every entry's expiry is "start + the TTL of its last answer"
// and its last access is "start", up to the scenario's real duration.
package c12

import (
	"encoding/json"
	"fmt"
	"math/rand"
	"os"
	"path/filepath"
	"runtime"
	"sort"
	"strings"
	"time"

	"verif/mon"
	"verif/ovl"
)

const (
	cfgFound  = "10.8.0.2" // resolves at every query
	cfgAbsent = "10.8.0.1" // never found
	cfgFlaky  = "10.8.0.4" // resolves at the first query, every refresh fails
	cfgMargin = 10 * time.Second
)

var cfgSources = []string{cfgAbsent, cfgFound, cfgFlaky}

func cfgKind(src string) string {
	switch src {
	case cfgFound:
		return "positive-entry"
	case cfgAbsent:
		return "negative-entry"
	}
	return "failed-refresh-of-positive-entry"
}

type cfgTick struct {
	OffsetNs int64          `json:"offset_ns"`
	Expect   map[string]int `json:"expect"`

	// the model's view (not read by the runner)
	StampNs int64             `json:"stamp_ns"`
	Present map[string]bool   `json:"present"`
	Inst    map[string]string `json:"inst"`
	Evicted []string          `json:"evicted"`
	Requery []string          `json:"requeried"`
}

type cfgScenario struct {
	Args    []string  `json:"args"`
	Env     []string  `json:"env"`
	File    string    `json:"file"`
	FileExt string    `json:"file_ext"`
	Sources []string  `json:"sources"`
	Ticks   []cfgTick `json:"ticks"`
	WaitMs  int       `json:"wait_ms"`
	ShiftNs int64     `json:"start_shift_ns"` // the mock clock starts this much after the real start

	Shift                      time.Duration
	Refresh, Idle, TTL, NegTTL time.Duration
	Via                        map[string]string
}

type cfgPeek struct {
	Hit  bool   `json:"hit"`
	Inst string `json:"inst"`
}

type cfgObs struct {
	Occ      map[string]int     `json:"occ"`
	Answers  map[string]int     `json:"answers"`
	Peeks    map[string]cfgPeek `json:"peeks"`
	Pos      float64            `json:"cache_positive"`
	Neg      float64            `json:"cache_negative"`
	Emitted  bool               `json:"emitted"`
	TimedOut bool               `json:"timed_out"`
}

type cfgResult struct {
	Err        string   `json:"err,omitempty"`
	Refresh    string   `json:"cloud_cache_refresh_period"`
	Idle       string   `json:"cloud_cache_evict_after_idle_period"`
	TTL        string   `json:"cloud_cache_ttl"`
	NegTTL     string   `json:"cloud_cache_negative_ttl"`
	Initial    cfgObs   `json:"initial"`
	Ticks      []cfgObs `json:"ticks"`
	DurationMs int64    `json:"duration_ms"`
}

// plan simulates the documented behaviour for the configured values and lists the ticks to fire. The mock
// clock starts `shift` after the real start, so the ticker lattice is start + shift + k*refresh: the shift
// (a quarter-period step) that lets most ticks stay clear of every configured boundary is chosen.
func (sc *cfgScenario) plan() {
	best := []cfgTick(nil)
	p := sc.Refresh
	for _, shift := range []time.Duration{0, p / 4, p / 2, 3 * p / 4} {
		if t := sc.planWith(shift); len(t) > len(best) || best == nil {
			best, sc.Shift = t, shift
		}
	}
	sc.Ticks = best
	sc.ShiftNs = int64(sc.Shift)
}

func (sc *cfgScenario) planWith(shift time.Duration) (ticks []cfgTick) {
	p := sc.Refresh
	// all instants below are relative to the real start; lattice point k is shift + k*p
	var targets []time.Duration
	for _, x := range []time.Duration{sc.NegTTL, sc.TTL, sc.Idle} {
		if k := (x - cfgMargin - shift) / p; x-cfgMargin-shift >= p && k >= 1 {
			targets = append(targets, shift+k*p)
		}
		k := (x+cfgMargin-shift)/p + 1
		if k < 1 {
			k = 1
		}
		targets = append(targets, shift+k*p)
	}
	sort.Slice(targets, func(i, j int) bool { return targets[i] < targets[j] })
	clear := func(w time.Duration) bool { // no configured boundary within the margin of w
		for _, x := range []time.Duration{sc.NegTTL, sc.TTL, sc.Idle} {
			if d := w - x; d > -cfgMargin && d <= cfgMargin {
				return false
			}
		}
		return true
	}
	present := map[string]bool{cfgAbsent: true, cfgFound: true, cfgFlaky: true}
	lastNil := map[string]bool{cfgAbsent: true}
	inst := map[string]string{cfgFound: "i-" + cfgFound + "-q1", cfgFlaky: "i-" + cfgFlaky + "-q1"}
	occ := map[string]int{cfgAbsent: 1, cfgFound: 1, cfgFlaky: 1}
	pending := shift + p
	fire := func(setTo, stamp time.Duration) bool {
		if !clear(stamp) {
			return false
		}
		t := cfgTick{OffsetNs: int64(setTo - shift), StampNs: int64(stamp), Expect: map[string]int{}, Present: map[string]bool{}, Inst: map[string]string{}}
		for _, src := range cfgSources {
			if !present[src] {
				continue
			}
			if stamp > sc.Idle {
				present[src] = false
				t.Evicted = append(t.Evicted, src)
				continue
			}
			ttl := sc.TTL
			if lastNil[src] {
				ttl = sc.NegTTL
			}
			if stamp > ttl {
				occ[src]++
				t.Requery = append(t.Requery, src)
				switch src {
				case cfgFound:
					inst[src], lastNil[src] = fmt.Sprintf("i-%s-q%d", src, occ[src]), false
				default:
					lastNil[src] = true // the flaky source keeps its first instance
				}
			}
		}
		for _, src := range cfgSources {
			t.Expect[src] = occ[src]
			t.Present[src] = present[src]
			if present[src] {
				t.Inst[src] = inst[src]
			}
		}
		ticks = append(ticks, t)
		return true
	}
	for _, target := range targets {
		if target < pending || len(ticks) >= 12 {
			continue
		}
		if target > pending {
			// the mock delivers the stale pending deadline first
			if !fire(target-p, pending) {
				return
			}
		}
		if !fire(target, target) {
			return
		}
		pending = target + p
	}
	return
}

func genCfgScenario(rng *rand.Rand) *cfgScenario {
	sc := &cfgScenario{Via: map[string]string{}, WaitMs: 3000, Sources: cfgSources,
		Refresh: time.Minute, Idle: 10 * time.Minute, TTL: 30 * time.Minute, NegTTL: time.Minute} // the documented defaults
	values := map[string]string{}
	set := func(key string, dst *time.Duration, choices []time.Duration) {
		if rng.Intn(3) == 0 {
			return
		}
		*dst = choices[rng.Intn(len(choices))]
		values[key] = dst.String()
	}
	set("cloud-cache-refresh-period", &sc.Refresh, []time.Duration{time.Second, 10 * time.Second, 45 * time.Second, time.Minute, 2 * time.Minute})
	set("cloud-cache-ttl", &sc.TTL, []time.Duration{2 * time.Minute, 10 * time.Minute, 30 * time.Minute, time.Hour, 6 * time.Hour})
	set("cloud-cache-negative-ttl", &sc.NegTTL, []time.Duration{30 * time.Second, time.Minute, 5 * time.Minute, 20 * time.Minute, 2 * time.Hour})
	set("cloud-cache-evict-after-idle-period", &sc.Idle, []time.Duration{5 * time.Minute, 10 * time.Minute, time.Hour, 3 * time.Hour, 12 * time.Hour})
	fileKind := []string{"toml", "yaml"}[rng.Intn(2)]
	var fileLines []string
	keys := make([]string, 0, len(values))
	for k := range values {
		keys = append(keys, k)
	}
	sort.Strings(keys)
	for _, k := range keys {
		val := values[k]
		switch rng.Intn(3) {
		case 0:
			sc.Via[k] = "flag"
			if rng.Intn(2) == 0 {
				sc.Args = append(sc.Args, "--"+k+"="+val)
			} else {
				sc.Args = append(sc.Args, "--"+k, val)
			}
		case 1:
			sc.Via[k] = "env"
			sc.Env = append(sc.Env, "GSD_"+strings.ToUpper(strings.ReplaceAll(k, "-", "_"))+"="+val)
		default:
			sc.Via[k] = "file:" + fileKind
			if fileKind == "toml" {
				fileLines = append(fileLines, k+" = '"+val+"'")
			} else {
				fileLines = append(fileLines, k+": '"+val+"'")
			}
		}
	}
	if len(fileLines) > 0 {
		sc.File, sc.FileExt = strings.Join(fileLines, "\n")+"\n", fileKind
	}
	sc.plan()
	return sc
}

func cfgSrcDir() string {
	_, file, _, _ := runtime.Caller(0)
	return filepath.Join(filepath.Dir(file), "overlay_gostatsd")
}

func runCfgBatch(r *mon.Run, bin, tag string, scs []*cfgScenario) ([]cfgResult, string) {
	out := os.Getenv("VERIF_OUT")
	sh, _ := r.Shard()
	in := filepath.Join(out, fmt.Sprintf("c12-scenarios-%d-%s.json", sh, tag))
	res := filepath.Join(out, fmt.Sprintf("c12-results-%d-%s.json", sh, tag))
	b, _ := json.Marshal(scs)
	if err := os.WriteFile(in, b, 0o644); err != nil {
		return nil, "scenario-file"
	}
	_ = os.Remove(res)
	outp, err := ovl.Run(bin, "TestVerifC12Runner", []string{"C12_SCENARIOS=" + in, "C12_RESULTS=" + res}, "600s")
	raw, rerr := os.ReadFile(res)
	if rerr != nil {
		tail := string(outp)
		if len(tail) > 600 {
			tail = tail[len(tail)-600:]
		}
		return nil, fmt.Sprintf("runner-left-no-results (%v): %s", err, tail)
	}
	var results []cfgResult
	if json.Unmarshal(raw, &results) != nil || len(results) != len(scs) {
		return nil, "runner-results-unreadable"
	}
	return results, ""
}

func (sc *cfgScenario) describe(res cfgResult) string {
	var ticks []string
	for _, t := range sc.Ticks {
		ticks = append(ticks, fmt.Sprintf("start+%v[evicts %v requeries %v]", time.Duration(t.StampNs), t.Evicted, t.Requery))
	}
	return fmt.Sprintf("args %q env %q file(%s) %q: configured refresh=%v idle=%v ttl=%v negative-ttl=%v (the process read refresh=%s idle=%s ttl=%s negative-ttl=%s); sources %s never found, %s always found, %s found once then failing; the mock clock starts %v after the real start; refresh ticks and what the configured values demand: %s",
		sc.Args, sc.Env, sc.FileExt, sc.File, sc.Refresh, sc.Idle, sc.TTL, sc.NegTTL, res.Refresh, res.Idle, res.TTL, res.NegTTL, cfgAbsent, cfgFound, cfgFlaky, sc.Shift, strings.Join(ticks, " "))
}

// judgeCfg compares what the runner saw with what the configured text demands. A query that never came is
// returned as a bounded-progress failure.
func judgeCfg(r *mon.Run, sc *cfgScenario, res cfgResult, report bool) (progress, detail, inconclusive string) {
	desc := sc.describe(res)
	rc := replayCase{Mode: "config", Steps: []string{desc}}
	viol := func(sig, d string) {
		if report {
			r.Violation(sig, d+"\n"+desc, rc)
		}
	}
	if res.Err != "" {
		if strings.HasPrefix(res.Err, "runner:") {
			return "", "", "config-runner:" + strings.ReplaceAll(strings.TrimPrefix(res.Err, "runner: "), " ", "-")
		}
		viol("config:legal-cache-settings-rejected", "legal cloud-cache-* settings make start-up fail: "+res.Err)
		return "", "", ""
	}
	if res.Refresh != sc.Refresh.String() || res.Idle != sc.Idle.String() || res.TTL != sc.TTL.String() || res.NegTTL != sc.NegTTL.String() {
		viol("config:cache-keys-not-honoured", fmt.Sprintf("the configured values (set via %v) are not what the process reads", sc.Via))
		return "", "", ""
	}
	if time.Duration(res.DurationMs)*time.Millisecond > cfgMargin-2*time.Second {
		return "", "", "config-scenario-took-longer-than-the-margin"
	}
	check := func(where string, o cfgObs, expect map[string]int, present map[string]bool, inst map[string]string) bool {
		if o.TimedOut {
			for _, src := range cfgSources {
				if o.Occ[src] < expect[src] {
					if progress == "" {
						progress = "config:never-queried:" + cfgKind(src)
						detail = fmt.Sprintf("%s: %s (%s) should appear in %d provider calls by now, it appears in %d", where, src, cfgKind(src), expect[src], o.Occ[src]) + "\n" + desc
					}
					return false
				}
			}
			for _, src := range cfgSources {
				if o.Answers[src] < o.Occ[src] {
					if progress == "" {
						progress = "config:answer-missing"
						detail = fmt.Sprintf("%s: %s was queried %d times, %d answers arrived on InfoSource", where, src, o.Occ[src], o.Answers[src]) + "\n" + desc
					}
					return false
				}
			}
			inconclusive = "config-runner-timed-out"
			return false
		}
		for _, src := range cfgSources {
			if o.Occ[src] > expect[src] {
				viol("config:unexpected-provider-query:"+cfgKind(src), fmt.Sprintf("%s: %s (%s) appears in %d provider calls, the configured TTLs allow %d", where, src, cfgKind(src), o.Occ[src], expect[src]))
				return false
			}
			if o.Answers[src] != o.Occ[src] {
				viol("config:more-answers-than-queries", fmt.Sprintf("%s: %s was queried %d times, %d answers arrived", where, src, o.Occ[src], o.Answers[src]))
				return false
			}
		}
		pos, neg := 0, 0
		for _, src := range cfgSources {
			p := o.Peeks[src]
			switch {
			case !present[src] && p.Hit:
				viol("config:idle-entry-survived-refresh-tick", fmt.Sprintf("%s: Peek(%s) is still a hit (%q) although the entry has been unused for longer than the configured idle period %v", where, src, p.Inst, sc.Idle))
				return false
			case present[src] && !p.Hit:
				viol("config:peek-miss-on-cached-entry", fmt.Sprintf("%s: Peek(%s) is a miss although the entry was not idle for the configured idle period %v", where, src, sc.Idle))
				return false
			case present[src] && inst[src] != "" && p.Inst == "":
				viol("config:good-instance-forgotten", fmt.Sprintf("%s: Peek(%s) returns nil, the source had resolved to %s", where, src, inst[src]))
				return false
			case present[src] && p.Inst != inst[src]:
				viol("config:peek-wrong-instance", fmt.Sprintf("%s: Peek(%s) returns %q, the last successful lookup gave %q", where, src, p.Inst, inst[src]))
				return false
			}
			if present[src] {
				if inst[src] != "" {
					pos++
				} else {
					neg++
				}
			}
		}
		if o.Emitted && (o.Pos != float64(pos) || o.Neg != float64(neg)) {
			viol("config:gauge-mismatch", fmt.Sprintf("%s: cache_positive=%v cache_negative=%v, the configured values leave %d positive and %d negative entries", where, o.Pos, o.Neg, pos, neg))
			return false
		}
		return true
	}
	all := map[string]bool{cfgAbsent: true, cfgFound: true, cfgFlaky: true}
	if !check("after the submissions", res.Initial, map[string]int{cfgAbsent: 1, cfgFound: 1, cfgFlaky: 1}, all,
		map[string]string{cfgFound: "i-" + cfgFound + "-q1", cfgFlaky: "i-" + cfgFlaky + "-q1"}) {
		return
	}
	for i, o := range res.Ticks {
		if i >= len(sc.Ticks) {
			break
		}
		t := sc.Ticks[i]
		if !check(fmt.Sprintf("after the refresh tick at start+%v", time.Duration(t.StampNs)), o, t.Expect, t.Present, t.Inst) {
			return
		}
	}
	if len(res.Ticks) < len(sc.Ticks) && progress == "" && inconclusive == "" {
		inconclusive = "config-runner-stopped-early"
	}
	return
}

func configPhase(r *mon.Run, n int) {
	if n == 0 {
		return
	}
	if os.Getenv("VERIF_REPO_DIR") == "" || os.Getenv("VERIF_OUT") == "" {
		r.Inconclusive("config-phase-skipped:VERIF_REPO_DIR-unset")
		return
	}
	r.Case("config phase: building the overlay binary of cmd/gostatsd")
	bin, err := ovl.Build("c12", "./cmd/gostatsd", cfgSrcDir(), false)
	if err != nil {
		r.Inconclusive("config-phase-overlay-build-failed")
		r.Extra("config_overlay_build_error", err.Error())
		return
	}
	rng := r.Rand("config")
	scs := make([]*cfgScenario, n)
	for i := range scs {
		scs[i] = genCfgScenario(rng)
	}
	r.Case("config phase: %d scenarios", n)
	results, why := runCfgBatch(r, bin, "a", scs)
	if why != "" {
		r.Inconclusive("config-phase:" + strings.SplitN(why, " ", 2)[0])
		r.Extra("config_runner_problem", why)
		return
	}
	var again []int
	for i, sc := range scs {
		r.Eval(1)
		r.Event("config_scenarios", 1)
		r.Event("config_refresh_ticks", len(results[i].Ticks))
		p, _, inc := judgeCfg(r, sc, results[i], true)
		if p != "" {
			again = append(again, i)
			continue
		}
		if inc != "" {
			r.Inconclusive(inc)
			continue
		}
		ev, rq := 0, 0
		for _, t := range sc.Ticks {
			ev += len(t.Evicted)
			rq += len(t.Requery)
		}
		r.Event("config_model_evictions", ev)
		r.Event("config_model_requeries", rq)
		if len(sc.Via) > 0 && ev+rq > 0 {
			r.Nontrivial(fmt.Sprintf("config:refresh=%v:idle=%v:ttl=%v:neg=%v:via=%s", sc.Refresh, sc.Idle, sc.TTL, sc.NegTTL, viaKinds(sc.Via)))
			if r.WantSample() && i == 0 {
				r.Sample(map[string]interface{}{"mode": "configuration (cmd/gostatsd newCachedInstancesFromViper via overlay)", "scenario": sc.describe(results[i])})
			}
		}
	}
	if len(again) == 0 {
		return
	}
	var rs []*cfgScenario
	for _, i := range again {
		rs = append(rs, scs[i])
	}
	results2, why := runCfgBatch(r, bin, "b", rs)
	if why != "" {
		r.Inconclusive("config-phase:" + strings.SplitN(why, " ", 2)[0])
		return
	}
	for j, i := range again {
		p1, _, _ := judgeCfg(r, scs[i], results[i], false)
		p2, d2, _ := judgeCfg(r, rs[j], results2[j], false)
		if p2 != "" && p2 == p1 {
			r.Violation(p2, d2+"\n(reproduced in a second run of the scenario)", replayCase{Mode: "config", Steps: []string{d2}})
		} else {
			r.Inconclusive("watchdog:" + p1)
		}
	}
}

func viaKinds(via map[string]string) string {
	set := map[string]bool{}
	for _, v := range via {
		set[v] = true
	}
	var o []string
	for k := range set {
		o = append(o, k)
	}
	sort.Strings(o)
	return strings.Join(o, "+")
}
