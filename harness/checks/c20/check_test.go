//go:build verif

// C20 — the Lambda extension asks for the next invocation only after flushing.
//
// lambda.NewExtension wraps a real forwarder-mode statsd.Server (UDP socket, HTTP ingestion server,
// manual flush). The harness plays the Lambda runtime API (register, telemetry subscription,
// event/next, init/error, exit/error), the telemetry publisher, the instrumented function (POSTs
// datapoints with unique ids to the extension's ingestion endpoint and waits for the 2xx) and the
// upstream gostatsd (scripted latency / outcomes). Everything runs in one process and every
// observation gets a stamp from one logical clock, so the ordering oracle is exact:
//
//	ack(id) < runtime-done post  =>  last upstream attempt carrying id ended < arrival of the next GET event/next.
package c20

import (
	"bytes"
	"context"
	"crypto/sha1"
	"encoding/json"
	"errors"
	"fmt"
	"io"
	"net"
	"net/http"
	"net/http/httptest"
	"os"
	"os/exec"
	"path/filepath"
	"strings"
	"sync"
	"sync/atomic"
	"testing"
	"time"

	"github.com/sirupsen/logrus"
	"github.com/spf13/viper"
	"github.com/tilinna/clock"
	"google.golang.org/protobuf/proto"

	"github.com/atlassian/gostatsd/pb"
	"github.com/atlassian/gostatsd/pkg/lambda"
	"github.com/atlassian/gostatsd/pkg/statsd"
	"github.com/atlassian/gostatsd/pkg/transport"
	"github.com/atlassian/gostatsd/pkg/verifhook"

	"verif/mon"
	"verif/netx"
	"verif/ovl"
)

type config struct {
	Exec        int      `json:"exec"`
	Invocations int      `json:"invocations"`
	Upstream    []string `json:"upstream_scripts"` // per flush body, cycled: fast | slow | retry | dead
	InitData    bool     `json:"data_during_init"`
	LateData    bool     `json:"data_after_runtime_done"`
	Senders     int      `json:"concurrent_senders"`
	Failure     string   `json:"startup_failure"` // "" | mode | endpoint | compression
	WindowMS    int      `json:"retry_window_ms"`
	GlacialMS   int      `json:"glacial_upstream_ms"`
	// ManyNames makes every invocation carry thousands of distinct metric names (one flush = one big map)
	ManyNames int `json:"distinct_names_per_invocation,omitempty"`
	// HoldSlot forces the interleaving "an ingestion request holds a consolidator slot while runtime-done arrives"
	HoldSlot bool `json:"hold_consolidator_slot,omitempty"`
	// ScriptedServer replaces the real statsd.Server by a server whose Run returns this error kind at once
	// (start-up failure classification): plain | nil | canceled | deadline | wrapped-deadline
	ScriptedServer string `json:"scripted_server_error,omitempty"`
	// Binary runs the real cmd/lambda-extension executable (built from the repository under test with the race
	// detector) as a child process, configured by a configuration file and AWS_LAMBDA_RUNTIME_API like in a
	// Lambda sandbox, instead of composing lambda.NewExtension in process: main(), GetConfiguration and NewServer
	// are then part of what is monitored. ManualFlushKey says how per-invocation flushing is configured
	// ("" = left to the default, "true" = set in the file). DynHeaders puts http-transport.dynamic-headers into
	// the file (README: not supported by the extension, i.e. without effect) and tags the datapoints with them.
	// TimerMS sets http-transport.flush-interval (README: not respected with per-invocation flushing) to a few
	// milliseconds instead of 1h. EventLatencyMS delays the upstream's answer to /v2/event (the internal statser's
	// start / stop events). InternalStatser leaves statser-type at its default. BadUTF8 sends, in every invocation,
	// a UDP datagram whose set member / tag is not valid UTF-8 (the parser accepts it; protobuf cannot carry it).
	// SubscribeLatencyMS delays the runtime API's answer to the telemetry subscription (a slow control plane).
	SubscribeLatencyMS int      `json:"telemetry_subscribe_latency_ms,omitempty"`
	TimerMS            int      `json:"forwarder_timer_ms,omitempty"`
	EventLatencyMS     int      `json:"upstream_event_latency_ms,omitempty"`
	InternalStatser    bool     `json:"internal_statser,omitempty"`
	BadUTF8            bool     `json:"bad_utf8_datagrams,omitempty"`
	Binary             bool     `json:"real_binary,omitempty"`
	ManualFlushKey     string   `json:"manual_flush_key,omitempty"`
	DynHeaders         []string `json:"dynamic_headers_in_file,omitempty"`
}

// ---------------------------------------------------------------------------------------------

type attempt struct {
	begin, end int64
	status     int
}

type body struct {
	hash     string
	ids      []string
	attempts []*attempt
	script   string
}

type world struct {
	r   *mon.Run
	cfg config

	mu        sync.Mutex
	gets      []int64 // arrival stamps of GET event/next
	register  int
	subscribe int
	initErr   int
	exitErr   int
	bodies    map[string]*body
	order     []*body
	primed    bool
	nonEmpty  int

	next chan string // events handed to GET event/next

	lastUpstream atomic.Int64 // UnixNano of the last arrival or answer at the upstream (quiescence of a wedged run)

	runtime  *httptest.Server
	upstream *httptest.Server
}

func (w *world) runtimeHandler(rw http.ResponseWriter, req *http.Request) {
	switch {
	case strings.HasSuffix(req.URL.Path, "/extension/register"):
		w.mu.Lock()
		w.register++
		w.mu.Unlock()
		rw.Header().Set("Lambda-Extension-Identifier", "verif-ext-id")
		rw.WriteHeader(200)
		_, _ = rw.Write([]byte(`{"functionName":"f","functionVersion":"1","handler":"h"}`))
	case strings.HasSuffix(req.URL.Path, "/telemetry"):
		w.mu.Lock()
		w.subscribe++
		w.mu.Unlock()
		if w.cfg.SubscribeLatencyMS > 0 {
			time.Sleep(time.Duration(w.cfg.SubscribeLatencyMS) * time.Millisecond) // control-plane latency, not synchronisation
		}
		rw.WriteHeader(200)
	case strings.HasSuffix(req.URL.Path, "/extension/event/next"):
		st := w.r.Stamp()
		w.mu.Lock()
		w.gets = append(w.gets, st)
		w.mu.Unlock()
		select {
		case ev := <-w.next:
			rw.WriteHeader(200)
			if ev == "SHUTDOWN" {
				_, _ = rw.Write([]byte(`{"eventType":"SHUTDOWN","shutdownReason":"spindown","deadlineMs":1}`))
			} else {
				_, _ = rw.Write([]byte(`{"eventType":"INVOKE","requestId":"r","invokedFunctionArn":"arn","deadlineMs":1}`))
			}
		case <-req.Context().Done():
		}
	case strings.HasSuffix(req.URL.Path, "/extension/init/error"):
		w.mu.Lock()
		w.initErr++
		w.mu.Unlock()
		rw.WriteHeader(202)
	case strings.HasSuffix(req.URL.Path, "/extension/exit/error"):
		w.mu.Lock()
		w.exitErr++
		w.mu.Unlock()
		rw.WriteHeader(202)
	default:
		rw.WriteHeader(404)
	}
}

func (w *world) upstreamHandler(rw http.ResponseWriter, req *http.Request) {
	begin := w.r.Stamp()
	w.lastUpstream.Store(time.Now().UnixNano())
	defer func() { w.lastUpstream.Store(time.Now().UnixNano()) }()
	raw, _ := io.ReadAll(req.Body)
	if strings.HasSuffix(req.URL.Path, "/v2/event") {
		if w.cfg.EventLatencyMS > 0 {
			time.Sleep(time.Duration(w.cfg.EventLatencyMS) * time.Millisecond) // upstream latency, not synchronisation
		}
		rw.WriteHeader(202)
		return
	}
	var msg pb.RawMessageV2
	_ = proto.Unmarshal(raw, &msg)
	var ids []string
	for _, tm := range msg.Sets {
		for _, s := range tm.TagMap {
			ids = append(ids, s.Values...)
		}
	}
	w.mu.Lock()
	if len(ids) == 0 && len(msg.Counters)+len(msg.Gauges)+len(msg.Timers) == 0 {
		w.primed = true
		w.mu.Unlock()
		rw.WriteHeader(202)
		return
	}
	sum := sha1.Sum(raw)
	hash := fmt.Sprintf("%d-%x", len(raw), sum[:12])
	b, ok := w.bodies[hash]
	if !ok {
		b = &body{hash: hash, ids: ids, script: w.cfg.Upstream[w.nonEmpty%len(w.cfg.Upstream)]}
		w.nonEmpty++
		w.bodies[hash] = b
		w.order = append(w.order, b)
	}
	a := &attempt{begin: begin}
	n := len(b.attempts)
	b.attempts = append(b.attempts, a)
	script := b.script
	w.mu.Unlock()

	status := 202
	switch script {
	case "slow":
		time.Sleep(20 * time.Millisecond) // upstream latency, not synchronisation
	case "glacial":
		// a delivery that takes seconds: anything in the extension that stops waiting for the flush after a
		// few seconds (a "safety" timeout) asks for the next event while this request is still in flight
		time.Sleep(time.Duration(w.cfg.GlacialMS) * time.Millisecond)
	case "retry":
		if n == 0 {
			status = 503
		}
	case "dead":
		status = 500
	}
	w.mu.Lock()
	a.status = status
	a.end = w.r.Stamp() // stamped before the response is written: anything the client does after reading it is later
	w.mu.Unlock()
	rw.WriteHeader(status)
}

func freeAddr() string {
	l, err := net.Listen("tcp", netx.IP()+":0")
	if err != nil {
		return netx.IP() + ":0"
	}
	defer l.Close()
	return l.Addr().String()
}

func freeUDP() string {
	c, err := net.ListenPacket("udp", netx.IP()+":0")
	if err != nil {
		return netx.IP() + ":0"
	}
	defer c.Close()
	return c.LocalAddr().String()
}

type sent struct {
	id  string
	ack int64
}

// ingest posts one map holding the given set members to the extension's ingestion endpoint.
func ingest(client *http.Client, addr string, ids []string) (int, error) {
	return ingestTagged(client, addr, ids, nil)
}

// ingestTagged spreads the ids over series of the set "verif.ids" that differ in the value of the tag names
// (none = one untagged series).
func ingestTagged(client *http.Client, addr string, ids []string, tagNames []string) (int, error) {
	msg := &pb.RawMessageV2{Sets: map[string]*pb.SetTagV2{"verif.ids": {TagMap: map[string]*pb.RawSetV2{}}}}
	tm := msg.Sets["verif.ids"].TagMap
	for i, id := range ids {
		key, tags := "", []string(nil)
		if len(tagNames) > 0 && i%3 != 2 {
			tags = []string{fmt.Sprintf("%s:v%d", tagNames[i%len(tagNames)], i%3)}
			key = tags[0]
		}
		if tm[key] == nil {
			tm[key] = &pb.RawSetV2{Tags: tags}
		}
		tm[key].Values = append(tm[key].Values, id)
	}
	raw, _ := proto.Marshal(msg)
	resp, err := client.Post("http://"+addr+"/v2/raw", "application/x-protobuf", bytes.NewReader(raw))
	if err != nil {
		return 0, err
	}
	_, _ = io.Copy(io.Discard, resp.Body)
	_ = resp.Body.Close()
	return resp.StatusCode, nil
}

// ingestNames posts one map in which every id is the single member of its own, distinctly named set.
func ingestNames(client *http.Client, addr string, ids []string) (int, error) {
	msg := &pb.RawMessageV2{Sets: map[string]*pb.SetTagV2{}}
	for _, id := range ids {
		msg.Sets["verif.n."+id] = &pb.SetTagV2{TagMap: map[string]*pb.RawSetV2{"": {Values: []string{id}}}}
	}
	raw, _ := proto.Marshal(msg)
	resp, err := client.Post("http://"+addr+"/v2/raw", "application/x-protobuf", bytes.NewReader(raw))
	if err != nil {
		return 0, err
	}
	_, _ = io.Copy(io.Discard, resp.Body)
	_ = resp.Body.Close()
	return resp.StatusCode, nil
}

type scriptedServer struct{ err error }

func (s scriptedServer) Run(ctx context.Context) error { return s.err }

// runScriptedStartupFailure: the wrapped server's Run returns at once with a scripted result while the manager is
// still inside its start-up window (the mock clock is never advanced).
func runScriptedStartupFailure(r *mon.Run, cfg config) {
	r.Case("scripted start-up failure %+v", cfg)
	logger := logrus.New()
	logger.SetOutput(io.Discard)
	w := &world{r: r, cfg: cfg, bodies: map[string]*body{}, next: make(chan string)}
	w.runtime = httptest.NewServer(http.HandlerFunc(w.runtimeHandler))
	defer w.runtime.Close()
	var err error
	switch cfg.ScriptedServer {
	case "plain":
		err = errors.New("listen udp :8125: bind: address already in use")
	case "nil":
		err = nil
	case "canceled":
		err = context.Canceled
	case "deadline":
		err = context.DeadlineExceeded
	default:
		err = fmt.Errorf("fetching instance identity: %w", context.DeadlineExceeded)
	}
	manual := cfg.Exec%2 == 0
	ext, _, e := lambda.VerifNewExtensionWithServer(logger, scriptedServer{err}, lambda.Options{
		RuntimeAPI: strings.TrimPrefix(w.runtime.URL, "http://"), ExecutableName: "gostatsd-verif", EnableManualFlush: manual, TelemetryAddr: freeAddr(),
	})
	if e != nil {
		r.Inconclusive("setup:" + e.Error())
		return
	}
	mock := clock.NewMock(time.Now())
	ctx, cancel := context.WithCancel(clock.Context(context.Background(), mock))
	defer cancel()
	runErr := make(chan error, 1)
	go func() { runErr <- ext.Run(ctx) }()
	viol := func(sig, detail string) {
		r.Violation(sig, detail+fmt.Sprintf(" [%+v manual-flush=%v]", cfg, manual), map[string]interface{}{"config": cfg})
	}
	select {
	case got := <-runErr:
		w.mu.Lock()
		gets, initErr := len(w.gets), w.initErr
		w.mu.Unlock()
		if got == nil {
			viol("startup-failure-not-reported:"+cfg.ScriptedServer, "Run returned nil although the wrapped server stopped during start-up")
		}
		if initErr != 1 {
			viol("init-error-count:"+cfg.ScriptedServer, fmt.Sprintf("%d POST init/error requests for one start-up failure (server returned %v, Run returned %v)", initErr, err, got))
		}
		if gets != 0 {
			viol("next-after-startup-failure:"+cfg.ScriptedServer, fmt.Sprintf("%d GET event/next although start-up failed", gets))
		}
		r.Eval(1)
		r.Event("scripted_startup_failures", 1)
		r.Nontrivial(fmt.Sprintf("scripted-startup:%s:manual=%v", cfg.ScriptedServer, manual))
	case <-time.After(60 * time.Second):
		// the manager did not take the failure as a start-up failure; with the clock frozen it waits for ever
		w.mu.Lock()
		gets, initErr := len(w.gets), w.initErr
		w.mu.Unlock()
		viol("startup-failure-ignored:"+cfg.ScriptedServer, fmt.Sprintf("the wrapped server's Run returned %v during start-up but the manager neither reported it nor returned within 60 s (init/error posts %d, GET next %d)", err, initErr, gets))
	}
}

var otherRecords = []string{"platform.start", "platform.initStart", "platform.initRuntimeDone", "platform.report", "platform.extension", "platform.telemetrySubscription", "platform.logsDropped", "function"}

// runExecution runs one execution; an extension that stops asking for events although the upstream has been
// idle for 30 s (bounded progress in a deterministic script) is run once more and reported if it wedges again.
func runExecution(r *mon.Run, cfg config) {
	if cfg.ScriptedServer != "" {
		runScriptedStartupFailure(r, cfg)
		return
	}
	if cfg.Binary && cfg.Failure != "" {
		// Cold starts of the executable run on real time, and a defect in how the start-up window is kept may
		// show in a fraction of them only: several cold starts; a failing one must reproduce (up to as many
		// further cold starts) before it is reported.
		for trial := 0; trial < 5; trial++ {
			if runOnce(r, cfg, false) != "startup-failure" {
				continue
			}
			before := r.Violations()
			for again := 0; again < 6 && r.Violations() == before; again++ {
				runOnce(r, cfg, true)
			}
			if r.Violations() == before {
				r.Inconclusive("not-reproduced:startup-failure")
			}
			return
		}
		return
	}
	code := runOnce(r, cfg, false)
	if code == "" {
		return
	}
	// bounded progress: reproduce once before reporting
	if again := runOnce(r, cfg, true); strings.HasPrefix(again, "wedged:") {
		r.Violation("extension-"+again, fmt.Sprintf("the extension never sent the GET event/next that %s, although every upstream request had been answered and the upstream had been idle for more than 30 s; reproduced by a second run of the same execution [%+v]", strings.TrimPrefix(again, "wedged:"), cfg), map[string]interface{}{"config": cfg})
		r.Eval(1)
	} else {
		r.Inconclusive("not-reproduced:" + code)
	}
}

func runOnce(r *mon.Run, cfg config, confirm bool) (wedged string) {
	r.Case("execution %+v", cfg)
	logrus.SetOutput(io.Discard)
	logger := logrus.New()
	logger.SetOutput(io.Discard)
	rng := r.Rand(fmt.Sprintf("exec%d", cfg.Exec))

	w := &world{r: r, cfg: cfg, bodies: map[string]*body{}, next: make(chan string)}
	w.runtime = httptest.NewServer(http.HandlerFunc(w.runtimeHandler))
	defer w.runtime.Close()
	w.upstream = httptest.NewServer(http.HandlerFunc(w.upstreamHandler))
	defer w.upstream.Close()
	ingestAddr, telemetryAddr, udpAddr := freeAddr(), freeAddr(), freeUDP()

	apiEndpoint := w.upstream.URL
	compressionType := "zlib"
	mode := "forwarder"
	switch cfg.Failure {
	case "mode":
		mode = "bogus-mode"
	case "endpoint":
		apiEndpoint = ""
	case "compression":
		compressionType = "no-such-compression"
	}
	slots, parsers := 1+rng.Intn(4), 1+rng.Intn(3)
	timerText := "1h"
	if cfg.TimerMS > 0 {
		timerText = fmt.Sprintf("%dms", cfg.TimerMS)
	}
	var mock *clock.Mock
	runErr := make(chan error, 1)
	var cancel func()
	if cfg.Binary {
		bin, err := ovl.BuildCmd("lambda-extension", "./cmd/lambda-extension", true)
		if err != nil {
			r.Inconclusive("setup:binary-build-failed")
			return
		}
		var f strings.Builder
		fmt.Fprintf(&f, "metrics-addr = %q\nmax-readers = 1\nmax-parsers = %d\nreceive-batch-size = 10\nflush-interval = \"1h\"\n", udpAddr, parsers)
		if !cfg.InternalStatser {
			f.WriteString("statser-type = \"null\"\n")
		}
		fmt.Fprintf(&f, "lambda-extension-telemetry-address = %q\n", telemetryAddr)
		if cfg.ManualFlushKey != "" {
			fmt.Fprintf(&f, "lambda-extension-manual-flush = %s\n", cfg.ManualFlushKey)
		}
		if cfg.Failure == "http-server" {
			fmt.Fprintf(&f, "http-servers = [\"ingest\", \"broken\"]\n\n[http.broken]\naddress = %q\nenable-healthcheck = false\n\n[http.ingest]\naddress = %q\nenable-ingestion = true\nenable-healthcheck = false\n\n", freeAddr(), ingestAddr)
		} else {
			fmt.Fprintf(&f, "http-servers = [\"ingest\"]\n\n[http.ingest]\naddress = %q\nenable-ingestion = true\nenable-healthcheck = false\n\n", ingestAddr)
		}
		fmt.Fprintf(&f, "[http-transport]\napi-endpoint = %q\ncompress = false\ncompression-type = %q\nmax-request-elapsed-time = \"%dms\"\nconsolidator-slots = %d\nflush-interval = %q\n", apiEndpoint, compressionType, cfg.WindowMS, slots, timerText)
		if len(cfg.DynHeaders) > 0 {
			fmt.Fprintf(&f, "dynamic-headers = [\"%s\"]\n", strings.Join(cfg.DynHeaders, "\", \""))
		}
		dir := os.Getenv("VERIF_OUT")
		confPath := filepath.Join(dir, fmt.Sprintf("c20-exec%d.toml", cfg.Exec))
		if err := os.WriteFile(confPath, []byte(f.String()), 0o644); err != nil {
			r.Inconclusive("setup:config-file")
			return
		}
		logFile, _ := os.Create(filepath.Join(dir, fmt.Sprintf("c20-exec%d.log", cfg.Exec)))
		cmd := exec.Command(bin, "--config-path="+confPath, "--lambda-entrypoint-name=gostatsd-verif")
		cmd.Env = append(os.Environ(), "AWS_LAMBDA_RUNTIME_API="+strings.TrimPrefix(w.runtime.URL, "http://"))
		cmd.Stdout, cmd.Stderr = logFile, logFile
		if err := cmd.Start(); err != nil {
			r.Inconclusive("setup:binary-start")
			return
		}
		go func() { runErr <- cmd.Wait(); logFile.Close() }()
		var once sync.Once
		cancel = func() {
			once.Do(func() {
				_ = cmd.Process.Signal(os.Interrupt)
				go func() {
					time.Sleep(20 * time.Second) // watchdog: a child that ignores the interrupt is killed
					_ = cmd.Process.Kill()
				}()
			})
		}
		defer func() { _ = cmd.Process.Kill() }()
	} else {
		v := viper.New()
		v.Set("http-servers", []string{"ingest"})
		if cfg.Failure == "http-server" {
			v.Set("http-servers", []string{"ingest", "broken"})
			v.Set("http.broken.address", freeAddr())
			v.Set("http.broken.enable-healthcheck", false)
		}
		v.Set("http.ingest.address", ingestAddr)
		v.Set("http.ingest.enable-ingestion", true)
		v.Set("http.ingest.enable-healthcheck", false)
		v.Set("http-transport.api-endpoint", apiEndpoint)
		v.Set("http-transport.compress", false)
		v.Set("http-transport.compression-type", compressionType)
		v.Set("http-transport.max-request-elapsed-time", fmt.Sprintf("%dms", cfg.WindowMS))
		v.Set("http-transport.consolidator-slots", slots)
		v.Set("http-transport.flush-interval", timerText)
		statserType := "null"
		if cfg.InternalStatser {
			statserType = "" // the default: internal statser, internal events enabled
		}
		srv := &statsd.Server{
			FlushInterval: time.Hour, MaxReaders: 1, MaxParsers: parsers, MetricsAddr: udpAddr, StatserType: statserType,
			ReceiveBatchSize: 10, ServerMode: mode, Viper: v, TransportPool: transport.NewTransportPool(logger, v),
		}
		ext, err := lambda.NewExtension(logger, srv, lambda.Options{
			RuntimeAPI: strings.TrimPrefix(w.runtime.URL, "http://"), ExecutableName: "gostatsd-verif", EnableManualFlush: true, TelemetryAddr: telemetryAddr,
		})
		if err != nil {
			r.Inconclusive("setup:" + err.Error())
			return
		}
		mock = clock.NewMock(time.Now())
		ctx, cancelCtx := context.WithCancel(clock.Context(context.Background(), mock))
		cancel = cancelCtx
		go func() { runErr <- ext.Run(ctx) }()
	}
	defer cancel()

	viol := func(sig, detail string) {
		r.Violation(sig, detail+fmt.Sprintf(" [%+v]", cfg), map[string]interface{}{"config": cfg})
	}
	snapshot := func() (gets []int64, initErr int) {
		w.mu.Lock()
		defer w.mu.Unlock()
		return append([]int64(nil), w.gets...), w.initErr
	}

	// ---- start-up failure: exactly one init/error, never a GET next
	if cfg.Failure != "" {
		var problems [][2]string
		select {
		case err := <-runErr:
			gets, initErr := snapshot()
			if err == nil && !cfg.Binary { // the executable logs the failure and exits normally
				problems = append(problems, [2]string{"startup-failure-not-reported", "Run returned nil although the server could not start"})
			}
			if initErr != 1 {
				problems = append(problems, [2]string{"init-error-count", fmt.Sprintf("%d POST init/error requests for one start-up failure (%v)", initErr, err)})
			}
			if len(gets) != 0 {
				problems = append(problems, [2]string{"next-after-startup-failure", fmt.Sprintf("%d GET event/next although start-up failed", len(gets))})
			}
		case <-time.After(60 * time.Second):
			if !cfg.Binary {
				r.Inconclusive("startup-failure-run-did-not-return")
				return
			}
			gets, initErr := snapshot()
			problems = append(problems, [2]string{"startup-failure-never-reported", fmt.Sprintf("60 s after its start the executable, whose server cannot start (%s), is still running: %d POST init/error, %d GET event/next", cfg.Failure, initErr, len(gets))})
		}
		if len(problems) > 0 && cfg.Binary && !confirm {
			// the executable's start-up window is 100 ms of real time: reproduce before reporting
			return "startup-failure"
		}
		for _, p := range problems {
			viol(p[0], p[1])
		}
		r.Eval(1)
		r.Event("startup_failures", 1)
		r.Nontrivial(fmt.Sprintf("startup-failure:%s binary%v statser-internal%v", cfg.Failure, cfg.Binary, cfg.InternalStatser))
		return
	}

	// ---- readiness: the forwarder's priming request reached the upstream, the manager waits on the mock clock,
	// the ingestion and telemetry servers accept connections
	client := &http.Client{Timeout: 30 * time.Second}
	ready := mon.WaitUntil(30*time.Second, func() bool {
		w.mu.Lock()
		primed := w.primed
		w.mu.Unlock()
		if !primed || (mock != nil && mock.Len() < 1) {
			return false
		}
		for _, a := range []string{ingestAddr, telemetryAddr} {
			c, err := net.DialTimeout("tcp", a, time.Second)
			if err != nil {
				return false
			}
			c.Close()
		}
		return true
	})
	select {
	case err := <-runErr:
		r.Inconclusive(fmt.Sprintf("setup:run-returned-early:%v", err != nil))
		return
	default:
	}
	if !ready {
		r.Inconclusive("setup:not-ready")
		return
	}

	var idc atomic.Int64
	var sentMu sync.Mutex
	var all []sent
	sendMany := func(n int) {
		ids := make([]string, n)
		for i := range ids {
			ids[i] = fmt.Sprintf("e%d-%d", cfg.Exec, idc.Add(1))
		}
		status, err := ingestNames(client, ingestAddr, ids)
		ack := r.Stamp()
		if err != nil || status < 200 || status > 299 {
			return
		}
		sentMu.Lock()
		for _, id := range ids {
			all = append(all, sent{id, ack})
		}
		sentMu.Unlock()
	}
	send := func(n int) {
		if cfg.ManyNames > 0 && n > 0 {
			sendMany(cfg.ManyNames)
			return
		}
		var wg sync.WaitGroup
		per := (n + cfg.Senders - 1) / cfg.Senders
		for s := 0; s < cfg.Senders && n > 0; s++ {
			k := per
			if k > n {
				k = n
			}
			n -= k
			wg.Add(1)
			go func(k int) {
				defer wg.Done()
				for k > 0 {
					m := 1 + int(idc.Load()%3)
					if m > k {
						m = k
					}
					k -= m
					ids := make([]string, m)
					for i := range ids {
						ids[i] = fmt.Sprintf("e%d-%d", cfg.Exec, idc.Add(1))
					}
					status, err := ingestTagged(client, ingestAddr, ids, cfg.DynHeaders)
					ack := r.Stamp()
					_ = status
					if err != nil || status < 200 || status > 299 {
						continue // not acknowledged: no obligation
					}
					sentMu.Lock()
					for _, id := range ids {
						all = append(all, sent{id, ack})
					}
					sentMu.Unlock()
				}
			}(k)
		}
		wg.Wait()
	}
	idle := func() bool {
		w.mu.Lock()
		defer w.mu.Unlock()
		for _, b := range w.order {
			for _, a := range b.attempts {
				if a.end == 0 {
					return false
				}
			}
		}
		return time.Since(time.Unix(0, w.lastUpstream.Load())) > 30*time.Second
	}
	waitGets := func(n int) bool {
		return mon.WaitUntil(90*time.Second, func() bool { g, _ := snapshot(); return len(g) >= n })
	}

	var phases []phase

	// ---- init phase
	if cfg.InitData {
		send(1 + rng.Intn(10))
	}
	if cfg.Binary {
		// the executable's 100 ms start-up wait is real time: the initial flush and the first GET may already have
		// happened while the init data was being sent, so nothing is owed before the first GET; whatever was
		// acknowledged so far is owed before the GET that follows the first runtime-done
		phases = append(phases, phase{done: 0, get: 1})
	} else {
		phases = append(phases, phase{done: r.Stamp(), get: 1})
	}
	if mock != nil {
		mock.Add(100 * time.Millisecond) // releases the manager's start-up wait: heartbeat starts with the initial flush
	}
	if !waitGets(1) {
		if idle() {
			return "wedged:follows-the-initial-flush"
		}
		r.Inconclusive("first-get-never-arrived")
		return
	}

	// ---- invocations
	for k := 1; k <= cfg.Invocations; k++ {
		w.next <- "INVOKE"
		if cfg.BadUTF8 {
			// accepted by the parser, not representable in protobuf: must cost at most itself
			if conn, err := net.Dial("udp", udpAddr); err == nil {
				// one kind of invalid content per invocation (kinds must not mask one another)
				_, _ = conn.Write([]byte([]string{"verif.bad:\xff\xfe\xfd|s\nverif.fine:1|c", "verif.badtag:1|c|#t:\xff\xfe\nverif.fine:1|c", "verif.badgauge:3|g|#\xc3\x28:x", "verif.badtimer:3|ms|#k:\xa0\xa1\nverif.bad2:ok\xf0\x28|s"}[k%4]))
				_ = conn.Close()
			}
		}
		send(rng.Intn(21))
		// telemetry: other record types around exactly one runtimeDone, possibly spread over several posts
		var recs []string
		for i, n := 0, rng.Intn(4); i < n; i++ {
			recs = append(recs, otherRecords[rng.Intn(len(otherRecords))])
		}
		pos := rng.Intn(len(recs) + 1)
		recs = append(recs[:pos], append([]string{"platform.runtimeDone"}, recs[pos:]...)...)
		split := len(recs)
		if rng.Intn(3) == 0 {
			split = rng.Intn(len(recs) + 1)
		}
		post := func(part []string, mark bool) {
			if len(part) == 0 {
				return
			}
			var arr []map[string]interface{}
			for _, t := range part {
				arr = append(arr, map[string]interface{}{"type": t, "time": "2026-01-01T00:00:00Z", "record": map[string]interface{}{"requestId": "r"}})
			}
			b, _ := json.Marshal(arr)
			if mark {
				phases = append(phases, phase{done: r.Stamp(), get: k + 1})
			}
			resp, err := client.Post("http://"+telemetryAddr+"/telemetry", "application/json", bytes.NewReader(b))
			if err == nil {
				_, _ = io.Copy(io.Discard, resp.Body)
				_ = resp.Body.Close()
			}
		}
		first, second := recs[:split], recs[split:]
		hasDone := func(p []string) bool {
			for _, t := range p {
				if t == "platform.runtimeDone" {
					return true
				}
			}
			return false
		}
		if cfg.HoldSlot {
			// Forced interleaving: an ingestion request (its data carries no obligation: it is acknowledged after
			// runtime-done) takes a consolidator slot and is held there; the runtime-done flush must wait for that
			// slot, because the slot's map may hold data acknowledged earlier in this invocation.
			held, release := make(chan struct{}), make(chan struct{})
			var armed atomic.Bool
			armed.Store(true)
			verifhook.Set("consolidator.slotHeld", func(string) {
				if armed.CompareAndSwap(true, false) {
					close(held)
					<-release
				}
			})
			lateDone := make(chan struct{})
			go func() { defer close(lateDone); send(1) }()
			select {
			case <-held:
				postDone := make(chan struct{})
				go func() { defer close(postDone); post(recs, true) }()
				time.Sleep(30 * time.Millisecond) // lets a flush that does not wait for the slot run ahead; not a synchronisation
				close(release)
				<-postDone
				r.Event("slot_held_during_runtime_done", 1)
			case <-time.After(20 * time.Second):
				armed.Store(false)
				close(release)
				post(recs, true)
			}
			<-lateDone
			verifhook.Clear("consolidator.slotHeld")
			first, second = nil, nil
		}
		post(first, hasDone(first))
		if cfg.LateData && rng.Intn(2) == 0 {
			send(1 + rng.Intn(4)) // arrives after (or around) runtime-done: belongs to a later flush
		}
		post(second, hasDone(second))
		// Bounded progress: the telemetry post carrying runtime-done has been answered, so the flush has been
		// triggered (the hook runs inside that request). Everything acknowledged before it must now be on its
		// way: each such id has to show up in an upstream request. 45 s is a watchdog far above the real
		// latency (milliseconds); a runtime-done that triggers no flush at all leaves the ids unsent for ever.
		doneStamp := phases[len(phases)-1].done
		sentMu.Lock()
		var pending []string
		for _, sd := range all {
			if sd.ack < doneStamp {
				pending = append(pending, sd.id)
			}
		}
		sentMu.Unlock()
		reached := mon.WaitUntil(45*time.Second, func() bool {
			w.mu.Lock()
			defer w.mu.Unlock()
			seen := map[string]bool{}
			for _, b := range w.order {
				for _, id := range b.ids {
					seen[id] = true
				}
			}
			for _, id := range pending {
				if !seen[id] {
					return false
				}
			}
			return true
		})
		if !reached {
			viol("runtime-done-did-not-flush", fmt.Sprintf("invocation %d: 45 s after the telemetry batch %v was delivered (runtime-done at position %d of %d), datapoints acknowledged before it have still not been sent upstream", k, recs, pos, len(recs)))
			return
		}
		if !waitGets(k + 1) {
			if idle() {
				return "wedged:follows-a-runtime-done-flush"
			}
			r.Inconclusive("next-get-never-arrived")
			return
		}
	}
	w.next <- "SHUTDOWN"
	cancel()
	select {
	case <-runErr:
	case <-time.After(60 * time.Second):
		r.Inconclusive("run-did-not-return-after-cancel")
	}

	// ---- offline ordering oracle
	w.mu.Lock()
	gets := append([]int64(nil), w.gets...)
	where := map[string][]*body{}
	for _, b := range w.order {
		for _, id := range b.ids {
			where[id] = append(where[id], b)
		}
	}
	nb, retried, dropped := len(w.order), 0, 0
	for _, b := range w.order {
		if len(b.attempts) > 1 {
			retried++
		}
		if b.attempts[len(b.attempts)-1].status >= 300 {
			dropped++
		}
	}
	initErr, register, subscribe := w.initErr, w.register, w.subscribe
	w.mu.Unlock()
	if register != 1 || subscribe != 1 {
		viol("registration-count", fmt.Sprintf("register=%d telemetry-subscribe=%d", register, subscribe))
	}
	if initErr != 0 {
		viol("init-error-without-failure", fmt.Sprintf("%d POST init/error in a healthy run", initErr))
	}
	obligations := 0
	for _, s := range all {
		// the first phase whose runtime-done (or start-up release) was signalled after the ack
		var ph *phase
		for i := range phases {
			if phases[i].done > s.ack {
				ph = &phases[i]
				break
			}
		}
		if ph == nil {
			continue // acknowledged after the last runtime-done: no obligation before shutdown
		}
		obligations++
		if ph.get > len(gets) {
			continue
		}
		g := gets[ph.get-1]
		bs := where[s.id]
		switch {
		case len(bs) == 0:
			viol("acked-datapoint-never-sent-upstream", fmt.Sprintf("datapoint %s acknowledged at stamp %d before the runtime-done signal at %d, but no upstream request carried it; GET event/next #%d arrived at stamp %d", s.id, s.ack, ph.done, ph.get, g))
		case len(bs) > 1:
			viol("datapoint-in-two-bodies", fmt.Sprintf("datapoint %s is in %d distinct upstream bodies", s.id, len(bs)))
		default:
			first, last := bs[0].attempts[0], bs[0].attempts[len(bs[0].attempts)-1]
			if bs[0].script == "retry" && cfg.WindowMS >= 30000 && last.end != 0 && last.status >= 300 {
				viol("refused-once-and-never-offered-again", fmt.Sprintf("datapoint %s: the only request that carried it was answered %d (upstream script: refuse once, then accept); with a %d ms retry window it was never offered again, yet GET event/next #%d was sent (attempts %d)", s.id, last.status, cfg.WindowMS, ph.get, len(bs[0].attempts)))
			}
			if last.end == 0 || last.end > g {
				viol("next-requested-before-delivery-finished", fmt.Sprintf("datapoint %s acknowledged at stamp %d before runtime-done (stamp %d): its upstream delivery attempt ended at stamp %d (began %d, %d attempts, script %s) but GET event/next #%d arrived at stamp %d", s.id, s.ack, ph.done, last.end, first.begin, len(bs[0].attempts), bs[0].script, ph.get, g))
			}
		}
	}
	r.Eval(1)
	r.Event("invocations", cfg.Invocations)
	r.Event("datapoints_acked", len(all))
	r.Event("ordering_obligations", obligations)
	r.Event("upstream_bodies", nb)
	r.Event("bodies_retried", retried)
	r.Event("bodies_abandoned", dropped)
	r.Event("get_next", len(gets))
	if cfg.Binary {
		r.Event("real_binary_executions", 1)
	}
	if obligations > 0 && (retried > 0 || dropped > 0 || contains(cfg.Upstream, "slow") || contains(cfg.Upstream, "glacial")) {
		r.Nontrivial(fmt.Sprintf("inv%d up%v init%v late%v senders%d retried%v dropped%v binary%v%s dyn%v timer%v bad%v", cfg.Invocations, cfg.Upstream, cfg.InitData, cfg.LateData, cfg.Senders, retried > 0, dropped > 0, cfg.Binary, cfg.ManualFlushKey, cfg.DynHeaders, cfg.TimerMS > 0, cfg.BadUTF8))
	}
	if r.WantSample() {
		var bl []map[string]interface{}
		for i, b := range w.order {
			if i > 5 {
				break
			}
			var at []string
			for _, a := range b.attempts {
				at = append(at, fmt.Sprintf("[%d..%d]=%d", a.begin, a.end, a.status))
			}
			bl = append(bl, map[string]interface{}{"ids": len(b.ids), "script": b.script, "attempts": at})
		}
		r.Sample(map[string]interface{}{"config": cfg, "get_next_stamps": gets, "phases_done_stamps": phases2(phases), "bodies": bl, "acked": len(all), "obligations": obligations})
	}
	return ""
}

type phase struct {
	done int64 // stamp taken just before the runtime-done signal was sent (or the start-up wait released)
	get  int   // index (1-based) of the GET that must follow
}

func phases2(p []phase) []int64 {
	var o []int64
	for _, x := range p {
		o = append(o, x.done)
	}
	return o
}

func contains(l []string, s string) bool {
	for _, x := range l {
		if x == s {
			return true
		}
	}
	return false
}

func TestCheck(t *testing.T) {
	r := mon.Start(t, "C20")
	defer r.Finish()
	r.Rule("one execution = lambda.NewExtension around a real forwarder-mode statsd.Server with manual flush, a fake Lambda runtime API, telemetry publisher, instrumented function (datapoints with unique ids POSTed to the ingestion endpoint, acknowledged by 2xx) and a scripted upstream (fast / slow / 503-then-ok with real back-off / permanently failing with a 1 s retry window); 3-6 invocations with 0-20 datapoints before the single runtime-done record, which is surrounded by other telemetry record types and sometimes split over two posts; optional data during init and after runtime-done; plus start-up failures (invalid server mode, missing api-endpoint, invalid compression type). Oracle: offline ordering check on logical stamps (ack < runtime-done signal => last upstream attempt ended < arrival of the following GET event/next), exactly one body per id, exactly one init/error and no GET next for a start-up failure. Non-trivial: an execution with at least one ordering obligation and a slow, retried or abandoned upstream body (or a start-up failure kind); distinct by configuration.")
	r.Assume("liveness (that the GET is eventually sent) is not decided: a GET that never arrives is inconclusive")
	r.Assume("the manager's 100ms start-up wait runs on a mock clock released by the harness once the forwarder has primed the upstream")
	var c struct {
		Config config `json:"config"`
	}
	if p := r.ReplayPayload(); p != nil && mon.ReplayCase(p, &c) != nil {
		runExecution(r, c.Config)
		r.Nontrivial("replay-a")
		r.Nontrivial("replay-b")
		return
	}
	n := r.N(32, 1200)
	rng := r.Rand("configs")
	shard, _ := r.Shard()
	scripts := [][]string{{"fast"}, {"slow"}, {"slow", "fast"}, {"retry", "fast"}, {"fast", "retry", "slow"}, {"dead", "fast"}, {"slow", "dead"}}
	for i := 0; i < n; i++ {
		cfg := config{Exec: shard*10000 + i, Invocations: 3 + rng.Intn(4), Upstream: scripts[rng.Intn(len(scripts))], InitData: rng.Intn(2) == 0,
			LateData: rng.Intn(2) == 0, Senders: 1 + rng.Intn(3), WindowMS: 1000}
		if contains(cfg.Upstream, "retry") {
			cfg.WindowMS = 30000
		}
		if (i+shard)%4 == 3 {
			cfg.Failure = []string{"mode", "endpoint", "compression", "http-server"}[rng.Intn(4)]
			cfg.InternalStatser = rng.Intn(2) == 0
		}
		// one execution per run with an upstream that needs several seconds (under the forwarder's 10 s client timeout)
		if i == 0 && shard < r.Pick(1, 4) {
			cfg.Failure = ""
			cfg.Upstream = []string{"glacial", "fast"}
			cfg.Invocations = 2
			cfg.InitData = false
			cfg.GlacialMS = []int{6500, 8500, 5200, 7400}[shard%4]
		}
		// one execution per run whose invocations carry thousands of distinct metric names (a flush that is
		// large in every dimension a forwarder might batch by), against a slow upstream
		if i == 0 && shard >= 4 && shard < 4+r.Pick(1, 4) {
			cfg.Failure, cfg.GlacialMS = "", 0
			cfg.Upstream = []string{"slow"}
			cfg.Invocations = 2
			cfg.ManyNames = []int{5000, 2500, 9000, 3100}[shard%4]
		}
		// forced interleaving: a slot held while runtime-done arrives
		if i == 1 || (r.Thorough() && i%5 == 1) {
			cfg.Failure = ""
			cfg.HoldSlot = true
		}
		// the real executable: main(), GetConfiguration and NewServer are part of the run; half of these carry
		// http-transport.dynamic-headers in the configuration file (documented as without effect in the extension)
		// and datapoints tagged with them, against an upstream whose bodies alternate between slow and fast
		// knobs outside the core: a forwarder timer of a few milliseconds (documented as not respected), datagrams
		// that are not valid UTF-8, the default internal statser with a slow upstream for its events
		if cfg.Failure == "" && !cfg.HoldSlot && cfg.GlacialMS == 0 && cfg.ManyNames == 0 {
			switch rng.Intn(4) {
			case 0:
				cfg.TimerMS = 2 + rng.Intn(6)
			case 1:
				cfg.BadUTF8 = true
			}
		}
		if i == 2 || i == 3 || (r.Thorough() && i%4 == 2) {
			cfg.Binary, cfg.HoldSlot, cfg.GlacialMS, cfg.ManyNames = true, false, 0, 0
			cfg.ManualFlushKey = []string{"", "true"}[rng.Intn(2)]
			if cfg.Failure == "mode" {
				cfg.Failure = []string{"endpoint", "compression", "http-server"}[rng.Intn(3)] // main() fixes the server mode
			}
			if i == 2 {
				switch (shard + i/4) % 4 {
				case 0:
					cfg.Failure, cfg.TimerMS, cfg.Upstream = "", 3+rng.Intn(5), []string{"slow"}
				case 1:
					cfg.Failure, cfg.BadUTF8 = "", true
				case 2:
					// a start-up failure after the statser exists, the default statser, an upstream slower than
					// the extension's 100 ms start-up window for the statser's events
					cfg.Failure, cfg.InternalStatser, cfg.EventLatencyMS = "http-server", true, 300+rng.Intn(500)
				case 3:
					// a start-up failure while the runtime API is slow to confirm the telemetry subscription
					cfg.Failure, cfg.SubscribeLatencyMS = []string{"endpoint", "compression", "http-server"}[rng.Intn(3)], 150+rng.Intn(300)
				}
			}
			if i%2 == 1 {
				cfg.DynHeaders = [][]string{{"tenant"}, {"tenant", "region"}}[rng.Intn(2)]
				cfg.Upstream = [][]string{{"slow", "fast"}, {"fast", "slow"}, {"slow", "fast", "fast"}}[rng.Intn(3)]
				cfg.WindowMS = 1000
			}
		}
		runExecution(r, cfg)
		if r.Violations() > 6 {
			return
		}
	}
	// start-up failure classification with a scripted server: every error kind, with and without manual flush
	kinds := []string{"plain", "nil", "canceled", "deadline", "wrapped-deadline"}
	for k := 0; k < 2*len(kinds); k++ {
		if !r.Mine(k) {
			continue
		}
		runExecution(r, config{Exec: 900000 + k, ScriptedServer: kinds[k%len(kinds)]})
	}
}
