//go:build verif

package c09

// Server-level phase of C09: the intervals a statsd.Server is configured with must be the ones its
// aggregators obey (the configuration phase sees the Server struct before createStandaloneSink wires the
// aggregator factory). A real standalone Server runs on a scripted PacketConn with a capturing backend; its
// flusher runs on the real clock, so the oracle works on recorded brackets (DESIGN §1): the instant at
// which Reset read the clock for flush g lies between the log line the flusher writes after Process
// ("aggregator.process_time") and the one it writes after Reset ("aggregator.reset_time") — the logging
// statser writes them synchronously on the aggregator's goroutine, a logrus hook stamps them. A verdict is
// only drawn when it is the same for every instant of the bracket.

import (
	"context"
	"errors"
	"fmt"
	"io"
	"net"
	"sort"
	"strings"
	"sync"
	"testing"
	"time"

	"github.com/sirupsen/logrus"
	"github.com/spf13/viper"

	"github.com/atlassian/gostatsd"
	"github.com/atlassian/gostatsd/pkg/statsd"
	"github.com/atlassian/gostatsd/pkg/transport"

	"verif/mon"
)

const (
	srvFlush     = 200 * time.Millisecond
	srvShort     = 80 * time.Millisecond  // ~0.4 x flush interval
	srvLong      = 600 * time.Millisecond // 3 x flush interval
	srvLead      = 35 * time.Millisecond  // the datagram is sent this long before an expected flush
	srvMargin    = 2 * time.Millisecond   // wall-clock readings are compared with this safety margin
	srvWatchdog  = 60 * time.Second
	srvTagPrefix = "verif_server:"
)

var srvIntervalClasses = map[string]time.Duration{"neg": -1, "zero": 0, "short": srvShort, "long": srvLong}

type srvEvent struct {
	kind string // call | process | reset
	at   int64  // UnixNano when recorded
	seen map[string]int64
}

// srvRecorder collects, in the order of the single aggregator goroutine, the backend calls and the two log lines.
type srvRecorder struct {
	mu     sync.Mutex
	events []srvEvent
}

func (rc *srvRecorder) add(e srvEvent) {
	rc.mu.Lock()
	rc.events = append(rc.events, e)
	rc.mu.Unlock()
}

func (rc *srvRecorder) snapshot() []srvEvent {
	rc.mu.Lock()
	defer rc.mu.Unlock()
	return append([]srvEvent(nil), rc.events...)
}

// srvHook routes the logging statser's lines to the recorder of the server named in their tags.
type srvHook struct {
	mu   sync.Mutex
	recs map[string]*srvRecorder
}

var theSrvHook = &srvHook{recs: map[string]*srvRecorder{}}
var srvHookOnce sync.Once

func (h *srvHook) Levels() []logrus.Level { return []logrus.Level{logrus.InfoLevel} }

func (h *srvHook) Fire(e *logrus.Entry) error {
	now := time.Now().UnixNano()
	name, _ := e.Data["name"].(string)
	kind := ""
	switch name {
	case "aggregator.process_time":
		kind = "process"
	case "aggregator.reset_time":
		kind = "reset"
	default:
		return nil
	}
	tags, _ := e.Data["tags"].(gostatsd.Tags)
	for _, t := range tags {
		if strings.HasPrefix(t, srvTagPrefix) {
			h.mu.Lock()
			rc := h.recs[strings.TrimPrefix(t, srvTagPrefix)]
			h.mu.Unlock()
			if rc != nil {
				rc.add(srvEvent{kind: kind, at: now})
			}
		}
	}
	return nil
}

// srvBackend records every flush it is handed: which of the watched series are in the map, with the timestamp they carry.
type srvBackend struct {
	rec *srvRecorder
}

func (b *srvBackend) Name() string                                           { return "verif-capture" }
func (b *srvBackend) SendEvent(ctx context.Context, e *gostatsd.Event) error { return nil }
func (b *srvBackend) SendMetricsAsync(ctx context.Context, mm *gostatsd.MetricMap, cb gostatsd.SendCallback) {
	at := time.Now().UnixNano()
	seen := map[string]int64{}
	mm.Counters.Each(func(name, _ string, c gostatsd.Counter) { seen["counter/"+name] = int64(c.Timestamp) })
	mm.Timers.Each(func(name, _ string, t gostatsd.Timer) { seen["timer/"+name] = int64(t.Timestamp) })
	mm.Gauges.Each(func(name, _ string, g gostatsd.Gauge) { seen["gauge/"+name] = int64(g.Timestamp) })
	mm.Sets.Each(func(name, _ string, s gostatsd.Set) { seen["set/"+name] = int64(s.Timestamp) })
	b.rec.add(srvEvent{kind: "call", at: at, seen: seen})
	cb(nil)
}

type srvPkt struct{ data []byte }

type srvConn struct {
	ch     chan srvPkt
	closed chan struct{}
	once   sync.Once
}

func (c *srvConn) ReadFrom(b []byte) (int, net.Addr, error) {
	select {
	case p := <-c.ch:
		return copy(b, p.data), &net.UDPAddr{IP: net.IPv4(127, 0, 0, 1), Port: 4000}, nil
	case <-c.closed:
		return 0, nil, errors.New("use of closed network connection")
	}
}
func (c *srvConn) WriteTo(b []byte, addr net.Addr) (int, error) { return len(b), nil }
func (c *srvConn) Close() error                                 { c.once.Do(func() { close(c.closed) }); return nil }
func (c *srvConn) LocalAddr() net.Addr                          { return &net.UDPAddr{IP: net.IPv4(127, 0, 0, 1), Port: 8125} }
func (c *srvConn) SetDeadline(time.Time) error                  { return nil }
func (c *srvConn) SetReadDeadline(time.Time) error              { return nil }
func (c *srvConn) SetWriteDeadline(time.Time) error             { return nil }

// flushObs is one flush as reconstructed from the recorder: what the backend saw and the bracket of its Reset.
type flushObs struct {
	call       int64
	seen       map[string]int64
	resetLower int64 // process_time line: Reset has not read the clock yet
	resetUpper int64 // reset_time line: Reset has returned
	complete   bool
}

func srvFlushes(events []srvEvent) []flushObs {
	var out []flushObs
	for _, e := range events {
		switch e.kind {
		case "call":
			out = append(out, flushObs{call: e.at, seen: e.seen})
		case "process":
			if n := len(out); n > 0 && out[n-1].resetLower == 0 {
				out[n-1].resetLower = e.at
			}
		case "reset":
			if n := len(out); n > 0 && out[n-1].resetLower != 0 && out[n-1].resetUpper == 0 {
				out[n-1].resetUpper = e.at
				out[n-1].complete = true
			}
		}
	}
	return out
}

// srvCase is one server: which interval class each type gets.
type srvCase struct {
	ID      string            `json:"id"`
	Classes map[string]string `json:"interval_class_by_type"` // counter|gauge|set|timer -> neg|zero|short|long
}

type srvWitness struct {
	Server *srvCase `json:"server_case"`
	Log    []string `json:"observed,omitempty"`
}

func runServerCase(r *mon.Run, sc *srvCase) {
	rec := &srvRecorder{}
	theSrvHook.mu.Lock()
	theSrvHook.recs[sc.ID] = rec
	theSrvHook.mu.Unlock()
	iv := func(typ string) time.Duration { return srvIntervalClasses[sc.Classes[typ]] }
	v := viper.New()
	discard := logrus.New()
	discard.SetOutput(io.Discard)
	srv := &statsd.Server{
		Backends:              []gostatsd.Backend{&srvBackend{rec: rec}},
		InternalTags:          gostatsd.Tags{srvTagPrefix + sc.ID},
		ExpiryIntervalCounter: iv("counter"), ExpiryIntervalGauge: iv("gauge"), ExpiryIntervalSet: iv("set"), ExpiryIntervalTimer: iv("timer"),
		FlushInterval: srvFlush, MaxReaders: 1, MaxParsers: 1, MaxWorkers: 1, MaxQueueSize: 100, MaxConcurrentEvents: 1, ReceiveBatchSize: 1,
		StatserType: gostatsd.StatserLogging, PercentThreshold: []float64{90}, HistogramLimit: 10, IgnoreHost: true,
		ServerMode: "standalone", DisableInternalEvents: true, Viper: v, TransportPool: transport.NewTransportPool(discard, v),
	}
	conn := &srvConn{ch: make(chan srvPkt), closed: make(chan struct{})}
	ctx, cancel := context.WithCancel(context.Background())
	done := make(chan error, 1)
	go func() { done <- srv.RunWithCustomSocket(ctx, func() (net.PacketConn, error) { return conn, nil }) }()
	defer func() {
		cancel()
		<-done
	}()

	// learn the phase of the flusher's ticker from two flushes, then send one datagram shortly before the next one
	if !mon.WaitUntil(srvWatchdog, func() bool { return len(srvFlushes(rec.snapshot())) >= 2 }) {
		r.Inconclusive("server-phase:no-flushes")
		return
	}
	fl := srvFlushes(rec.snapshot())
	next := time.Unix(0, fl[len(fl)-1].call).Add(srvFlush - srvLead)
	for next.Before(time.Now()) {
		next = next.Add(srvFlush)
	}
	time.Sleep(time.Until(next)) // stimulus timing only: a late datagram changes which assertions are decidable, never a verdict
	names := map[string]string{"counter": "srv_c", "gauge": "srv_g", "set": "srv_s", "timer": "srv_t"}
	conn.ch <- srvPkt{data: []byte("srv_c:3|c\nsrv_g:5|g\nsrv_s:x|s\nsrv_t:7|ms\n")}
	sentAfter := len(fl)

	// wait for the carrying flush and six more, completely bracketed
	carrying := func(f []flushObs) int {
		for i := sentAfter; i < len(f); i++ {
			if _, ok := f[i].seen["counter/srv_c"]; ok {
				return i
			}
		}
		return -1
	}
	if !mon.WaitUntil(srvWatchdog, func() bool {
		f := srvFlushes(rec.snapshot())
		c := carrying(f)
		return c >= 0 && len(f) >= c+8
	}) {
		r.Inconclusive("server-phase:watchdog")
		return
	}
	fl = srvFlushes(rec.snapshot())
	f0 := carrying(fl)
	r.Event("server_runs", 1)

	var log []string
	for i := f0; i < len(fl) && i < f0+8; i++ {
		keys := make([]string, 0, len(fl[i].seen))
		for k := range fl[i].seen {
			keys = append(keys, k)
		}
		sort.Strings(keys)
		log = append(log, fmt.Sprintf("flush %d: call=+%s reset in [+%s, +%s] series=%v", i-f0, time.Duration(fl[i].call-fl[f0].call), time.Duration(fl[i].resetLower-fl[f0].call), time.Duration(fl[i].resetUpper-fl[f0].call), keys))
	}
	wit := &srvWitness{Server: sc, Log: log}

	for _, typ := range []string{"counter", "gauge", "set", "timer"} {
		key := typ + "/" + names[typ]
		class := sc.Classes[typ]
		interval := int64(srvIntervalClasses[class])
		T, ok := fl[f0].seen[key]
		if !ok {
			r.Violation("server-expiry:not-in-carrying-flush:"+typ, fmt.Sprintf("server %s: %s sent in one datagram with the counter is missing from the flush that carries the counter; %v", sc.ID, key, log), wit)
			continue
		}
		for g := f0; g+1 < len(fl) && g < f0+6; g++ {
			if !fl[g].complete {
				r.Inconclusive("server-phase:incomplete-bracket")
				break
			}
			_, present := fl[g+1].seen[key]
			want := "" // present | absent | "" (undecidable inside the bracket)
			switch {
			case interval == 0:
				want = "present"
			case interval < 0:
				want = "absent"
			case fl[g].resetUpper-T <= interval-int64(srvMargin):
				want = "present"
			case fl[g].resetLower-T > interval+int64(srvMargin):
				want = "absent"
			}
			if want == "" {
				r.Event("server_undecidable_brackets", 1)
				r.Inconclusive("server-phase:bracket-straddles-interval")
				break
			}
			r.Eval(1)
			r.Event("server_assertions", 1)
			r.Nontrivial(fmt.Sprintf("srv:%s:%s:%s", typ, class, want))
			if want == "present" && !present {
				r.Violation(fmt.Sprintf("server-expiry:missing-before-expiry:%s:%s", typ, class),
					fmt.Sprintf("server %s (flush interval %s, %s expiry %s): %s received at T is missing from flush %d although the Reset of flush %d ran at most %s after T, within its expiry; %v",
						sc.ID, srvFlush, typ, time.Duration(interval), key, g+1-f0, g-f0, time.Duration(fl[g].resetUpper-T), log), wit)
				break
			}
			if want == "absent" && present {
				r.Violation(fmt.Sprintf("server-expiry:present-after-expiry:%s:%s", typ, class),
					fmt.Sprintf("server %s (flush interval %s, %s expiry %s): %s received at T is still in flush %d although the Reset of flush %d ran at least %s after T, beyond its expiry, and nothing was sent since; %v",
						sc.ID, srvFlush, typ, time.Duration(interval), key, g+1-f0, g-f0, time.Duration(fl[g].resetLower-T), log), wit)
				break
			}
			if !present {
				break // gone as expected; nothing more to watch
			}
		}
	}
	if r.WantSample() {
		r.Sample(wit)
	}
}

// serverPhase runs four servers at once (a Latin square: every type meets every interval class).
func serverPhase(t *testing.T, r *mon.Run) {
	srvHookOnce.Do(func() {
		logrus.SetOutput(io.Discard)
		logrus.SetLevel(logrus.InfoLevel)
		logrus.AddHook(theSrvHook)
	})
	classes := []string{"neg", "zero", "short", "long"}
	types := []string{"counter", "gauge", "set", "timer"}
	var wg sync.WaitGroup
	for i := 0; i < 4; i++ {
		sc := &srvCase{ID: fmt.Sprintf("s%d", i), Classes: map[string]string{}}
		for j, typ := range types {
			sc.Classes[typ] = classes[(i+j)%4]
		}
		wg.Add(1)
		go func() { // no PRNG in these goroutines
			defer wg.Done()
			r.Case("server phase %s %v", sc.ID, sc.Classes)
			runServerCase(r, sc)
		}()
	}
	wg.Wait()
}
