//go:build verif

// C09 — series persist until their type's expiry interval elapses, then disappear.
package c09

import (
	"fmt"
	"math/rand"
	"sort"
	"strconv"
	"strings"
	"testing"
	"time"

	"github.com/atlassian/gostatsd"
	"github.com/atlassian/gostatsd/pkg/statsd"

	"verif/mon"
	"verif/ref"
)

const (
	tCounter = 1
	tTimer   = 2
	tGauge   = 3
	tSet     = 4

	baseTime = int64(1_700_000_000) * int64(time.Second) // virtual epoch, UnixNano
)

var typeNames = map[int]string{tCounter: "counter", tTimer: "timer", tGauge: "gauge", tSet: "set"}

// step is one element of a history: a datapoint for series (Type, Key) or a flush, at virtual time T
// (nanoseconds after baseTime; non-decreasing along the history).
type step struct {
	Flush bool    `json:"flush,omitempty"`
	T     int64   `json:"t"`
	Type  int     `json:"type,omitempty"`
	Key   int     `json:"key,omitempty"`
	Value float64 `json:"value,omitempty"`
	Str   string  `json:"str,omitempty"`
	// More: further datapoints of the same series in the same batch (counter +5 and -5 in one map)
	More []float64 `json:"more,omitempty"`
	// Noop marks a datapoint that changes no value but must still count as the series' last datapoint
	Noop bool `json:"noop,omitempty"`
}

// history is a complete, self-contained case.
type history struct {
	// expiry intervals in nanoseconds, indexed by type (1 counter 2 timer 3 gauge 4 set; [0] unused)
	Intervals [5]int64 `json:"intervals_ns"`
	Steps     []step   `json:"steps"`
}

func seriesName(key int) string { return "s" + strconv.Itoa(key) }

var seriesTags = []string{"k:v"}

func mapKey(typ, key int) string {
	return ref.Key(typ, seriesName(key), ref.TagsKey(seriesTags, ""))
}

// ---------------------------------------------------------------------------------------------
// what one flush showed

type seen struct {
	counter   int64
	perSecond float64
	gauge     float64
	members   int
	count     int
	timerPS   float64
	nValues   int
	nPct      int
}

func capture(mm *gostatsd.MetricMap) map[string]seen {
	out := map[string]seen{}
	mm.Counters.Each(func(name, tk string, c gostatsd.Counter) {
		out[ref.Key(tCounter, name, tk)] = seen{counter: c.Value, perSecond: c.PerSecond}
	})
	mm.Timers.Each(func(name, tk string, t gostatsd.Timer) {
		out[ref.Key(tTimer, name, tk)] = seen{count: t.Count, timerPS: t.PerSecond, nValues: len(t.Values), nPct: len(t.Percentiles)}
	})
	mm.Gauges.Each(func(name, tk string, g gostatsd.Gauge) {
		out[ref.Key(tGauge, name, tk)] = seen{gauge: g.Value}
	})
	mm.Sets.Each(func(name, tk string, s gostatsd.Set) {
		out[ref.Key(tSet, name, tk)] = seen{members: len(s.Values)}
	})
	return out
}

// ---------------------------------------------------------------------------------------------
// the expiry automaton (oracle)

type sstate struct {
	typ, key     int
	present      bool
	lastData     int64     // T: time of the newest datapoint
	pending      bool      // data arrived since the previous flush
	gaugeAllowed []float64 // values of the datapoints carrying the newest timestamp
	expiredOnce  bool
	idleFlushes  int
}

type automaton struct {
	intervals [5]int64
	series    map[string]*sstate
	// per-history coverage
	crossed     bool
	reappeared  bool
	distClasses map[string]bool
}

func newAutomaton(iv [5]int64) *automaton {
	return &automaton{intervals: iv, series: map[string]*sstate{}, distClasses: map[string]bool{}}
}

func (a *automaton) datapoint(s step) {
	k := mapKey(s.Type, s.Key)
	st := a.series[k]
	if st == nil {
		st = &sstate{typ: s.Type, key: s.Key}
		a.series[k] = st
	}
	fresh := !st.present
	if fresh {
		st.present = true
		st.gaugeAllowed = nil
		if st.expiredOnce {
			a.reappeared = true
		}
	}
	if s.Type == tGauge {
		if fresh || s.T > st.lastData {
			st.gaugeAllowed = []float64{s.Value}
		} else { // same instant as the newest datapoint: the statement does not order them
			st.gaugeAllowed = append(st.gaugeAllowed, s.Value)
		}
	}
	if fresh || s.T > st.lastData {
		st.lastData = s.T
	}
	st.pending = true
	st.idleFlushes = 0
}

func signClass(iv int64) string {
	switch {
	case iv < 0:
		return "neg"
	case iv == 0:
		return "zero"
	default:
		return "pos"
	}
}

type diff struct{ sig, detail string }

// flush compares the map shown at a flush at time tf with the automaton, then advances it.
func (a *automaton) flush(tf int64, got map[string]seen) []diff {
	var out []diff
	keys := make([]string, 0, len(a.series))
	for k := range a.series {
		keys = append(keys, k)
	}
	sort.Strings(keys)
	for _, k := range keys {
		st := a.series[k]
		iv := a.intervals[st.typ]
		tn := typeNames[st.typ]
		g, ok := got[k]
		switch {
		case st.present && !ok:
			out = append(out, diff{"missing-before-expiry:" + tn + ":" + signClass(iv),
				fmt.Sprintf("%s %q missing from the flush at t=%s: last datapoint at T=%s, expiry %s, and no earlier flush happened more than the expiry after T", tn, k, ns(tf), ns(st.lastData), time.Duration(iv))})
		case !st.present && ok:
			out = append(out, diff{"present-after-expiry:" + tn + ":" + signClass(iv),
				fmt.Sprintf("%s %q reported by the flush at t=%s although a flush more than its expiry (%s) after its last datapoint (T=%s) already happened and no new data arrived: %+v", tn, k, ns(tf), time.Duration(iv), ns(st.lastData), g)})
		case st.present && ok:
			if st.typ == tGauge {
				found := false
				for _, v := range st.gaugeAllowed {
					found = found || ref.SameFloat(v, g.gauge)
				}
				if !found {
					out = append(out, diff{"gauge-value", fmt.Sprintf("gauge %q = %v at the flush at t=%s (idle=%v), want its last value %v", k, g.gauge, ns(tf), !st.pending, st.gaugeAllowed)})
				}
			}
			if !st.pending {
				bad := ""
				switch st.typ {
				case tCounter:
					if g.counter != 0 || g.perSecond != 0 {
						bad = fmt.Sprintf("count=%d per-second=%v, want 0 and 0", g.counter, g.perSecond)
					}
				case tSet:
					if g.members != 0 {
						bad = fmt.Sprintf("%d members, want none", g.members)
					}
				case tTimer:
					if g.count != 0 || g.nPct != 0 || g.nValues != 0 || g.timerPS != 0 {
						bad = fmt.Sprintf("count=%d per-second=%v values=%d percentile entries=%d, want 0 / no values / no percentiles", g.count, g.timerPS, g.nValues, g.nPct)
					}
				}
				if bad != "" {
					out = append(out, diff{"idle-value:" + tn, fmt.Sprintf("idle %s %q at the flush at t=%s (last datapoint T=%s): %s", tn, k, ns(tf), ns(st.lastData), bad)})
				}
			}
		}
	}
	// a series the history never fed must not appear either
	for k := range got {
		if _, known := a.series[k]; !known {
			out = append(out, diff{"unknown-series", fmt.Sprintf("series %q reported but never received", k)})
		}
	}
	// advance
	for _, k := range keys {
		st := a.series[k]
		if !st.present {
			continue
		}
		iv := a.intervals[st.typ]
		if !st.pending {
			st.idleFlushes++
		}
		st.pending = false
		if iv != 0 {
			d := tf - st.lastData - iv
			if d > 0 {
				st.present = false
				st.expiredOnce = true
				a.crossed = true
				if iv > 0 {
					switch {
					case d == 1:
						a.distClasses["+1ns"] = true
					case d <= int64(time.Second):
						a.distClasses["<=1s"] = true
					default:
						a.distClasses[">1s"] = true
					}
				} else {
					a.distClasses["neg"] = true
				}
			} else if d == 0 {
				a.distClasses["eq"] = true
			} else if d == -1 {
				a.distClasses["-1ns"] = true
			}
		}
	}
	return out
}

func ns(t int64) string { return "+" + time.Duration(t).String() }

// ---------------------------------------------------------------------------------------------
// driving the real aggregator

type checker struct {
	r *mon.Run
}

func (s step) metric() *gostatsd.Metric {
	return &gostatsd.Metric{Name: seriesName(s.Key), Type: gostatsd.MetricType(s.Type), Value: s.Value, StringValue: s.Str, Rate: 1,
		Tags: append(gostatsd.Tags(nil), seriesTags...), Timestamp: gostatsd.Nanotime(baseTime + s.T)}
}

func (c *checker) eval(h *history) {
	d := func(i int) time.Duration { return time.Duration(h.Intervals[i]) }
	agg := statsd.NewMetricAggregator([]float64{90, -50}, d(tCounter), d(tGauge), d(tSet), d(tTimer), gostatsd.TimerSubtypes{}, 4)
	var now int64
	agg.VerifSetNow(func() time.Time { return time.Unix(0, baseTime+now) })
	au := newAutomaton(h.Intervals)
	flushes, dps, noops := 0, 0, 0
	panicked := c.r.Guard("aggregator-panic", h, func() {
		for i, s := range h.Steps {
			now = s.T
			if !s.Flush {
				mm := gostatsd.NewMetricMap(false)
				mm.Receive(s.metric())
				for _, v := range s.More {
					m := s.metric()
					m.Value = v
					mm.Receive(m)
				}
				if s.Noop {
					noops++
				}
				agg.ReceiveMap(mm)
				au.datapoint(s)
				dps++
				continue
			}
			agg.Flush(time.Second)
			var got map[string]seen
			agg.Process(func(mm *gostatsd.MetricMap) { got = capture(mm) })
			agg.Reset()
			flushes++
			for _, df := range au.flush(s.T, got) {
				c.r.Violation(df.sig, fmt.Sprintf("step %d, expiry counter=%s gauge=%s set=%s timer=%s: %s", i, d(tCounter), d(tGauge), d(tSet), d(tTimer), df.detail), h)
			}
		}
	})
	c.r.Eval(1)
	c.r.Event("flushes", flushes)
	c.r.Event("datapoints", dps)
	c.r.Event("noop_refresh_datapoints", noops)
	if panicked {
		return
	}
	if au.crossed {
		c.r.Event("histories_with_expiry", 1)
	}
	if au.reappeared {
		c.r.Event("histories_with_reappearance", 1)
	}
	for k := range au.distClasses {
		c.r.Event("boundary:"+k, 1)
	}
	if au.crossed && au.reappeared {
		pat := ""
		for _, t := range []int{tCounter, tGauge, tSet, tTimer} {
			pat += signClass(h.Intervals[t])[:1]
		}
		cls := make([]string, 0, len(au.distClasses))
		for k := range au.distClasses {
			cls = append(cls, k)
		}
		sort.Strings(cls)
		c.r.Nontrivial(pat + ":" + strings.Join(cls, ","))
		if c.r.WantSample() && len(h.Steps) <= 16 && au.distClasses["eq"] {
			c.r.Sample(h)
		}
	}
}

// ---------------------------------------------------------------------------------------------
// generator

var intervalPool = []int64{-int64(time.Second), 0, int64(time.Second), int64(10 * time.Second), int64(time.Hour)}

func pick(rng *rand.Rand, v ...int64) int64 { return v[rng.Intn(len(v))] }

func genHistory(rng *rand.Rand, maxSteps int) *history {
	var iv [5]int64
	for t := 1; t <= 4; t++ {
		iv[t] = intervalPool[rng.Intn(len(intervalPool))]
	}
	return genHistoryWith(rng, maxSteps, iv)
}

// genHistoryWith draws a history for given per-type expiry intervals (any values: the aimed flushes use them).
func genHistoryWith(rng *rand.Rand, maxSteps int, intervals [5]int64) *history {
	h := &history{Intervals: intervals}
	type sk struct{ typ, key int }
	all := []sk{}
	for t := 1; t <= 4; t++ {
		for k := 0; k < 2; k++ {
			all = append(all, sk{t, k})
		}
	}
	rng.Shuffle(len(all), func(i, j int) { all[i], all[j] = all[j], all[i] })
	series := all[:1+rng.Intn(6)]
	last := map[sk]int64{}
	fed := []sk{}
	const s = int64(time.Second)
	t := int64(0)
	n := 5 + rng.Intn(maxSteps-4)
	members := 0
	for i := 0; i < n; i++ {
		if rng.Intn(100) < 12 {
			// a datapoint that changes nothing (counter 0, counter +5 and -5 in one batch, gauge repeating its
			// value, set member already present) still is the series' last datapoint: place it so that a flush
			// falls past the interval counted from the old T but within it counted from the new T, then look again
			k := series[rng.Intn(len(series))]
			if iv := h.Intervals[k.typ]; iv > 0 && k.typ != tTimer {
				first := step{T: t, Type: k.typ, Key: k.key}
				noop := step{Type: k.typ, Key: k.key, Noop: true}
				switch k.typ {
				case tCounter:
					first.Value = float64(1 + rng.Intn(5))
					if rng.Intn(2) == 0 {
						noop.Value, noop.More = 5, []float64{-5}
					}
				case tGauge:
					first.Value = float64(rng.Intn(2001)-1000) / 4
					noop.Value = first.Value
				case tSet:
					first.Str = "m0"
					noop.Str = "m0"
				}
				h.Steps = append(h.Steps, first)
				if k.typ != tSet && rng.Intn(2) == 0 { // the series is idle and persisted when the no-op arrives
					h.Steps = append(h.Steps, step{Flush: true, T: t})
				}
				d := pick(rng, 1, iv/2, iv-1, iv)
				if d < 1 {
					d = 1
				}
				noop.T = t + d
				f1 := t + iv + 1                                        // past the interval from the old T, at most iv after the new one
				f2 := pick(rng, f1, f1, noop.T+iv, f1+(noop.T+iv-f1)/2) // still within the interval from the new T
				h.Steps = append(h.Steps, noop, step{Flush: true, T: f1}, step{Flush: true, T: f2})
				if _, ok := last[k]; !ok {
					fed = append(fed, k)
				}
				last[k] = noop.T
				t = f2
				continue
			}
		}
		forceFlush := false
		switch x := rng.Intn(10); {
		case x < 3:
		case x == 3:
			t++
		case x == 4:
			t += pick(rng, s/2, s-1, s, s+1, 2*s, 5*s)
		case x == 5:
			t += pick(rng, 10*s-1, 10*s, 10*s+1, 11*s, 30*s, 9*s)
		case x == 6:
			t += pick(rng, 3600*s-1, 3600*s, 3600*s+1, 7200*s, 1800*s)
		default: // aim at the boundary of a series that has data
			if len(fed) > 0 {
				k := fed[rng.Intn(len(fed))]
				iv := h.Intervals[k.typ]
				if iv > 0 {
					target := last[k] + iv + pick(rng, 0, 0, 1, 1, -1, s)
					if target >= t {
						t = target
						forceFlush = true
					}
				}
			}
		}
		if forceFlush || rng.Intn(100) < 45 {
			h.Steps = append(h.Steps, step{Flush: true, T: t})
			continue
		}
		k := series[rng.Intn(len(series))]
		st := step{T: t, Type: k.typ, Key: k.key}
		switch k.typ {
		case tCounter:
			st.Value = float64(1 + rng.Intn(5))
		case tTimer:
			st.Value = float64(rng.Intn(100))
		case tGauge:
			st.Value = float64(rng.Intn(2001)-1000) / 4
		case tSet:
			members++
			st.Str = "m" + strconv.Itoa(members%5)
		}
		if _, ok := last[k]; !ok {
			fed = append(fed, k)
		}
		last[k] = t
		h.Steps = append(h.Steps, st)
	}
	// always end with two flushes so that the last datapoints are observed idle at least once
	h.Steps = append(h.Steps, step{Flush: true, T: t}, step{Flush: true, T: t + pick(rng, 0, 1, s, s+1)})
	return h
}

// corpus: one hand-written history per (type, interval) walking exactly over the boundary.
func corpus() []*history {
	var out []*history
	const s = int64(time.Second)
	for typ := 1; typ <= 4; typ++ {
		for _, iv := range intervalPool {
			for other := range intervalPool {
				h := &history{}
				for t := 1; t <= 4; t++ {
					h.Intervals[t] = intervalPool[(other+t)%len(intervalPool)]
				}
				h.Intervals[typ] = iv
				dp := func(t int64, v float64) step {
					st := step{T: t, Type: typ, Key: 0, Value: v}
					if typ == tSet {
						st.Str = "m"
						st.Value = 0
					}
					return st
				}
				fl := func(t int64) step { return step{Flush: true, T: t} }
				b := iv
				if b <= 0 {
					b = 10 * s
				}
				h.Steps = []step{dp(5, 3), fl(5), fl(6), fl(5 + b - 1), fl(5 + b), fl(5 + b), fl(5 + b + 1), fl(5 + b + 1), fl(5 + b + 2),
					dp(5+b+2, 4), fl(5 + b + 2), dp(5+b+3, 7), fl(5 + 2*b + 3), fl(5 + 2*b + 4), fl(5 + 2*b + 4), fl(5 + 3*b + 5), fl(5 + 3*b + 5)}
				out = append(out, h)
			}
		}
	}
	return out
}

func TestCheck(t *testing.T) {
	r := mon.Start(t, "C09")
	defer r.Finish()
	r.Rule("cases: histories of up to 40 steps (datapoint(type,key) at t | flush at t) over at most 6 series of the four types, non-decreasing virtual t with deltas from {0, 1ns, around 1s, around 10s, around 1h} and 30% of the flushes aimed at T+expiry+{-1ns,0,+1ns,+1s} of a live series; per-type expiry drawn independently from {-1s, 0, 1s, 10s, 1h}; the aggregator clock is set (VerifSetNow) to the virtual t before every step, datapoint timestamps are the virtual t; flush = Flush + Process(capture) + Reset on a real MetricAggregator. Oracle: per-series expiry automaton (present until the first flush later than T+expiry, forever for 0, one flush for negative) comparing the key set of every flushed map, the idle values (counter 0/0, set empty, timer count 0 / no values / no percentiles) and the gauge's last value. Plus a fixed corpus walking each (type, expiry) across its boundary. 12% of the generator steps are a no-op refresh: a datapoint that changes no value (counter 0, counter +5 and -5 in one batch, gauge repeating its value, set member already present) placed so that a flush falls past the interval from the old T but within it from the new T, followed by a second flush at which the series must still be reported. Non-trivial: a history in which at least one series expires and at least one re-appears after expiry; distinct by (sign pattern of the four expiries, set of boundary distances met: -1ns, eq, +1ns, <=1s, >1s, neg). Server phase (one shard): four real standalone statsd.Server instances (scripted PacketConn, capturing backend, one aggregator, flush interval 200ms on the real clock, logging statser) with per-type expiry from {-1ns, 0, 80ms, 600ms} arranged as a Latin square receive one datagram with the four types about 35ms before a flush; the series own timestamp T and, per flush, the bracket [process_time log line, reset_time log line] around the Reset are recorded; presence at the next flush is asserted only when Reset-T is on one side of the expiry for the whole bracket (2ms margin), otherwise the step is inconclusive; distinct by (type, interval class, expected presence). Configuration phase (shard 0): cmd/gostatsd of the tree under test is built with the verif tag and run about 550 times (GOSTATSD_VERIF_DUMP_SERVER=1 prints the constructed server and exits) over expiry-interval in {unset, 0, -1s, 1s, 10m} x per-type settings in {unset, 0, -1s, 30s} (none, each type alone, all four, random combinations; two spellings per value), given by command-line flag, GSD_ environment variable, TOML file, YAML file, or a different source per parameter; oracle = README precedence: own setting, else expiry-interval, else 5m (0 stays 0, negative stays negative); distinct by (source kind, which types are overridden, sign of expiry-interval). Twelve of the dumped interval tuples then drive 25 automaton histories each.")
	r.Assume("datapoints at one instant for one gauge are unordered: either value is accepted as the last value")
	c := &checker{r: r}

	if p := r.ReplayPayload(); p != nil {
		var rc struct {
			history
			Invocation *invocation `json:"invocation"`
			Server     *srvCase    `json:"server_case"`
		}
		if mon.ReplayCase(p, &rc) == nil || (rc.Invocation == nil && rc.Server == nil && len(rc.Steps) == 0) {
			t.Skip("no case in replay file")
		}
		if rc.Server != nil {
			serverPhase(t, r) // real time: the four servers are simply run again
		} else if rc.Invocation != nil {
			replayInvocation(t, r, rc.Invocation)
		} else {
			c.eval(&rc.history)
		}
		r.Nontrivial("replay-a")
		r.Nontrivial("replay-b")
		return
	}

	rng := r.Rand("c09")
	n := r.N(5000, 20000000)
	for i := 0; i < n; i++ {
		h := genHistory(rng, 40)
		c.eval(h)
	}
	if s, n := r.Shard(); s == 1%n {
		// server-level phase: a real statsd.Server on the real clock, judged on recorded brackets
		serverPhase(t, r)
	}
	if s, _ := r.Shard(); s == 0 {
		cs := corpus()
		for _, h := range cs {
			c.eval(h)
		}
		r.Event("boundary_corpus", len(cs))
		// configuration phase: how flags, environment and configuration file are mapped onto the four intervals
		configPhase(t, r, c)
	}
}
