//go:build verif

package c09

// Configuration phase of C09: "each metric type obeys its own interval" also depends on how
// cmd/gostatsd maps flags, environment variables and the configuration file onto the four intervals
// (README: expiry-interval-<type> > expiry-interval > default 5 minutes; 0 stays 0, negative stays
// negative). The real binary, built with the verif tag, dumps the server it constructed and exits.

import (
	"bytes"
	"context"
	"encoding/json"
	"fmt"
	"math/rand"
	"os"
	"os/exec"
	"path/filepath"
	"sort"
	"strings"
	"sync"
	"testing"
	"time"

	"verif/mon"
)

const documentedDefault = int64(5 * time.Minute)

// documented parameter names (README "expiry-interval", "expiry-interval-<type>"), indexed like the types
var paramNames = [5]string{"expiry-interval", "expiry-interval-counter", "expiry-interval-timer", "expiry-interval-gauge", "expiry-interval-set"}

var dumpFields = [5]string{"", "expiry_interval_counter_ns", "expiry_interval_timer_ns", "expiry_interval_gauge_ns", "expiry_interval_set_ns"}

// setting is one parameter of an invocation: not given, or given as Text through Source.
type setting struct {
	Given  bool   `json:"given"`
	Text   string `json:"text,omitempty"`   // a Go duration ("0", "-1s", "30s", "600s"...)
	Source string `json:"source,omitempty"` // flag | env | file
}

// invocation is one way of configuring the expiry intervals. Index 0 = expiry-interval, 1..4 = per type.
type invocation struct {
	Kind     string     `json:"kind"` // flag | env | toml | yaml | mixed
	Settings [5]setting `json:"settings"`
	FileExt  string     `json:"file_ext,omitempty"` // toml | yaml
	ZeroInt  bool       `json:"zero_as_integer"`    // write a 0 in the file as the integer 0 instead of "0"
	SplitArg bool       `json:"split_flag_value"`   // --key value instead of --key=value
	// derived
	Args []string `json:"args"`
	Env  []string `json:"env"`
	File string   `json:"file,omitempty"`
}

func envName(param string) string {
	return "GSD_" + strings.ToUpper(strings.ReplaceAll(param, "-", "_"))
}

// render derives the command line, the environment and the configuration file from the settings.
func (inv *invocation) render() {
	inv.Args, inv.Env, inv.File = []string{"--backends=stdout"}, nil, ""
	var lines []string
	for i, s := range inv.Settings {
		if !s.Given {
			continue
		}
		switch s.Source {
		case "flag":
			if inv.SplitArg && !strings.HasPrefix(s.Text, "-") {
				inv.Args = append(inv.Args, "--"+paramNames[i], s.Text)
			} else {
				inv.Args = append(inv.Args, "--"+paramNames[i]+"="+s.Text)
			}
		case "env":
			inv.Env = append(inv.Env, envName(paramNames[i])+"="+s.Text)
		case "file":
			val := `"` + s.Text + `"`
			if inv.ZeroInt && s.Text == "0" {
				val = "0"
			}
			if inv.FileExt == "yaml" {
				lines = append(lines, paramNames[i]+": "+val)
			} else {
				lines = append(lines, paramNames[i]+" = "+val)
			}
		}
	}
	if len(lines) > 0 {
		inv.File = strings.Join(lines, "\n") + "\n"
	}
}

// expected re-states the README precedence: own setting, else expiry-interval, else 5 minutes.
func (inv *invocation) expected() ([5]int64, error) {
	var out [5]int64
	parse := func(s setting) (int64, error) {
		d, err := time.ParseDuration(s.Text)
		return int64(d), err
	}
	main := documentedDefault
	if inv.Settings[0].Given {
		v, err := parse(inv.Settings[0])
		if err != nil {
			return out, err
		}
		main = v
	}
	for t := 1; t <= 4; t++ {
		out[t] = main
		if inv.Settings[t].Given {
			v, err := parse(inv.Settings[t])
			if err != nil {
				return out, err
			}
			out[t] = v
		}
	}
	return out, nil
}

func (inv *invocation) mainClass() string {
	if !inv.Settings[0].Given {
		return "unset"
	}
	d, _ := time.ParseDuration(inv.Settings[0].Text)
	return signClass(int64(d))
}

func (inv *invocation) ownMask() string {
	m := ""
	for t := 1; t <= 4; t++ {
		if inv.Settings[t].Given {
			m += "1"
		} else {
			m += "0"
		}
	}
	return m
}

// spellings of the matrix values
var mainValues = [][]string{nil, {"0", "0s"}, {"-1s", "-1000ms"}, {"1s", "1000ms"}, {"10m", "600s"}}
var ownValues = [][]string{nil, {"0", "0s"}, {"-1s", "-1000ms"}, {"30s", "0.5m"}}

func genInvocations(rng *rand.Rand) []*invocation {
	var out []*invocation
	for _, kind := range []string{"flag", "env", "toml", "yaml", "mixed"} {
		for _, mv := range mainValues {
			var combos [][4]int // index into ownValues per type
			combos = append(combos, [4]int{})
			for t := 0; t < 4; t++ {
				for v := 1; v < len(ownValues); v++ {
					var c [4]int
					c[t] = v
					combos = append(combos, c)
				}
			}
			for v := 1; v < len(ownValues); v++ {
				combos = append(combos, [4]int{v, v, v, v})
			}
			for i := 0; i < 6; i++ {
				combos = append(combos, [4]int{rng.Intn(4), rng.Intn(4), rng.Intn(4), rng.Intn(4)})
			}
			for _, c := range combos {
				inv := &invocation{Kind: kind, ZeroInt: rng.Intn(2) == 0, SplitArg: rng.Intn(2) == 0}
				fileExt := []string{"toml", "yaml"}[rng.Intn(2)]
				src := func() string {
					switch kind {
					case "flag", "env":
						return kind
					case "toml", "yaml":
						fileExt = kind
						return "file"
					default:
						return []string{"flag", "env", "file"}[rng.Intn(3)]
					}
				}
				if mv != nil {
					inv.Settings[0] = setting{Given: true, Text: mv[rng.Intn(len(mv))], Source: src()}
				}
				for t := 0; t < 4; t++ {
					if ov := ownValues[c[t]]; ov != nil {
						inv.Settings[t+1] = setting{Given: true, Text: ov[rng.Intn(len(ov))], Source: src()}
					}
				}
				inv.FileExt = fileExt
				inv.render()
				out = append(out, inv)
			}
		}
	}
	return out
}

// ---------------------------------------------------------------------------------------------

func outDir(t *testing.T) string {
	if d := os.Getenv("VERIF_OUT"); d != "" {
		return d
	}
	return t.TempDir()
}

// buildBinary compiles cmd/gostatsd of the tree under test with the verif tag.
func buildBinary(t *testing.T, r *mon.Run) string {
	repo := os.Getenv("VERIF_REPO_DIR")
	if repo == "" {
		r.Inconclusive("config-phase-skipped:VERIF_REPO_DIR-unset")
		return ""
	}
	bin := filepath.Join(outDir(t), "gostatsd")
	t0 := time.Now()
	cmd := exec.Command("go", "build", "-tags", "verif", "-o", bin, "./cmd/gostatsd")
	cmd.Dir = repo
	env := []string{}
	for _, e := range os.Environ() {
		if strings.HasPrefix(e, "GOFLAGS=") || strings.HasPrefix(e, "GOPROXY=") || strings.HasPrefix(e, "GOTOOLCHAIN=") || strings.HasPrefix(e, "GOSUMDB=") || strings.HasPrefix(e, "GORACE=") {
			continue
		}
		env = append(env, e)
	}
	cmd.Env = append(env, "GOFLAGS=-mod=mod", "GOPROXY=off")
	if out, err := cmd.CombinedOutput(); err != nil {
		t.Logf("config phase: go build failed: %v\n%s", err, out)
		r.Inconclusive("config-phase-skipped:build-failed")
		return ""
	}
	r.Extra("config_binary_build_s", time.Since(t0).Seconds())
	return bin
}

type dumpResult struct {
	got [5]int64
	err string
}

// invoke runs the binary once and decodes the dumped server.
func invoke(bin, dir string, idx int, inv *invocation) dumpResult {
	args := append([]string(nil), inv.Args...)
	if inv.File != "" {
		path := filepath.Join(dir, fmt.Sprintf("c09-config-%d.%s", idx, inv.FileExt))
		if err := os.WriteFile(path, []byte(inv.File), 0o644); err != nil {
			return dumpResult{err: "harness: " + err.Error()}
		}
		defer os.Remove(path)
		args = append(args, "--config-path", path)
	}
	ctx, cancel := context.WithTimeout(context.Background(), 60*time.Second) // generous watchdog: the binary exits at once
	defer cancel()
	cmd := exec.CommandContext(ctx, bin, args...)
	for _, e := range os.Environ() {
		if !strings.HasPrefix(e, "GSD_") && !strings.HasPrefix(e, "GOSTATSD_") {
			cmd.Env = append(cmd.Env, e)
		}
	}
	cmd.Env = append(cmd.Env, "GOSTATSD_VERIF_DUMP_SERVER=1")
	cmd.Env = append(cmd.Env, inv.Env...)
	var stdout, stderr bytes.Buffer
	cmd.Stdout, cmd.Stderr = &stdout, &stderr
	err := cmd.Run()
	if ctx.Err() != nil {
		return dumpResult{err: "watchdog: the binary did not exit (is the dump hook compiled in?)"}
	}
	for _, line := range strings.Split(stdout.String(), "\n") {
		if !strings.HasPrefix(line, "{") {
			continue
		}
		var m map[string]interface{}
		dec := json.NewDecoder(strings.NewReader(line))
		dec.UseNumber()
		if dec.Decode(&m) != nil {
			continue
		}
		var res dumpResult
		for t := 1; t <= 4; t++ {
			n, ok := m[dumpFields[t]].(json.Number)
			if !ok {
				return dumpResult{err: "dump lacks " + dumpFields[t]}
			}
			v, e := n.Int64()
			if e != nil {
				return dumpResult{err: "dump field " + dumpFields[t] + " is not an integer"}
			}
			res.got[t] = v
		}
		return res
	}
	tail := stderr.String()
	if len(tail) > 400 {
		tail = tail[len(tail)-400:]
	}
	return dumpResult{err: fmt.Sprintf("no dump on stdout (exit: %v): %s", err, tail)}
}

type invocationReplay struct {
	Invocation *invocation `json:"invocation"`
}

// judge compares one dump with the README precedence. It returns the number of differing types.
func judge(r *mon.Run, inv *invocation, res dumpResult) int {
	want, err := inv.expected()
	if err != nil {
		r.Inconclusive("config-harness-bad-duration")
		return 0
	}
	bad := 0
	for t := 1; t <= 4; t++ {
		if res.got[t] == want[t] {
			continue
		}
		bad++
		own := "unset"
		if inv.Settings[t].Given {
			own = "given"
		}
		why := "the documented default of 5m"
		if inv.Settings[t].Given {
			why = fmt.Sprintf("its own setting %s=%s (%s)", paramNames[t], inv.Settings[t].Text, inv.Settings[t].Source)
		} else if inv.Settings[0].Given {
			why = fmt.Sprintf("expiry-interval=%s (%s), no own setting", inv.Settings[0].Text, inv.Settings[0].Source)
		}
		r.Violation(fmt.Sprintf("config-mapping:%s:%s:own=%s:main=%s", inv.Kind, typeNames[t], own, inv.mainClass()),
			fmt.Sprintf("cmd/gostatsd %v env %v file %q: the server was built with %s expiry %s, want %s from %s", inv.Args, inv.Env, inv.File, typeNames[t], time.Duration(res.got[t]), time.Duration(want[t]), why),
			invocationReplay{inv})
	}
	return bad
}

func configPhase(t *testing.T, r *mon.Run, c *checker) {
	bin := buildBinary(t, r)
	if bin == "" {
		return
	}
	dir := outDir(t)
	// probe: a tree without the dump hook would start a server instead of exiting
	probe := &invocation{Kind: "flag"}
	probe.render()
	if res := invoke(bin, dir, -1, probe); res.err != "" {
		t.Logf("config phase: probe failed: %s", res.err)
		r.Inconclusive("config-phase-skipped:probe-failed")
		return
	}
	rng := r.Rand("c09-config")
	invs := genInvocations(rng)
	results := make([]dumpResult, len(invs))
	t0 := time.Now()
	var wg sync.WaitGroup
	next := make(chan int)
	for w := 0; w < 8; w++ {
		wg.Add(1)
		go func() { // workers draw nothing from a PRNG: the list is fixed before they start
			defer wg.Done()
			for i := range next {
				results[i] = invoke(bin, dir, i, invs[i])
			}
		}()
	}
	for i := range invs {
		next <- i
	}
	close(next)
	wg.Wait()
	r.Extra("config_invocations_wall_s", time.Since(t0).Seconds())

	type tuple [5]int64
	distinct := map[tuple]bool{}
	var tuples []tuple
	for i, inv := range invs {
		res := results[i]
		if res.err != "" {
			t.Logf("config phase: invocation %d %v env %v: %s", i, inv.Args, inv.Env, res.err)
			r.Inconclusive("config-invocation-failed")
			continue
		}
		r.Event("config_invocations", 1)
		r.Event("config_invocations:"+inv.Kind, 1)
		r.Eval(1)
		judge(r, inv, res)
		r.Nontrivial(fmt.Sprintf("cfg:%s:own=%s:main=%s", inv.Kind, inv.ownMask(), inv.mainClass()))
		if !distinct[tuple(res.got)] {
			distinct[tuple(res.got)] = true
			tuples = append(tuples, tuple(res.got))
		}
		if r.WantSample() && inv.Kind == "mixed" && inv.ownMask() != "0000" && inv.Settings[0].Given && i%5 == 0 {
			r.Sample(map[string]interface{}{"invocation": inv, "dumped_ns": res.got[1:]})
		}
	}
	r.Event("config_distinct_interval_tuples", len(tuples))

	// tie configuration to behaviour: aggregators built with exactly the dumped intervals obey the automaton
	sort.Slice(tuples, func(i, j int) bool {
		for k := 1; k <= 4; k++ {
			if tuples[i][k] != tuples[j][k] {
				return tuples[i][k] < tuples[j][k]
			}
		}
		return false
	})
	rng.Shuffle(len(tuples), func(i, j int) { tuples[i], tuples[j] = tuples[j], tuples[i] })
	if len(tuples) > 12 {
		tuples = tuples[:12]
	}
	for _, tp := range tuples {
		for i := 0; i < 25; i++ {
			c.eval(genHistoryWith(rng, 40, [5]int64(tp)))
			r.Event("config_behaviour_histories", 1)
		}
	}
}

func replayInvocation(t *testing.T, r *mon.Run, inv *invocation) {
	bin := buildBinary(t, r)
	if bin == "" {
		return
	}
	inv.render()
	res := invoke(bin, outDir(t), 0, inv)
	if res.err != "" {
		t.Logf("replay: %s", res.err)
		r.Inconclusive("config-invocation-failed")
		return
	}
	r.Eval(1)
	judge(r, inv, res)
}
