//go:build verif

package c08

// Reporting oracle of C08: "a timer tagged with histogram buckets instead reports, per bucket bound and
// +Inf, the number of values not greater than the bound (... nothing at all when that limit is 0) and none
// of the summary statistics" is a clause about what is REPORTED. Every bundled backend decides between
// bucket lines and summary statistics by `timer.Histogram != nil`, which the aggregator-level comparison
// (len(Histogram) == 0) cannot see. The flushed map is therefore also handed to two real backends — stdout
// (captured with a logrus hook) and graphite in tags mode (on a scripted connection) — and their text
// payloads are decoded per series.

import (
	"context"
	"fmt"
	"io"
	"math"
	"net"
	"regexp"
	"sort"
	"strconv"
	"strings"
	"sync"
	"sync/atomic"
	"time"

	"github.com/sirupsen/logrus"

	"github.com/atlassian/gostatsd"
	"github.com/atlassian/gostatsd/pkg/backends/graphite"
	"github.com/atlassian/gostatsd/pkg/backends/stdout"

	"verif/mon"
)

const sentinelName = "zz_sentinel"

type lineHook struct {
	mu       sync.Mutex
	lines    []string
	sentinel bool
}

func (h *lineHook) Levels() []logrus.Level { return logrus.AllLevels }

func (h *lineHook) Fire(e *logrus.Entry) error {
	h.mu.Lock()
	h.lines = append(h.lines, e.Message)
	if strings.HasPrefix(e.Message, "stats.set."+sentinelName) {
		h.sentinel = true
	}
	h.mu.Unlock()
	return nil
}

func (h *lineHook) reset() {
	h.mu.Lock()
	h.lines, h.sentinel = nil, false
	h.mu.Unlock()
}

func (h *lineHook) done() bool {
	h.mu.Lock()
	defer h.mu.Unlock()
	return h.sentinel
}

func (h *lineHook) take() []string {
	h.mu.Lock()
	defer h.mu.Unlock()
	return append([]string(nil), h.lines...)
}

// recConn is the scripted connection of the graphite client: it records what is written.
type recConn struct {
	rec *recorder
}

type recorder struct {
	mu  sync.Mutex
	buf []byte
}

func (c *recConn) Write(b []byte) (int, error) {
	c.rec.mu.Lock()
	c.rec.buf = append(c.rec.buf, b...)
	c.rec.mu.Unlock()
	return len(b), nil
}
func (c *recConn) Read(b []byte) (int, error)         { return 0, io.EOF }
func (c *recConn) Close() error                       { return nil }
func (c *recConn) LocalAddr() net.Addr                { return &net.TCPAddr{IP: net.IPv4(127, 0, 0, 1), Port: 1} }
func (c *recConn) RemoteAddr() net.Addr               { return &net.TCPAddr{IP: net.IPv4(127, 0, 0, 1), Port: 2003} }
func (c *recConn) SetDeadline(t time.Time) error      { return nil }
func (c *recConn) SetReadDeadline(t time.Time) error  { return nil }
func (c *recConn) SetWriteDeadline(t time.Time) error { return nil }

func (r *recorder) takeAndReset() string {
	r.mu.Lock()
	defer r.mu.Unlock()
	s := string(r.buf)
	r.buf = nil
	return s
}

type reporters struct {
	ctx      context.Context
	cancel   context.CancelFunc
	hook     *lineHook
	stdout   gostatsd.Backend
	graphite gostatsd.Backend
	rec      *recorder
}

func newReporters() (*reporters, error) {
	rp := &reporters{hook: &lineHook{}, rec: &recorder{}}
	logrus.SetOutput(io.Discard)
	logrus.AddHook(rp.hook)
	so, err := stdout.NewClient(gostatsd.TimerSubtypes{}) // nothing disabled: every sub-metric the backend knows is written
	if err != nil {
		return nil, err
	}
	rp.stdout = so
	l := logrus.New()
	l.SetOutput(io.Discard)
	g, err := graphite.NewClient("127.0.0.1:2003", time.Second, 0, "stats", "counters", "timers", "gauges", "sets", "", "tags", gostatsd.TimerSubtypes{}, l)
	if err != nil {
		return nil, err
	}
	g.VerifSetConnFactory(func() (net.Conn, error) { return &recConn{rec: rp.rec}, nil })
	rp.ctx, rp.cancel = context.WithCancel(context.Background())
	go g.Run(rp.ctx)
	rp.graphite = g
	return rp, nil
}

func (rp *reporters) send(b gostatsd.Backend, mm *gostatsd.MetricMap) bool {
	var called atomic.Bool
	b.SendMetricsAsync(rp.ctx, mm, func([]error) { called.Store(true) })
	return mon.WaitUntil(60*time.Second, called.Load)
}

// reported is what one backend wrote about one series.
type reported struct {
	summary []string        // suffixes of summary-statistic lines (lower, count_90, ...)
	buckets map[float64]int // le -> count
	nanLes  []int           // counts of the le=NaN lines
	bad     []string        // lines of the series that could not be decoded
	lines   int
}

var summarySuffix = regexp.MustCompile(`\.(lower|upper|count|count_ps|mean|median|std|sum|sum_squares|(count|mean|sum|sum_squares|upper|lower)_-?\d+)$`)

// splitLine cuts "<path> <value> <timestamp>" from the right (a tag may contain blanks).
func splitLine(line string) (path, value string, ok bool) {
	i := strings.LastIndex(line, " ")
	if i < 0 {
		return "", "", false
	}
	j := strings.LastIndex(line[:i], " ")
	if j < 0 {
		return "", "", false
	}
	return line[:j], line[j+1 : i], true
}

func (rep *reported) add(path, le, value string, isBucket bool) {
	rep.lines++
	if !isBucket {
		if m := summarySuffix.FindStringSubmatch(path); m != nil {
			rep.summary = append(rep.summary, m[1])
		} else {
			rep.bad = append(rep.bad, path)
		}
		return
	}
	n, err1 := strconv.Atoi(value)
	b, err2 := strconv.ParseFloat(le, 64)
	if err1 != nil || err2 != nil {
		rep.bad = append(rep.bad, path+" "+value)
		return
	}
	if math.IsNaN(b) {
		rep.nanLes = append(rep.nanLes, n)
		return
	}
	if rep.buckets == nil {
		rep.buckets = map[float64]int{}
	}
	if _, dup := rep.buckets[b]; dup {
		rep.bad = append(rep.bad, "duplicate bucket "+le)
	}
	rep.buckets[b] = n
}

// decodeStdout: "stats.timers.<name>.<tags...>.<suffix> v ts" and "stats.timers.<name>.<tags...>.histogram.le:<b> n ts".
func decodeStdout(lines []string, names []string) []reported {
	out := make([]reported, len(names))
	for _, line := range lines {
		for si, name := range names {
			if !strings.HasPrefix(line, "stats.timers."+name+".") {
				continue
			}
			path, value, ok := splitLine(line)
			if !ok {
				out[si].bad = append(out[si].bad, line)
				out[si].lines++
				break
			}
			if i := strings.LastIndex(path, ".histogram.le:"); i >= 0 {
				out[si].add(path, path[i+len(".histogram.le:"):], value, true)
			} else {
				out[si].add(path, "", value, false)
			}
			break
		}
	}
	return out
}

// decodeGraphite (tags mode): "stats.timers.<name>.<suffix>;tag=v;... v ts" and "stats.counters.<name>.histogram;...;le=<b> n ts".
func decodeGraphite(payload string, names []string) []reported {
	out := make([]reported, len(names))
	for _, line := range strings.Split(payload, "\n") {
		if line == "" {
			continue
		}
		full, value, ok := splitLine(line)
		if !ok {
			continue
		}
		path := full
		if i := strings.Index(full, ";"); i >= 0 {
			path = full[:i]
		}
		for si, name := range names {
			switch {
			case path == "stats.counters."+name+".histogram":
				le := ""
				if i := strings.LastIndex(full, ";le="); i >= 0 {
					le = full[i+len(";le="):]
					if j := strings.Index(le, ";"); j >= 0 { // ";host=<source>" follows the tags
						le = le[:j]
					}
				}
				out[si].add(full, le, value, true)
			case strings.HasPrefix(path, "stats.timers."+name+"."):
				out[si].add(path, "", value, false)
			}
		}
	}
	return out
}

// judgeReport compares what a backend wrote about a series with the reference.
func judgeReport(backend string, limit uint32, rt *refTimer, rep reported) [][2]string {
	var out [][2]string
	add := func(sig, format string, a ...interface{}) {
		out = append(out, [2]string{"report:" + backend + ":" + sig, fmt.Sprintf(format, a...)})
	}
	if len(rep.bad) > 0 {
		add("undecodable-line", "lines of the series that are neither a summary statistic nor a bucket: %q", rep.bad)
	}
	if !rt.histogram {
		if len(rep.buckets) > 0 || len(rep.nanLes) > 0 {
			add("histogram-on-plain-timer", "bucket lines for a timer without histogram tag: %v", rep.buckets)
		}
		return out
	}
	if len(rep.summary) > 0 {
		sort.Strings(rep.summary)
		add("summary-on-histogram-timer", "a gsd_histogram timer (limit %d) is reported with summary statistics %v (and %d bucket lines)", limit, rep.summary, len(rep.buckets)+len(rep.nanLes))
	}
	if limit == 0 {
		if rep.lines > 0 && len(rep.summary) == 0 {
			add("limit0-reported", "bucket limit 0, yet %d lines are reported for the series: buckets %v", rep.lines, rep.buckets)
		}
		return out
	}
	bad := false
	for b, n := range rt.buckets {
		if g, ok := rep.buckets[b]; !ok || g != n {
			bad = true
		}
	}
	for b := range rep.buckets {
		if _, ok := rt.buckets[b]; !ok {
			bad = true
		}
	}
	for _, n := range rep.nanLes {
		if n != 0 {
			bad = true
		}
	}
	if (len(rep.nanLes) > 0) != (rt.nanBounds > 0) {
		bad = true
	}
	if bad {
		add("bucket-lines", "reported buckets %v (NaN bounds %v), want exactly %v (NaN bounds: %d)", rep.buckets, rep.nanLes, rt.buckets, rt.nanBounds)
	}
	return out
}

// evalReport flushes the case once (first arrival order, one metric name per series so that the text
// payloads can be attributed) and checks what stdout and graphite write about every series.
func (c *checker) evalReport(cs *tcase) {
	if c.rp == nil {
		return
	}
	names := make([]string, len(cs.Series))
	for i := range names {
		names[i] = "r" + strconv.Itoa(i)
	}
	var stdoutLines []string
	var graphitePayload string
	okSend := true
	wit := *cs
	wit.Report = true
	panicked := c.r.Guard("report-panic", &wit, func() {
		cs.runWith(cs.Orders[0], names, func(mm *gostatsd.MetricMap) {
			c.rp.hook.reset()
			if !c.rp.send(c.rp.stdout, mm) || !mon.WaitUntil(60*time.Second, c.rp.hook.done) {
				okSend = false
				return
			}
			stdoutLines = c.rp.hook.take()
			c.rp.rec.takeAndReset()
			if !c.rp.send(c.rp.graphite, mm) {
				okSend = false
				return
			}
			graphitePayload = c.rp.rec.takeAndReset()
		})
	})
	if panicked {
		return
	}
	if !okSend {
		c.r.Inconclusive("report-backend-watchdog")
		return
	}
	so := decodeStdout(stdoutLines, names)
	gr := decodeGraphite(graphitePayload, names)
	for si := range cs.Series {
		rt := reference(cs, &cs.Series[si])
		for bi, rep := range []reported{so[si], gr[si]} {
			backend := []string{"stdout", "graphite"}[bi]
			for _, d := range judgeReport(backend, cs.Limit, rt, rep) {
				c.r.Violation(d[0], fmt.Sprintf("series %d (tag %q, n=%d, limit=%d): %s", si, cs.Series[si].HistTag, rt.n, cs.Limit, d[1]), &wit)
			}
		}
		if rt.histogram {
			c.r.Event("reported_histogram_series", 1)
			c.r.Nontrivial(fmt.Sprintf("report:%s:%s:%d", nClass(rt.n), limitClass(cs.Limit), minInt(rt.nBounds, 3)))
		} else {
			c.r.Event("reported_plain_series", 1)
		}
	}
	c.r.Event("report_cases", 1)
}
