//go:build verif

package c08

// Configuration phases of C08: "for every ... configured percentile list", "sub-metric masks" and "bucket
// limits" are quantified over CONFIGURATIONS, and what an operator configures is text: the
// `percent-threshold` list ("Space separated string. Defaults to 90"), the `[disabled-sub-metrics]` section
// (one boolean per documented key) and `timer-histogram-limit` (README). Two phases put the code between
// that text and the aggregator under the monitor:
//
//   config-text    a random [disabled-sub-metrics] section (TOML / YAML) is read by viper and handed to the
//                  real gostatsd.DisabledSubMetrics; the returned mask builds a real aggregator (and the real
//                  stdout backend through NewClientFromViper) and the usual multiset workload is judged
//                  against a reference whose mask comes from the TEXT.
//   config-binary  the real cmd/gostatsd binary (verif tag: dumps the constructed server and exits) is run
//                  with percent-threshold / timer-histogram-limit given as flag, GSD_ environment variable
//                  or configuration file and a [disabled-sub-metrics] section in the file; an aggregator is
//                  built with exactly the dumped values and judged against a reference derived from the text.

import (
	"bytes"
	"context"
	"encoding/json"
	"fmt"
	"io"
	"math"
	"math/rand"
	"os"
	"os/exec"
	"path/filepath"
	"regexp"
	"sort"
	"strconv"
	"strings"
	"sync"
	"testing"
	"time"

	"github.com/sirupsen/logrus"
	"github.com/spf13/viper"

	"github.com/atlassian/gostatsd"
	"github.com/atlassian/gostatsd/pkg/backends/stdout"

	"verif/mon"
)

// subKeys re-states the README section "[disabled-sub-metrics]": the documented key, the sub-metric it
// names (bit of the mask used by subtypes()) and, for the regular sub-metrics, the suffix of the line
// the stdout backend writes for it.
var subKeys = []struct {
	key    string
	field  string
	bit    uint
	suffix string // "" for the percentile sub-metrics (their lines are named <kind>_<p>)
}{
	{"lower", "Lower", 0, "lower"},
	{"lower-pct", "LowerPct", 1, ""},
	{"upper", "Upper", 2, "upper"},
	{"upper-pct", "UpperPct", 3, ""},
	{"count", "Count", 4, "count"},
	{"count-pct", "CountPct", 5, ""},
	{"count-per-second", "CountPerSecond", 6, "count_ps"},
	{"mean", "Mean", 7, "mean"},
	{"mean-pct", "MeanPct", 8, ""},
	{"median", "Median", 9, "median"},
	{"stddev", "StdDev", 10, "std"},
	{"sum", "Sum", 11, "sum"},
	{"sum-pct", "SumPct", 12, ""},
	{"sum-squares", "SumSquares", 13, "sum_squares"},
	{"sum-squares-pct", "SumSquaresPct", 14, ""},
}

// maskOf is the inverse of subtypes(): the mask of a TimerSubtypes value, field by field.
func maskOf(ts gostatsd.TimerSubtypes) uint16 {
	var m uint16
	for i, b := range []bool{ts.Lower, ts.LowerPct, ts.Upper, ts.UpperPct, ts.Count, ts.CountPct, ts.CountPerSecond,
		ts.Mean, ts.MeanPct, ts.Median, ts.StdDev, ts.Sum, ts.SumPct, ts.SumSquares, ts.SumSquaresPct} {
		if b {
			m |= 1 << uint(i)
		}
	}
	return m
}

type subSetting struct {
	Key   string `json:"key"`
	Value bool   `json:"value"`
}

// cfgCase is one configuration given as text, plus the multiset workloads judged under it.
type cfgCase struct {
	Phase   string       `json:"phase"`   // config-text | config-binary
	Format  string       `json:"format"`  // toml | yaml (the configuration file, when one is written)
	Section bool         `json:"section"` // the [disabled-sub-metrics] section is written (possibly empty)
	Keys    []subSetting `json:"keys"`    // its keys, in the order written; a key not listed is not configured
	// percent-threshold: "" = not given (documented default 90), else flag | flag-split | env | file
	PctSource string `json:"pct_source"`
	PctText   string `json:"pct_text"`
	// timer-histogram-limit: "" = not given (documented default MaxUint32), else flag | env | file
	LimitSource string `json:"limit_source"`
	LimitText   string `json:"limit_text"`
	// config-text only: the percentile list and limit are Go arguments there
	Pcts  []float64 `json:"pcts,omitempty"`
	Limit uint32    `json:"limit,omitempty"`
	Work  []*tcase  `json:"work"`
	// derived by render()
	File string   `json:"file,omitempty"`
	Args []string `json:"args,omitempty"`
	Env  []string `json:"env,omitempty"`
}

// wantMask is the documented meaning of the section: exactly the keys set to true are disabled.
func (cc *cfgCase) wantMask() uint16 {
	var m uint16
	if !cc.Section {
		return 0
	}
	for _, ks := range cc.Keys {
		for _, sk := range subKeys {
			if sk.key == ks.Key && ks.Value {
				m |= 1 << sk.bit
			}
		}
	}
	return m
}

// wantPcts is the documented meaning of percent-threshold: a space separated list, 90 when not given.
func (cc *cfgCase) wantPcts() ([]float64, bool) {
	if cc.Phase == "config-text" {
		return cc.Pcts, true
	}
	if cc.PctSource == "" {
		return []float64{90}, true
	}
	out := []float64{}
	for _, f := range strings.Fields(cc.PctText) {
		n, err := strconv.Atoi(f)
		if err != nil {
			return nil, false
		}
		out = append(out, float64(n))
	}
	return out, true
}

func (cc *cfgCase) wantLimit() (uint32, bool) {
	if cc.Phase == "config-text" {
		return cc.Limit, true
	}
	if cc.LimitSource == "" {
		return math.MaxUint32, true
	}
	n, err := strconv.ParseUint(cc.LimitText, 10, 32)
	return uint32(n), err == nil
}

func (cc *cfgCase) render() {
	cc.Args, cc.Env, cc.File = []string{"--backends=stdout"}, nil, ""
	var top, sect []string
	kv := func(k, v string) string {
		if cc.Format == "yaml" {
			return k + ": " + v
		}
		return k + " = " + v
	}
	switch cc.PctSource {
	case "flag":
		cc.Args = append(cc.Args, "--percent-threshold="+cc.PctText)
	case "flag-split":
		cc.Args = append(cc.Args, "--percent-threshold", cc.PctText)
	case "env":
		cc.Env = append(cc.Env, "GSD_PERCENT_THRESHOLD="+cc.PctText)
	case "file":
		top = append(top, kv("percent-threshold", `"`+cc.PctText+`"`))
	}
	switch cc.LimitSource {
	case "flag":
		cc.Args = append(cc.Args, "--timer-histogram-limit="+cc.LimitText)
	case "env":
		cc.Env = append(cc.Env, "GSD_TIMER_HISTOGRAM_LIMIT="+cc.LimitText)
	case "file":
		top = append(top, kv("timer-histogram-limit", cc.LimitText))
	}
	if cc.Section {
		if cc.Format == "yaml" {
			sect = append(sect, "disabled-sub-metrics:")
			for _, ks := range cc.Keys {
				sect = append(sect, "  "+ks.Key+": "+strconv.FormatBool(ks.Value))
			}
		} else {
			sect = append(sect, "[disabled-sub-metrics]")
			for _, ks := range cc.Keys {
				sect = append(sect, ks.Key+"="+strconv.FormatBool(ks.Value))
			}
		}
	}
	if len(top)+len(sect) > 0 {
		// TOML: top-level keys come before the first table
		cc.File = strings.Join(append(top, sect...), "\n") + "\n"
	}
}

func (cc *cfgCase) describe() string {
	return fmt.Sprintf("%s %s pct[%s]=%q limit[%s]=%q section=%v keys=%v", cc.Phase, cc.Format, cc.PctSource, cc.PctText, cc.LimitSource, cc.LimitText, cc.Section, cc.Keys)
}

func (cc *cfgCase) class() string {
	nTrue := 0
	for _, k := range cc.Keys {
		if k.Value {
			nTrue++
		}
	}
	sec := "nosection"
	if cc.Section {
		sec = fmt.Sprintf("keys%d-true%d", minInt(len(cc.Keys), 4), minInt(nTrue, 4))
	}
	pc := "default"
	if p, ok := cc.wantPcts(); ok && (cc.PctSource != "" || cc.Phase == "config-text") {
		pos, neg := 0, 0
		for _, x := range p {
			if x > 0 {
				pos++
			} else if x < 0 {
				neg++
			}
		}
		pc = fmt.Sprintf("n%d-pos%d-neg%d", minInt(len(p), 3), minInt(pos, 1), minInt(neg, 1))
	}
	return fmt.Sprintf("cfg:%s:%s:pct-%s-%s:lim-%s:%s", cc.Phase, cc.Format, cc.PctSource, pc, cc.LimitSource, sec)
}

// ---------------------------------------------------------------------------------------------
// generators

func genSection(rng *rand.Rand, cc *cfgCase) {
	switch x := rng.Intn(10); {
	case x == 0: // no section at all
		return
	case x == 1: // an empty section
		cc.Section = true
		return
	}
	cc.Section = true
	perm := rng.Perm(len(subKeys))
	var n int
	switch rng.Intn(4) {
	case 0:
		n = 1
	case 1:
		n = 2 + rng.Intn(3)
	case 2:
		n = len(subKeys)
	default:
		n = 1 + rng.Intn(len(subKeys))
	}
	pTrue := []int{1, 2, 3}[rng.Intn(3)] // of 4
	for _, i := range perm[:n] {
		cc.Keys = append(cc.Keys, subSetting{Key: subKeys[i].key, Value: rng.Intn(4) < pTrue})
	}
	// a regular key and its percentile sibling configured differently: the pair a mix-up would confuse
	if rng.Intn(3) == 0 {
		base := []string{"lower", "upper", "count", "mean", "sum", "sum-squares"}[rng.Intn(6)]
		v := rng.Intn(2) == 0
		set := func(k string, val bool) {
			for i := range cc.Keys {
				if cc.Keys[i].Key == k {
					cc.Keys[i].Value = val
					return
				}
			}
			cc.Keys = append(cc.Keys, subSetting{Key: k, Value: val})
		}
		set(base, v)
		if rng.Intn(3) != 0 {
			set(base+"-pct", !v)
		}
	}
}

func genPctList(rng *rand.Rand) []int {
	n := []int{0, 1, 1, 2, 2, 3, 4, 5}[rng.Intn(8)]
	out := make([]int, 0, n)
	for i := 0; i < n; i++ {
		switch x := rng.Intn(10); {
		case x < 2 && len(out) > 0: // duplicate
			out = append(out, out[rng.Intn(len(out))])
		case x < 7:
			out = append(out, int(pctPool[rng.Intn(len(pctPool))]))
		default:
			out = append(out, rng.Intn(201)-100)
		}
	}
	return out
}

func pctText(rng *rand.Rand, list []int, blanks bool) string {
	var b strings.Builder
	if blanks && rng.Intn(4) == 0 {
		b.WriteString(" ")
	}
	for i, p := range list {
		if i > 0 {
			b.WriteString(" ")
			if blanks && rng.Intn(4) == 0 {
				b.WriteString(" ")
			}
		}
		b.WriteString(strconv.Itoa(p))
	}
	if blanks && rng.Intn(4) == 0 {
		b.WriteString(" ")
	}
	return b.String()
}

// workloads builds multiset cases whose configuration is the one the text means.
func (cc *cfgCase) workloads(rng *rand.Rand, k int) {
	pcts, _ := cc.wantPcts()
	limit, _ := cc.wantLimit()
	for i := 0; i < k; i++ {
		w := genCase(rng)
		w.Percentiles = append([]float64(nil), pcts...)
		w.Disabled = cc.wantMask()
		w.Limit = limit
		cc.Work = append(cc.Work, w)
	}
}

func genTextCase(rng *rand.Rand) *cfgCase {
	cc := &cfgCase{Phase: "config-text", Format: []string{"toml", "yaml"}[rng.Intn(2)]}
	genSection(rng, cc)
	for _, p := range genPctList(rng) {
		cc.Pcts = append(cc.Pcts, float64(p))
	}
	if len(cc.Pcts) == 0 || rng.Intn(3) == 0 { // the masks show on percentiles of both signs
		cc.Pcts = append(cc.Pcts, 90, -50)
	}
	cc.Limit = []uint32{0, 2, math.MaxUint32, math.MaxUint32}[rng.Intn(4)]
	cc.render()
	if cc.File == "" {
		cc.File = "flush-interval = \"1s\"\n"
		if cc.Format == "yaml" {
			cc.File = "flush-interval: 1s\n"
		}
	}
	cc.workloads(rng, 2)
	return cc
}

func genBinaryCase(rng *rand.Rand) *cfgCase {
	cc := &cfgCase{Phase: "config-binary", Format: []string{"toml", "yaml"}[rng.Intn(2)]}
	if rng.Intn(4) != 0 {
		genSection(rng, cc)
	}
	// percent-threshold
	switch x := rng.Intn(10); {
	case x == 0: // not given: the documented default
	default:
		cc.PctSource = []string{"flag", "flag", "env", "file", "file"}[rng.Intn(5)]
		list := genPctList(rng)
		cc.PctText = pctText(rng, list, true)
		if cc.PctSource == "env" && strings.TrimSpace(cc.PctText) == "" {
			// an empty environment variable is "not set" for viper: the documentation does not say which
			// way that goes, so the empty list is only ever given by flag or file
			cc.PctSource = []string{"flag", "file"}[rng.Intn(2)]
		}
		if cc.PctSource == "flag" && !strings.HasPrefix(cc.PctText, "-") && rng.Intn(3) == 0 {
			cc.PctSource = "flag-split" // --percent-threshold "<text>"
		}
	}
	if rng.Intn(3) == 0 {
		cc.LimitSource = []string{"flag", "env", "file"}[rng.Intn(3)]
		cc.LimitText = []string{"0", "1", "2", "3", "5", "4294967295"}[rng.Intn(6)]
	}
	cc.render()
	cc.workloads(rng, 2)
	return cc
}

// ---------------------------------------------------------------------------------------------
// config-text phase

var discardLogger = func() *logrus.Logger {
	l := logrus.New()
	l.SetOutput(io.Discard)
	return l
}()

func (c *checker) evalText(cc *cfgCase) {
	c.r.Case("%s", cc.describe())
	v := viper.New()
	v.SetConfigType(cc.Format)
	if err := v.ReadConfig(bytes.NewBufferString(cc.File)); err != nil {
		c.r.Inconclusive("config-text:harness-unreadable-config")
		return
	}
	var got gostatsd.TimerSubtypes
	if c.r.Guard("config-text:panic", cc, func() { got = gostatsd.DisabledSubMetrics(v) }) {
		return
	}
	c.r.Eval(1)
	c.r.Event("config_text_cases", 1)
	c.r.Nontrivial(cc.class())
	want := cc.wantMask()
	c.judgeMask("config-text", cc, maskOf(got), want)

	// behaviour: an aggregator built with the mask the configuration code returned, judged by the text
	for _, w := range cc.Work {
		w.wire = &wiring{pcts: w.Percentiles, disabled: got, limit: w.Limit}
		c.evalAs(w, "config-text:", cc)
	}
	// reporting: the stdout backend built from the same configuration
	if c.rp != nil && len(cc.Work) > 0 {
		c.reportByText(cc, v, cc.Work[0])
	}
}

// judgeMask compares the mask the configuration code produced with the one the text means, key by key.
func (c *checker) judgeMask(phase string, cc *cfgCase, got, want uint16) {
	if got == want {
		return
	}
	for _, sk := range subKeys {
		g, w := got&(1<<sk.bit) != 0, want&(1<<sk.bit) != 0
		if g == w {
			continue
		}
		state := "not-configured"
		for _, ks := range cc.Keys {
			if ks.Key == sk.key {
				state = strconv.FormatBool(ks.Value)
			}
		}
		c.r.Violation(fmt.Sprintf("%s:disabled-sub-metrics:%s:%s", phase, sk.key, state),
			fmt.Sprintf("configuration %q: sub-metric %s is %s in the constructed mask although the key %q is %s (documented: every key disables exactly the sub-metric it names, default false)",
				cc.File, sk.field, map[bool]string{true: "disabled", false: "enabled"}[g], sk.key, state), cc)
	}
}

// reportByText hands one flushed workload to the stdout backend built by NewClientFromViper from the same
// configuration and compares, per plain timer, the set of lines written with what the text allows.
func (c *checker) reportByText(cc *cfgCase, v *viper.Viper, w *tcase) {
	be, err := stdout.NewClientFromViper(v, discardLogger, nil)
	if err != nil {
		c.r.Inconclusive("config-text:stdout-backend-unavailable")
		return
	}
	names := make([]string, len(w.Series))
	for i := range names {
		names[i] = "r" + strconv.Itoa(i)
	}
	var lines []string
	ok := true
	if c.r.Guard("config-text:report-panic", cc, func() {
		w.runWith(w.Orders[0], names, func(mm *gostatsd.MetricMap) {
			c.rp.hook.reset()
			if !c.rp.send(be, mm) || !mon.WaitUntil(60*time.Second, c.rp.hook.done) {
				ok = false
				return
			}
			lines = c.rp.hook.take()
		})
	}) {
		return
	}
	if !ok {
		c.r.Inconclusive("report-backend-watchdog")
		return
	}
	want := cc.wantMask()
	reps := decodeStdout(lines, names)
	for si := range w.Series {
		rt := reference(w, &w.Series[si])
		if rt.histogram {
			continue
		}
		var exp []string
		for _, sk := range subKeys {
			if sk.suffix != "" && want&(1<<sk.bit) == 0 {
				exp = append(exp, sk.suffix)
			}
		}
		for name := range rt.pct {
			exp = append(exp, name)
		}
		sort.Strings(exp)
		got := append([]string(nil), reps[si].summary...)
		sort.Strings(got)
		c.r.Event("config_text_reported_series", 1)
		if strings.Join(got, " ") == strings.Join(exp, " ") && len(reps[si].bad) == 0 {
			continue
		}
		missing, extra := diffSorted(exp, got)
		sig := "config-text:report:stdout"
		if len(missing) > 0 {
			sig += ":missing:" + kindOf(missing[0])
		} else if len(extra) > 0 {
			sig += ":unexpected:" + kindOf(extra[0])
		}
		c.r.Violation(sig, fmt.Sprintf("configuration %q, percentiles %v, series %d (n=%d): the stdout backend built from this configuration wrote the sub-metrics %v, the configuration allows exactly %v (missing %v, unexpected %v, undecodable %q)",
			cc.File, w.Percentiles, si, rt.n, got, exp, missing, extra, reps[si].bad), cc)
	}
}

var pctName = regexp.MustCompile(`^(count|mean|sum|sum_squares|upper|lower)_-?\d+$`)

// kindOf strips the percentile from a sub-metric name so that signatures stay stable.
func kindOf(name string) string {
	if m := pctName.FindStringSubmatch(name); m != nil {
		return m[1] + "-pct"
	}
	return name
}

func diffSorted(want, got []string) (missing, extra []string) {
	cnt := map[string]int{}
	for _, s := range want {
		cnt[s]++
	}
	for _, s := range got {
		cnt[s]--
	}
	for s, n := range cnt {
		for ; n > 0; n-- {
			missing = append(missing, s)
		}
		for ; n < 0; n++ {
			extra = append(extra, s)
		}
	}
	sort.Strings(missing)
	sort.Strings(extra)
	return
}

// ---------------------------------------------------------------------------------------------
// config-binary phase

func outDir(t *testing.T) string {
	if d := os.Getenv("VERIF_OUT"); d != "" {
		return d
	}
	return t.TempDir()
}

// buildBinary compiles cmd/gostatsd of the tree under test with the verif tag (dump hook).
func buildBinary(t *testing.T, r *mon.Run) string {
	repo := os.Getenv("VERIF_REPO_DIR")
	if repo == "" {
		r.Inconclusive("config-binary-skipped:VERIF_REPO_DIR-unset")
		return ""
	}
	bin := filepath.Join(outDir(t), "gostatsd-c08")
	t0 := time.Now()
	cmd := exec.Command("go", "build", "-tags", "verif", "-o", bin, "./cmd/gostatsd")
	cmd.Dir = repo
	env := []string{}
	for _, e := range os.Environ() {
		if strings.HasPrefix(e, "GOFLAGS=") || strings.HasPrefix(e, "GOPROXY=") || strings.HasPrefix(e, "GOTOOLCHAIN=") || strings.HasPrefix(e, "GOSUMDB=") || strings.HasPrefix(e, "GORACE=") {
			continue
		}
		env = append(env, e)
	}
	cmd.Env = append(env, "GOFLAGS=-mod=mod", "GOPROXY=off")
	if out, err := cmd.CombinedOutput(); err != nil {
		t.Logf("config-binary phase: go build failed: %v\n%s", err, out)
		r.Inconclusive("config-binary-skipped:build-failed")
		return ""
	}
	r.Extra("config_binary_build_s", time.Since(t0).Seconds())
	return bin
}

type dumped struct {
	pcts  []float64
	mask  uint16
	limit uint32
	err   string
}

var fieldRe = regexp.MustCompile(`(\w+):(true|false)`)

// invoke runs the binary once and decodes the dumped server.
func invoke(bin, dir string, idx int, cc *cfgCase) dumped {
	args := append([]string(nil), cc.Args...)
	if cc.File != "" {
		path := filepath.Join(dir, fmt.Sprintf("c08-config-%d.%s", idx, cc.Format))
		if err := os.WriteFile(path, []byte(cc.File), 0o644); err != nil {
			return dumped{err: "harness: " + err.Error()}
		}
		defer os.Remove(path)
		args = append(args, "--config-path", path)
	}
	ctx, cancel := context.WithTimeout(context.Background(), 120*time.Second) // generous watchdog: the binary exits at once
	defer cancel()
	cmd := exec.CommandContext(ctx, bin, args...)
	for _, e := range os.Environ() {
		if !strings.HasPrefix(e, "GSD_") && !strings.HasPrefix(e, "GOSTATSD_") {
			cmd.Env = append(cmd.Env, e)
		}
	}
	cmd.Env = append(cmd.Env, "GOSTATSD_VERIF_DUMP_SERVER=1")
	cmd.Env = append(cmd.Env, cc.Env...)
	var so, se bytes.Buffer
	cmd.Stdout, cmd.Stderr = &so, &se
	err := cmd.Run()
	if ctx.Err() != nil {
		return dumped{err: "watchdog: the binary did not exit (is the dump hook compiled in?)"}
	}
	for _, line := range strings.Split(so.String(), "\n") {
		if !strings.HasPrefix(line, "{") {
			continue
		}
		var m struct {
			Pcts  []float64 `json:"percent_threshold"`
			Limit *uint32   `json:"histogram_limit"`
			Dis   *string   `json:"disabled_sub_types"`
		}
		if json.Unmarshal([]byte(line), &m) != nil {
			continue
		}
		if m.Limit == nil || m.Dis == nil {
			return dumped{err: "dump lacks histogram_limit / disabled_sub_types"}
		}
		res := dumped{pcts: m.Pcts, limit: *m.Limit}
		seen := 0
		for _, f := range fieldRe.FindAllStringSubmatch(*m.Dis, -1) {
			for _, sk := range subKeys {
				if sk.field == f[1] {
					seen++
					if f[2] == "true" {
						res.mask |= 1 << sk.bit
					}
				}
			}
		}
		if seen != len(subKeys) {
			return dumped{err: "dump: disabled_sub_types does not list the 15 sub-metrics: " + *m.Dis}
		}
		return res
	}
	tail := se.String()
	if len(tail) > 400 {
		tail = tail[len(tail)-400:]
	}
	return dumped{err: fmt.Sprintf("no dump on stdout (exit: %v): %s", err, tail)}
}

func sortedSet(xs []float64) []float64 {
	seen := map[float64]bool{}
	out := []float64{}
	for _, x := range xs {
		if !seen[x] {
			seen[x] = true
			out = append(out, x)
		}
	}
	sort.Float64s(out)
	return out
}

// judgeBinary compares one dumped server with the meaning of the configuration text, then runs the
// workloads on an aggregator built with exactly the dumped values.
func (c *checker) judgeBinary(cc *cfgCase, d dumped) {
	c.r.Eval(1)
	c.r.Event("config_binary_invocations", 1)
	c.r.Event("config_binary_invocations:pct-"+map[bool]string{true: "default", false: cc.PctSource}[cc.PctSource == ""], 1)
	c.r.Nontrivial(cc.class())
	wantP, ok1 := cc.wantPcts()
	wantL, ok2 := cc.wantLimit()
	if !ok1 || !ok2 {
		c.r.Inconclusive("config-binary:harness-bad-text")
		return
	}
	where := fmt.Sprintf("cmd/gostatsd %q env %q file %q", cc.Args, cc.Env, cc.File)
	// the configured percentiles are a set: a value listed twice names the same series once
	gs, ws := sortedSet(d.pcts), sortedSet(wantP)
	if fmt.Sprint(gs) != fmt.Sprint(ws) {
		class := "list"
		switch {
		case cc.PctSource == "":
			class = "default"
		case len(wantP) == 0:
			class = "empty"
		}
		c.r.Violation(fmt.Sprintf("config-binary:percent-threshold:%s:%s", strings.TrimSuffix(cc.PctSource, "-split"), class),
			fmt.Sprintf("%s: the server was built with the percentiles %v, the configured percent-threshold %q (source %q; documented: space separated list, default 90) means %v", where, d.pcts, cc.PctText, cc.PctSource, wantP), cc)
	}
	if d.limit != wantL {
		c.r.Violation("config-binary:timer-histogram-limit:"+cc.LimitSource,
			fmt.Sprintf("%s: the server was built with the histogram limit %d, the configuration means %d", where, d.limit, wantL), cc)
	}
	c.judgeMask("config-binary", cc, d.mask, cc.wantMask())
	for _, w := range cc.Work {
		w.wire = &wiring{pcts: d.pcts, disabled: subtypes(d.mask), limit: d.limit}
		c.evalAs(w, "config-binary:", cc)
		c.r.Event("config_binary_behaviour_cases", 1)
	}
}

func (c *checker) binaryPhase(t *testing.T, bin string, n int) {
	r := c.r
	if bin == "" {
		return
	}
	dir := outDir(t)
	probe := &cfgCase{Phase: "config-binary", Format: "toml"}
	probe.render()
	if res := invoke(bin, dir, -1, probe); res.err != "" {
		t.Logf("config-binary phase: probe failed: %s", res.err)
		r.Inconclusive("config-binary-skipped:probe-failed")
		return
	}
	rng := r.Rand("c08-config-binary")
	cases := make([]*cfgCase, n)
	for i := range cases {
		cases[i] = genBinaryCase(rng)
	}
	results := make([]dumped, n)
	t0 := time.Now()
	var wg sync.WaitGroup
	next := make(chan int)
	for w := 0; w < 8; w++ {
		wg.Add(1)
		go func() { // the workers draw nothing from a PRNG: the list is fixed before they start
			defer wg.Done()
			for i := range next {
				results[i] = invoke(bin, dir, i, cases[i])
			}
		}()
	}
	for i := range cases {
		next <- i
	}
	close(next)
	wg.Wait()
	r.Extra("config_binary_invocations_wall_s", time.Since(t0).Seconds())
	for i, cc := range cases {
		if results[i].err != "" {
			t.Logf("config-binary phase: invocation %d %s: %s", i, cc.describe(), results[i].err)
			r.Inconclusive("config-binary-invocation-failed")
			continue
		}
		r.Case("%s", cc.describe())
		c.judgeBinary(cc, results[i])
		if r.WantSample() && cc.Section && len(cc.Keys) >= 2 && cc.PctSource != "" && i%9 == 0 {
			r.Sample(map[string]interface{}{"args": cc.Args, "env": cc.Env, "file": cc.File, "dumped_percentiles": results[i].pcts, "dumped_mask": results[i].mask, "dumped_limit": results[i].limit})
		}
	}
}

func (c *checker) replayConfig(t *testing.T, cc *cfgCase) {
	switch cc.Phase {
	case "config-text":
		c.evalText(cc)
	case "config-binary":
		bin := buildBinary(t, c.r)
		if bin == "" {
			return
		}
		cc.render()
		res := invoke(bin, outDir(t), 0, cc)
		if res.err != "" {
			t.Logf("replay: %s", res.err)
			c.r.Inconclusive("config-binary-invocation-failed")
			return
		}
		c.judgeBinary(cc, res)
	}
}
