//go:build verif

package c08

// Flusher phase of C08: "per-second = (sum of 1/rate)/interval" speaks about the interval a flush covers,
// and that number is not chosen by the aggregator: the MetricFlusher measures it (tick value minus the
// previous tick value) and hands it to every aggregator. The phase runs the real MetricFlusher over a real
// BackendHandler with real MetricAggregators and a capturing backend, on a mock clock, through windows of
// DIFFERENT lengths: a partial first window (aligned flushing starts in the middle of an interval), ticks
// that arrive after several intervals have passed, and ordinary ones. Every flushed timer is compared with
// the reference computed from the datapoints dispatched in that window and the window's own length.

import (
	"context"
	"fmt"
	"math"
	"math/rand"
	"sort"
	"strconv"
	"sync"
	"sync/atomic"
	"time"

	"github.com/tilinna/clock"

	"github.com/atlassian/gostatsd"
	"github.com/atlassian/gostatsd/pkg/statsd"

	"verif/mon"
	"verif/ref"
)

const flusherWatchdog = 120 * time.Second

type fPoint struct {
	Series int     `json:"s"` // index into Timers, or len(Timers)+index of a counter
	Value  float64 `json:"v"`
	Rate   float64 `json:"r"`
}

// fStep is one advancement of the mock clock, preceded by the dispatch of a batch. All lengths are relative
// to the pending deadline of the ticker, so that the script does not depend on the epoch:
//
//	frac   advance by Frac (in (0,1)) of the time left to the deadline: nothing fires
//	hit    advance exactly to the deadline: the ticker fires
//	over   advance to the deadline plus Over intervals: the ticker fires late, and (mock semantics) the
//	       next deadline is the first one on the ticker's grid after the new now
type fStep struct {
	Batch []fPoint `json:"batch,omitempty"`
	Kind  string   `json:"kind"`
	Frac  float64  `json:"frac,omitempty"`
	Over  float64  `json:"over,omitempty"`
}

type fSeries struct {
	Tags    []string `json:"tags"`
	HistTag string   `json:"hist_tag,omitempty"`
	Source  string   `json:"source"`
}

type fCase struct {
	Phase       string    `json:"phase"` // "flusher"
	Aligned     bool      `json:"aligned"`
	IntervalNS  int64     `json:"interval_ns"`
	OffsetNS    int64     `json:"offset_ns"`
	Workers     int       `json:"workers"`
	Percentiles []float64 `json:"percentiles"`
	Disabled    uint16    `json:"disabled_mask"`
	Limit       uint32    `json:"histogram_limit"`
	Timers      []fSeries `json:"timers"`
	Counters    int       `json:"counters"`
	Steps       []fStep   `json:"steps"`
}

func (fc *fCase) describe() string {
	kinds := ""
	for _, s := range fc.Steps {
		kinds += s.Kind[:1]
		if s.Kind == "over" {
			kinds += strconv.FormatFloat(s.Over, 'g', 3, 64)
		}
	}
	return fmt.Sprintf("flusher aligned=%v interval=%v offset=%v workers=%d timers=%d counters=%d steps=%s", fc.Aligned, time.Duration(fc.IntervalNS), time.Duration(fc.OffsetNS), fc.Workers, len(fc.Timers), fc.Counters, kinds)
}

// ---------------------------------------------------------------------------------------------
// instruments

// recClock is a clock.Mock that notes when timers and tickers are created: the monitor reads the pending
// deadline from it instead of re-stating the ticker's arithmetic.
type recClock struct {
	*clock.Mock
	mu      sync.Mutex
	timers  []time.Time // deadlines of the timers created
	tickers []time.Time // creation instants of the tickers
}

func (c *recClock) NewTimer(d time.Duration) *clock.Timer {
	at := c.Mock.Now()
	c.mu.Lock()
	c.timers = append(c.timers, at.Add(d))
	c.mu.Unlock()
	return c.Mock.NewTimer(d)
}

func (c *recClock) NewTicker(d time.Duration) *clock.Ticker {
	at := c.Mock.Now()
	c.mu.Lock()
	c.tickers = append(c.tickers, at)
	c.mu.Unlock()
	return c.Mock.NewTicker(d)
}

func (c *recClock) firstTimer() (time.Time, bool) {
	c.mu.Lock()
	defer c.mu.Unlock()
	if len(c.timers) == 0 {
		return time.Time{}, false
	}
	return c.timers[0], true
}

func (c *recClock) firstTicker() (time.Time, bool) {
	c.mu.Lock()
	defer c.mu.Unlock()
	if len(c.tickers) == 0 {
		return time.Time{}, false
	}
	return c.tickers[0], true
}

// countingAgg is a real MetricAggregator that also counts the series entries it has been handed, so that the
// script knows when a dispatched batch has arrived (the worker picks maps and flush commands in random order).
type countingAgg struct {
	*statsd.MetricAggregator
	entries *atomic.Int64
}

func entriesOf(mm *gostatsd.MetricMap) int64 {
	var n int64
	mm.Timers.Each(func(string, string, gostatsd.Timer) { n++ })
	mm.Counters.Each(func(string, string, gostatsd.Counter) { n++ })
	return n
}

func (a *countingAgg) ReceiveMap(mm *gostatsd.MetricMap) {
	n := entriesOf(mm)
	a.MetricAggregator.ReceiveMap(mm)
	a.entries.Add(n) // published after the map is in
}

type capturedMap struct {
	timers   map[string]gostatsd.Timer   // name|tagsKey
	counters map[string]gostatsd.Counter // name|tagsKey
}

// capBackend copies what it is handed (the map is the aggregator's own, reset afterwards).
type capBackend struct {
	mu    sync.Mutex
	snaps []capturedMap
	n     atomic.Int64
}

func (b *capBackend) Name() string                                         { return "c08-capture" }
func (b *capBackend) SendEvent(context.Context, *gostatsd.Event) error { return nil }

func (b *capBackend) SendMetricsAsync(ctx context.Context, mm *gostatsd.MetricMap, cb gostatsd.SendCallback) {
	s := capturedMap{timers: map[string]gostatsd.Timer{}, counters: map[string]gostatsd.Counter{}}
	mm.Timers.Each(func(name, tagsKey string, t gostatsd.Timer) {
		t.Values = append([]float64(nil), t.Values...)
		t.Percentiles = append(gostatsd.Percentiles(nil), t.Percentiles...)
		if t.Histogram != nil {
			h := make(map[gostatsd.HistogramThreshold]int, len(t.Histogram))
			for k, v := range t.Histogram {
				h[k] = v
			}
			t.Histogram = h
		}
		s.timers[name+"|"+tagsKey] = t
	})
	mm.Counters.Each(func(name, tagsKey string, c gostatsd.Counter) { s.counters[name+"|"+tagsKey] = c })
	b.mu.Lock()
	b.snaps = append(b.snaps, s)
	b.mu.Unlock()
	b.n.Add(1) // published after the snapshot is stored
	cb(nil)
}

func (b *capBackend) flush(i, workers int) []capturedMap {
	b.mu.Lock()
	defer b.mu.Unlock()
	return append([]capturedMap(nil), b.snaps[i*workers:(i+1)*workers]...)
}

// ---------------------------------------------------------------------------------------------

type fWindow struct {
	points    []fPoint
	elapsedNS int64 // tick value minus previous tick value; window 0: tick value minus the mock's epoch
	tick      time.Time
}

func wallNow() time.Time { return time.Unix(0, time.Now().UnixNano()) }

func (c *checker) runFlusher(fc *fCase) {
	r := c.r
	r.Case("%s", fc.describe())
	P := time.Duration(fc.IntervalNS)
	nT := len(fc.Timers)
	tName := func(i int) string { return "ft" + strconv.Itoa(i) }
	cName := func(i int) string { return "fc" + strconv.Itoa(i) }

	// The flusher seeds "previous flush" from the real clock, so the first window is only defined when the
	// mock clock starts at the real now; the later windows do not depend on the epoch.
	mono0 := time.Now()
	epoch := time.Unix(0, mono0.UnixNano())
	rc := &recClock{Mock: clock.NewMock(epoch)}
	ctx, cancel := context.WithCancel(clock.Context(context.Background(), rc))
	be := &capBackend{}
	var entries atomic.Int64
	factory := statsd.AggregatorFactoryFunc(func() statsd.Aggregator {
		return &countingAgg{MetricAggregator: statsd.NewMetricAggregator(append([]float64(nil), fc.Percentiles...), 0, 0, 0, 0, subtypes(fc.Disabled), fc.Limit), entries: &entries}
	})
	backends := []gostatsd.Backend{be}
	bh := statsd.NewBackendHandler(backends, 4, fc.Workers, 64, factory)
	fl := statsd.NewMetricFlusher(P, time.Duration(fc.OffsetNS), fc.Aligned, bh, backends)
	var wg sync.WaitGroup
	wg.Add(2)
	go func() { defer wg.Done(); bh.Run(ctx) }()
	go func() { defer wg.Done(); fl.Run(ctx) }()
	stop := func() {
		cancel()
		done := make(chan struct{})
		go func() { wg.Wait(); close(done) }()
		select {
		case <-done:
		case <-time.After(flusherWatchdog):
			r.Inconclusive("flusher:shutdown-watchdog")
		}
	}

	// the pending deadline, read from the clock the flusher armed
	var deadline time.Time
	if !mon.WaitUntil(flusherWatchdog, func() bool { return rc.Len() > 0 }) {
		stop()
		r.Inconclusive("flusher:ticker-never-armed")
		return
	}
	if fc.Aligned {
		d, ok := rc.firstTimer()
		if !ok {
			stop()
			r.Inconclusive("flusher:aligned-without-initial-timer")
			return
		}
		deadline = d
	} else {
		at, ok := rc.firstTicker()
		if !ok {
			stop()
			r.Inconclusive("flusher:no-ticker")
			return
		}
		deadline = at.Add(P)
	}
	if !deadline.After(epoch) {
		stop()
		r.Inconclusive("flusher:deadline-not-in-the-future")
		return
	}

	var windows []fWindow
	var cur []fPoint
	var dispatched int64
	lastTick := epoch
	var wallAfterFirst time.Time
	var monoAfterFirst time.Duration
	for si, st := range fc.Steps {
		if len(st.Batch) > 0 {
			mm := gostatsd.NewMetricMap(false)
			for _, p := range st.Batch {
				m := &gostatsd.Metric{Value: p.Value, Rate: p.Rate, Timestamp: gostatsd.Nanotime(1000 + si)}
				if p.Series < nT {
					se := &fc.Timers[p.Series]
					m.Name, m.Type, m.Source = tName(p.Series), gostatsd.TIMER, gostatsd.Source(se.Source)
					m.Tags = append(gostatsd.Tags(nil), se.Tags...)
					if se.HistTag != "" {
						m.Tags = append(m.Tags, se.HistTag)
					}
				} else {
					m.Name, m.Type = cName(p.Series-nT), gostatsd.COUNTER
					m.Tags = gostatsd.Tags{"k:c"}
				}
				mm.Receive(m)
			}
			dispatched += entriesOf(mm)
			bh.DispatchMetricMap(ctx, mm)
			if !mon.WaitUntil(flusherWatchdog, func() bool { return entries.Load() >= dispatched }) {
				stop()
				r.Inconclusive("flusher:batch-not-received")
				return
			}
			cur = append(cur, st.Batch...)
		}
		now := rc.Now()
		left := deadline.Sub(now)
		switch st.Kind {
		case "frac":
			adv := time.Duration(float64(left) * st.Frac)
			if adv <= 0 || adv >= left {
				continue
			}
			rc.Add(adv)
			continue
		case "hit":
			rc.Add(left)
		case "over":
			rc.Add(left + time.Duration(st.Over*float64(P)))
		default:
			continue
		}
		// the ticker fired with the deadline as its value
		want := int64(len(windows)+1) * int64(fc.Workers)
		if !mon.WaitUntil(flusherWatchdog, func() bool { return be.n.Load() >= want }) {
			stop()
			r.Inconclusive("flusher:flush-not-observed")
			return
		}
		if len(windows) == 0 {
			wallAfterFirst = wallNow()
			monoAfterFirst = time.Since(mono0)
		}
		windows = append(windows, fWindow{points: cur, elapsedNS: int64(deadline.Sub(lastTick)), tick: deadline})
		cur = nil
		lastTick = deadline
		// next deadline (assumed mock semantics: first point of the ticker's grid after the new now)
		now = rc.Now()
		if fc.Aligned && len(windows) == 1 {
			at, ok := rc.firstTicker()
			if !ok {
				stop()
				r.Inconclusive("flusher:aligned-ticker-not-created")
				return
			}
			deadline = at.Add(P)
		} else {
			deadline = deadline.Add((now.Sub(deadline)/P + 1) * P)
		}
	}
	stop()
	if got := be.n.Load(); got != int64(len(windows))*int64(fc.Workers) {
		r.Violation("flusher:flush-count", fmt.Sprintf("%s: the backend was handed %d maps, the script fires the ticker %d times with %d aggregators", fc.describe(), got, len(windows), fc.Workers), fc)
		return
	}
	r.Eval(1)
	r.Event("flusher_cases", 1)
	r.Event("flusher_flushes", len(windows))

	// judge
	seenT := make([]bool, nT)
	seenC := make([]bool, fc.Counters)
	lengths := map[int64]bool{}
	for wi, w := range windows {
		flat := map[string]gostatsd.Timer{}
		flatFound := map[string]int{}
		flatC := map[string]gostatsd.Counter{}
		flatCFound := map[string]int{}
		for _, s := range be.flush(wi, fc.Workers) {
			for k, t := range s.timers {
				flat[k] = t
				flatFound[k]++
			}
			for k, cn := range s.counters {
				flatC[k] = cn
				flatCFound[k]++
			}
		}
		// the window as a case of the reference model
		cs := &tcase{Variant: "int", Percentiles: fc.Percentiles, Disabled: fc.Disabled, Limit: fc.Limit, IntervalNS: w.elapsedNS}
		for i := range fc.Timers {
			cs.Series = append(cs.Series, series{Tags: fc.Timers[i].Tags, HistTag: fc.Timers[i].HistTag, Source: fc.Timers[i].Source})
		}
		cVal := make([]int64, fc.Counters)
		for _, p := range w.points {
			if p.Series < nT {
				cs.Series[p.Series].Values = append(cs.Series[p.Series].Values, p.Value)
				cs.Series[p.Series].Rates = append(cs.Series[p.Series].Rates, p.Rate)
				seenT[p.Series] = true
			} else {
				cVal[p.Series-nT] += int64(p.Value / p.Rate)
				seenC[p.Series-nT] = true
			}
		}
		first := wi == 0
		var lo, hi float64 // bracket of the first window's length in seconds
		firstJudged := false
		if first {
			// previous flush = the real clock when Run started, between the epoch and the first flush
			hi = float64(w.tick.Sub(epoch)) / 1e9
			lo = float64(w.tick.Sub(wallAfterFirst)) / 1e9
			drift := wallAfterFirst.Sub(epoch) - monoAfterFirst
			firstJudged = lo > 0 && drift < 50*time.Millisecond && drift > -50*time.Millisecond
			if firstJudged {
				r.Event("flusher_first_window_judged", 1)
				if hi < 0.9*float64(P)/1e9 {
					r.Event("flusher_first_window_partial", 1)
				}
			} else {
				r.Event("flusher_first_window_not_judged", 1)
			}
		} else {
			lengths[w.elapsedNS/fc.IntervalNS] = true
			if w.elapsedNS != fc.IntervalNS {
				r.Event("flusher_windows_longer_than_configured", 1)
			}
		}
		head := fmt.Sprintf("%s: flush %d covers %v (configured interval %v)", fc.describe(), wi, time.Duration(w.elapsedNS), P)
		for si := range cs.Series {
			if !seenT[si] {
				continue
			}
			se := &cs.Series[si]
			rt := reference(cs, se)
			key := tName(si) + "|" + se.key()
			r.Event("flusher_timer_flushes_compared", 1)
			for _, d := range c.compare(cs, se, rt, observed{found: flatFound[key], timer: flat[key]}) {
				if first && d[0] == "timer-stat:per_second" {
					continue // judged by the bracket below
				}
				r.Violation("flusher:"+d[0], fmt.Sprintf("%s, timer %d (n=%d, sum of 1/rate=%v): %s", head, si, rt.n, rt.sampled, d[1]), fc)
			}
			if first && firstJudged && !rt.histogram && rt.n > 0 && flatFound[key] == 1 {
				got := flat[key].PerSecond
				if got < rt.sampled/hi*(1-1e-9) || got > rt.sampled/lo*(1+1e-9) {
					r.Violation("flusher:first-window:timer-stat:per_second", fmt.Sprintf("%s: the first flush covers between %.6fs and %.6fs (flusher started between the epoch of the clock and the flush), timer %d has sum of 1/rate = %v, yet per-second = %v (configured interval %v)",
						fc.describe(), lo, hi, si, rt.sampled, got, P), fc)
				}
			}
		}
		for ci := 0; ci < fc.Counters; ci++ {
			if !seenC[ci] {
				continue
			}
			key := cName(ci) + "|" + ref.TagsKey(gostatsd.Tags{"k:c"}, "")
			if flatCFound[key] != 1 {
				r.Violation("flusher:counter-series-count", fmt.Sprintf("%s: counter %d appears %d times", head, ci, flatCFound[key]), fc)
				continue
			}
			got := flatC[key]
			r.Event("flusher_counter_flushes_compared", 1)
			if got.Value != cVal[ci] {
				r.Violation("flusher:counter-value", fmt.Sprintf("%s: counter %d = %d, want %d", head, ci, got.Value, cVal[ci]), fc)
				continue
			}
			if !first {
				want := float64(cVal[ci]) / (float64(w.elapsedNS) / 1e9)
				if got.PerSecond != want {
					r.Violation("flusher:counter-per_second", fmt.Sprintf("%s: counter %d = %d, per-second %v, want %v (= value / length of the window)", head, ci, got.Value, got.PerSecond, want), fc)
				}
			} else if firstJudged && cVal[ci] > 0 {
				v := float64(cVal[ci])
				if got.PerSecond < v/hi*(1-1e-9) || got.PerSecond > v/lo*(1+1e-9) {
					r.Violation("flusher:first-window:counter-per_second", fmt.Sprintf("%s: the first flush covers between %.6fs and %.6fs, counter %d = %d, yet per-second = %v (configured interval %v)", fc.describe(), lo, hi, ci, got.Value, got.PerSecond, P), fc)
				}
			}
		}
	}
	ls := make([]int, 0, len(lengths))
	for l := range lengths {
		ls = append(ls, int(l))
	}
	sort.Ints(ls)
	if len(windows) >= 2 {
		r.Nontrivial(fmt.Sprintf("flusher:aligned=%v:%v:w%d:lengths=%v", fc.Aligned, P, fc.Workers, ls))
	}
	if r.WantSample() && len(ls) >= 2 && len(fc.Steps) <= 8 {
		r.Sample(fc)
	}
}

// ---------------------------------------------------------------------------------------------
// generator

var flushIntervals = []time.Duration{10 * time.Second, time.Minute, 10 * time.Minute, time.Hour, 15 * time.Second, 90 * time.Second, 7 * time.Second}

func genBatch(rng *rand.Rand, nT, nC int) []fPoint {
	if rng.Intn(5) == 0 {
		return nil
	}
	n := 1 + rng.Intn(8)
	out := make([]fPoint, n)
	for i := range out {
		s := rng.Intn(nT + nC)
		if nC > 0 && rng.Intn(4) == 0 {
			s = nT + rng.Intn(nC)
		}
		out[i] = fPoint{Series: s, Value: float64(rng.Intn(41) - 10), Rate: []float64{1, 1, 0.5, 0.25, 0.125}[rng.Intn(5)]}
		if s >= nT {
			out[i].Value = float64(rng.Intn(20))
		}
	}
	return out
}

func genFlusherCase(rng *rand.Rand) *fCase {
	fc := &fCase{Phase: "flusher", Aligned: rng.Intn(2) == 0, Workers: 1 + rng.Intn(3), Limit: math.MaxUint32}
	fc.IntervalNS = int64(flushIntervals[rng.Intn(len(flushIntervals))])
	if fc.Aligned && rng.Intn(3) == 0 {
		fc.OffsetNS = rng.Int63n(fc.IntervalNS)
	}
	for i, np := 0, rng.Intn(4); i < np; i++ {
		fc.Percentiles = append(fc.Percentiles, pctPool[rng.Intn(len(pctPool))])
	}
	if rng.Intn(4) == 0 {
		fc.Disabled = uint16(rng.Intn(1 << 15))
	}
	nT := 1 + rng.Intn(4)
	ids := rng.Perm(len(identities))[:nT]
	for _, id := range ids {
		fs := fSeries{Tags: identities[id].tags, Source: identities[id].source}
		if rng.Intn(6) == 0 {
			fs.HistTag = histPrefix + "0_5_20"
		}
		fc.Timers = append(fc.Timers, fs)
	}
	fc.Counters = rng.Intn(3)
	fires := 3 + rng.Intn(5)
	for f := 0; f < fires; f++ {
		for k := rng.Intn(3); k > 0; k-- { // advancements that do not reach the deadline
			fc.Steps = append(fc.Steps, fStep{Batch: genBatch(rng, nT, fc.Counters), Kind: "frac", Frac: []float64{0.1, 0.25, 0.5, 0.9}[rng.Intn(4)]})
		}
		st := fStep{Batch: genBatch(rng, nT, fc.Counters), Kind: "hit"}
		// the first tick of the aligned ticker is taken exactly, so that the repeating ticker starts on the grid
		if !(fc.Aligned && f == 0) && rng.Intn(2) == 0 {
			st.Kind = "over"
			st.Over = []float64{0.25, 0.5, 1, 1.5, 2, 3.75}[rng.Intn(6)]
		}
		fc.Steps = append(fc.Steps, st)
	}
	return fc
}
