//go:build verif

// C08 — timer statistics and histograms are those of the received multiset.
package c08

import (
	"fmt"
	"math"
	"math/rand"
	"sort"
	"strconv"
	"strings"
	"testing"
	"time"

	"github.com/atlassian/gostatsd"
	"github.com/atlassian/gostatsd/pkg/statsd"

	"verif/mon"
	"verif/ref"
)

const histPrefix = "gsd_histogram:"

// order is one arrival order of the multiset: a permutation of the datapoint indexes, cut into
// the batches handed to ReceiveMap, on a fresh aggregator or on one in which the series already
// went through a flush/Reset cycle.
type order struct {
	Perm   []int `json:"perm"`
	Chunks []int `json:"chunks"`
	Warm   bool  `json:"warm"`
}

// series is one timer series of the case: its identity (tags, source) under the shared metric name and
// the multiset it receives.
type series struct {
	Tags    []string  `json:"tags"`     // without the histogram tag
	HistTag string    `json:"hist_tag"` // complete tag, "" = ordinary timer
	Source  string    `json:"source"`
	Values  []float64 `json:"values"`
	Rates   []float64 `json:"rates"`
}

// tcase is one (multisets, configuration) pair: 1..6 series under ONE metric name (different tag sets and
// sources), as the parser produces them. It is self-contained: replaying it needs no PRNG.
type tcase struct {
	Variant     string    `json:"variant"` // "int" (exact comparison) or "float" (1e-9 relative)
	Series      []series  `json:"series"`
	Percentiles []float64 `json:"percentiles"`
	Disabled    uint16    `json:"disabled_mask"`
	Limit       uint32    `json:"histogram_limit"`
	IntervalNS  int64     `json:"interval_ns"`
	// Orders permute the datapoints of all series, flattened series by series
	Orders [2]order `json:"orders"`
	// Report marks a witness of the reporting oracle (replay runs that oracle too)
	Report bool `json:"report,omitempty"`
	// wire, when set, is what the aggregator is really built with (the values that came out of the
	// configuration code under test); Percentiles / Disabled / Limit above then state what the
	// configuration TEXT means and drive the reference only.
	wire *wiring
}

// wiring is the aggregator configuration as some configuration path of gostatsd produced it.
type wiring struct {
	pcts     []float64
	disabled gostatsd.TimerSubtypes
	limit    uint32
}

func (cs *tcase) total() int {
	n := 0
	for i := range cs.Series {
		n += len(cs.Series[i].Values)
	}
	return n
}

// locate maps a flattened datapoint index to (series, index in series).
func (cs *tcase) locate(flat int) (int, int) {
	for si := range cs.Series {
		if flat < len(cs.Series[si].Values) {
			return si, flat
		}
		flat -= len(cs.Series[si].Values)
	}
	panic("harness: flattened index out of range")
}

func (s *series) allTags() gostatsd.Tags {
	t := append(gostatsd.Tags(nil), s.Tags...)
	if s.HistTag != "" {
		t = append(t, s.HistTag)
	}
	return t
}

// key is the documented series key (sorted tags joined by ',' plus ",s:<source>"), re-stated in ref.TagsKey.
func (s *series) key() string { return ref.TagsKey(s.allTags(), s.Source) }

func subtypes(mask uint16) gostatsd.TimerSubtypes {
	b := func(i uint) bool { return mask&(1<<i) != 0 }
	return gostatsd.TimerSubtypes{
		Lower: b(0), LowerPct: b(1), Upper: b(2), UpperPct: b(3), Count: b(4), CountPct: b(5), CountPerSecond: b(6),
		Mean: b(7), MeanPct: b(8), Median: b(9), StdDev: b(10), Sum: b(11), SumPct: b(12), SumSquares: b(13), SumSquaresPct: b(14),
	}
}

// ---------------------------------------------------------------------------------------------
// reference model (independent re-statement of the property)

type refTimer struct {
	n          int
	count      int
	sampled    float64
	perSecond  float64
	min, max   float64
	sum        float64
	sumSquares float64
	mean       float64
	median     float64
	stdDev     float64
	pct        map[string]float64
	pctKind    map[string]string // name -> count|mean|sum|sum_squares|upper|lower
	pctScale   map[string]float64

	sumAbs, maxAbs float64

	histogram bool
	buckets   map[float64]int // finite, ±Inf bounds (NaN bounds counted in nanBounds)
	nanBounds int
	nBounds   int // parsable bounds kept (after the limit)
}

func refRound(x float64) float64 { return math.Floor(x + 0.5) }

func reference(cs *tcase, se *series) *refTimer {
	rt := &refTimer{n: len(se.Values)}
	sorted := append([]float64(nil), se.Values...)
	sort.Float64s(sorted)
	n := len(sorted)

	if se.HistTag != "" {
		rt.histogram = true
		rt.buckets = map[float64]int{}
		if cs.Limit == 0 {
			return rt
		}
		var bounds []float64
		for _, item := range strings.Split(strings.TrimPrefix(se.HistTag, histPrefix), "_") {
			if f, err := strconv.ParseFloat(item, 64); err == nil {
				bounds = append(bounds, f)
			}
		}
		if uint64(len(bounds)) > uint64(cs.Limit) {
			bounds = bounds[:cs.Limit]
		}
		rt.nBounds = len(bounds)
		for _, b := range bounds {
			if math.IsNaN(b) {
				rt.nanBounds++
				continue
			}
			c := 0
			for _, v := range sorted {
				if v <= b {
					c++
				}
			}
			rt.buckets[b] = c
		}
		rt.buckets[math.Inf(1)] = n
		return rt
	}

	for _, r := range se.Rates {
		rt.sampled += 1 / r
	}
	rt.pct = map[string]float64{}
	rt.pctKind = map[string]string{}
	rt.pctScale = map[string]float64{}
	if n == 0 {
		return rt
	}
	rt.count = int(refRound(rt.sampled))
	rt.perSecond = rt.sampled / (float64(cs.IntervalNS) / 1e9)
	rt.min, rt.max = sorted[0], sorted[n-1]
	for _, v := range sorted {
		rt.sum += v
		rt.sumSquares += v * v
		rt.sumAbs += math.Abs(v)
		rt.maxAbs = math.Max(rt.maxAbs, math.Abs(v))
	}
	rt.mean = rt.sum / float64(n)
	if n%2 == 1 {
		rt.median = sorted[n/2]
	} else {
		rt.median = (sorted[n/2-1] + sorted[n/2]) / 2
	}
	dev := 0.0
	for _, v := range sorted {
		dev += (v - rt.mean) * (v - rt.mean)
	}
	rt.stdDev = math.Sqrt(dev / float64(n))

	dis := subtypes(cs.Disabled)
	for _, p := range cs.Percentiles {
		k := int(refRound(math.Abs(p) / 100 * float64(n)))
		if n == 1 {
			k = 1
		}
		if k == 0 {
			continue
		}
		var subset []float64
		var boundary float64
		boundaryName := ""
		if p > 0 {
			subset = sorted[:k]
			boundary = sorted[k-1]
			boundaryName = "upper"
		} else { // p < 0; p == 0 only survives with n == 1, where the tree names the boundary "lower_0"
			subset = sorted[n-k:]
			boundary = sorted[n-k]
			boundaryName = "lower"
		}
		s, sq := 0.0, 0.0
		for _, v := range subset {
			s += v
			sq += v * v
		}
		ps := strconv.Itoa(int(p))
		set := func(disabled bool, kind string, v, scale float64) {
			if disabled {
				return
			}
			name := kind + "_" + ps
			rt.pct[name] = v
			rt.pctKind[name] = kind
			rt.pctScale[name] = scale
		}
		set(dis.CountPct, "count", float64(k), 0)
		set(dis.MeanPct, "mean", s/float64(k), rt.maxAbs)
		set(dis.SumPct, "sum", s, rt.sumAbs)
		set(dis.SumSquaresPct, "sum_squares", sq, rt.sumSquares)
		if boundaryName == "upper" {
			set(dis.UpperPct, "upper", boundary, 0)
		} else {
			set(dis.LowerPct, "lower", boundary, 0)
		}
	}
	return rt
}

// ---------------------------------------------------------------------------------------------
// driving the real aggregator

type observed struct {
	found int
	timer gostatsd.Timer
}

const seriesName = "t"

func (cs *tcase) metric(flat int, ts int64) *gostatsd.Metric {
	si, i := cs.locate(flat)
	se := &cs.Series[si]
	return &gostatsd.Metric{Name: seriesName, Type: gostatsd.TIMER, Value: se.Values[i], Rate: se.Rates[i], Tags: se.allTags(), Source: gostatsd.Source(se.Source), Timestamp: gostatsd.Nanotime(ts)}
}

// run merges the datapoints in the given order, through maps built by the real MetricMap.Receive (as the
// parser builds them), flushes, and returns what the flushed map shows per series key.
func (cs *tcase) run(o order) (map[string]observed, int) {
	return cs.runWith(o, nil, nil)
}

// runWith is run with one metric name per series (names, nil = the shared name) and a tap that is given the
// flushed map inside Process (the reporting oracle hands it to real backends).
func (cs *tcase) runWith(o order, names []string, tap func(*gostatsd.MetricMap)) (map[string]observed, int) {
	nameOf := func(si int) string {
		if names == nil {
			return seriesName
		}
		return names[si]
	}
	w := wiring{pcts: cs.Percentiles, disabled: subtypes(cs.Disabled), limit: cs.Limit}
	if cs.wire != nil {
		w = *cs.wire
	}
	agg := statsd.NewMetricAggregator(append([]float64(nil), w.pcts...), 0, 0, 0, 0, w.disabled, w.limit)
	interval := time.Duration(cs.IntervalNS)
	// a series goes through one complete flush cycle first when the order is "warm", and always when it
	// receives nothing afterwards (idle persisted series); expiry 0 keeps it
	mm := gostatsd.NewMetricMap(false)
	warmed := 0
	for si := range cs.Series {
		se := &cs.Series[si]
		if !o.Warm && len(se.Values) > 0 {
			continue
		}
		for _, v := range []float64{7, 9, 1000003} {
			mm.Receive(&gostatsd.Metric{Name: nameOf(si), Type: gostatsd.TIMER, Value: v, Rate: 0.5, Tags: se.allTags(), Source: gostatsd.Source(se.Source), Timestamp: 1})
			warmed++
		}
	}
	if warmed > 0 {
		agg.ReceiveMap(mm)
		agg.Flush(interval)
		agg.Process(func(*gostatsd.MetricMap) {})
		agg.Reset()
	}
	pos := 0
	for ci, c := range o.Chunks {
		mm := gostatsd.NewMetricMap(false)
		if ci%3 == 2 { // an unrelated name first in the batch
			mm.Receive(&gostatsd.Metric{Name: "decoy", Type: gostatsd.TIMER, Value: -123456, Rate: 0.25, Tags: gostatsd.Tags{"env:x"}, Timestamp: 5})
		}
		for _, flat := range o.Perm[pos : pos+c] {
			m := cs.metric(flat, int64(100+flat))
			si, _ := cs.locate(flat)
			m.Name = nameOf(si)
			mm.Receive(m)
		}
		pos += c
		if ci%2 == 1 { // unrelated series in the same batch must not leak into ours
			mm.Receive(&gostatsd.Metric{Name: "decoy", Type: gostatsd.TIMER, Value: -123456, Rate: 0.25, Tags: gostatsd.Tags{"env:x"}, Timestamp: 5})
			mm.Receive(&gostatsd.Metric{Name: seriesName, Type: gostatsd.TIMER, Value: 654321, Rate: 0.25, Tags: gostatsd.Tags{"decoy:1"}, Timestamp: 5})
		}
		agg.ReceiveMap(mm)
	}
	if tap != nil { // a set sorts last in every text payload: the sentinel marks the end of the stdout capture
		mm := gostatsd.NewMetricMap(false)
		mm.Receive(&gostatsd.Metric{Name: sentinelName, Type: gostatsd.SET, StringValue: "x", Rate: 1, Timestamp: 5})
		agg.ReceiveMap(mm)
	}
	agg.Flush(interval)
	out := map[string]observed{}
	others := 0
	want := map[string]bool{}
	for si := range cs.Series {
		want[nameOf(si)+"|"+cs.Series[si].key()] = true
	}
	agg.Process(func(mm *gostatsd.MetricMap) {
		if tap != nil {
			tap(mm)
		}
		mm.Timers.Each(func(name, tagsKey string, t gostatsd.Timer) {
			if !want[name+"|"+tagsKey] {
				others++
				return
			}
			ob := out[tagsKey]
			ob.found++
			t.Values = append([]float64(nil), t.Values...)
			t.Percentiles = append(gostatsd.Percentiles(nil), t.Percentiles...)
			if t.Histogram != nil {
				h := make(map[gostatsd.HistogramThreshold]int, len(t.Histogram))
				nan := 0
				for k, v := range t.Histogram {
					if math.IsNaN(float64(k)) {
						nan++
						if v != 0 {
							nan += 1 << 20 // marks "a NaN bound with a non-zero count"
						}
						continue
					}
					h[k] = v
				}
				if nan > 0 {
					h[gostatsd.HistogramThreshold(math.NaN())] = nan
				}
				t.Histogram = h
			}
			ob.timer = t
			out[tagsKey] = ob
		})
	})
	return out, others
}

// ---------------------------------------------------------------------------------------------
// comparison

type checker struct {
	r  *mon.Run
	rp *reporters // real backends of the reporting oracle (report_test.go)
}

func (c *checker) same(exact bool, got, want, scale float64) bool {
	if got == want {
		return true
	}
	if exact || math.IsNaN(got) || math.IsNaN(want) || math.IsInf(got, 0) || math.IsInf(want, 0) {
		return false
	}
	return math.Abs(got-want) <= 1e-9*math.Max(scale, math.Max(math.Abs(got), math.Abs(want)))
}

// compare returns the list of (signature, detail) differences between what was flushed and the reference.
func (c *checker) compare(cs *tcase, se *series, rt *refTimer, ob observed) [][2]string {
	var out [][2]string
	add := func(sig, format string, a ...interface{}) { out = append(out, [2]string{sig, fmt.Sprintf(format, a...)}) }
	if ob.found != 1 {
		add("series-count", "the flushed map holds %d timers for the series, want 1", ob.found)
		return out
	}
	t := ob.timer
	exact := cs.Variant == "int"

	if rt.histogram {
		// none of the summary statistics
		if t.Count != 0 || t.PerSecond != 0 || t.Min != 0 || t.Max != 0 || t.Sum != 0 || t.SumSquares != 0 || t.Mean != 0 || t.Median != 0 || t.StdDev != 0 || len(t.Percentiles) != 0 {
			add("histogram:summary-present", "histogram timer carries summary statistics: count=%d ps=%v min=%v max=%v sum=%v sumsq=%v mean=%v median=%v std=%v percentiles=%v",
				t.Count, t.PerSecond, t.Min, t.Max, t.Sum, t.SumSquares, t.Mean, t.Median, t.StdDev, t.Percentiles)
		}
		if cs.Limit == 0 {
			if len(t.Histogram) != 0 {
				add("histogram:limit0-nonempty", "bucket limit 0 but the histogram has %d entries: %v", len(t.Histogram), t.Histogram)
			}
			return out
		}
		gotNaN := 0
		got := map[float64]int{}
		for k, v := range t.Histogram {
			if math.IsNaN(float64(k)) {
				gotNaN = v
				continue
			}
			got[float64(k)] = v
		}
		if gotNaN >= 1<<20 {
			add("histogram:nan-bound-count", "a NaN bound has a non-zero count")
		}
		if (gotNaN > 0) != (rt.nanBounds > 0) {
			add("histogram:nan-bound-presence", "NaN bounds in the flushed histogram: %d, in the kept bound list: %d", gotNaN&(1<<20-1), rt.nanBounds)
		}
		keys := make([]float64, 0, len(rt.buckets))
		for b := range rt.buckets {
			keys = append(keys, b)
		}
		sort.Float64s(keys)
		for _, b := range keys {
			g, ok := got[b]
			if !ok {
				add("histogram:bucket-missing", "bucket le=%v missing (want %d); got %v", b, rt.buckets[b], got)
			} else if g != rt.buckets[b] {
				add("histogram:bucket-count", "bucket le=%v = %d, want %d (= number of values <= bound); got %v want %v", b, g, rt.buckets[b], got, rt.buckets)
			}
		}
		for b := range got {
			if _, ok := rt.buckets[b]; !ok {
				add("histogram:bucket-unexpected", "bucket le=%v reported but not among the first %d parsable bounds of %q; got %v want %v", b, cs.Limit, se.HistTag, got, rt.buckets)
			}
		}
		return out
	}

	if t.Histogram != nil {
		add("histogram-on-plain-timer", "timer without histogram tag carries a histogram %v", t.Histogram)
	}
	if rt.n == 0 {
		if t.Count != 0 || t.PerSecond != 0 || len(t.Percentiles) != 0 || len(t.Values) != 0 {
			add("idle-timer", "idle persisted timer reports count=%d per-second=%v percentiles=%v values=%v", t.Count, t.PerSecond, t.Percentiles, t.Values)
		}
		// the sum and the sum of squares of the empty multiset are 0
		if t.Sum != 0 {
			add("idle-timer:sum", "idle persisted timer (no values this interval) reports sum=%v, want 0", t.Sum)
		}
		if t.SumSquares != 0 {
			add("idle-timer:sum_squares", "idle persisted timer (no values this interval) reports sum_squares=%v, want 0", t.SumSquares)
		}
		// min, max, mean, median and std-dev of the empty multiset are undefined: recorded, not asserted
		if t.Min != 0 || t.Max != 0 || t.Mean != 0 || t.Median != 0 || t.StdDev != 0 {
			c.r.Event("idle_timer_undefined_stats_nonzero", 1)
		} else {
			c.r.Event("idle_timer_undefined_stats_zero", 1)
		}
		return out
	}
	if len(t.Values) != rt.n {
		add("timer-stat:values", "timer holds %d values, the multiset has %d", len(t.Values), rt.n)
	}
	// count: in the float variant the sum of 1/rate depends on the summation order; skip when it sits on a rounding boundary
	nearHalf := math.Abs(rt.sampled+0.5-math.Round(rt.sampled+0.5)) < 1e-6*math.Max(1, rt.sampled)
	if t.Count != rt.count && (exact || !nearHalf) {
		add("timer-stat:count", "count %d want %d (sum of 1/rate = %v)", t.Count, rt.count, rt.sampled)
	}
	stat := func(name string, got, want, scale float64, ex bool) {
		if !c.same(ex, got, want, scale) {
			add("timer-stat:"+name, "%s = %v want %v", name, got, want)
		}
	}
	stat("per_second", t.PerSecond, rt.perSecond, 0, exact)
	stat("min", t.Min, rt.min, 0, true)
	stat("max", t.Max, rt.max, 0, true)
	stat("median", t.Median, rt.median, 0, true)
	stat("sum", t.Sum, rt.sum, rt.sumAbs, exact)
	stat("sum_squares", t.SumSquares, rt.sumSquares, rt.sumSquares, exact)
	stat("mean", t.Mean, rt.mean, rt.maxAbs, exact)
	stat("std_dev", t.StdDev, rt.stdDev, rt.maxAbs, false)

	got := map[string]float64{}
	for _, p := range t.Percentiles {
		if _, dup := got[p.Str]; dup {
			add("percentile:duplicate", "percentile entry %q reported twice: %v", p.Str, t.Percentiles)
		}
		got[p.Str] = p.Float
	}
	names := make([]string, 0, len(rt.pct))
	for name := range rt.pct {
		names = append(names, name)
	}
	sort.Strings(names)
	for _, name := range names {
		g, ok := got[name]
		kind := rt.pctKind[name]
		if !ok {
			add("percentile:missing:"+kind, "percentile entry %q missing (want %v); got %v", name, rt.pct[name], t.Percentiles)
			continue
		}
		ex := exact || kind == "count" || kind == "upper" || kind == "lower"
		if !c.same(ex, g, rt.pct[name], rt.pctScale[name]) {
			add("percentile:value:"+kind, "percentile entry %q = %v want %v (n=%d)", name, g, rt.pct[name], rt.n)
		}
	}
	extra := []string{}
	for name := range got {
		if _, ok := rt.pct[name]; !ok {
			extra = append(extra, name)
		}
	}
	sort.Strings(extra)
	for _, name := range extra {
		add("percentile:unexpected", "percentile entry %q = %v reported, but the reference has none (k = 0, disabled sub-metric or unknown name); want %v", name, got[name], rt.pct)
	}
	return out
}

func nClass(n int) string {
	switch {
	case n <= 3:
		return strconv.Itoa(n)
	case n <= 10:
		return "4-10"
	case n <= 50:
		return "11-50"
	default:
		return "51-200"
	}
}

func limitClass(l uint32) string {
	if l == math.MaxUint32 {
		return "max"
	}
	return strconv.Itoa(int(l))
}

// eval runs one case in both arrival orders and reports every difference, series by series.
func (c *checker) eval(cs *tcase) { c.evalAs(cs, "", cs) }

// evalAs is eval with a signature prefix and a witness of its own (the configuration phases replay the
// configuration case, not only the workload).
func (c *checker) evalAs(cs *tcase, prefix string, witness interface{}) {
	refs := make([]*refTimer, len(cs.Series))
	for si := range cs.Series {
		refs[si] = reference(cs, &cs.Series[si])
	}
	for oi, o := range cs.Orders {
		var obs map[string]observed
		if c.r.Guard(prefix+"flush-panic", witness, func() { obs, _ = cs.run(o) }) {
			continue
		}
		for si := range cs.Series {
			se := &cs.Series[si]
			rt := refs[si]
			for _, d := range c.compare(cs, se, rt, obs[se.key()]) {
				c.r.Violation(prefix+d[0], fmt.Sprintf("order %d (warm=%v, %d batches), series %d of %d under one name (key %q), n=%d variant=%s percentiles=%v limit=%d tag=%q interval=%v: %s",
					oi, o.Warm, len(o.Chunks), si, len(cs.Series), se.key(), rt.n, cs.Variant, cs.Percentiles, cs.Limit, se.HistTag, time.Duration(cs.IntervalNS), d[1]), witness)
			}
			c.r.Event("series_flushes_compared", 1)
		}
	}
	c.r.Eval(1)
	if len(cs.Series) > 1 {
		c.r.Event("cases_with_several_series_under_one_name", 1)
	}

	// non-trivial classes
	pos, neg := false, false
	for _, p := range cs.Percentiles {
		pos = pos || p > 0
		neg = neg || p < 0
	}
	kc := minInt(len(cs.Series), 3)
	for _, rt := range refs {
		if rt.histogram {
			c.r.Event("histogram_series", 1)
			if rt.nBounds >= 2 {
				c.r.Nontrivial(fmt.Sprintf("h:k%d:%s:%s:%d", kc, nClass(rt.n), limitClass(cs.Limit), minInt(rt.nBounds, 6)))
			}
		} else {
			c.r.Event("summary_series", 1)
			if rt.n >= 2 && pos && neg {
				ps := append([]float64(nil), cs.Percentiles...)
				sort.Float64s(ps)
				c.r.Nontrivial(fmt.Sprintf("s:k%d:%s:%s:%v", kc, cs.Variant, nClass(rt.n), ps))
			}
		}
		if rt.n == 0 {
			c.r.Event("idle_series", 1)
		}
	}
}

func minInt(a, b int) int {
	if a < b {
		return a
	}
	return b
}

// ---------------------------------------------------------------------------------------------
// generator

var pctPool = []float64{100, -100, 90, -90, 50, -50, 1, -1, 0, 99, -99, 95, -95, 75, -75, 25, -25, 10, -10}

var intervals = []int64{int64(time.Second), int64(10 * time.Second), int64(time.Minute), int64(250 * time.Millisecond), int64(time.Millisecond), 1, int64(3 * time.Second), int64(time.Hour)}

var oddBounds = []string{"", "a", "nan", "NaN", "inf", "+Inf", "-inf", "1e999", "0x1p4", "1_0", " 5", "5 ", "--1", "1e-3", "-0", "0", ".5", "5."}

func genN(rng *rand.Rand) int {
	switch x := rng.Intn(20); {
	case x < 2:
		return 0
	case x < 4:
		return 1
	case x < 6:
		return 2
	case x < 8:
		return 3
	case x < 11:
		return 4 + rng.Intn(7)
	case x < 15:
		return 11 + rng.Intn(40)
	default:
		return 51 + rng.Intn(150)
	}
}

func genOrder(rng *rand.Rand, n int, base []int) order {
	o := order{Perm: base, Warm: rng.Intn(3) == 0}
	left := n
	for left > 0 {
		c := 1 + rng.Intn(left)
		if rng.Intn(3) == 0 {
			c = 1 + rng.Intn(minInt(left, 3))
		}
		o.Chunks = append(o.Chunks, c)
		left -= c
	}
	return o
}

// identities under one metric name: pairwise different (tags, source)
var identities = []struct {
	tags   []string
	source string
}{
	{[]string{"env:x"}, ""},
	{[]string{"env:y"}, ""},
	{nil, ""},
	{nil, "10.0.0.1"},
	{[]string{"env:x"}, "10.0.0.1"},
	{[]string{"env:x", "region:us"}, ""},
	{[]string{"region:us", "env:x"}, "i-abc"},
	{[]string{"bare"}, "10.0.0.2"},
}

func genSeries(rng *rand.Rand, variant string, n, span int) series {
	se := series{Values: make([]float64, n), Rates: make([]float64, n)}
	for i := range se.Values {
		if variant == "int" {
			se.Values[i] = float64(rng.Intn(2*span+1) - span)
			if rng.Intn(2) == 0 {
				se.Values[i] = float64(rng.Intn(span + 1))
			}
			// dyadic rates, below and above 1: the sum of 1/rate is exact in any order
			se.Rates[i] = []float64{1, 0.5, 0.25, 0.125, 1, 0.5, 2, 4}[rng.Intn(8)]
		} else {
			switch rng.Intn(4) {
			case 0:
				se.Values[i] = float64(rng.Intn(2000001)-1000000) / 1000
			case 1:
				se.Values[i] = rng.NormFloat64() * 1e3
			case 2:
				se.Values[i] = math.Exp(rng.Float64()*20-7) * float64(1-2*rng.Intn(2))
			default:
				se.Values[i] = rng.Float64() * float64(span)
			}
			switch rng.Intn(4) {
			case 0:
				se.Rates[i] = 1
			case 1:
				se.Rates[i] = float64(1+rng.Intn(100)) / 100
			case 2:
				se.Rates[i] = 1 + float64(rng.Intn(300))/100
			default:
				se.Rates[i] = 1 - rng.Float64()*0.999
			}
		}
	}
	if variant == "float" && n > 1 && rng.Intn(5) == 0 { // all values equal: std-dev 0 up to rounding
		for i := range se.Values {
			se.Values[i] = se.Values[0]
		}
	}
	if rng.Intn(3) == 0 { // histogram timer
		nb := rng.Intn(7)
		items := make([]string, 0, nb)
		for i := 0; i < nb; i++ {
			switch x := rng.Intn(10); {
			case x < 4 && n > 0: // a bound equal to one of the values (<= versus <)
				items = append(items, strconv.FormatFloat(se.Values[rng.Intn(n)], 'g', -1, 64))
			case x < 6:
				items = append(items, strconv.Itoa(rng.Intn(2*span+1)-span))
			case x < 7:
				items = append(items, strconv.FormatFloat(rng.Float64()*float64(span), 'f', 2, 64))
			case x < 8 && len(items) > 0: // duplicate
				items = append(items, items[rng.Intn(len(items))])
			default:
				items = append(items, oddBounds[rng.Intn(len(oddBounds))])
			}
		}
		se.HistTag = histPrefix + strings.Join(items, "_")
	}
	return se
}

func genCase(rng *rand.Rand) *tcase {
	cs := &tcase{Variant: "int"}
	if rng.Intn(3) == 0 {
		cs.Variant = "float"
	}
	span := []int{3, 10, 100, 1000}[rng.Intn(4)] // small spans give many ties
	k := 1
	if rng.Intn(4) != 0 {
		k = 2 + rng.Intn(5)
	}
	ids := rng.Perm(len(identities))[:k]
	for j, id := range ids {
		n := genN(rng)
		if j > 0 { // keep the case small: the further series are short
			n = []int{0, 1, 1, 2, 2, 3, 5, 8, 20}[rng.Intn(9)]
		} else if k > 1 && n > 60 {
			n = 1 + rng.Intn(60)
		}
		se := genSeries(rng, cs.Variant, n, span)
		se.Tags = identities[id].tags
		se.Source = identities[id].source
		cs.Series = append(cs.Series, se)
	}
	np := rng.Intn(7)
	for i := 0; i < np; i++ {
		if rng.Intn(3) == 0 {
			cs.Percentiles = append(cs.Percentiles, float64(rng.Intn(201)-100))
		} else {
			cs.Percentiles = append(cs.Percentiles, pctPool[rng.Intn(len(pctPool))])
		}
	}
	if rng.Intn(2) == 0 {
		cs.Disabled = uint16(rng.Intn(1 << 15))
		if rng.Intn(2) == 0 {
			cs.Disabled &= 1 << uint(rng.Intn(15)) // at most one flag
		}
	}
	cs.Limit = []uint32{0, 1, 2, 3, 5, math.MaxUint32, math.MaxUint32}[rng.Intn(7)]
	cs.IntervalNS = intervals[rng.Intn(len(intervals))]
	if rng.Intn(4) == 0 {
		cs.IntervalNS = 1 + rng.Int63n(int64(2*time.Minute))
	}
	n := cs.total()
	a := rng.Perm(n)
	b := make([]int, n)
	switch rng.Intn(3) {
	case 0: // reverse
		for i := range a {
			b[n-1-i] = a[i]
		}
	case 1: // descending by value
		copy(b, a)
		val := func(flat int) float64 { si, i := cs.locate(flat); return cs.Series[si].Values[i] }
		sort.SliceStable(b, func(i, j int) bool { return val(b[i]) > val(b[j]) })
	default:
		b = rng.Perm(n)
	}
	cs.Orders[0] = genOrder(rng, n, a)
	cs.Orders[1] = genOrder(rng, n, b)
	return cs
}

// boundary cases that the generator reaches only with small probability
func corpus() []*tcase {
	one := func(n int) order {
		p := make([]int, n)
		for i := range p {
			p[i] = i
		}
		o := order{Perm: p}
		if n > 0 {
			o.Chunks = []int{n}
		}
		return o
	}
	rev := func(n int) order {
		o := one(n)
		for i := range o.Perm {
			o.Perm[i] = n - 1 - i
		}
		o.Chunks = nil
		for i := 0; i < n; i++ {
			o.Chunks = append(o.Chunks, 1)
		}
		o.Warm = true
		return o
	}
	var out []*tcase
	mk := func(vals []float64, pcts []float64, tag string, limit uint32) {
		rates := make([]float64, len(vals))
		for i := range rates {
			rates[i] = 1
		}
		out = append(out, &tcase{Variant: "int", Series: []series{{Tags: []string{"env:x"}, HistTag: tag, Values: vals, Rates: rates}}, Percentiles: pcts, Limit: limit, IntervalNS: int64(time.Second),
			Orders: [2]order{one(len(vals)), rev(len(vals))}})
	}
	all := []float64{100, -100, 90, -90, 50, -50, 1, -1, 0}
	for n := 0; n <= 12; n++ {
		vals := make([]float64, n)
		for i := range vals {
			vals[i] = float64((i*7)%13 - 3)
		}
		mk(vals, all, "", 0)
		mk(vals, []float64{-90}, "", 0)
		mk(vals, []float64{-100}, "", 0)
		for _, l := range []uint32{0, 1, 2, math.MaxUint32} {
			mk(vals, all, histPrefix+"-3_0_4_nan_a__4_inf_9", l)
		}
	}
	// several series under one name, every one starting with a sampled datapoint, in one batch and one by one
	for _, rate := range []float64{0.5, 0.125, 2} {
		for k := 2; k <= 4; k++ {
			cs := &tcase{Variant: "int", Percentiles: []float64{90, -50}, Limit: math.MaxUint32, IntervalNS: int64(10 * time.Second)}
			for j := 0; j < k; j++ {
				se := series{Tags: identities[j].tags, Source: identities[j].source}
				for i := 0; i <= j; i++ {
					se.Values = append(se.Values, float64(3*j+i))
					se.Rates = append(se.Rates, rate)
				}
				cs.Series = append(cs.Series, se)
			}
			cs.Orders = [2]order{one(cs.total()), rev(cs.total())}
			cs.Orders[1].Warm = false
			out = append(out, cs)
		}
	}
	return out
}

func describe(cs *tcase) string {
	ns := make([]string, len(cs.Series))
	for i := range cs.Series {
		ns[i] = strconv.Itoa(len(cs.Series[i].Values))
		if cs.Series[i].HistTag != "" {
			ns[i] += "h"
		}
	}
	return fmt.Sprintf("series n=[%s] pct=%v limit=%d", strings.Join(ns, ","), cs.Percentiles, cs.Limit)
}

func TestCheck(t *testing.T) {
	r := mon.Start(t, "C08")
	defer r.Finish()
	r.Rule("cases: (multisets, configuration) pairs — 1..6 timer series under ONE metric name (different tag sets and sources; 75% of the cases have 2..6), each with its own multiset of n from {0 (idle persisted series after a Reset),1,2,3,4..200} values: integer-valued values with dyadic rates from {1/8..4} (exact comparison) or arbitrary finite floats with rates in (0,4) (1e-9 relative tolerance, scaled by the magnitude of the inputs for sums); 0..6 integer percentiles in [-100,100] (pool with ±100 ±90 ±50 ±1 0), random sub-metric masks, flush intervals from 1ns to 1h, a third of the series tagged gsd_histogram with bounds equal to values, duplicates and malformed items, limits {0,1,2,3,5,MaxUint32}; the datapoints of all series are interleaved in two different arrival orders, split over several batches, each batch turned into a map by the real MetricMap.Receive (as the parser does, so a series is first / not first of its name in a map, with a sampled first datapoint) and merged by ReceiveMap into a fresh or a warmed (one earlier flush/Reset) MetricAggregator, then Flush + Process; every field of every series is compared with an independent reference (count = round(sum 1/rate), sort, rank = floor(|p|/100*n+0.5), k lowest/highest, population std-dev, #values <= bound). Idle timers must also report sum 0 and sum of squares 0 (min/max/mean/median/std-dev of the empty multiset are only recorded). Reporting oracle: every 25th case and the histogram corpus are flushed once more with one name per series and the map is handed to the real stdout backend (captured by a logrus hook) and the real graphite backend in tags mode (scripted connection); per series the text payloads must show no summary statistic for a gsd_histogram timer, nothing at all with limit 0, and exactly the reference buckets otherwise. Non-trivial: a series with n >= 2 and at least one percentile of each sign, or a histogram with >= 2 kept bounds; distinct by (series-per-name class, variant, n class, percentile list) resp. (series-per-name class, n class, limit, number of kept bounds). Configuration phases: (config-text) random [disabled-sub-metrics] sections (TOML / YAML; no section, empty section, 1..15 of the documented keys true/false, a regular key and its -pct sibling set differently) are read by viper and handed to the real gostatsd.DisabledSubMetrics; the returned mask must disable exactly the keys set to true, an aggregator built with it is run on two multiset cases and judged by a reference whose mask comes from the text, and the stdout backend built by NewClientFromViper from the same text must write exactly the allowed sub-metric lines per timer; (config-binary, one shard) the real cmd/gostatsd binary (verif tag: dumps the constructed server) is run with percent-threshold (0..5 integers in [-100,100] incl. empty list, duplicates, extra blanks; flag, flag with separate value, GSD_ environment variable, file, or not given = 90), timer-histogram-limit (flag / env / file / not given) and a [disabled-sub-metrics] section in a TOML or YAML file; the dumped percentile set, limit and mask must be what the text means, and an aggregator built with exactly the dumped values is judged on two multiset cases by the reference derived from the text. Flusher phase: the real MetricFlusher (aligned with/without offset, or plain ticker; intervals 7s..1h) over a real BackendHandler with 1..3 real MetricAggregators and a capturing backend, on a mock clock that starts at the real now: 3..7 flushes per case, batches of sampled timer and counter datapoints dispatched between advancements that stop short of the deadline, hit it exactly or overshoot it by 0.25..3.75 intervals (so the following window is 1..4 intervals long), the first window of aligned flushing being partial; every flushed timer is compared field by field with the reference over the datapoints of ITS window and the window's own length (tick value minus previous tick value), counters with value/length; the first window, whose start the flusher reads from the real clock, is judged by the bracket [epoch of the mock, first flush observed]. Distinct by (phase, format, source and shape of the percentile list, limit source, section shape) resp. (aligned, interval, workers, set of window lengths).")
	r.Assume("strconv.ParseFloat defines which histogram bounds are parsable; gostatsd.MetricMap.Receive/Merge deliver the datapoints (C07); tilinna/clock Mock semantics (a ticker fires once per Add with its deadline as value and is re-armed on its own grid after the new now); viper/TOML/YAML readers turn the written text into keys and values")
	c := &checker{r: r}
	if rp, err := newReporters(); err != nil {
		t.Logf("reporting oracle unavailable: %v", err)
		r.Inconclusive("report-backends-unavailable")
	} else {
		c.rp = rp
		defer rp.cancel()
	}

	if p := r.ReplayPayload(); p != nil {
		var ph struct {
			Phase string `json:"phase"`
		}
		mon.ReplayCase(p, &ph)
		if strings.HasPrefix(ph.Phase, "config-") || ph.Phase == "flusher" {
			if ph.Phase == "flusher" {
				if fc, ok := mon.ReplayCase(p, &fCase{}).(*fCase); ok && fc != nil {
					c.runFlusher(fc)
				}
			} else if cc, ok := mon.ReplayCase(p, &cfgCase{}).(*cfgCase); ok && cc != nil {
				c.replayConfig(t, cc)
			}
			r.Nontrivial("replay-a")
			r.Nontrivial("replay-b")
			return
		}
		cs, ok := mon.ReplayCase(p, &tcase{}).(*tcase)
		if !ok || cs == nil {
			t.Skip("no case in replay file")
		}
		c.eval(cs)
		if cs.Report {
			c.evalReport(cs)
		}
		r.Nontrivial("replay-a")
		r.Nontrivial("replay-b")
		return
	}

	// the cmd/gostatsd binary of the configuration phase is built while the other phases run
	var binCh chan string
	if s, n := r.Shard(); s == 1%n {
		binCh = make(chan string, 1)
		go func() { binCh <- buildBinary(t, r) }()
		defer func() {
			if binCh != nil {
				<-binCh
			}
		}()
	}

	rng := r.Rand("c08")
	n := r.N(20000, 20000000)
	for i := 0; i < n; i++ {
		cs := genCase(rng)
		r.Case("case %d %s", i, describe(cs))
		c.eval(cs)
		if i%25 == 0 { // reporting oracle: the flushed map through real stdout and graphite backends
			c.evalReport(cs)
		}
		if r.WantSample() && len(cs.Series) >= 2 && cs.total() >= 3 && cs.total() <= 8 && len(cs.Percentiles) >= 2 && i%7 == 0 {
			r.Sample(cs)
		}
	}
	// configuration given as text -> real DisabledSubMetrics -> aggregator and stdout backend (config_test.go)
	rngT := r.Rand("c08-config-text")
	for i, nt := 0, r.N(1200, 60000); i < nt; i++ {
		c.evalText(genTextCase(rngT))
	}
	// the real MetricFlusher over real aggregators, windows of different lengths (flusher_test.go)
	rngF := r.Rand("c08-flusher")
	for i, nf := 0, r.N(240, 12000); i < nf; i++ {
		c.runFlusher(genFlusherCase(rngF))
		if r.Violations() > 40 {
			break
		}
	}
	// the real cmd/gostatsd binary: flags / environment / file -> constructed server (config_test.go)
	if binCh != nil {
		bin := <-binCh
		binCh = nil
		c.binaryPhase(t, bin, r.Pick(240, 2400))
	}
	if s, _ := r.Shard(); s == 0 {
		for _, cs := range corpus() {
			r.Case("corpus %s", describe(cs))
			c.eval(cs)
			if cs.Series[0].HistTag != "" {
				c.evalReport(cs)
			}
		}
		r.Event("boundary_corpus", len(corpus()))
	}
}
