//go:build verif

// C11, server phase: the cloud stage observed where it is wired into the real server.
//
// statsd.Server.RunWithCustomSocket (standalone mode) is started in process with the scripted instance
// cache, a configuration TEXT holding random filter blocks, random static tags, a scripted PacketConn and a
// capturing backend. Statsd lines and events from cached / unknown / failing / empty sources are fed in.
// README: "the processing pipeline (cloud provider, static tags, filtering, etc)" - what the backend is
// flushed must be every datapoint exactly once, carrying the instance's tags and id of its source when the
// lookup succeeded, with static tags and filters (FILTERING.md, incl. drop-host and drop-tags / match-tags
// on provider tags) applied to that enriched datapoint.
package c11

import (
	"bytes"
	"context"
	"errors"
	"fmt"
	"net"
	"sort"
	"strconv"
	"strings"
	"sync"
	"sync/atomic"
	"time"

	"github.com/spf13/viper"

	"github.com/atlassian/gostatsd"
	"github.com/atlassian/gostatsd/pkg/statsd"

	"verif/mon"
	"verif/ref"
)

const serverWatchdog = 30 * time.Second

type scriptPkt struct {
	msg  []byte
	addr net.Addr
}

// scriptConn is a net.PacketConn whose reads are fed by the harness.
type scriptConn struct {
	ch     chan scriptPkt
	closed chan struct{}
	once   sync.Once
}

func newScriptConn() *scriptConn {
	return &scriptConn{ch: make(chan scriptPkt), closed: make(chan struct{})}
}
func (c *scriptConn) ReadFrom(b []byte) (int, net.Addr, error) {
	select {
	case p := <-c.ch:
		return copy(b, p.msg), p.addr, nil
	case <-c.closed:
		return 0, nil, errors.New("use of closed network connection")
	}
}
func (c *scriptConn) WriteTo([]byte, net.Addr) (int, error) { return 0, errors.New("not supported") }
func (c *scriptConn) Close() error                          { c.once.Do(func() { close(c.closed) }); return nil }
func (c *scriptConn) LocalAddr() net.Addr {
	return &net.UDPAddr{IP: net.IPv4(127, 0, 0, 1), Port: 8125}
}
func (c *scriptConn) SetDeadline(time.Time) error      { return nil }
func (c *scriptConn) SetReadDeadline(time.Time) error  { return nil }
func (c *scriptConn) SetWriteDeadline(time.Time) error { return nil }
func (c *scriptConn) push(ip string, msg string) bool {
	select {
	case c.ch <- scriptPkt{msg: []byte(msg), addr: &net.UDPAddr{IP: net.ParseIP(ip), Port: 40000}}:
		return true
	case <-c.closed:
		return false
	case <-time.After(serverWatchdog):
		return false
	}
}

// srvBackend captures what the server flushes / forwards to a backend.
type srvBackend struct {
	r       *mon.Run
	mu      sync.Mutex
	items   []delivery
	count   map[string]int
	flushes atomic.Int64
}

func (b *srvBackend) Name() string { return "c11-capture" }
func (b *srvBackend) SendEvent(_ context.Context, e *gostatsd.Event) error {
	tags := append([]string(nil), e.Tags...)
	sort.Strings(tags)
	d := delivery{Stamp: b.r.Stamp(), Key: "e:" + e.Title, Tags: tags, Source: string(e.Source), KeyOK: true}
	b.mu.Lock()
	b.items = append(b.items, d)
	b.count[d.Key]++
	b.mu.Unlock()
	return nil
}
func (b *srvBackend) SendMetricsAsync(_ context.Context, mm *gostatsd.MetricMap, cb gostatsd.SendCallback) {
	flat := ref.FromMap(mm) // synchronously: the map may not be touched later
	for k, s := range flat {
		if s.Type == 1 && s.Counter == 0 {
			delete(flat, k) // an idle counter is re-flushed with 0 until it expires
		}
	}
	ds := extract(b.r.Stamp(), flat)
	b.mu.Lock()
	for _, d := range ds {
		b.items = append(b.items, d)
		b.count[d.Key]++
	}
	b.mu.Unlock()
	b.flushes.Add(1) // data first, then the counter a waiter polls
	cb(nil)
}
func (b *srvBackend) hasAll(keys []string) bool {
	b.mu.Lock()
	defer b.mu.Unlock()
	for _, k := range keys {
		if b.count[k] == 0 {
			return false
		}
	}
	return true
}
func (b *srvBackend) all() []delivery {
	b.mu.Lock()
	defer b.mu.Unlock()
	return append([]delivery(nil), b.items...)
}

// ---------------------------------------------------------------------------------------------
// the case and the model of the documented order

type filterSpec struct {
	MatchMetrics   []string `json:"match_metrics,omitempty"`
	ExcludeMetrics []string `json:"exclude_metrics,omitempty"`
	MatchTags      []string `json:"match_tags,omitempty"`
	DropTags       []string `json:"drop_tags,omitempty"`
	DropMetric     bool     `json:"drop_metric,omitempty"`
	DropHost       bool     `json:"drop_host,omitempty"`
}

type srvSource struct {
	Addr string   `json:"addr"`
	Mode string   `json:"mode"` // cached | cached-negative | found | not-found | error
	ID   string   `json:"id"`
	Tags []string `json:"tags"`
}

func (s *srvSource) instance() *gostatsd.Instance {
	if s.Mode == "cached" || s.Mode == "found" {
		return &gostatsd.Instance{ID: gostatsd.Source(s.ID), Tags: append(gostatsd.Tags{}, s.Tags...)}
	}
	return nil
}

type srvCase struct {
	Index      int          `json:"index"`
	IgnoreHost bool         `json:"ignore_host"`
	Static     []string     `json:"static_tags"`
	Filters    []filterSpec `json:"filters"`
	Sources    []srvSource  `json:"sources"`
	Parsers    int          `json:"parsers"`
	Workers    int          `json:"workers"`
	Config     string       `json:"config_text"`
	Datagrams  []string     `json:"datagrams"`
}

var filterPool = []filterSpec{
	{DropHost: true},
	{MatchMetrics: []string{"t*"}, DropHost: true},
	{MatchMetrics: []string{"g*", "c*"}, DropHost: true, DropTags: []string{"inst:*"}},
	{DropTags: []string{"inst:*"}},
	{DropTags: []string{"az:b", "b:2"}},
	{MatchTags: []string{"az:*"}, DropTags: []string{"a:*"}},
	{MatchTags: []string{"inst:*"}, MatchMetrics: []string{"s*"}, DropMetric: true},
	{ExcludeMetrics: []string{"s*"}, MatchTags: []string{"a:1"}, DropHost: true},
	{MatchTags: []string{"env:x"}, DropTags: []string{"az:*", "env:*"}},
}

func tomlList(l []string) string {
	q := make([]string, len(l))
	for i, s := range l {
		q[i] = "'" + s + "'"
	}
	return "[" + strings.Join(q, ", ") + "]"
}

func (sc *srvCase) configText() string {
	var b strings.Builder
	names := make([]string, len(sc.Filters))
	for i := range sc.Filters {
		names[i] = fmt.Sprintf("f%d", i)
	}
	fmt.Fprintf(&b, "filters=%s\n\n", tomlList(names))
	for i, f := range sc.Filters {
		fmt.Fprintf(&b, "[filter.f%d]\n", i)
		if len(f.MatchMetrics) > 0 {
			fmt.Fprintf(&b, "match-metrics=%s\n", tomlList(f.MatchMetrics))
		}
		if len(f.ExcludeMetrics) > 0 {
			fmt.Fprintf(&b, "exclude-metrics=%s\n", tomlList(f.ExcludeMetrics))
		}
		if len(f.MatchTags) > 0 {
			fmt.Fprintf(&b, "match-tags=%s\n", tomlList(f.MatchTags))
		}
		if len(f.DropTags) > 0 {
			fmt.Fprintf(&b, "drop-tags=%s\n", tomlList(f.DropTags))
		}
		if f.DropMetric {
			b.WriteString("drop-metric=true\n")
		}
		if f.DropHost {
			b.WriteString("drop-host=true\n")
		}
		b.WriteString("\n")
	}
	return b.String()
}

// FILTERING.md: a match is a case sensitive string with an optional * suffix for a prefix match.
func matchOne(pat, s string) bool {
	if strings.HasSuffix(pat, "*") {
		return strings.HasPrefix(s, pat[:len(pat)-1])
	}
	return pat == s
}
func matchAny(pats []string, s string) bool {
	for _, p := range pats {
		if matchOne(p, s) {
			return true
		}
	}
	return false
}

// tagStage is the documented meaning of static tags + filters for one metric (tags as a set).
func tagStage(name string, tags []string, src string, static []string, filters []filterSpec) (out []string, outSrc string, dropped bool) {
	drop := map[string]bool{}
	for _, f := range filters {
		if len(f.MatchMetrics) > 0 && !matchAny(f.MatchMetrics, name) {
			continue
		}
		if matchAny(f.ExcludeMetrics, name) {
			continue
		}
		if len(f.MatchTags) > 0 {
			any := false
			for _, t := range tags {
				if matchAny(f.MatchTags, t) {
					any = true
				}
			}
			if !any {
				continue
			}
		}
		if f.DropMetric {
			return nil, "", true
		}
		for _, t := range tags {
			if matchAny(f.DropTags, t) {
				drop[t] = true
			}
		}
		if f.DropHost {
			src = ""
		}
	}
	seen := map[string]bool{}
	for _, t := range tags {
		if !drop[t] && !seen[t] {
			seen[t] = true
			out = append(out, t)
		}
	}
	for _, t := range static {
		if !drop[t] && !seen[t] {
			seen[t] = true
			out = append(out, t)
		}
	}
	sort.Strings(out)
	return out, src, false
}

type srvExpect struct {
	it      *item
	dropped bool
	tags    []string
	source  string
	cloud   string // enriched | unchanged
}

func lineOf(d ref.Datapoint, hostTag string) string {
	var v, t string
	switch d.Type {
	case 1:
		v, t = strconv.FormatInt(int64(d.Value), 10), "c"
	case 2:
		v, t = strconv.FormatInt(int64(d.Value), 10), "ms"
	case 3:
		v, t = strconv.FormatInt(int64(d.Value), 10), "g"
	default:
		v, t = d.Str, "s"
	}
	tags := append([]string{}, d.Tags...)
	if hostTag != "" {
		tags = append(tags, hostTag)
	}
	line := d.Name + ":" + v + "|" + t
	if len(tags) > 0 {
		line += "|#" + strings.Join(tags, ",")
	}
	return line
}

func uniqSorted(t []string) []string {
	seen := map[string]bool{}
	var o []string
	for _, x := range t {
		if !seen[x] {
			seen[x] = true
			o = append(o, x)
		}
	}
	sort.Strings(o)
	return o
}

type srvOutcome struct {
	progress, detail string
	inconclusive     string
	sc               *srvCase
}

func runServer(r *mon.Run, idx int) srvOutcome {
	rng := r.Rand(fmt.Sprintf("server-%d", idx))
	sc := &srvCase{Index: idx, IgnoreHost: rng.Intn(3) == 0, Parsers: 1 + rng.Intn(2), Workers: 1 + rng.Intn(2)}
	out := srvOutcome{sc: sc}
	// static tags never match a drop-tags pattern of the pool: whether drop-tags also strips a static tag is not documented
	for _, t := range []string{"dc:syd", "st:1", "zone:z"} {
		if rng.Intn(2) == 0 {
			sc.Static = append(sc.Static, t)
		}
	}
	for n := rng.Intn(4); n > 0; n-- {
		sc.Filters = append(sc.Filters, filterPool[rng.Intn(len(filterPool))])
	}
	nsrc := 2 + rng.Intn(4)
	for i := 0; i < nsrc; i++ {
		s := srvSource{Addr: fmt.Sprintf("10.9.%d.%d", idx%200, i+1), ID: fmt.Sprintf("i-srv-%d", i+1), Tags: []string{fmt.Sprintf("inst:%d", i+1), "az:b"}}
		s.Mode = []string{"cached", "found", "found", "found", "not-found", "error", "cached-negative"}[rng.Intn(7)]
		if rng.Intn(4) == 0 {
			s.Tags = append(s.Tags, "a:1") // a tag datapoints may carry themselves
		}
		if rng.Intn(4) == 0 {
			s.Tags = append(s.Tags, "dc:syd") // a tag that may also be a static tag
		}
		sc.Sources = append(sc.Sources, s)
	}
	sc.Config = sc.configText()
	replay := replayCase{Mode: "server", Index: idx}

	// the stage's instance cache: the scripted fake of the other modes, answered per source plan
	fake := newFake(r, true)
	plan := map[string]*srvSource{}
	for i := range sc.Sources {
		s := &sc.Sources[i]
		plan[s.Addr] = s
		switch s.Mode {
		case "cached":
			fake.cache[gostatsd.Source(s.Addr)] = s.instance()
		case "cached-negative":
			fake.cache[gostatsd.Source(s.Addr)] = nil
		}
	}
	cacheCtx, stopCache := context.WithCancel(context.Background())
	defer stopCache()
	go fake.read(cacheCtx)
	go func() {
		for {
			select {
			case <-cacheCtx.Done():
				return
			case src := <-fake.reqC:
				s := plan[src]
				if s == nil {
					fake.complete(cacheCtx, src, nil, true)
					continue
				}
				fake.complete(cacheCtx, src, s.instance(), s.Mode != "error")
			}
		}
	}()

	v := viper.New()
	v.SetConfigType("toml")
	if err := v.ReadConfig(bytes.NewBufferString(sc.Config)); err != nil {
		out.inconclusive = "config-text-unreadable"
		return out
	}
	backend := &srvBackend{r: r, count: map[string]int{}}
	srv := &statsd.Server{
		Backends: []gostatsd.Backend{backend}, CachedInstances: fake, DefaultTags: append(gostatsd.Tags{}, sc.Static...),
		ExpiryIntervalCounter: time.Minute, ExpiryIntervalGauge: time.Minute, ExpiryIntervalSet: time.Minute, ExpiryIntervalTimer: time.Minute,
		FlushInterval: 20 * time.Millisecond, MaxReaders: 1, MaxParsers: sc.Parsers, MaxWorkers: sc.Workers, MaxQueueSize: 64, MaxConcurrentEvents: 2,
		EstimatedTags: 4, StatserType: gostatsd.StatserNull, ReceiveBatchSize: 1, ServerMode: "standalone", DisableInternalEvents: true,
		IgnoreHost: sc.IgnoreHost, Viper: v,
	}
	conn := newScriptConn()
	ctx, cancel := context.WithCancel(context.Background())
	runDone := make(chan struct{})
	go func() {
		defer close(runDone)
		r.Guard("server-panic", replay, func() {
			_ = srv.RunWithCustomSocket(ctx, func() (net.PacketConn, error) { return conn, nil })
		})
	}()
	stop := func() bool {
		cancel()
		select {
		case <-runDone:
			return true
		case <-time.After(serverWatchdog):
			return false
		}
	}

	// workload and expectations
	g := idgen{prefix: "v"}
	expects := map[string]*srvExpect{}
	var order []string
	pick := func() string {
		if sc.IgnoreHost && rng.Intn(5) == 0 {
			return "" // no host: tag -> empty source
		}
		if rng.Intn(8) == 0 {
			return fmt.Sprintf("10.9.%d.99", idx%200) // a source nobody knows: the fake answers not-found
		}
		return sc.Sources[rng.Intn(len(sc.Sources))].Addr
	}
	cloudOf := func(src string) *gostatsd.Instance {
		if s := plan[src]; s != nil {
			return s.instance()
		}
		return nil
	}
	type dgram struct {
		ip, msg string
	}
	var dgrams []dgram
	nb := 6 + rng.Intn(10)
	for i := 0; i < nb; i++ {
		src := pick()
		var lines []string
		for k := 1 + rng.Intn(3); k > 0; k-- {
			it, d := g.datapoint(rng, src, 0)
			hostTag := ""
			if sc.IgnoreHost && src != "" {
				hostTag = "host:" + src
			}
			lines = append(lines, lineOf(d, hostTag))
			e := &srvExpect{it: it, cloud: "unchanged"}
			tags, s2 := append([]string{}, d.Tags...), src
			if inst := cloudOf(src); inst != nil {
				tags, s2, e.cloud = append(tags, inst.Tags...), string(inst.ID), "enriched"
			}
			e.tags, e.source, e.dropped = tagStage(d.Name, tags, s2, sc.Static, sc.Filters)
			expects[it.Key] = e
			order = append(order, it.Key)
		}
		ip := src
		if sc.IgnoreHost || ip == "" {
			ip = "10.9.250.1" // the sender address is ignored with ignore-host
		}
		dgrams = append(dgrams, dgram{ip, strings.Join(lines, "\n")})
	}
	for i, ne := 0, 2+rng.Intn(4); i < ne; i++ {
		src := sc.Sources[rng.Intn(len(sc.Sources))].Addr // events always keep the sender address
		it, ev := g.event(rng, src, 0)
		line := fmt.Sprintf("_e{%d,%d}:%s|%s", len(ev.Title), len(ev.Text), ev.Title, ev.Text)
		if len(ev.Tags) > 0 {
			line += "|#" + strings.Join(ev.Tags, ",")
		}
		e := &srvExpect{it: it, cloud: "unchanged"}
		tags, s2 := append([]string{}, it.Tags...), src
		if inst := cloudOf(src); inst != nil {
			tags, s2, e.cloud = append(tags, inst.Tags...), string(inst.ID), "enriched"
		}
		// events pass the tag stage for static tags only (filters are about metrics)
		e.tags, e.source = uniqSorted(append(tags, sc.Static...)), s2
		expects[it.Key] = e
		order = append(order, it.Key)
		dgrams = append(dgrams, dgram{src, line})
	}
	rng.Shuffle(len(dgrams), func(i, j int) { dgrams[i], dgrams[j] = dgrams[j], dgrams[i] })
	for _, d := range dgrams {
		sc.Datagrams = append(sc.Datagrams, d.ip+" <- "+d.msg)
	}
	describe := func() string {
		return fmt.Sprintf("ignore-host=%v static=%v sources=%+v\nconfig:\n%s\ndatagrams: %s", sc.IgnoreHost, sc.Static, sc.Sources, sc.Config, strings.Join(sc.Datagrams, " ; "))
	}
	for _, d := range dgrams {
		if !conn.push(d.ip, d.msg) {
			stop()
			out.inconclusive = "udp-reader-did-not-take-datagram"
			return out
		}
	}
	r.Event("server_datagrams", len(dgrams))

	var wantKeys []string
	for _, k := range order {
		if !expects[k].dropped {
			wantKeys = append(wantKeys, k)
		}
	}
	arrived := mon.WaitUntil(serverWatchdog, func() bool { return backend.hasAll(wantKeys) })
	// duplicates and metrics that must have been dropped get a few more flushes to show up; no verdict
	// on the unchanged tree depends on this wait
	f0 := backend.flushes.Load()
	mon.WaitUntil(2*time.Second, func() bool { return backend.flushes.Load() >= f0+3 })
	if !stop() {
		out.inconclusive = "server-did-not-stop"
		return out
	}
	r.Event("server_flushes", int(backend.flushes.Load()))

	byKey := map[string][]delivery{}
	for _, d := range backend.all() {
		byKey[d.Key] = append(byKey[d.Key], d)
	}
	bad := false
	viol := func(sig, detail string) {
		bad = true
		r.Violation(sig, detail+"\n"+describe(), replay)
	}
	for k, ds := range byKey {
		if expects[k] == nil {
			viol("server:unknown-item-at-backend", fmt.Sprintf("the backend received %s (tags %q source %q) which was never sent", k, ds[0].Tags, ds[0].Source))
		}
	}
	for _, k := range order {
		e, ds := expects[k], byKey[k]
		kind := e.it.Kind
		if e.dropped {
			if len(ds) > 0 {
				viol("server:dropped-metric-at-backend", fmt.Sprintf("%s from %q (cloud: %s) matches a drop-metric filter once the instance's tags are on it, but reached the backend with tags %q source %q", k, e.it.Src, e.cloud, ds[0].Tags, ds[0].Source))
			}
			continue
		}
		if len(ds) == 0 {
			continue // judged below as bounded progress
		}
		if len(ds) > 1 && !strings.HasPrefix(k, "g:") { // a gauge is re-flushed every interval until it expires
			viol("server:delivered-twice:"+kind, fmt.Sprintf("%s reached the backend %d times", k, len(ds)))
			continue
		}
		for _, d := range ds {
			if !sameTags(uniqSorted(d.Tags), e.tags) || len(d.Tags) != len(e.tags) || d.Source != e.source {
				viol("server:wrong-tagging:"+kind+":cloud-"+e.cloud, fmt.Sprintf("%s %s sent from %q with tags %q reached the backend with tags %q source %q; cloud provider (%s), then static tags %v, then the filters give tags %q source %q", kind, k, e.it.Src, e.it.Tags, d.Tags, d.Source, e.cloud, sc.Static, e.tags, e.source))
				break
			}
		}
	}
	if !arrived && !bad {
		for _, k := range wantKeys {
			if len(byKey[k]) == 0 {
				e := expects[k]
				out.progress = "server:never-delivered:" + e.it.Kind + ":cloud-" + e.cloud
				out.detail = fmt.Sprintf("%s sent from %q never reached the backend (expected tags %q source %q)\n%s", k, e.it.Src, e.tags, e.source, describe())
				return out
			}
		}
	}
	if !bad {
		touches := false
		for _, f := range sc.Filters {
			if f.DropHost || matchAny(f.DropTags, "inst:1") || matchAny(f.DropTags, "az:b") || matchAny(f.MatchTags, "inst:1") || matchAny(f.MatchTags, "az:b") {
				touches = true
			}
		}
		enriched := false
		for _, e := range expects {
			if e.cloud == "enriched" {
				enriched = true
			}
		}
		if enriched && (touches || len(sc.Static) > 0) {
			var fs []string
			for _, f := range sc.Filters {
				fs = append(fs, fmt.Sprintf("%v%v%v%v%v%v", f.MatchMetrics, f.ExcludeMetrics, f.MatchTags, f.DropTags, f.DropMetric, f.DropHost))
			}
			r.Nontrivial(fmt.Sprintf("server:ignorehost=%v:static=%v:filters=%s", sc.IgnoreHost, sc.Static, strings.Join(fs, "+")))
			if r.WantSample() && idx == 0 {
				r.Sample(map[string]interface{}{"mode": "real server (RunWithCustomSocket)", "case": sc})
			}
		}
	}
	r.Event("server_cases", 1)
	r.Event("server_items", len(order))
	return out
}

func serverCase(r *mon.Run, idx int) (abort bool) {
	r.Case("server %d", idx)
	o := runServer(r, idx)
	r.Eval(1)
	switch {
	case o.inconclusive != "":
		r.Inconclusive(o.inconclusive)
	case o.progress != "":
		o2 := runServer(r, idx)
		if o2.progress == o.progress {
			r.Violation(o.progress, o2.detail+"\n(reproduced twice with a 30 s watchdog each)", replayCase{Mode: "server", Index: idx})
			return true
		}
		r.Inconclusive("watchdog:" + o.progress)
	}
	return false
}
