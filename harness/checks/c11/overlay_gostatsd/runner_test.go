//go:build verif

package main

// Scenario runner of the C11 monitor, laid over cmd/gostatsd by verif/ovl (go test -overlay). For every
// scenario (command line, environment, configuration file) it runs the real setupConfiguration(), builds
// the instance cache with the real newCachedInstancesFromViper(logger, scriptedProvider, v), puts the real
// CloudHandler on top, dispatches one metric batch and one event per source and writes down what left the
// stage. No oracle here.

import (
	"context"
	"encoding/json"
	"fmt"
	"io"
	"os"
	"path/filepath"
	"sort"
	"strings"
	"sync"
	"testing"
	"time"

	"github.com/sirupsen/logrus"

	"github.com/atlassian/gostatsd"
	"github.com/atlassian/gostatsd/pkg/statsd"
)

type c11Scenario struct {
	Args    []string `json:"args"`
	Env     []string `json:"env"`
	File    string   `json:"file"`
	FileExt string   `json:"file_ext"`
	Sources int      `json:"sources"`
	Batch   int      `json:"batch"`
	WaitMs  int      `json:"wait_ms"`
}

type c11Seen struct {
	Key    string   `json:"key"`
	Tags   []string `json:"tags"`
	Source string   `json:"source"`
}

type c11Result struct {
	Err           string    `json:"err,omitempty"`
	Max           int       `json:"max_cloud_requests"`
	Burst         int       `json:"burst_cloud_requests"`
	Refresh       string    `json:"cloud_cache_refresh_period"`
	Idle          string    `json:"cloud_cache_evict_after_idle_period"`
	TTL           string    `json:"cloud_cache_ttl"`
	NegTTL        string    `json:"cloud_cache_negative_ttl"`
	Seen          []c11Seen `json:"seen"`
	ProviderCalls int       `json:"provider_calls"`
	ProviderIPs   int       `json:"provider_ips"`
	TimedOut      bool      `json:"timed_out"`
}

type c11Provider struct {
	mu    sync.Mutex
	batch int
	calls int
	ips   int
}

func (p *c11Provider) Name() string           { return "c11-scripted" }
func (p *c11Provider) MaxInstancesBatch() int { return p.batch }
func (p *c11Provider) EstimatedTags() int     { return 1 }
func (p *c11Provider) Instance(ctx context.Context, ips ...gostatsd.Source) (map[gostatsd.Source]*gostatsd.Instance, error) {
	p.mu.Lock()
	defer p.mu.Unlock()
	p.calls++
	p.ips += len(ips)
	out := map[gostatsd.Source]*gostatsd.Instance{}
	for _, ip := range ips {
		// sources ending in an even number are found
		if n := ip[len(ip)-1] - '0'; n%2 == 0 {
			out[ip] = &gostatsd.Instance{ID: "i-" + ip, Tags: gostatsd.Tags{"inst:" + string(ip)}}
		}
	}
	return out, nil
}

type c11Capture struct {
	mu   sync.Mutex
	seen []c11Seen
}

func (c *c11Capture) EstimatedTags() int { return 0 }
func (c *c11Capture) WaitForEvents()     {}
func (c *c11Capture) DispatchMetricMap(ctx context.Context, mm *gostatsd.MetricMap) {
	var add []c11Seen
	mm.Timers.Each(func(name, _ string, t gostatsd.Timer) {
		tags := append([]string{}, t.Tags...)
		sort.Strings(tags)
		for _, v := range t.Values {
			add = append(add, c11Seen{Key: fmt.Sprintf("t:%d", int64(v)), Tags: tags, Source: string(t.Source)})
		}
	})
	c.mu.Lock()
	c.seen = append(c.seen, add...)
	c.mu.Unlock()
}
func (c *c11Capture) DispatchEvent(ctx context.Context, e *gostatsd.Event) {
	tags := append([]string{}, e.Tags...)
	sort.Strings(tags)
	c.mu.Lock()
	c.seen = append(c.seen, c11Seen{Key: "e:" + e.Title, Tags: tags, Source: string(e.Source)})
	c.mu.Unlock()
}
func (c *c11Capture) snapshot() []c11Seen {
	c.mu.Lock()
	defer c.mu.Unlock()
	return append([]c11Seen(nil), c.seen...)
}

func c11ClearEnv() {
	for _, e := range os.Environ() {
		if strings.HasPrefix(e, "GSD_") {
			os.Unsetenv(e[:strings.IndexByte(e, '=')])
		}
	}
}

func c11One(dir string, i int, sc c11Scenario) (res c11Result) {
	defer func() {
		if p := recover(); p != nil {
			res.Err = fmt.Sprintf("panic: %v", p)
		}
	}()
	c11ClearEnv()
	defer c11ClearEnv()
	for _, e := range sc.Env {
		if j := strings.IndexByte(e, '='); j > 0 {
			os.Setenv(e[:j], e[j+1:])
		}
	}
	args := append([]string{"gostatsd"}, sc.Args...)
	if sc.File != "" {
		path := filepath.Join(dir, fmt.Sprintf("c11-%d.%s", i, sc.FileExt))
		if err := os.WriteFile(path, []byte(sc.File), 0o644); err != nil {
			return c11Result{Err: "runner: " + err.Error()}
		}
		defer os.Remove(path)
		args = append(args, "--config-path", path)
	}
	os.Args = args
	v, _, err := setupConfiguration()
	if err != nil {
		return c11Result{Err: "setupConfiguration: " + err.Error()}
	}
	logger := logrus.New()
	logger.SetOutput(io.Discard)
	prov := &c11Provider{batch: sc.Batch}
	ci := newCachedInstancesFromViper(logger, prov, v)
	res.Max, res.Burst = v.GetInt(gostatsd.ParamMaxCloudRequests), v.GetInt(gostatsd.ParamBurstCloudRequests)
	res.Refresh, res.Idle = v.GetDuration(gostatsd.ParamCacheRefreshPeriod).String(), v.GetDuration(gostatsd.ParamCacheEvictAfterIdlePeriod).String()
	res.TTL, res.NegTTL = v.GetDuration(gostatsd.ParamCacheTTL).String(), v.GetDuration(gostatsd.ParamCacheNegativeTTL).String()

	ctx, cancel := context.WithCancel(context.Background())
	var wg sync.WaitGroup
	defer wg.Wait()
	defer cancel()
	if rn, ok := ci.(gostatsd.Runner); ok {
		wg.Add(1)
		go func() { defer wg.Done(); rn.Run(ctx) }()
	} else {
		return c11Result{Err: "runner: cached instances is not a Runner"}
	}
	cp := &c11Capture{}
	ch := statsd.NewCloudHandler(ci, cp)
	wg.Add(1)
	go func() { defer wg.Done(); ch.Run(ctx) }()

	want := 0
	for s := 0; s <= sc.Sources; s++ {
		src := gostatsd.Source("")
		if s > 0 {
			src = gostatsd.Source(fmt.Sprintf("10.8.0.%d", s))
		}
		mm := gostatsd.NewMetricMap(false)
		mm.Receive(&gostatsd.Metric{Name: "t", Type: gostatsd.TIMER, Value: float64(100 + s), Rate: 1, Tags: gostatsd.Tags{"k:v"}, Source: src})
		ch.DispatchMetricMap(ctx, mm)
		ch.DispatchEvent(ctx, &gostatsd.Event{Title: fmt.Sprintf("ev%d", 100+s), Text: "x", Tags: gostatsd.Tags{"k:v"}, Source: src})
		want += 2
	}
	deadline := time.Now().Add(time.Duration(sc.WaitMs) * time.Millisecond)
	for len(cp.snapshot()) < want && time.Now().Before(deadline) {
		time.Sleep(time.Millisecond)
	}
	res.Seen = cp.snapshot()
	res.TimedOut = len(res.Seen) < want
	if !res.TimedOut {
		time.Sleep(15 * time.Millisecond) // a duplicate gets a moment to show up
		res.Seen = cp.snapshot()
	}
	prov.mu.Lock()
	res.ProviderCalls, res.ProviderIPs = prov.calls, prov.ips
	prov.mu.Unlock()
	return res
}

func TestVerifC11Runner(t *testing.T) {
	in, out := os.Getenv("C11_SCENARIOS"), os.Getenv("C11_RESULTS")
	if in == "" || out == "" {
		t.Skip("C11_SCENARIOS / C11_RESULTS unset")
	}
	raw, err := os.ReadFile(in)
	if err != nil {
		t.Fatal(err)
	}
	var scs []c11Scenario
	if err := json.Unmarshal(raw, &scs); err != nil {
		t.Fatal(err)
	}
	logrus.SetOutput(io.Discard)
	oldArgs := os.Args
	defer func() { os.Args = oldArgs }()
	dir := t.TempDir()
	results := make([]c11Result, len(scs))
	for i, sc := range scs {
		results[i] = c11One(dir, i, sc)
	}
	os.Args = oldArgs
	b, _ := json.Marshal(results)
	if err := os.WriteFile(out, b, 0o644); err != nil {
		t.Fatal(err)
	}
}
