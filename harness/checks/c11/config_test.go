//go:build verif

// C11, configuration phase: the instance cache and its request limiter as cmd/gostatsd really constructs
// them. An in-package runner (overlay_gostatsd/, laid over cmd/gostatsd by verif/ovl) runs the real
// setupConfiguration() on a random command line / environment / configuration file that sets the documented
// cloud keys (max-cloud-requests, burst-cloud-requests, cloud-cache-*), builds the cache with the real
// newCachedInstancesFromViper around a scripted provider, puts the real CloudHandler on top and reports what
// left the stage. For every legal setting the delivery clauses of the property must hold: every item
// leaves exactly once, enriched when the lookup of its source succeeded.
package c11

import (
	"encoding/json"
	"fmt"
	"math/rand"
	"os"
	"path/filepath"
	"runtime"
	"sort"
	"strings"

	"verif/mon"
	"verif/ovl"
)

type cfgScenario struct {
	Args    []string `json:"args"`
	Env     []string `json:"env"`
	File    string   `json:"file"`
	FileExt string   `json:"file_ext"`
	Sources int      `json:"sources"`
	Batch   int      `json:"batch"`
	WaitMs  int      `json:"wait_ms"`

	// what the scenario means (not read by the runner)
	Max   int               `json:"want_max"`
	Burst int               `json:"want_burst"`
	Via   map[string]string `json:"set_via"`
}

type cfgSeen struct {
	Key    string   `json:"key"`
	Tags   []string `json:"tags"`
	Source string   `json:"source"`
}

type cfgResult struct {
	Err           string    `json:"err,omitempty"`
	Max           int       `json:"max_cloud_requests"`
	Burst         int       `json:"burst_cloud_requests"`
	Refresh       string    `json:"cloud_cache_refresh_period"`
	Idle          string    `json:"cloud_cache_evict_after_idle_period"`
	TTL           string    `json:"cloud_cache_ttl"`
	NegTTL        string    `json:"cloud_cache_negative_ttl"`
	Seen          []cfgSeen `json:"seen"`
	ProviderCalls int       `json:"provider_calls"`
	ProviderIPs   int       `json:"provider_ips"`
	TimedOut      bool      `json:"timed_out"`
}

func genCfgScenario(rng *rand.Rand) cfgScenario {
	sc := cfgScenario{Via: map[string]string{}, WaitMs: 8000}
	// legal values: at least one request per second, at least one request of burst; the defaults are 10 / 15
	sc.Max, sc.Burst = 10, 15
	values := map[string]string{}
	if rng.Intn(4) != 0 {
		sc.Max = []int{1, 2, 5, 10, 20, 20, 50, 100, 1000}[rng.Intn(9)]
		values["max-cloud-requests"] = fmt.Sprint(sc.Max)
	}
	if rng.Intn(3) != 0 {
		sc.Burst = []int{1, 2, 5, 10, 15, 20, 50, 200}[rng.Intn(8)]
		values["burst-cloud-requests"] = fmt.Sprint(sc.Burst)
	}
	durations := []string{"200ms", "1s", "45s", "2m", "10m", "1h", "24h"}
	for _, k := range []string{"cloud-cache-refresh-period", "cloud-cache-evict-after-idle-period", "cloud-cache-ttl", "cloud-cache-negative-ttl"} {
		if rng.Intn(3) == 0 {
			values[k] = durations[rng.Intn(len(durations))]
		}
	}
	fileKind := []string{"toml", "yaml"}[rng.Intn(2)]
	var fileLines []string
	keys := make([]string, 0, len(values))
	for k := range values {
		keys = append(keys, k)
	}
	sort.Strings(keys)
	for _, k := range keys {
		val := values[k]
		switch rng.Intn(3) {
		case 0:
			sc.Via[k] = "flag"
			if rng.Intn(2) == 0 {
				sc.Args = append(sc.Args, "--"+k+"="+val)
			} else {
				sc.Args = append(sc.Args, "--"+k, val)
			}
		case 1:
			sc.Via[k] = "env"
			sc.Env = append(sc.Env, "GSD_"+strings.ToUpper(strings.ReplaceAll(k, "-", "_"))+"="+val)
		default:
			sc.Via[k] = "file:" + fileKind
			quoted := val
			if strings.HasPrefix(k, "cloud-cache") {
				quoted = "'" + val + "'"
			}
			if fileKind == "toml" {
				fileLines = append(fileLines, k+" = "+quoted)
			} else {
				fileLines = append(fileLines, k+": "+quoted)
			}
		}
	}
	if len(fileLines) > 0 {
		sc.File, sc.FileExt = strings.Join(fileLines, "\n")+"\n", fileKind
	}
	sc.Batch = []int{1, 2, 5, 16}[rng.Intn(4)]
	// the limiter may make a lookup wait: keep the number of provider calls within burst + what the rate
	// refills in a fraction of a second, so that a legal setting completes well inside the wait budget
	budget := sc.Burst + sc.Max/4
	n := 1 + rng.Intn(6)
	for n > 1 && (n+sc.Batch-1)/sc.Batch+1 > budget {
		n--
	}
	if sc.Max < 5 && n > sc.Burst {
		n = sc.Burst // a slow refill: stay within the burst even if every source gets its own provider call
	}
	sc.Sources = n
	return sc
}

func cfgSrcDir() string {
	_, file, _, _ := runtime.Caller(0)
	return filepath.Join(filepath.Dir(file), "overlay_gostatsd")
}

func runCfgBatch(r *mon.Run, bin string, tag string, scs []cfgScenario) ([]cfgResult, string) {
	out := os.Getenv("VERIF_OUT")
	sh, _ := r.Shard()
	in := filepath.Join(out, fmt.Sprintf("c11-scenarios-%d-%s.json", sh, tag))
	res := filepath.Join(out, fmt.Sprintf("c11-results-%d-%s.json", sh, tag))
	b, _ := json.Marshal(scs)
	if err := os.WriteFile(in, b, 0o644); err != nil {
		return nil, "scenario-file"
	}
	_ = os.Remove(res)
	outp, err := ovl.Run(bin, "TestVerifC11Runner", []string{"C11_SCENARIOS=" + in, "C11_RESULTS=" + res}, "300s")
	raw, rerr := os.ReadFile(res)
	if rerr != nil {
		tail := string(outp)
		if len(tail) > 600 {
			tail = tail[len(tail)-600:]
		}
		return nil, fmt.Sprintf("runner-left-no-results (%v): %s", err, tail)
	}
	var results []cfgResult
	if json.Unmarshal(raw, &results) != nil || len(results) != len(scs) {
		return nil, "runner-results-unreadable"
	}
	return results, ""
}

// judgeCfg applies the delivery clauses to one scenario; it returns a bounded-progress failure separately.
func judgeCfg(r *mon.Run, sc cfgScenario, res cfgResult, report bool) (progress, detail string) {
	desc := fmt.Sprintf("args %q env %q file(%s) %q -> max-cloud-requests=%d burst-cloud-requests=%d refresh=%s idle=%s ttl=%s negative-ttl=%s; provider batch limit %d, %d sources; provider calls %d",
		sc.Args, sc.Env, sc.FileExt, sc.File, res.Max, res.Burst, res.Refresh, res.Idle, res.TTL, res.NegTTL, sc.Batch, sc.Sources, res.ProviderCalls)
	rc := replayCase{Mode: "config", Steps: []string{desc}}
	if res.Err != "" {
		if report {
			r.Violation("config:legal-cloud-settings-rejected", "a legal setting of the cloud cache keys makes start-up fail: "+res.Err+"\n"+desc, rc)
		}
		return "", ""
	}
	if res.Max != sc.Max || res.Burst != sc.Burst {
		if report {
			r.Violation("config:cloud-request-keys-not-honoured", fmt.Sprintf("the scenario sets max-cloud-requests=%d burst-cloud-requests=%d (via %v)\n%s", sc.Max, sc.Burst, sc.Via, desc), rc)
		}
		return "", ""
	}
	count := map[string]int{}
	seen := map[string]cfgSeen{}
	for _, s := range res.Seen {
		count[s.Key]++
		seen[s.Key] = s
	}
	for s := 0; s <= sc.Sources; s++ {
		src := ""
		if s > 0 {
			src = fmt.Sprintf("10.8.0.%d", s)
		}
		wantTags, wantSrc, cloud := []string{"k:v"}, src, "unchanged"
		if s > 0 && s%2 == 0 {
			wantTags, wantSrc, cloud = []string{"inst:" + src, "k:v"}, "i-"+src, "enriched"
		}
		for _, key := range []string{fmt.Sprintf("t:%d", 100+s), fmt.Sprintf("e:ev%d", 100+s)} {
			kind := "metric"
			if key[0] == 'e' {
				kind = "event"
			}
			switch c := count[key]; {
			case c == 0:
				if progress == "" {
					progress = "config:lookup-never-completes:" + kind
					detail = fmt.Sprintf("%s from source %q never left the cloud stage within %d ms although the settings are legal\n%s", key, src, sc.WaitMs, desc)
				}
			case c > 1:
				if report {
					r.Violation("config:delivered-twice:"+kind, fmt.Sprintf("%s left the stage %d times\n%s", key, c, desc), rc)
				}
			default:
				got := seen[key]
				if !sameTags(got.Tags, wantTags) || got.Source != wantSrc {
					if report {
						r.Violation("config:wrong-enrichment:"+kind+":expected-"+cloud, fmt.Sprintf("%s from %q left with tags %q source %q, expected tags %q source %q\n%s", key, src, got.Tags, got.Source, wantTags, wantSrc, desc), rc)
					}
				}
			}
		}
	}
	return progress, detail
}

// configPhase runs n scenarios of this shard through the overlay binary.
func configPhase(r *mon.Run, n int) {
	if n == 0 {
		return
	}
	if os.Getenv("VERIF_REPO_DIR") == "" || os.Getenv("VERIF_OUT") == "" {
		r.Inconclusive("config-phase-skipped:VERIF_REPO_DIR-unset")
		return
	}
	r.Case("config phase: building the overlay binary of cmd/gostatsd")
	bin, err := ovl.Build("c11", "./cmd/gostatsd", cfgSrcDir(), false)
	if err != nil {
		r.Inconclusive("config-phase-overlay-build-failed")
		r.Extra("config_overlay_build_error", err.Error())
		return
	}
	rng := r.Rand("config")
	scs := make([]cfgScenario, n)
	for i := range scs {
		scs[i] = genCfgScenario(rng)
	}
	r.Case("config phase: %d scenarios", n)
	results, why := runCfgBatch(r, bin, "a", scs)
	if why != "" {
		r.Inconclusive("config-phase:" + strings.SplitN(why, " ", 2)[0])
		r.Extra("config_runner_problem", why)
		return
	}
	var again []int
	for i, sc := range scs {
		r.Eval(1)
		r.Event("config_scenarios", 1)
		if p, _ := judgeCfg(r, sc, results[i], true); p != "" {
			again = append(again, i)
			continue
		}
		if results[i].Err == "" && len(sc.Via) > 0 {
			r.Nontrivial(fmt.Sprintf("config:max=%d:burst=%d:burst<=max=%v:batch=%d:via=%v", sc.Max, sc.Burst, sc.Burst <= sc.Max, sc.Batch, viaKinds(sc.Via)))
			if r.WantSample() && i == 0 {
				r.Sample(map[string]interface{}{"mode": "configuration (cmd/gostatsd newCachedInstancesFromViper via overlay)", "scenario": sc, "provider_calls": results[i].ProviderCalls, "items_seen": len(results[i].Seen)})
			}
		}
	}
	if len(again) == 0 {
		return
	}
	// bounded progress: reproduce before reporting
	var rs []cfgScenario
	for _, i := range again {
		rs = append(rs, scs[i])
	}
	results2, why := runCfgBatch(r, bin, "b", rs)
	if why != "" {
		r.Inconclusive("config-phase:" + strings.SplitN(why, " ", 2)[0])
		return
	}
	for j, i := range again {
		p1, _ := judgeCfg(r, scs[i], results[i], false)
		p2, d2 := judgeCfg(r, rs[j], results2[j], false)
		if p2 != "" && p2 == p1 {
			r.Violation(p2, d2+"\n(reproduced in a second run of the scenario)", replayCase{Mode: "config", Steps: []string{d2}})
		} else {
			r.Inconclusive("watchdog:" + p1)
		}
	}
}

func viaKinds(via map[string]string) string {
	set := map[string]bool{}
	for _, v := range via {
		set[v] = true
	}
	var o []string
	for k := range set {
		o = append(o, k)
	}
	sort.Strings(o)
	return strings.Join(o, "+")
}
