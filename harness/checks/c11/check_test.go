//go:build verif

// C11 — cloud enrichment forwards every item exactly once, correctly tagged.
//
// The real statsd.CloudHandler runs between a scripted CachedInstances fake (a real cache: mutex
// guarded map, IpSink reader, InfoSource sender, only requested sources are ever answered) and a
// capturing downstream handler. Every datapoint / event carries a unique id, so exactly-once is a
// set comparison. Sequential histories are judged step by step against a model of the parked sets;
// concurrent runs are judged offline over the stamped event log.
package c11

import (
	"context"
	"fmt"
	"math/rand"
	"runtime"
	"sort"
	"strconv"
	"strings"
	"sync"
	"testing"
	"time"

	"github.com/atlassian/gostatsd"
	"github.com/atlassian/gostatsd/pkg/stats"
	"github.com/atlassian/gostatsd/pkg/statsd"

	"verif/gen"
	"verif/mon"
	"verif/ref"
)

// ---------------------------------------------------------------------------------------------
// spy Statser

type gaugeRec struct {
	key string
	v   float64
}

type spyStatser struct {
	mu     sync.Mutex
	flush  chan time.Duration
	closed bool
	recs   []gaugeRec
	full   int // number of complete emissions seen
}

const lastGauge = "cloudprovider.items_queued|type:event"

func (s *spyStatser) NotifyFlush(ctx context.Context, d time.Duration) {
	s.mu.Lock()
	defer s.mu.Unlock()
	if s.flush == nil || s.closed {
		return
	}
	select {
	case s.flush <- d:
	default:
	}
}

func (s *spyStatser) RegisterFlush() (<-chan time.Duration, func()) {
	s.mu.Lock()
	defer s.mu.Unlock()
	s.flush = make(chan time.Duration)
	return s.flush, func() {
		s.mu.Lock()
		s.closed = true
		s.mu.Unlock()
	}
}

func (s *spyStatser) Gauge(name string, value float64, tags gostatsd.Tags) {
	k := name + "|" + strings.Join(tags, ",")
	s.mu.Lock()
	s.recs = append(s.recs, gaugeRec{k, value})
	if k == lastGauge {
		s.full++
	}
	s.mu.Unlock()
}
func (s *spyStatser) Count(name string, amount float64, tags gostatsd.Tags)           {}
func (s *spyStatser) Increment(name string, tags gostatsd.Tags)                       {}
func (s *spyStatser) Report(name string, value *uint64, tags gostatsd.Tags)           {}
func (s *spyStatser) TimingMS(name string, ms float64, tags gostatsd.Tags)            {}
func (s *spyStatser) TimingDuration(name string, d time.Duration, tags gostatsd.Tags) {}
func (s *spyStatser) NewTimer(name string, tags gostatsd.Tags) *stats.Timer           { return &stats.Timer{} }
func (s *spyStatser) WithTags(tags gostatsd.Tags) stats.Statser                       { return s }
func (s *spyStatser) Event(ctx context.Context, e *gostatsd.Event)                    {}
func (s *spyStatser) WaitForEvents()                                                  {}

func (s *spyStatser) complete() int {
	s.mu.Lock()
	defer s.mu.Unlock()
	return s.full
}

// emissions returns the complete emissions recorded so far (one map per emission).
func (s *spyStatser) emissions() []map[string]float64 {
	s.mu.Lock()
	defer s.mu.Unlock()
	var out []map[string]float64
	cur := map[string]float64{}
	for _, g := range s.recs {
		cur[g.key] = g.v
		if g.key == lastGauge {
			out = append(out, cur)
			cur = map[string]float64{}
		}
	}
	return out
}

// emission starts a private RunMetrics with a fresh spy, notifies flushes until one complete
// emission was observed and stops RunMetrics again. Every emission on this spy was handed to the Run
// goroutine after this function started; the Run goroutine accepts it only while parked in its
// select, i.e. after everything it had received before was handled.
func emission(parent context.Context, ch *statsd.CloudHandler, wd time.Duration) ([]map[string]float64, bool) {
	spy := &spyStatser{}
	ctx, cancel := context.WithCancel(parent)
	done := make(chan struct{})
	go func() {
		defer close(done)
		ch.RunMetrics(ctx, spy)
	}()
	ok := mon.WaitUntil(wd, func() bool {
		spy.NotifyFlush(ctx, 0)
		return spy.complete() >= 1
	})
	cancel()
	<-done
	return spy.emissions(), ok
}

const (
	gHostsM = "cloudprovider.hosts_queued|type:metric"
	gHostsE = "cloudprovider.hosts_queued|type:event"
	gItemsE = "cloudprovider.items_queued|type:event"
)

// ---------------------------------------------------------------------------------------------
// fake CachedInstances

type cacheChange struct {
	Stamp   int64
	Present bool
	Inst    *gostatsd.Instance
}

type completion struct {
	Src        string
	Inst       *gostatsd.Instance
	Start, End int64
}

type request struct {
	Src   string
	Stamp int64
}

type fakeCI struct {
	r       *mon.Run
	mu      sync.Mutex
	cache   map[gostatsd.Source]*gostatsd.Instance
	changes map[string][]cacheChange
	reqs    []request
	comps   []completion
	sink    chan gostatsd.Source
	info    chan gostatsd.InstanceInfo
	reqC    chan string // requests for the concurrent completer (nil in sequential mode)
}

func newFake(r *mon.Run, withReqC bool) *fakeCI {
	f := &fakeCI{r: r, cache: map[gostatsd.Source]*gostatsd.Instance{}, changes: map[string][]cacheChange{},
		sink: make(chan gostatsd.Source), info: make(chan gostatsd.InstanceInfo)}
	if withReqC {
		f.reqC = make(chan string, 4096)
	}
	return f
}

func (f *fakeCI) Peek(ip gostatsd.Source) (*gostatsd.Instance, bool) {
	f.mu.Lock()
	defer f.mu.Unlock()
	inst, ok := f.cache[ip]
	return inst, ok
}
func (f *fakeCI) IpSink() chan<- gostatsd.Source           { return f.sink }
func (f *fakeCI) InfoSource() <-chan gostatsd.InstanceInfo { return f.info }
func (f *fakeCI) EstimatedTags() int                       { return 2 }

// read is the goroutine behind IpSink.
func (f *fakeCI) read(ctx context.Context) {
	for {
		select {
		case <-ctx.Done():
			return
		case s := <-f.sink:
			f.mu.Lock()
			f.reqs = append(f.reqs, request{string(s), f.r.Stamp()})
			f.mu.Unlock()
			if f.reqC != nil {
				select {
				case f.reqC <- string(s):
				default:
				}
			}
		}
	}
}

func (f *fakeCI) reqCount(src string) int {
	f.mu.Lock()
	defer f.mu.Unlock()
	n := 0
	for _, q := range f.reqs {
		if q.Src == src {
			n++
		}
	}
	return n
}

// complete answers a requested lookup: the cache is populated (if populate) before the
// InstanceInfo is delivered.
func (f *fakeCI) complete(ctx context.Context, src string, inst *gostatsd.Instance, populate bool) {
	f.mu.Lock()
	if populate {
		f.cache[gostatsd.Source(src)] = inst
		f.changes[src] = append(f.changes[src], cacheChange{f.r.Stamp(), true, inst})
	}
	idx := len(f.comps)
	f.comps = append(f.comps, completion{Src: src, Inst: inst, Start: f.r.Stamp()})
	f.mu.Unlock()
	select {
	case f.info <- gostatsd.InstanceInfo{IP: gostatsd.Source(src), Instance: inst}:
	case <-ctx.Done():
	}
	end := f.r.Stamp()
	f.mu.Lock()
	f.comps[idx].End = end
	f.mu.Unlock()
}

func (f *fakeCI) evict(src string) {
	f.mu.Lock()
	if _, ok := f.cache[gostatsd.Source(src)]; ok {
		delete(f.cache, gostatsd.Source(src))
		f.changes[src] = append(f.changes[src], cacheChange{f.r.Stamp(), false, nil})
	}
	f.mu.Unlock()
}

// duplicateRequests applies the "at most one outstanding lookup per source" oracle to the log: a
// request for s that arrives while an earlier request for s has not even begun to be answered.
func (f *fakeCI) duplicateRequests() []string {
	f.mu.Lock()
	defer f.mu.Unlock()
	type ev struct {
		stamp int64
		req   bool
	}
	per := map[string][]ev{}
	for _, q := range f.reqs {
		per[q.Src] = append(per[q.Src], ev{q.Stamp, true})
	}
	for _, c := range f.comps {
		per[c.Src] = append(per[c.Src], ev{c.Start, false})
	}
	var out []string
	for src, evs := range per {
		sort.Slice(evs, func(i, j int) bool { return evs[i].stamp < evs[j].stamp })
		outstanding := 0
		for _, e := range evs {
			if e.req {
				if outstanding >= 1 {
					out = append(out, src)
					break
				}
				outstanding++
			} else if outstanding > 0 {
				outstanding--
			}
		}
	}
	sort.Strings(out)
	return out
}

// ---------------------------------------------------------------------------------------------
// capturing downstream handler

type delivery struct {
	Stamp  int64    `json:"stamp"`
	Key    string   `json:"key"`
	Tags   []string `json:"tags"`
	Source string   `json:"source"`
	KeyOK  bool     `json:"key_ok"`
}

type capture struct {
	r     *mon.Run
	mu    sync.Mutex
	items []delivery
	count map[string]int
}

func newCapture(r *mon.Run) *capture { return &capture{r: r, count: map[string]int{}} }

func (c *capture) EstimatedTags() int { return 0 }
func (c *capture) WaitForEvents()     {}

const counterBits = 40

// extract turns a flattened map into one delivery per datapoint id.
func extract(stamp int64, flat map[string]*ref.Series) []delivery {
	keys := make([]string, 0, len(flat))
	for k := range flat {
		keys = append(keys, k)
	}
	sort.Strings(keys)
	var out []delivery
	for _, k := range keys {
		s := flat[k]
		ok := s.TagsKey == ref.TagsKey(s.Tags, s.Source)
		add := func(key string) {
			out = append(out, delivery{Stamp: stamp, Key: key, Tags: s.Tags, Source: s.Source, KeyOK: ok})
		}
		switch s.Type {
		case 1:
			v := s.Counter
			if v <= 0 || v >= 1<<counterBits {
				add(fmt.Sprintf("c:%s:bad%d", s.Name, v))
				continue
			}
			for b := 0; b < counterBits; b++ {
				if v&(1<<uint(b)) != 0 {
					add(fmt.Sprintf("c:%s:%d", s.Name, b))
				}
			}
		case 2:
			for _, v := range s.Values {
				add("t:" + strconv.FormatInt(int64(v), 10))
			}
		case 3:
			add(fmt.Sprintf("g:%s:%d", s.Name, int64(s.Gauge)))
		case 4:
			for _, m := range s.Members {
				add("s:" + m)
			}
		}
	}
	return out
}

func (c *capture) DispatchMetricMap(ctx context.Context, mm *gostatsd.MetricMap) {
	stamp := c.r.Stamp()
	ds := extract(stamp, ref.FromMap(mm))
	c.mu.Lock()
	for _, d := range ds {
		c.items = append(c.items, d)
		c.count[d.Key]++
	}
	c.mu.Unlock()
	c.r.Event("downstream_maps", 1)
}

func (c *capture) DispatchEvent(ctx context.Context, e *gostatsd.Event) {
	stamp := c.r.Stamp()
	tags := append([]string(nil), e.Tags...)
	sort.Strings(tags)
	d := delivery{Stamp: stamp, Key: "e:" + e.Title, Tags: tags, Source: string(e.Source), KeyOK: true}
	c.mu.Lock()
	c.items = append(c.items, d)
	c.count[d.Key]++
	c.mu.Unlock()
	c.r.Event("downstream_events", 1)
}

func (c *capture) hasAll(keys []string) bool {
	c.mu.Lock()
	defer c.mu.Unlock()
	for _, k := range keys {
		if c.count[k] == 0 {
			return false
		}
	}
	return true
}

func (c *capture) since(i int) []delivery {
	c.mu.Lock()
	defer c.mu.Unlock()
	return append([]delivery(nil), c.items[i:]...)
}

// ---------------------------------------------------------------------------------------------
// items

type item struct {
	Key  string   `json:"key"`
	Kind string   `json:"kind"` // metric | event
	Tags []string `json:"tags"` // sorted
	Src  string   `json:"src"`
	A, B int64    // stamps around the dispatch call
}

var tagPool = []string{"a:1", "b:2", "env:x"}

// idgen creates datapoints / events with unique ids. prefix separates goroutines.
type idgen struct {
	prefix string
	next   int
	cid    int
}

func (g *idgen) tags(rng *rand.Rand) []string {
	var t []string
	switch rng.Intn(4) {
	case 0:
	case 1, 2:
		t = []string{tagPool[rng.Intn(len(tagPool))]}
	default:
		t = []string{tagPool[0], tagPool[1+rng.Intn(2)]}
	}
	return t
}

func sortedCopy(t []string) []string {
	o := append([]string{}, t...)
	sort.Strings(o)
	return o
}

func (g *idgen) datapoint(rng *rand.Rand, src string, base int64) (*item, ref.Datapoint) {
	g.next++
	id := base + int64(g.next)
	d := ref.Datapoint{Tags: g.tags(rng), Source: src, Rate: 1, Timestamp: 1000}
	it := &item{Kind: "metric", Src: src}
	typ := 1 + rng.Intn(4)
	if typ == 1 && g.cid >= 25*counterBits {
		typ = 2
	}
	d.Type = typ
	switch typ {
	case 1:
		d.Name = fmt.Sprintf("c%s_%d", g.prefix, g.cid/counterBits)
		bit := g.cid % counterBits
		g.cid++
		d.Value = float64(int64(1) << uint(bit))
		// keep counters of one name on few series so that parked batches merge
		if len(d.Tags) > 1 {
			d.Tags = d.Tags[:1]
		}
		it.Key = fmt.Sprintf("c:%s:%d", d.Name, bit)
	case 2:
		d.Name = "t" + strconv.Itoa(rng.Intn(2))
		d.Value = float64(id)
		it.Key = "t:" + strconv.FormatInt(id, 10)
	case 3:
		d.Name = fmt.Sprintf("g%d", id)
		d.Value = float64(id)
		it.Key = fmt.Sprintf("g:%s:%d", d.Name, id)
	case 4:
		d.Name = "s" + strconv.Itoa(rng.Intn(2))
		d.Str = fmt.Sprintf("id%d", id)
		it.Key = "s:" + d.Str
	}
	it.Tags = sortedCopy(d.Tags)
	return it, d
}

func (g *idgen) event(rng *rand.Rand, src string, base int64) (*item, *gostatsd.Event) {
	g.next++
	id := base + int64(g.next)
	tags := g.tags(rng)
	e := &gostatsd.Event{Title: fmt.Sprintf("ev%d", id), Text: "text", Tags: append(gostatsd.Tags(nil), tags...), Source: gostatsd.Source(src)}
	return &item{Key: "e:" + e.Title, Kind: "event", Src: src, Tags: sortedCopy(tags)}, e
}

func mkInstance(src string, ver int) *gostatsd.Instance {
	inst := &gostatsd.Instance{ID: gostatsd.Source(fmt.Sprintf("i-%s-v%d", src, ver))}
	if ver%4 != 0 {
		inst.Tags = gostatsd.Tags{"inst:" + src, fmt.Sprintf("ver:%d", ver)}
	}
	if ver%5 == 0 {
		inst.Tags = append(inst.Tags, "a:1") // a tag the datapoint may already carry
	}
	return inst
}

type want struct {
	tags    []string
	source  string
	outcome string
}

// expected computes what an item must look like downstream for a lookup outcome.
func expected(it *item, inst *gostatsd.Instance) want {
	if inst == nil {
		return want{tags: it.Tags, source: it.Src, outcome: "unchanged"}
	}
	t := append(append([]string{}, it.Tags...), inst.Tags...)
	sort.Strings(t)
	return want{tags: t, source: string(inst.ID), outcome: "enriched"}
}

func sameTags(a, b []string) bool {
	if len(a) != len(b) {
		return false
	}
	for i := range a {
		if a[i] != b[i] {
			return false
		}
	}
	return true
}

// ---------------------------------------------------------------------------------------------
// environment

type env struct {
	r      *mon.Run
	ctx    context.Context
	cancel context.CancelFunc
	fake   *fakeCI
	cap    *capture
	ch     *statsd.CloudHandler
	wg     sync.WaitGroup
}

func newEnv(r *mon.Run, conc bool) *env {
	e := &env{r: r, fake: newFake(r, conc), cap: newCapture(r)}
	e.ctx, e.cancel = context.WithCancel(context.Background())
	e.ch = statsd.NewCloudHandler(e.fake, e.cap)
	e.wg.Add(2)
	go func() { defer e.wg.Done(); e.ch.Run(e.ctx) }()
	go func() { defer e.wg.Done(); e.fake.read(e.ctx) }()
	return e
}

func (e *env) close() {
	e.cancel()
	e.wg.Wait()
}

func (e *env) waitForEvents(wd time.Duration) bool {
	done := make(chan struct{})
	go func() { e.ch.WaitForEvents(); close(done) }()
	select {
	case <-done:
		return true
	case <-time.After(wd):
		return false
	}
}

type replayCase struct {
	Mode  string   `json:"mode"`
	Index int      `json:"index"`
	Steps []string `json:"steps,omitempty"`
}

// ---------------------------------------------------------------------------------------------
// sequential mode

type seq struct {
	*env
	idx  int
	rng  *rand.Rand
	srcs []string
	gen  idgen
	wd   time.Duration

	items       map[string]*item
	parkedM     map[string][]*item
	parkedE     map[string][]*item
	outstanding map[string]bool
	reqExpected map[string]int
	mcache      map[string]*gostatsd.Instance // model of the fake's cache (presence = hit)
	pending     map[string]want
	done        map[string]bool
	seen        int
	ver         int
	pat         map[string][]byte
	log         []string

	bad            bool   // a violation was recorded in this case
	progress       string // first bounded-progress failure (judged by the caller)
	progressDetail string
}

func (s *seq) logf(format string, a ...interface{}) { s.log = append(s.log, fmt.Sprintf(format, a...)) }

func (s *seq) replay() replayCase { return replayCase{Mode: "seq", Index: s.idx, Steps: s.log} }

func (s *seq) violation(sig, detail string) {
	s.bad = true
	s.r.Violation(sig, detail+"\nhistory: "+strings.Join(s.log, " ; "), s.replay())
}

func (s *seq) stuck(sig, detail string) {
	if s.progress == "" {
		s.progress = sig
		s.progressDetail = detail + "\nhistory: " + strings.Join(s.log, " ; ")
	}
}

func (s *seq) pickSrc() string {
	if s.rng.Intn(12) == 0 {
		return ""
	}
	return s.srcs[s.rng.Intn(len(s.srcs))]
}

func (s *seq) note(src string, c byte) {
	if src != "" && c != 0 {
		s.pat[src] = append(s.pat[src], c)
	}
}

func (s *seq) pendingKeys() []string {
	ks := make([]string, 0, len(s.pending))
	for k := range s.pending {
		ks = append(ks, k)
	}
	sort.Strings(ks)
	return ks
}

// process judges everything the downstream handler received since the last call.
func (s *seq) process() {
	ds := s.cap.since(s.seen)
	s.seen += len(ds)
	for _, d := range ds {
		it := s.items[d.Key]
		w, ok := s.pending[d.Key]
		switch {
		case ok:
			delete(s.pending, d.Key)
			s.done[d.Key] = true
			if !sameTags(d.Tags, w.tags) || d.Source != w.source {
				s.violation("wrong-enrichment:"+it.Kind+":expected-"+w.outcome,
					fmt.Sprintf("%s %s (tags %q source %q) left the stage with tags %q source %q, expected tags %q source %q", it.Kind, d.Key, it.Tags, it.Src, d.Tags, d.Source, w.tags, w.source))
			} else if !d.KeyOK {
				s.violation("series-key-not-matching-tags:"+it.Kind,
					fmt.Sprintf("%s left the stage under a map key that is not the key of its tags %q and source %q", d.Key, d.Tags, d.Source))
			}
		case s.done[d.Key]:
			s.violation("delivered-twice:"+it.Kind, fmt.Sprintf("%s %s left the stage a second time (tags %q source %q)", it.Kind, d.Key, d.Tags, d.Source))
		case it != nil:
			s.violation("left-before-lookup-completed:"+it.Kind, fmt.Sprintf("%s %s from uncached source %q left the stage while its lookup is still outstanding (tags %q source %q)", it.Kind, d.Key, it.Src, d.Tags, d.Source))
		default:
			s.violation("unknown-item-delivered", fmt.Sprintf("downstream received %s (tags %q source %q) which never entered the stage", d.Key, d.Tags, d.Source))
		}
	}
}

// settle waits until everything the model expects downstream has arrived, then judges it.
func (s *seq) settle() {
	keys := s.pendingKeys()
	ok := mon.WaitUntil(s.wd, func() bool { return s.cap.hasAll(keys) })
	s.process()
	if !ok && !s.bad {
		for _, k := range s.pendingKeys() {
			it := s.items[k]
			s.stuck("never-delivered:"+it.Kind+":expected-"+s.pending[k].outcome,
				fmt.Sprintf("%s %s from source %q was never forwarded downstream (expected %s)", it.Kind, k, it.Src, s.pending[k].outcome))
			break
		}
	}
}

// arrive updates the model for one arriving item; it returns true when the item must leave immediately.
func (s *seq) arrive(it *item, upper, lower byte, newReq *[]string) bool {
	s.items[it.Key] = it
	inst, hit := s.mcache[it.Src]
	if it.Src == "" || hit {
		s.pending[it.Key] = expected(it, inst)
		s.note(it.Src, lower)
		return true
	}
	if len(s.parkedM[it.Src]) == 0 && len(s.parkedE[it.Src]) == 0 {
		s.reqExpected[it.Src]++
		s.outstanding[it.Src] = true
		*newReq = append(*newReq, it.Src)
	}
	if it.Kind == "metric" {
		s.parkedM[it.Src] = append(s.parkedM[it.Src], it)
	} else {
		s.parkedE[it.Src] = append(s.parkedE[it.Src], it)
	}
	s.note(it.Src, upper)
	return false
}

func (s *seq) afterDispatch(immediate []*item, newReq []string) {
	var keys []string
	for _, it := range immediate {
		keys = append(keys, it.Key)
	}
	if len(keys) > 0 && !s.cap.hasAll(keys) {
		s.violation("not-immediate:"+immediate[0].Kind, fmt.Sprintf("items %v from a cached or empty source had not been forwarded when the dispatch call returned", keys))
	}
	for _, src := range newReq {
		src := src
		n := s.reqExpected[src]
		if !mon.WaitUntil(s.wd, func() bool { return s.fake.reqCount(src) >= n }) {
			s.stuck("lookup-not-requested", fmt.Sprintf("source %q has parked items but no lookup was written to IpSink", src))
		}
	}
	s.settle()
}

func (s *seq) stepMetrics() {
	n := 1 + s.rng.Intn(4)
	main := s.pickSrc()
	var dps []ref.Datapoint
	var its []*item
	for i := 0; i < n; i++ {
		src := main
		if s.rng.Intn(5) == 0 {
			src = s.pickSrc()
		}
		it, d := s.gen.datapoint(s.rng, src, 0)
		its = append(its, it)
		dps = append(dps, d)
	}
	desc := make([]string, len(its))
	for i, it := range its {
		desc[i] = fmt.Sprintf("%s@%q%v", it.Key, it.Src, it.Tags)
	}
	s.logf("metrics[%s]", strings.Join(desc, " "))
	var immediate []*item
	var newReq []string
	seenSrc := map[string]bool{}
	for _, it := range its {
		up, lo := byte('M'), byte('m')
		if seenSrc[it.Src] { // one letter per source and batch
			up, lo = 0, 0
		}
		seenSrc[it.Src] = true
		if s.arrive(it, up, lo, &newReq) {
			immediate = append(immediate, it)
		}
	}
	mm := gen.MapOf(dps)
	a := s.r.Stamp()
	s.ch.DispatchMetricMap(s.ctx, mm)
	b := s.r.Stamp()
	for _, it := range its {
		it.A, it.B = a, b
	}
	s.r.Event("metric_batches", 1)
	s.r.Event("datapoints", len(its))
	s.afterDispatch(immediate, newReq)
}

func (s *seq) stepEvent() {
	src := s.pickSrc()
	it, e := s.gen.event(s.rng, src, 0)
	s.logf("event[%s@%q%v]", it.Key, it.Src, it.Tags)
	var newReq []string
	var immediate []*item
	if s.arrive(it, 'E', 'e', &newReq) {
		immediate = append(immediate, it)
	}
	it.A = s.r.Stamp()
	s.ch.DispatchEvent(s.ctx, e)
	it.B = s.r.Stamp()
	s.r.Event("events", 1)
	s.afterDispatch(immediate, newReq)
}

func (s *seq) stepComplete(src string) {
	var inst *gostatsd.Instance
	populate := true
	var letter byte
	switch k := s.rng.Intn(10); {
	case k < 5:
		s.ver++
		inst = mkInstance(src, s.ver)
		letter = 'I'
		s.logf("complete[%q instance %s %v]", src, inst.ID, inst.Tags)
	case k < 8:
		letter = 'N'
		s.logf("complete[%q not-found]", src)
	default:
		populate = false
		letter = 'X'
		s.logf("complete[%q error]", src)
	}
	s.note(src, letter)
	delete(s.outstanding, src)
	for _, it := range s.parkedM[src] {
		s.pending[it.Key] = expected(it, inst)
	}
	for _, it := range s.parkedE[src] {
		s.pending[it.Key] = expected(it, inst)
	}
	s.r.Event("released_datapoints", len(s.parkedM[src]))
	s.r.Event("released_events", len(s.parkedE[src]))
	delete(s.parkedM, src)
	delete(s.parkedE, src)
	if populate {
		s.mcache[src] = inst
	}
	s.fake.complete(s.ctx, src, inst, populate)
	s.r.Event("lookups_completed", 1)
	s.settle()
}

func (s *seq) stepEvict() bool {
	var c []string
	for src := range s.mcache {
		c = append(c, src)
	}
	if len(c) == 0 {
		return false
	}
	sort.Strings(c)
	src := c[s.rng.Intn(len(c))]
	s.logf("evict[%q]", src)
	s.note(src, 'V')
	delete(s.mcache, src)
	s.fake.evict(src)
	s.r.Event("evictions", 1)
	return true
}

func (s *seq) stepEmit() {
	hostsM, hostsE, itemsE := 0, 0, 0
	for _, p := range s.parkedM {
		if len(p) > 0 {
			hostsM++
		}
	}
	for _, p := range s.parkedE {
		if len(p) > 0 {
			hostsE++
			itemsE += len(p)
		}
	}
	s.logf("emit[hosts_metric=%d hosts_event=%d items_event=%d]", hostsM, hostsE, itemsE)
	ems, ok := emission(s.ctx, s.ch, s.wd)
	if !ok {
		s.r.Inconclusive("stats-emission-not-observed")
		return
	}
	s.r.Event("stats_emissions", len(ems))
	for _, em := range ems {
		for _, c := range []struct {
			key  string
			want int
		}{{gHostsM, hostsM}, {gHostsE, hostsE}, {gItemsE, itemsE}} {
			got, present := em[c.key]
			if !present || got != float64(c.want) {
				s.violation("gauge-mismatch:"+c.key, fmt.Sprintf("emitted %s = %v (present %v) while %d are parked (model: hosts with parked metrics %d, hosts with parked events %d, parked events %d)", c.key, got, present, c.want, hostsM, hostsE, itemsE))
			}
		}
		if s.bad {
			return
		}
	}
}

func (s *seq) outstandingList() []string {
	var o []string
	for src := range s.outstanding {
		o = append(o, src)
	}
	sort.Strings(o)
	return o
}

// classes reports the non-trivial classes of the finished history.
func (s *seq) classes() []string {
	var out []string
	for _, src := range s.srcs {
		p := string(s.pat[src])
		both, refail := false, false
		segM, segE, failed := false, false, false
		for i := 0; i < len(p); i++ {
			switch p[i] {
			case 'M':
				segM = true
				if failed {
					refail = true
				}
			case 'E':
				segE = true
				if failed {
					refail = true
				}
			case 'm', 'e':
				if failed {
					refail = true
				}
			case 'I', 'N', 'X':
				if segM && segE {
					both = true
				}
				segM, segE = false, false
				failed = p[i] != 'I'
			}
		}
		if both || refail {
			if len(p) > 14 {
				p = p[:14]
			}
			out = append(out, fmt.Sprintf("seq:%v:%v:%s", both, refail, p))
		}
	}
	return out
}

func runSeq(r *mon.Run, idx int, wd time.Duration) *seq {
	s := &seq{env: newEnv(r, false), idx: idx, rng: r.Rand(fmt.Sprintf("seq-%d", idx)), wd: wd,
		items: map[string]*item{}, parkedM: map[string][]*item{}, parkedE: map[string][]*item{}, outstanding: map[string]bool{},
		reqExpected: map[string]int{}, mcache: map[string]*gostatsd.Instance{}, pending: map[string]want{}, done: map[string]bool{}, pat: map[string][]byte{}}
	defer s.close()
	s.gen.prefix = "q"
	nsrc := 1 + s.rng.Intn(4)
	for i := 0; i < nsrc; i++ {
		s.srcs = append(s.srcs, fmt.Sprintf("10.0.0.%d", i+1))
	}
	steps := 6 + s.rng.Intn(25)
	for i := 0; i < steps && !s.bad && s.progress == ""; i++ {
		switch k := s.rng.Intn(100); {
		case k < 28:
			s.stepMetrics()
		case k < 52:
			s.stepEvent()
		case k < 74:
			if o := s.outstandingList(); len(o) > 0 {
				s.stepComplete(o[s.rng.Intn(len(o))])
			} else {
				s.stepEvent()
			}
		case k < 82:
			if !s.stepEvict() {
				s.stepMetrics()
			}
		default:
			s.stepEmit()
		}
	}
	for !s.bad && s.progress == "" {
		o := s.outstandingList()
		if len(o) == 0 {
			break
		}
		s.stepComplete(o[0])
	}
	if !s.bad && s.progress == "" {
		s.stepEmit()
	}
	if !s.bad && s.progress == "" {
		if !s.waitForEvents(s.wd) {
			s.stuck("waitforevents-hangs", "every event has been forwarded but CloudHandler.WaitForEvents does not return")
		}
	}
	if !s.bad && s.progress == "" {
		s.process() // late duplicates
		if d := s.fake.duplicateRequests(); len(d) > 0 {
			s.violation("second-lookup-while-one-outstanding", fmt.Sprintf("a lookup for %v was written to IpSink while the previous lookup for the same source was unanswered", d))
		}
	} else if s.progress != "" {
		if d := s.fake.duplicateRequests(); len(d) > 0 {
			s.violation("second-lookup-while-one-outstanding", fmt.Sprintf("a lookup for %v was written to IpSink while the previous lookup for the same source was unanswered", d))
		}
	}
	return s
}

// ---------------------------------------------------------------------------------------------
// concurrent mode

type concLog struct {
	items []*item
}

func runConc(r *mon.Run, idx int, wd time.Duration) (quiescent bool) {
	rng := r.Rand(fmt.Sprintf("conc-%d", idx))
	e := newEnv(r, true)
	defer e.close()
	nsrc := 1 + rng.Intn(4)
	srcs := make([]string, nsrc)
	for i := range srcs {
		srcs[i] = fmt.Sprintf("10.1.0.%d", i+1)
	}
	nd := 2 + rng.Intn(3)
	ops := 8 + rng.Intn(25)
	rc := replayCase{Mode: "conc", Index: idx, Steps: []string{fmt.Sprintf("sources=%d dispatchers=%d ops=%d", nsrc, nd, ops)}}

	logs := make([]concLog, nd)
	var dwg sync.WaitGroup
	totalEvents := int64(nd * ops)
	for g := 0; g < nd; g++ {
		g := g
		grng := r.Rand(fmt.Sprintf("conc-%d-d%d", idx, g))
		dwg.Add(1)
		go func() {
			defer dwg.Done()
			ig := idgen{prefix: fmt.Sprintf("k%d", g)}
			base := int64(g+1) << 32
			pick := func() string {
				if grng.Intn(12) == 0 {
					return ""
				}
				return srcs[grng.Intn(len(srcs))]
			}
			for i := 0; i < ops; i++ {
				if grng.Intn(5) < 3 {
					n := 1 + grng.Intn(3)
					main := pick()
					var dps []ref.Datapoint
					var its []*item
					for j := 0; j < n; j++ {
						src := main
						if grng.Intn(6) == 0 {
							src = pick()
						}
						it, d := ig.datapoint(grng, src, base)
						its = append(its, it)
						dps = append(dps, d)
					}
					mm := gen.MapOf(dps)
					a := r.Stamp()
					e.ch.DispatchMetricMap(e.ctx, mm)
					b := r.Stamp()
					for _, it := range its {
						it.A, it.B = a, b
					}
					logs[g].items = append(logs[g].items, its...)
				} else {
					it, ev := ig.event(grng, pick(), base)
					it.A = r.Stamp()
					e.ch.DispatchEvent(e.ctx, ev)
					it.B = r.Stamp()
					logs[g].items = append(logs[g].items, it)
				}
				if grng.Intn(3) == 0 {
					runtime.Gosched()
				}
			}
		}()
	}

	// completer: answers requested sources only, one answer per request
	stopC := make(chan struct{})
	var cwg sync.WaitGroup
	cwg.Add(1)
	crng := r.Rand(fmt.Sprintf("conc-%d-completer", idx))
	go func() {
		defer cwg.Done()
		ver := 0
		for {
			select {
			case <-stopC:
				return
			case src := <-e.fake.reqC:
				for y := crng.Intn(4); y > 0; y-- {
					runtime.Gosched()
				}
				if crng.Intn(4) == 0 {
					e.fake.evict(srcs[crng.Intn(len(srcs))])
				}
				switch k := crng.Intn(10); {
				case k < 5:
					ver++
					e.fake.complete(e.ctx, src, mkInstance(src, ver), true)
				case k < 8:
					e.fake.complete(e.ctx, src, nil, true)
				default:
					e.fake.complete(e.ctx, src, nil, false)
				}
				r.Event("lookups_completed", 1)
				if crng.Intn(3) == 0 {
					e.fake.evict(srcs[crng.Intn(len(srcs))])
				}
			}
		}
	}()

	// emitter: the gauges can never exceed what exists
	stopE := make(chan struct{})
	var ewg sync.WaitGroup
	ewg.Add(1)
	go func() {
		defer ewg.Done()
		for {
			select {
			case <-stopE:
				return
			default:
			}
			ems, ok := emission(e.ctx, e.ch, wd)
			if !ok {
				continue
			}
			r.Event("stats_emissions", len(ems))
			for _, em := range ems {
				for _, c := range []struct {
					key string
					max float64
				}{{gHostsM, float64(nsrc)}, {gHostsE, float64(nsrc)}, {gItemsE, float64(totalEvents)}} {
					if v := em[c.key]; v < 0 || v > c.max {
						r.Violation("gauge-out-of-range:"+c.key, fmt.Sprintf("emitted %s = %v with %d sources and at most %d events in flight", c.key, v, nsrc, totalEvents), rc)
					}
				}
			}
			runtime.Gosched()
		}
	}()

	dwg.Wait()
	var all []*item
	var keys []string
	for _, l := range logs {
		for _, it := range l.items {
			all = append(all, it)
			keys = append(keys, it.Key)
		}
	}
	delivered := mon.WaitUntil(wd, func() bool { return e.cap.hasAll(keys) })
	close(stopE)
	ewg.Wait()
	close(stopC)
	cwg.Wait()
	r.Eval(1)
	if !delivered {
		r.Inconclusive("concurrent-run-not-quiescent")
		return false
	}

	// final gauges and WaitForEvents
	if ems, ok := emission(e.ctx, e.ch, wd); ok {
		for _, em := range ems {
			for _, k := range []string{gHostsM, gHostsE, gItemsE} {
				if em[k] != 0 {
					r.Violation("gauge-mismatch:"+k, fmt.Sprintf("after every item left the stage (concurrent run) %s = %v, nothing is parked", k, em[k]), rc)
				}
			}
		}
	} else {
		r.Inconclusive("stats-emission-not-observed")
	}
	if !e.waitForEvents(wd) {
		r.Inconclusive("concurrent-waitforevents-timeout")
	}
	if d := e.fake.duplicateRequests(); len(d) > 0 {
		r.Violation("second-lookup-while-one-outstanding", fmt.Sprintf("concurrent run: a lookup for %v was written to IpSink while the previous one for the same source was unanswered", d), rc)
	}

	// offline oracle
	byKey := map[string][]delivery{}
	for _, d := range e.cap.since(0) {
		byKey[d.Key] = append(byKey[d.Key], d)
	}
	known := map[string]*item{}
	for _, it := range all {
		known[it.Key] = it
	}
	for k := range byKey {
		if known[k] == nil {
			r.Violation("unknown-item-delivered", fmt.Sprintf("concurrent run: downstream received %s which never entered the stage", k), rc)
		}
	}
	e.fake.mu.Lock()
	changes := e.fake.changes
	comps := append([]completion(nil), e.fake.comps...)
	e.fake.mu.Unlock()
	parkedM, parkedE, neg := false, false, false
	for _, it := range all {
		ds := byKey[it.Key]
		if len(ds) != 1 {
			r.Violation("delivered-twice:"+it.Kind, fmt.Sprintf("concurrent run: %s %s left the stage %d times", it.Kind, it.Key, len(ds)), rc)
			continue
		}
		d := ds[0]
		if d.Stamp < it.A {
			r.Violation("unknown-item-delivered", fmt.Sprintf("concurrent run: %s delivered before it was dispatched", it.Key), rc)
			continue
		}
		if !d.KeyOK {
			r.Violation("series-key-not-matching-tags:"+it.Kind, fmt.Sprintf("concurrent run: %s left under a map key not matching tags %q source %q", it.Key, d.Tags, d.Source), rc)
		}
		matches := func(inst *gostatsd.Instance) bool {
			w := expected(it, inst)
			return sameTags(w.tags, d.Tags) && w.source == d.Source
		}
		if it.Src == "" {
			if !matches(nil) {
				r.Violation("wrong-enrichment:"+it.Kind+":expected-unchanged", fmt.Sprintf("concurrent run: %s with empty source left with tags %q source %q", it.Key, d.Tags, d.Source), rc)
			}
			if d.Stamp > it.B {
				r.Violation("not-immediate:"+it.Kind, fmt.Sprintf("concurrent run: %s with empty source was forwarded after the dispatch call returned", it.Key), rc)
			}
			continue
		}
		justified := false
		// (A) cache hit at some instant between the start of the call and the delivery
		var last *cacheChange
		chs := changes[it.Src]
		for i := range chs {
			c := &chs[i]
			if c.Stamp < it.A {
				last = c
				continue
			}
			if c.Stamp < d.Stamp && c.Present && matches(c.Inst) && d.Stamp < it.B {
				justified = true
			}
		}
		if last != nil && last.Present && matches(last.Inst) && d.Stamp < it.B {
			justified = true
		}
		// (B) parked and released by a completion received after the arrival and begun before the delivery
		for _, c := range comps {
			if c.Src == it.Src && (c.End == 0 || c.End > it.A) && c.Start < d.Stamp /* End == 0: the hand-over of the answer had begun but its end was not yet stamped when the log was read */ && matches(c.Inst) {
				justified = true
				if d.Stamp > it.B {
					if it.Kind == "metric" {
						parkedM = true
					} else {
						parkedE = true
					}
					if c.Inst == nil {
						neg = true
					}
				}
			}
		}
		if !justified {
			r.Violation("wrong-enrichment:"+it.Kind+":no-justifying-lookup", fmt.Sprintf("concurrent run: %s %s from %q (arrived %d..%d) left at %d with tags %q source %q; neither a cache state during the call nor a lookup completion between arrival and delivery explains that", it.Kind, it.Key, it.Src, it.A, it.B, d.Stamp, d.Tags, d.Source), rc)
		}
	}
	if parkedM || parkedE {
		r.Nontrivial(fmt.Sprintf("conc:src=%d:disp=%d:parkedM=%v:parkedE=%v:neg=%v", nsrc, nd, parkedM, parkedE, neg))
	}
	r.Event("concurrent_runs", 1)
	r.Event("concurrent_items", len(all))
	return true
}

// ---------------------------------------------------------------------------------------------

func seqCase(r *mon.Run, idx int) (abort bool) {
	r.Case("seq %d", idx)
	s := runSeq(r, idx, 4*time.Second)
	r.Eval(1)
	if s.progress != "" && !s.bad {
		// bounded progress is the property here and the script is deterministic: reproduce once more
		s2 := runSeq(r, idx, 4*time.Second)
		if s2.progress == s.progress {
			r.Violation(s.progress, s2.progressDetail+"\n(reproduced twice with a 4 s watchdog each)", s2.replay())
			return true
		}
		r.Inconclusive("watchdog:" + s.progress)
		return false
	}
	if s.bad {
		return false
	}
	for _, c := range s.classes() {
		r.Nontrivial(c)
		if r.WantSample() {
			r.Sample(map[string]interface{}{"mode": "sequential", "sources": len(s.srcs), "history": s.log, "per_source_pattern": c})
		}
	}
	return false
}

func TestCheck(t *testing.T) {
	r := mon.Start(t, "C11")
	defer r.Finish()
	r.Rule("sequential cases: PRNG scripts of 6-30 steps over {metric batch (1-4 datapoints, mostly one source, sometimes mixed / empty source), event, complete the outstanding lookup of s with instance | not-found (negative cache entry) | error (nil, nothing cached), evict s, emit stats} with 1-4 sources, judged after every step against a model of cache and parked sets; concurrent cases: 2-4 dispatcher goroutines, a completer answering requested sources with random outcomes and evictions, an emitter, judged offline on the stamped log. Non-trivial: a source that had both metrics and events parked around one pending lookup, or a failed lookup followed by a re-arrival; distinct by the per-source step pattern (M/E parked, m/e immediate, I/N/X completion, V evict), concurrent runs by (sources, dispatchers, what was parked). Integrated cases: the real CloudHandler on the real CachedCloudProvider (scripted CloudProvider with random per-call outcomes F/P/E/X/Y, batch limit 1/2/5/16, optionally one call held open; 12 h TTLs and a mock clock that never moves) with 1-6 sources: first a forced late arrival (the return of a missing Peek is delayed until the first lookup of that source was answered and handled, so the item needs a second lookup of an already cached source), then 2-4 concurrent dispatchers with further delayed misses; judged by the same offline oracle on what a logging decorator saw (cache hits, lookups written, InstanceInfos delivered), plus bounded progress: nothing stays parked once every provider call returned and every lookup was answered. Distinct by (sources, batch limit, dispatchers, kind and outcome of the late item, held call). Slow-provider cases (two per quick run): the first provider call takes 5.5-7 s of real time for a batch of 4-6 sources, either failing when its context ends / after that time, or ignoring the context and succeeding; every parked item must still leave exactly once, enriched iff the lookup succeeded. Server cases: the real statsd.Server via RunWithCustomSocket with 0-3 filter blocks from a pool of nine (drop-host, drop-tags / match-tags on provider tags, drop-metric, match / exclude metrics), 0-3 static tags, ignore-host on/off, 2-5 sources with per-source lookup outcome, 6-15 datagrams of 1-3 lines plus 2-5 events; distinct by (ignore-host, static tags, filter list), counted when an enriched item met static tags or a filter touching provider data. Configuration cases: random flag / env / toml / yaml settings of max-cloud-requests, burst-cloud-requests, cloud-cache-* through cmd/gostatsd's setupConfiguration + newCachedInstancesFromViper (overlay runner); distinct by (max, burst, burst<=max, batch limit, how the keys were set).")
	r.Assume("the fake CachedInstances answers only requested sources and populates its cache before delivering the InstanceInfo, like the real caches")
	r.Assume("MetricMap.Receive builds the input maps; ref.FromMap flattens what arrives downstream")

	if p := r.ReplayPayload(); p != nil {
		rc, ok := mon.ReplayCase(p, &replayCase{}).(*replayCase)
		if !ok || rc == nil {
			t.Skip("no case in replay file")
		}
		if rc.Mode == "conc" {
			r.Case("conc %d", rc.Index)
			runConc(r, rc.Index, 10*time.Second)
		} else if rc.Mode == "integ" {
			integCase(r, rc.Index)
		} else if rc.Mode == "server" {
			serverCase(r, rc.Index)
		} else if rc.Mode == "slow" {
			slowCase(r, rc.Index, rc.Index%2 == 0)
		} else {
			seqCase(r, rc.Index)
		}
		r.Nontrivial("replay-a")
		r.Nontrivial("replay-b")
		return
	}

	// slow-provider cases wait 5.5-7 s of real time: two per quick run (shards 0 and 1), one per shard up to
	// eight in the thorough tier, running beside the other cases of their shard
	var slow sync.WaitGroup
	defer slow.Wait()
	if sh, _ := r.Shard(); sh < r.Pick(2, 8) {
		slow.Add(1)
		go func() {
			defer slow.Done()
			slowCase(r, sh, sh%2 == 0)
		}()
	}
	nSeq := r.N(2400, 250000)
	nConc := r.N(120, 10000)
	for i := 0; i < nSeq; i++ {
		if seqCase(r, i) {
			// a datapoint that is never forwarded was reproduced twice: every further case would
			// spend its watchdogs on the same defect
			r.Extra("aborted_after_progress_violation", 1)
			return
		}
	}
	stuck := 0
	for i := 0; i < nConc && stuck < 2; i++ {
		r.Case("conc %d", i)
		if runConc(r, i, 10*time.Second) {
			stuck = 0
		} else {
			stuck++
		}
	}
	for i, n := 0, r.N(200, 8000); i < n; i++ {
		if integCase(r, i) {
			r.Extra("aborted_after_progress_violation", 1)
			return
		}
	}
	for i, n := 0, r.N(64, 1600); i < n; i++ {
		if serverCase(r, i) {
			r.Extra("aborted_after_progress_violation", 1)
			return
		}
	}
	configPhase(r, r.N(48, 800))
}
