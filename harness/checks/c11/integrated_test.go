//go:build verif

// C11, integrated mode: the real CloudHandler on top of the real CachedCloudProvider (its Run loop,
// lookup dispatcher and cache) with a scripted CloudProvider. A thin CachedInstances decorator logs
// what the stage sees (Peek results, lookups written to IpSink, InstanceInfos delivered) and can delay
// the return of one missing Peek, which forces the "late arrival" interleaving: an item sees a miss
// while the first lookup of its source is in flight and reaches the handler's Run goroutine only
// after that lookup's answer was handled.
package c11

import (
	"context"
	"errors"
	"fmt"
	"io"
	"math/rand"
	"runtime"
	"sort"
	"strings"
	"sync"
	"time"

	"github.com/sirupsen/logrus"
	"github.com/tilinna/clock"
	"golang.org/x/time/rate"

	"github.com/atlassian/gostatsd"
	"github.com/atlassian/gostatsd/pkg/cachedinstances/cloudprovider"
	"github.com/atlassian/gostatsd/pkg/statsd"

	"verif/gen"
	"verif/mon"
	"verif/ref"
)

// ---------------------------------------------------------------------------------------------
// scripted CloudProvider

type iprovider struct {
	r     *mon.Run
	batch int

	mu       sync.Mutex
	rng      *rand.Rand
	n        int
	inflight int
	armed    bool
	holding  bool
	releaseC chan struct{}
	outcomes []byte
}

func (p *iprovider) Name() string           { return "scripted" }
func (p *iprovider) MaxInstancesBatch() int { return p.batch }
func (p *iprovider) EstimatedTags() int     { return 2 }

func (p *iprovider) Instance(ctx context.Context, ips ...gostatsd.Source) (map[gostatsd.Source]*gostatsd.Instance, error) {
	p.mu.Lock()
	defer p.mu.Unlock()
	p.n++
	n := p.n
	out := byte('F')
	switch k := p.rng.Intn(20); {
	case k < 11:
	case k < 14:
		out = 'P'
	case k < 16:
		out = 'E'
	case k < 18:
		out = 'X'
	default:
		out = 'Y'
	}
	p.outcomes = append(p.outcomes, out)
	res := map[gostatsd.Source]*gostatsd.Instance{}
	for i, ip := range ips {
		present := true
		switch out {
		case 'E', 'X':
			present = false
		case 'P', 'Y':
			present = (i+n)%2 != 0
		}
		if present && res[ip] == nil {
			res[ip] = mkInstance(string(ip), n)
		}
	}
	var err error
	switch out {
	case 'X':
		res, err = nil, errors.New("scripted provider failure")
	case 'Y':
		err = errors.New("scripted provider failure with partial data")
	}
	p.r.Event("integrated_provider_calls", 1)
	if p.armed {
		p.armed, p.holding = false, true
		rel := p.releaseC
		p.inflight++
		p.r.Event("integrated_provider_calls_held", 1)
		p.mu.Unlock()
		select {
		case <-rel:
		case <-ctx.Done():
		}
		p.mu.Lock()
		p.inflight--
		p.holding = false
	}
	return res, err
}

func (p *iprovider) arm() {
	p.mu.Lock()
	p.armed, p.releaseC = true, make(chan struct{})
	p.mu.Unlock()
}

func (p *iprovider) release() {
	p.mu.Lock()
	p.armed = false
	if p.releaseC != nil {
		close(p.releaseC)
		p.releaseC = nil
	}
	p.mu.Unlock()
}

func (p *iprovider) state() (holding bool, inflight int) {
	p.mu.Lock()
	defer p.mu.Unlock()
	return p.holding, p.inflight
}

// ---------------------------------------------------------------------------------------------
// logging / delaying decorator around the real cache

type peekLog struct {
	Src           string
	Before, After int64
	Hit           bool
	Inst          *gostatsd.Instance
}

type decoCI struct {
	r     *mon.Run
	inner gostatsd.CachedInstances
	sink  chan gostatsd.Source
	info  chan gostatsd.InstanceInfo

	mu       sync.Mutex
	peeks    []peekLog
	reqs     []request
	comps    []completion
	gateSrc  string
	gateC    chan struct{}
	captured bool
}

func newDeco(r *mon.Run, inner gostatsd.CachedInstances) *decoCI {
	return &decoCI{r: r, inner: inner, sink: make(chan gostatsd.Source), info: make(chan gostatsd.InstanceInfo)}
}

func (d *decoCI) IpSink() chan<- gostatsd.Source           { return d.sink }
func (d *decoCI) InfoSource() <-chan gostatsd.InstanceInfo { return d.info }
func (d *decoCI) EstimatedTags() int                       { return d.inner.EstimatedTags() }

func (d *decoCI) Peek(ip gostatsd.Source) (*gostatsd.Instance, bool) {
	b := d.r.Stamp()
	inst, hit := d.inner.Peek(ip)
	if !hit {
		d.mu.Lock()
		var wait chan struct{}
		if d.gateC != nil && !d.captured && d.gateSrc == string(ip) {
			d.captured = true
			wait = d.gateC
		}
		d.mu.Unlock()
		if wait != nil {
			d.r.Event("integrated_peek_returns_delayed", 1)
			<-wait // the miss is returned late
		}
	}
	a := d.r.Stamp()
	d.mu.Lock()
	d.peeks = append(d.peeks, peekLog{string(ip), b, a, hit, inst})
	d.mu.Unlock()
	return inst, hit
}

// arm delays the return of the next missing Peek of src until release.
func (d *decoCI) arm(src string) {
	d.mu.Lock()
	d.gateSrc, d.gateC, d.captured = src, make(chan struct{}), false
	d.mu.Unlock()
}

func (d *decoCI) isCaptured() bool {
	d.mu.Lock()
	defer d.mu.Unlock()
	return d.captured
}

func (d *decoCI) release() {
	d.mu.Lock()
	if d.gateC != nil {
		close(d.gateC)
		d.gateC = nil
	}
	d.mu.Unlock()
}

func (d *decoCI) forward(ctx context.Context) {
	var wg sync.WaitGroup
	wg.Add(2)
	go func() {
		defer wg.Done()
		for {
			select {
			case <-ctx.Done():
				return
			case s := <-d.sink:
				d.mu.Lock()
				d.reqs = append(d.reqs, request{string(s), d.r.Stamp()})
				d.mu.Unlock()
				select {
				case <-ctx.Done():
					return
				case d.inner.IpSink() <- s:
				}
			}
		}
	}()
	go func() {
		defer wg.Done()
		for {
			select {
			case <-ctx.Done():
				return
			case in := <-d.inner.InfoSource():
				d.mu.Lock()
				idx := len(d.comps)
				d.comps = append(d.comps, completion{Src: string(in.IP), Inst: in.Instance, Start: d.r.Stamp()})
				d.mu.Unlock()
				select {
				case <-ctx.Done():
					return
				case d.info <- in:
				}
				end := d.r.Stamp()
				d.mu.Lock()
				d.comps[idx].End = end
				d.mu.Unlock()
			}
		}
	}()
	wg.Wait()
}

func (d *decoCI) snapshot() ([]peekLog, []request, []completion) {
	d.mu.Lock()
	defer d.mu.Unlock()
	return append([]peekLog(nil), d.peeks...), append([]request(nil), d.reqs...), append([]completion(nil), d.comps...)
}

// duplicates applies the "at most one outstanding lookup per source" oracle to a request / answer log.
func duplicates(reqs []request, comps []completion) []string {
	type ev struct {
		stamp int64
		req   bool
	}
	per := map[string][]ev{}
	for _, q := range reqs {
		per[q.Src] = append(per[q.Src], ev{q.Stamp, true})
	}
	for _, c := range comps {
		per[c.Src] = append(per[c.Src], ev{c.Start, false})
	}
	var out []string
	for src, evs := range per {
		sort.Slice(evs, func(i, j int) bool { return evs[i].stamp < evs[j].stamp })
		outstanding := 0
		for _, e := range evs {
			if e.req {
				if outstanding >= 1 {
					out = append(out, src)
					break
				}
				outstanding++
			} else if outstanding > 0 {
				outstanding--
			}
		}
	}
	sort.Strings(out)
	return out
}

// ---------------------------------------------------------------------------------------------

type integResult struct {
	progress, detail string
	rc               replayCase
}

func runInteg(r *mon.Run, idx int, wd time.Duration) integResult {
	rng := r.Rand(fmt.Sprintf("integ-%d", idx))
	nsrc := 1 + rng.Intn(6)
	batch := []int{1, 2, 5, 16}[rng.Intn(4)]
	nd := 2 + rng.Intn(3)
	ops := 6 + rng.Intn(16)
	lateEvent := rng.Intn(2) == 0
	holdCall := rng.Intn(2) == 0
	res := integResult{rc: replayCase{Mode: "integ", Index: idx, Steps: []string{fmt.Sprintf("sources=%d batch-limit=%d dispatchers=%d ops=%d late-item-is-event=%v hold-a-provider-call=%v", nsrc, batch, nd, ops, lateEvent, holdCall)}}}
	rc := res.rc
	srcs := make([]string, nsrc)
	for i := range srcs {
		srcs[i] = fmt.Sprintf("10.7.0.%d", i+1)
	}

	base, cancel := context.WithCancel(context.Background())
	ctx := clock.Context(base, clock.NewMock(time.Unix(1700000000, 0))) // never advanced: time plays no role
	prov := &iprovider{r: r, batch: batch, rng: r.Rand(fmt.Sprintf("integ-%d-provider", idx))}
	logger := logrus.New()
	logger.SetOutput(io.Discard)
	ccp := cloudprovider.NewCachedCloudProvider(logger, rate.NewLimiter(rate.Inf, 1), prov, gostatsd.CacheOptions{
		CacheRefreshPeriod: time.Hour, CacheTTL: 12 * time.Hour, CacheNegativeTTL: 12 * time.Hour, CacheEvictAfterIdlePeriod: 24 * time.Hour})
	deco := newDeco(r, ccp)
	cp := newCapture(r)
	ch := statsd.NewCloudHandler(deco, cp)
	var wg sync.WaitGroup
	wg.Add(3)
	go func() { defer wg.Done(); ccp.Run(ctx) }()
	go func() { defer wg.Done(); deco.forward(ctx) }()
	go func() { defer wg.Done(); ch.Run(ctx) }()
	defer func() {
		deco.release()
		prov.release()
		cancel()
		wg.Wait()
	}()
	r.Eval(1)

	var all []*item
	var allMu sync.Mutex
	record := func(its ...*item) {
		allMu.Lock()
		all = append(all, its...)
		allMu.Unlock()
	}
	dispatchMetrics := func(g *idgen, grng *rand.Rand, base int64, pick func() string) []*item {
		n := 1 + grng.Intn(3)
		main := pick()
		var dps []ref.Datapoint
		var its []*item
		for j := 0; j < n; j++ {
			src := main
			if grng.Intn(6) == 0 {
				src = pick()
			}
			it, d := g.datapoint(grng, src, base)
			its = append(its, it)
			dps = append(dps, d)
		}
		mm := gen.MapOf(dps)
		a := r.Stamp()
		ch.DispatchMetricMap(ctx, mm)
		b := r.Stamp()
		for _, it := range its {
			it.A, it.B = a, b
		}
		record(its...)
		return its
	}
	dispatchEvent := func(g *idgen, grng *rand.Rand, base int64, src string) *item {
		it, ev := g.event(grng, src, base)
		it.A = r.Stamp()
		ch.DispatchEvent(ctx, ev)
		it.B = r.Stamp()
		record(it)
		return it
	}
	stuck := func(sig, detail string) integResult {
		res.progress, res.detail = sig, detail
		return res
	}
	diagnose := func(missing []string) integResult {
		_, reqs, comps := deco.snapshot()
		_, inflight := prov.state()
		nr, nc := map[string]int{}, map[string]int{}
		for _, q := range reqs {
			nr[q.Src]++
		}
		for _, c := range comps {
			nc[c.Src]++
		}
		for _, s := range srcs {
			if nc[s] < nr[s] {
				return stuck("integrated:lookup-never-answered", fmt.Sprintf("real cache under the real handler: %d lookups for %s were written to IpSink, %d InstanceInfos came back (provider calls in flight: %d); items %v stay parked", nr[s], s, nc[s], inflight, missing))
			}
		}
		return stuck("integrated:item-stays-parked", fmt.Sprintf("real cache under the real handler: every provider call has returned and every lookup written to IpSink was answered (requests %v, answers %v), yet items %v never left the stage", nr, nc, missing))
	}
	missingOf := func(keys []string) []string {
		var m []string
		for _, k := range keys {
			if !cp.hasAll([]string{k}) {
				m = append(m, k)
			}
		}
		return m
	}

	// ---- phase 1: forced late arrival on srcs[0]
	s0 := srcs[0]
	lateGen := idgen{prefix: "late"}
	firstGen := idgen{prefix: "first"}
	lrng := r.Rand(fmt.Sprintf("integ-%d-late", idx))
	deco.arm(s0)
	lateDone := make(chan struct{})
	var lateItems []*item
	go func() {
		defer close(lateDone)
		if lateEvent {
			lateItems = []*item{dispatchEvent(&lateGen, lrng, 100<<32, s0)}
		} else {
			lateItems = dispatchMetrics(&lateGen, lrng, 100<<32, func() string { return s0 })
		}
	}()
	if !mon.WaitUntil(wd, deco.isCaptured) {
		r.Inconclusive("integrated-late-peek-not-captured")
		deco.release()
		<-lateDone
		return res
	}
	var firstKeys []string
	if rng.Intn(2) == 0 {
		firstKeys = []string{dispatchEvent(&firstGen, rng, 101<<32, s0).Key}
	} else {
		for _, it := range dispatchMetrics(&firstGen, rng, 101<<32, func() string { return s0 }) {
			firstKeys = append(firstKeys, it.Key)
		}
	}
	if !mon.WaitUntil(wd, func() bool { return cp.hasAll(firstKeys) }) {
		deco.release()
		<-lateDone
		return diagnose(missingOf(firstKeys))
	}
	// the first lookup of s0 has been answered and handled; now the delayed miss is returned. The late
	// items cannot reach the handler's Run goroutine before this instant, so only a lookup answered
	// after it may release them.
	relStamp := r.Stamp()
	deco.release()
	<-lateDone
	for _, it := range lateItems {
		it.A = relStamp
	}
	r.Event("integrated_late_arrivals_forced", 1)

	// ---- phase 2: concurrent dispatchers, random delayed misses, optionally a held provider call
	var dwg sync.WaitGroup
	for g := 0; g < nd; g++ {
		g := g
		grng := r.Rand(fmt.Sprintf("integ-%d-d%d", idx, g))
		dwg.Add(1)
		go func() {
			defer dwg.Done()
			ig := idgen{prefix: fmt.Sprintf("i%d", g)}
			base := int64(g+1) << 32
			pick := func() string {
				if grng.Intn(14) == 0 {
					return ""
				}
				return srcs[grng.Intn(len(srcs))]
			}
			for i := 0; i < ops; i++ {
				if grng.Intn(5) < 3 {
					dispatchMetrics(&ig, grng, base, pick)
				} else {
					dispatchEvent(&ig, grng, base, pick())
				}
				if grng.Intn(3) == 0 {
					runtime.Gosched()
				}
			}
		}()
	}
	var bwg sync.WaitGroup
	bwg.Add(1)
	grng := r.Rand(fmt.Sprintf("integ-%d-gater", idx))
	go func() { // delays the return of a few more missing Peeks
		defer bwg.Done()
		for k := 0; k < 2+grng.Intn(4); k++ {
			deco.arm(srcs[grng.Intn(len(srcs))])
			for y := 0; y < 200 && !deco.isCaptured(); y++ {
				runtime.Gosched()
			}
			for y := grng.Intn(40); y > 0; y-- {
				runtime.Gosched()
			}
			deco.release()
		}
	}()
	if holdCall {
		bwg.Add(1)
		hrng := r.Rand(fmt.Sprintf("integ-%d-holder", idx))
		go func() {
			defer bwg.Done()
			prov.arm()
			for y := 0; y < 400; y++ {
				if h, _ := prov.state(); h {
					break
				}
				runtime.Gosched()
			}
			for y := hrng.Intn(200); y > 0; y-- {
				runtime.Gosched()
			}
			prov.release()
		}()
	}
	bwg.Wait()
	dwg.Wait()
	prov.release()

	allMu.Lock()
	items := append([]*item(nil), all...)
	allMu.Unlock()
	keys := make([]string, len(items))
	for i, it := range items {
		keys[i] = it.Key
	}
	if !mon.WaitUntil(wd, func() bool { return cp.hasAll(keys) }) {
		return diagnose(missingOf(keys))
	}

	// ---- quiescent: gauges, WaitForEvents, request discipline
	if ems, ok := emission(ctx, ch, wd); ok {
		for _, em := range ems {
			for _, k := range []string{gHostsM, gHostsE, gItemsE} {
				if em[k] != 0 {
					r.Violation("gauge-mismatch:"+k, fmt.Sprintf("integrated run: after every item left the stage %s = %v, nothing is parked", k, em[k]), rc)
				}
			}
		}
	} else {
		r.Inconclusive("stats-emission-not-observed")
	}
	wfe := make(chan struct{})
	go func() { ch.WaitForEvents(); close(wfe) }()
	select {
	case <-wfe:
	case <-time.After(wd):
		r.Inconclusive("integrated-waitforevents-timeout")
	}
	peeks, reqs, comps := deco.snapshot()
	if d := duplicates(reqs, comps); len(d) > 0 {
		r.Violation("second-lookup-while-one-outstanding", fmt.Sprintf("integrated run: a lookup for %v was written to IpSink while the previous one for the same source was unanswered", d), rc)
	}

	// ---- offline oracle
	byKey := map[string][]delivery{}
	for _, d := range cp.since(0) {
		byKey[d.Key] = append(byKey[d.Key], d)
	}
	known := map[string]*item{}
	for _, it := range items {
		known[it.Key] = it
	}
	for k := range byKey {
		if known[k] == nil {
			r.Violation("unknown-item-delivered", fmt.Sprintf("integrated run: downstream received %s which never entered the stage", k), rc)
		}
	}
	peeksBy := map[string][]peekLog{}
	for _, p := range peeks {
		if p.Hit {
			peeksBy[p.Src] = append(peeksBy[p.Src], p)
		}
	}
	compsBy := map[string][]completion{}
	for _, c := range comps {
		compsBy[c.Src] = append(compsBy[c.Src], c)
	}
	lateOutcome, parked, unchangedAfterFailure := "", 0, false
	for _, it := range items {
		ds := byKey[it.Key]
		if len(ds) != 1 {
			r.Violation("delivered-twice:"+it.Kind, fmt.Sprintf("integrated run: %s %s left the stage %d times", it.Kind, it.Key, len(ds)), rc)
			continue
		}
		d := ds[0]
		if !d.KeyOK {
			r.Violation("series-key-not-matching-tags:"+it.Kind, fmt.Sprintf("integrated run: %s left under a map key not matching tags %q source %q", it.Key, d.Tags, d.Source), rc)
		}
		matches := func(inst *gostatsd.Instance) bool {
			w := expected(it, inst)
			return sameTags(w.tags, d.Tags) && w.source == d.Source
		}
		if it.Src == "" {
			if !matches(nil) {
				r.Violation("wrong-enrichment:"+it.Kind+":expected-unchanged", fmt.Sprintf("integrated run: %s with empty source left with tags %q source %q", it.Key, d.Tags, d.Source), rc)
			}
			continue
		}
		justified := false
		if d.Stamp < it.B { // forwarded during the dispatch call: a cache hit seen between arrival and delivery
			for _, p := range peeksBy[it.Src] {
				if p.After > it.A && p.Before < d.Stamp && matches(p.Inst) {
					justified = true
					break
				}
			}
		}
		for _, c := range compsBy[it.Src] {
			if (c.End == 0 || c.End > it.A) && c.Start < d.Stamp /* End == 0: the hand-over of the answer had begun but its end was not yet stamped when the log was read */ && matches(c.Inst) {
				justified = true
				if d.Stamp > it.B {
					parked++
					if c.Inst == nil {
						unchangedAfterFailure = true
					}
				}
				break
			}
		}
		if !justified {
			r.Violation("wrong-enrichment:"+it.Kind+":no-justifying-lookup", fmt.Sprintf("integrated run (real cache): %s %s from %q (arrived %d..%d) left at %d with tags %q source %q; neither a cache hit seen during the call nor a lookup answer delivered between arrival and delivery explains that (answers for the source: %s)", it.Kind, it.Key, it.Src, it.A, it.B, d.Stamp, d.Tags, d.Source, describeComps(compsBy[it.Src])), rc)
		}
	}
	// the forced late item must have been released by a second lookup of an already cached source
	if len(compsBy[s0]) >= 2 {
		if compsBy[s0][1].Inst != nil {
			lateOutcome = "enriched"
		} else {
			lateOutcome = "unchanged"
		}
		r.Nontrivial(fmt.Sprintf("integ:src=%d:b%d:disp=%d:late-event=%v:late-outcome=%s:held=%v:neg=%v", nsrc, batch, nd, lateEvent, lateOutcome, holdCall, unchangedAfterFailure))
		if r.WantSample() && idx < 2 {
			r.Sample(map[string]interface{}{"mode": "integrated (real CachedCloudProvider under the real CloudHandler)", "setup": rc.Steps, "provider_outcomes": string(prov.outcomes), "lookups_written_to_ipsink": len(reqs), "answers_delivered": len(comps), "items": len(items), "items_released_after_their_dispatch_call_returned": parked, "forced_late_arrival": fmt.Sprintf("second lookup of cached source %s answered %s", s0, lateOutcome)})
		}
	}
	r.Event("integrated_runs", 1)
	r.Event("integrated_items", len(items))
	r.Event("integrated_lookups", len(reqs))
	r.Event("integrated_items_parked", parked)
	return res
}

func describeComps(cs []completion) string {
	var out []string
	for _, c := range cs {
		id := "nil"
		if c.Inst != nil {
			id = string(c.Inst.ID)
		}
		out = append(out, fmt.Sprintf("%s@%d..%d", id, c.Start, c.End))
	}
	return strings.Join(out, " ")
}

// integCase runs one integrated case; a stuck item is reported only when it reproduces.
func integCase(r *mon.Run, idx int) (abort bool) {
	r.Case("integ %d", idx)
	res := runInteg(r, idx, 4*time.Second)
	if res.progress == "" {
		return false
	}
	res2 := runInteg(r, idx, 4*time.Second)
	if res2.progress == res.progress {
		r.Violation(res.progress, res2.detail+"\n"+strings.Join(res2.rc.Steps, " ")+"\n(reproduced twice with a 4 s watchdog each)", res2.rc)
		return true
	}
	r.Inconclusive("watchdog:" + res.progress)
	return false
}

// ---------------------------------------------------------------------------------------------
// slow provider: a provider call of realistic but long duration (5.5-7 s of real time) for a batch of
// several sources, under the real cache and the real handler

type slowProvider struct {
	r       *mon.Run
	dur     time.Duration
	honours bool // returns an error as soon as its context ends (and an error after dur otherwise); else sleeps dur and succeeds

	mu    sync.Mutex
	calls int
	first []string
}

func (p *slowProvider) Name() string           { return "slow" }
func (p *slowProvider) MaxInstancesBatch() int { return 16 }
func (p *slowProvider) EstimatedTags() int     { return 2 }
func (p *slowProvider) Instance(ctx context.Context, ips ...gostatsd.Source) (map[gostatsd.Source]*gostatsd.Instance, error) {
	p.mu.Lock()
	p.calls++
	n := p.calls
	if n == 1 {
		for _, ip := range ips {
			p.first = append(p.first, string(ip))
		}
	}
	p.mu.Unlock()
	if n == 1 {
		p.r.Event("integrated_slow_provider_calls", 1)
		if p.honours {
			select {
			case <-time.After(p.dur):
			case <-ctx.Done():
			}
			return nil, errors.New("slow provider gave up")
		}
		time.Sleep(p.dur) // the latency itself (workload shaping, like an upstream that takes this long)
	}
	out := map[gostatsd.Source]*gostatsd.Instance{}
	for _, ip := range ips {
		out[ip] = mkInstance(string(ip), n)
	}
	return out, nil
}

func runSlow(r *mon.Run, idx int, honours bool, wd time.Duration) integResult {
	rng := r.Rand(fmt.Sprintf("slow-%d", idx))
	dur := 5500*time.Millisecond + time.Duration(rng.Intn(1500))*time.Millisecond
	nsrc := 4 + rng.Intn(3)
	res := integResult{rc: replayCase{Mode: "slow", Index: idx, Steps: []string{fmt.Sprintf("provider call takes %v for a batch of up to %d sources; provider honours its context and fails=%v", dur, nsrc, honours)}}}
	rc := res.rc
	base, cancel := context.WithCancel(context.Background())
	ctx := clock.Context(base, clock.NewMock(time.Unix(1700000000, 0)))
	prov := &slowProvider{r: r, dur: dur, honours: honours}
	logger := logrus.New()
	logger.SetOutput(io.Discard)
	ccp := cloudprovider.NewCachedCloudProvider(logger, rate.NewLimiter(rate.Inf, 1), prov, gostatsd.CacheOptions{
		CacheRefreshPeriod: time.Hour, CacheTTL: 12 * time.Hour, CacheNegativeTTL: 12 * time.Hour, CacheEvictAfterIdlePeriod: 24 * time.Hour})
	cp := newCapture(r)
	ch := statsd.NewCloudHandler(ccp, cp)
	var wg sync.WaitGroup
	wg.Add(2)
	go func() { defer wg.Done(); ccp.Run(ctx) }()
	go func() { defer wg.Done(); ch.Run(ctx) }()
	defer func() { cancel(); wg.Wait() }()
	r.Eval(1)

	g := idgen{prefix: "slow"}
	var items []*item
	var keys []string
	for i := 0; i < nsrc; i++ {
		src := fmt.Sprintf("10.7.9.%d", i+1)
		var dps []ref.Datapoint
		for k := 1 + rng.Intn(3); k > 0; k-- {
			it, d := g.datapoint(rng, src, 300<<32)
			items = append(items, it)
			dps = append(dps, d)
		}
		ch.DispatchMetricMap(ctx, gen.MapOf(dps))
		it, ev := g.event(rng, src, 300<<32)
		items = append(items, it)
		ch.DispatchEvent(ctx, ev)
	}
	for _, it := range items {
		keys = append(keys, it.Key)
	}
	if !mon.WaitUntil(dur+wd, func() bool { return cp.hasAll(keys) }) {
		var missing []string
		for _, k := range keys {
			if !cp.hasAll([]string{k}) {
				missing = append(missing, k)
			}
		}
		prov.mu.Lock()
		first, calls := append([]string(nil), prov.first...), prov.calls
		prov.mu.Unlock()
		res.progress = "integrated:parked-after-slow-provider-call"
		res.detail = fmt.Sprintf("real cache under the real handler: the provider call for %v took %v (honours its context and fails: %v; %d provider calls in all); %v later items %v have still not left the stage", first, dur, honours, calls, wd, missing)
		return res
	}
	time.Sleep(15 * time.Millisecond) // a duplicate gets a moment to show up
	byKey := map[string][]delivery{}
	for _, d := range cp.since(0) {
		byKey[d.Key] = append(byKey[d.Key], d)
	}
	prov.mu.Lock()
	inFirst := map[string]bool{}
	for _, s := range prov.first {
		inFirst[s] = true
	}
	prov.mu.Unlock()
	for _, it := range items {
		ds := byKey[it.Key]
		if len(ds) != 1 {
			r.Violation("delivered-twice:"+it.Kind, fmt.Sprintf("slow provider run: %s %s left the stage %d times", it.Kind, it.Key, len(ds)), rc)
			continue
		}
		d := ds[0]
		// sources of the slow first call get its outcome; a source that came in a later (fast) call is found
		okTags := false
		for ver := 1; ver <= 4 && !okTags; ver++ {
			var inst *gostatsd.Instance
			if !(honours && inFirst[it.Src]) {
				inst = mkInstance(it.Src, ver)
			}
			w := expected(it, inst)
			okTags = sameTags(w.tags, d.Tags) && w.source == d.Source
		}
		if !okTags {
			want := "enriched with the instance the lookup returned"
			if honours && inFirst[it.Src] {
				want = "unchanged, the lookup failed"
			}
			r.Violation("wrong-enrichment:"+it.Kind+":after-slow-provider-call", fmt.Sprintf("slow provider run (%v, fails=%v): %s %s from %q left with tags %q source %q, expected %s", dur, honours, it.Kind, it.Key, it.Src, d.Tags, d.Source, want), rc)
		}
	}
	if ems, ok := emission(ctx, ch, wd); ok {
		for _, em := range ems {
			for _, k := range []string{gHostsM, gHostsE, gItemsE} {
				if em[k] != 0 {
					r.Violation("gauge-mismatch:"+k, fmt.Sprintf("slow provider run: after every item left the stage %s = %v", k, em[k]), rc)
				}
			}
		}
	}
	r.Event("integrated_slow_runs", 1)
	if len(prov.first) >= 2 {
		r.Nontrivial(fmt.Sprintf("slow:honours=%v:batch=%d", honours, len(prov.first)))
	}
	return res
}

func slowCase(r *mon.Run, idx int, honours bool) {
	r.Case("slow provider %d honours=%v", idx, honours)
	res := runSlow(r, idx, honours, 4*time.Second)
	if res.progress == "" {
		return
	}
	res2 := runSlow(r, idx, honours, 4*time.Second)
	if res2.progress == res.progress {
		r.Violation(res.progress, res2.detail+"\n"+strings.Join(res2.rc.Steps, " ")+"\n(reproduced twice)", res2.rc)
		return
	}
	r.Inconclusive("watchdog:" + res.progress)
}
