//go:build verif

// C17 — backend payloads contain every series exactly once and are well formed.
//
// One case = one aggregate state produced by the real aggregator, sent through one bundled backend under one
// configuration. The payloads of the flush are captured at a local sink, decoded by a strict decoder written for
// this check, and compared as a multiset of records (series name incl. sub-metric suffix, tags, host, value) with
// the multiset computed from a snapshot of the map by the backend's naming table.
package c17

import (
	"context"
	"encoding/json"
	"fmt"
	"io"
	"math"
	"math/rand"
	"sort"
	"strings"
	"testing"
	"time"

	"github.com/sirupsen/logrus"
	"github.com/spf13/viper"

	"github.com/atlassian/gostatsd"
	"github.com/atlassian/gostatsd/pkg/statsd"
	"github.com/atlassian/gostatsd/pkg/transport"

	"verif/mon"
)

const watchdog = 90 * time.Second

// rec is one decoded or expected record.
type rec struct {
	Name   string  // series name including the sub-metric suffix / field
	Tags   string  // canonical form of the tags as the format carries them
	Host   string  // host where the format has a field for it
	Val    float64 // value
	Class  string  // expected side: stable class of the record (counter.count, timer.lower, timer.pct, ...)
	Ser    int     // expected side: index of the series in the snapshot
	AnyVal bool    // decoded side: the value could not be read and that was already reported
	// Forbidden (expected side): a record that must NOT be in the payloads - the summary statistics of a timer
	// that carries a gsd_histogram: tag (it reports buckets only, and nothing when the bucket limit is 0).
	Forbidden bool
}

func (r rec) key() string { return r.Name + "\x00" + r.Tags + "\x00" + r.Host }

func (r rec) String() string {
	return fmt.Sprintf("{name=%q tags=%q host=%q value=%v}", strings.ReplaceAll(r.Name, "\x01", " field="), r.Tags, r.Host, r.Val)
}

// caseRef is the replayable identity of a case, attached to every violation.
type caseRef struct {
	Index   int         `json:"index"`
	Backend string      `json:"backend"`
	Config  interface{} `json:"config,omitempty"`
	// ConfigText is the configuration text the backend was built from (through backends.InitBackend).
	ConfigText string    `json:"config_text,omitempty"`
	Workload   *workload `json:"workload,omitempty"`
}

type env struct {
	r      *mon.Run
	logger logrus.FieldLogger
	sink   *httpSink
	pool   *transport.TransportPool
	lexer  *statsd.VerifLexer
	stdout *stdoutCapture
	cw     *cwMock
}

func newEnv(r *mon.Run) *env {
	l := logrus.New()
	l.SetOutput(io.Discard)
	l.SetLevel(logrus.PanicLevel)
	e := &env{r: r, logger: l, sink: newHTTPSink(), lexer: statsd.VerifNewLexer(0), cw: &cwMock{}}
	e.pool = transport.NewTransportPool(l, viper.New())
	e.stdout = installStdoutCapture()
	return e
}

func (e *env) close() { e.sink.close() }

// send calls SendMetricsAsync and waits for the callback.
func (e *env) send(ctx context.Context, be gostatsd.Backend, mm *gostatsd.MetricMap) (errs []error, ok bool) {
	done := make(chan []error, 8)
	be.SendMetricsAsync(ctx, mm, func(errs []error) {
		select {
		case done <- errs:
		default:
		}
	})
	select {
	case errs = <-done:
	case <-time.After(watchdog):
		return nil, false
	}
	var real []error
	for _, err := range errs {
		if err != nil {
			real = append(real, err)
		}
	}
	return real, true
}

// exactTol: the format prints a shortest round-trip representation (or carries the double itself).
func exactTol(want, got float64) bool { return want == got }

// f6Tol: the format prints %f, six decimals.
func f6Tol(want, got float64) bool {
	if want == got {
		return true
	}
	return math.Abs(want-got) <= 5.0000001e-7+4e-16*math.Abs(want)
}

// relTol: a sum recomputed by the backend in its own order.
func relTol(want, got float64) bool {
	if want == got {
		return true
	}
	return math.Abs(want-got) <= 1e-9*math.Max(math.Abs(want), math.Abs(got))+1e-12
}

// finding is one discrepancy between the decoded and the expected multiset.
type finding struct{ sig, detail string }

// compare is oracle (1): the multiset of decoded records equals the expected multiset.
func (e *env) compare(cs *caseRef, backend string, want, got []rec, tol func(want, got float64) bool) {
	for _, f := range diffRecords(backend, want, got, tol) {
		e.r.Violation(f.sig, f.detail, cs)
	}
}

func diffRecords(backend string, want, got []rec, tol func(want, got float64) bool) (out []finding) {
	report := func(sig, detail string) { out = append(out, finding{sig, detail}) }
	type group struct {
		vals   []float64
		class  string
		anyVal bool
		first  rec
	}
	index := func(rs []rec) (map[string]*group, []string) {
		m := map[string]*group{}
		var order []string
		for _, r := range rs {
			k := r.key()
			g, ok := m[k]
			if !ok {
				g = &group{class: r.Class, first: r}
				m[k] = g
				order = append(order, k)
			}
			g.vals = append(g.vals, r.Val)
			g.anyVal = g.anyVal || r.AnyVal
		}
		return m, order
	}
	var positive, forbidden []rec
	for _, r := range want {
		if r.Forbidden {
			forbidden = append(forbidden, r)
		} else {
			positive = append(positive, r)
		}
	}
	wm, worder := index(positive)
	gm, gorder := index(got)
	// a forbidden record that is present gets its own class (unless another series legitimately owns the key)
	reported := map[string]bool{}
	claimed := map[string]bool{}
	for _, f := range forbidden {
		k := f.key()
		if _, legit := wm[k]; legit {
			continue
		}
		if g, ok := gm[k]; ok {
			claimed[k] = true
			if !reported[f.Class] {
				reported[f.Class] = true
				report(backend+":forbidden:"+f.Class, fmt.Sprintf("payload record %v (value(s) %v) is a summary statistic of a timer that carries a gsd_histogram: tag; such a timer reports bucket records only (nothing with bucket limit 0)", g.first, g.vals))
			}
		}
	}
	var unexpected []rec
	for _, k := range gorder {
		if _, ok := wm[k]; !ok && !claimed[k] {
			unexpected = append(unexpected, gm[k].first)
		}
	}
	hint := func(w rec) string {
		// a record with the same name but other tags / host is the usual reason for a miss
		for _, u := range unexpected {
			if u.Name == w.Name {
				return fmt.Sprintf("; the payloads contain %v instead", u)
			}
		}
		return ""
	}
	for _, k := range worder {
		w := wm[k]
		g, ok := gm[k]
		switch {
		case !ok:
			report(backend+":missing:"+w.class, fmt.Sprintf("expected record %v is in no payload of the flush%s", w.first, hint(w.first)))
			continue
		case len(g.vals) > len(w.vals):
			report(backend+":duplicate:"+w.class, fmt.Sprintf("record %v expected %d time(s), found %d time(s): %v", w.first, len(w.vals), len(g.vals), g.vals))
			continue
		case len(g.vals) < len(w.vals):
			report(backend+":missing:"+w.class, fmt.Sprintf("record %v expected %d time(s) (values %v), found %d time(s): %v", w.first, len(w.vals), w.vals, len(g.vals), g.vals))
			continue
		}
		if g.anyVal {
			continue
		}
		wv := append([]float64(nil), w.vals...)
		gv := append([]float64(nil), g.vals...)
		sort.Float64s(wv)
		sort.Float64s(gv)
		for i := range wv {
			if !tol(wv[i], gv[i]) {
				report(backend+":wrong-value:"+w.class, fmt.Sprintf("record %v carries value(s) %v, the aggregate state says %v", w.first, gv, wv))
				break
			}
		}
	}
	for _, u := range unexpected {
		report(backend+":unexpected-record", fmt.Sprintf("payload record %v corresponds to no (series, enabled sub-metric) of the aggregate state", u))
		break
	}
	return out
}

func batchClass(n int) string {
	switch {
	case n <= 1:
		return fmt.Sprint(n)
	case n == 2:
		return "2"
	case n <= 5:
		return "3-5"
	case n <= 20:
		return "6-20"
	}
	return "21+"
}

// account records coverage of one evaluated (map, backend, configuration).
func (e *env) account(backend, cfgClass string, w *workload, payloads, records int, sample func() interface{}) {
	e.r.Eval(1)
	e.r.Event("payloads:"+backend, payloads)
	e.r.Event("records:"+backend, records)
	mix, hist := w.typeMix()
	extreme := mix&2 != 0 && w.MaskKind != "none" && w.MaskKind != "random"
	if payloads >= 2 || hist || extreme {
		e.r.Nontrivial(fmt.Sprintf("%s|%s|b%s|t%d|h%s|r%d|m%s", backend, cfgClass, batchClass(payloads), mix, w.histClass(), w.Rounds, w.MaskKind))
	}
	if mix&2 != 0 {
		e.r.Event("timer-evals:mask="+w.MaskKind, 1)
	}
	if hist {
		e.r.Event("hist-evals:"+w.histClass(), 1)
	}
	if payloads >= 2 && e.r.WantSample() && sample != nil {
		v := sample()
		if m, ok := v.(map[string]interface{}); ok {
			head := w.Series
			if len(head) > 3 {
				head = head[:3]
			}
			m["first_series"] = head
			m["percentiles"] = w.Percentiles
			m["disabled"] = w.Disabled
		}
		e.r.Sample(v)
	}
}

type backendRun struct {
	name string
	run  func(e *env, cs *caseRef, w *workload, rng *rand.Rand)
}

var backendRuns = []backendRun{
	{"graphite", runGraphite},
	{"influxdb", runInflux},
	{"statsdaemon", runRelay},
	{"datadog", runDatadog},
	{"newrelic", runNewRelic},
	{"otlp", runOTLP},
	{"cloudwatch", runCloudwatch},
	{"stdout", runStdout},
}

func (e *env) runCase(i int, only string) {
	w := newWorkload(e.r.Rand(fmt.Sprintf("case/%d", i)))
	for _, b := range backendRuns {
		if only != "" && only != b.name {
			continue
		}
		if w.EscapeTags && b.name != "influxdb" {
			continue // extended alphabet family, InfluxDB escaping only
		}
		if w.HashCollide && b.name != "otlp" {
			continue
		}
		cs := &caseRef{Index: i, Backend: b.name, Workload: w}
		b.run(e, cs, w, e.r.Rand(fmt.Sprintf("case/%d/%s", i, b.name)))
	}
}

func setDisabled(v *cfg, d gostatsd.TimerSubtypes) {
	set := func(k string, b bool) {
		if b {
			v.Set("disabled-sub-metrics."+k, true)
		}
	}
	set("lower", d.Lower)
	set("lower-pct", d.LowerPct)
	set("upper", d.Upper)
	set("upper-pct", d.UpperPct)
	set("count", d.Count)
	set("count-pct", d.CountPct)
	set("count-per-second", d.CountPerSecond)
	set("mean", d.Mean)
	set("mean-pct", d.MeanPct)
	set("median", d.Median)
	set("stddev", d.StdDev)
	set("sum", d.Sum)
	set("sum-pct", d.SumPct)
	set("sum-squares", d.SumSquares)
	set("sum-squares-pct", d.SumSquaresPct)
}

// subm is one sub-metric of a timer in the naming scheme shared by graphite, datadog, cloudwatch, stdout and otlp.
type subm struct {
	Suffix string
	Val    float64
	Class  string
}

func stdTimerSubs(s *series, d gostatsd.TimerSubtypes) []subm {
	var out []subm
	add := func(disabled bool, suffix string, v float64) {
		if !disabled {
			out = append(out, subm{suffix, v, "timer." + suffix})
		}
	}
	add(d.Lower, "lower", s.Min)
	add(d.Upper, "upper", s.Max)
	add(d.Count, "count", float64(s.Count))
	add(d.CountPerSecond, "count_ps", s.PerSecond)
	add(d.Mean, "mean", s.Mean)
	add(d.Median, "median", s.Median)
	add(d.StdDev, "std", s.StdDev)
	add(d.Sum, "sum", s.Sum)
	add(d.SumSquares, "sum_squares", s.SumSquares)
	for _, p := range s.Pcts {
		out = append(out, subm{p.Str, p.Float, "timer.pct"})
	}
	return out
}

// allTimerSubs names every summary statistic a backend of the standard naming scheme could print for a timer.
func allTimerSubs() []string {
	return []string{"lower", "upper", "count", "count_ps", "mean", "median", "std", "sum", "sum_squares"}
}

// gsdClass is the class of a forbidden summary statistic of a gsd_histogram timer; the bucket-limit-0 case (the
// timer reports nothing at all) has its own class.
func gsdClass(s *series) string {
	if len(s.histF) == 0 {
		return "timer.gsdhist-limit0-summary"
	}
	return "timer.gsdhist-summary"
}

// leTag is the bucket tag of a histogram timer as graphite, datadog, cloudwatch and stdout spell it.
func leTag(bound float64) string { return "le:" + fmtBound(bound) }

func sortedBounds(s *series) []float64 {
	out := make([]float64, 0, len(s.histF))
	for b := range s.histF {
		out = append(out, b)
	}
	sort.Float64s(out)
	return out
}

func TestCheck(t *testing.T) {
	r := mon.Start(t, "C17")
	defer r.Finish()
	r.Rule("case = (aggregate state, backend, configuration). States come from the real MetricMap.Receive + MetricAggregator (1 or 2 flush rounds, so idle series occur): 1..60 series over a small pool of names [A-Za-z0-9_.-] and tags [A-Za-z0-9_.:/-] (several tag sets per name, duplicate keys, host: tags, numeric looking values), sources present/absent, all four types, histogram timers (gsd_histogram:...), percentile lists {}, {90}, {50,99}, {95,-10}, {99.9}, sub-metric masks (none, independent coin flips, and the extreme ones: everything off, all nine plain aggregations off with all / some percentile-derived ones on, all percentile-derived off, exactly one on, exactly one off), timer-histogram-limit 0/1/2/default/3/5 with gsd_histogram timers expected from the tag (buckets only, nothing at limit 0), values with <= 6 decimals; rare families: a name longer than a datagram, tags with an empty key or value, an InfluxDB-only extended alphabet (space, comma, equals in tags) that exercises the escaping named in the property's anchors, an OTLP resource-key collision family. Every state is sent through graphite (legacy/basic/tags, prefixes, suffix), influxdb (v1/v2, gzip on/off, batch 1..50/default), statsdaemon (udp/tcp, tags on/off, metrics and events), datadog (deflate on/off, batch sizes), newrelic (infra/insights/metrics, renamed fields, tag prefix), otlp (AsGauge/AsHistogram, gzip on/off, resource keys, batch sizes), cloudwatch and stdout, each built from configuration text (toml/yaml/json of the documented keys -> viper.ReadConfig -> backends.InitBackend) and pointed at a local sink. Non-trivial: the flush spans >= 2 payloads or the state holds a histogram timer; or a timer meets an extreme mask; distinct by (backend, configuration class, payload-count class, type mix, histogram limit/data/idle class, rounds, mask kind).")
	r.Assume("the strict decoders of this check (Graphite plaintext+tags, InfluxDB line protocol, Datadog/New Relic JSON via encoding/json, OTLP via the generated protobuf types, CloudWatch input structs) define 'syntactically valid'")
	r.Assume("strconv.ParseFloat/FormatFloat, compress/gzip, compress/zlib, encoding/json and google.golang.org/protobuf are correct")
	r.Assume("socket based backends are observed through the verif-tagged VerifSetConnFactory hook: one recorded Write = one datagram / stream segment; CloudWatch through VerifNewClient with a recording API mock")
	e := newEnv(r)
	defer e.close()

	if p := r.ReplayPayload(); p != nil {
		cs, ok := mon.ReplayCase(p, &caseRef{}).(*caseRef)
		if !ok || cs == nil {
			t.Skip("no case in replay file")
		}
		e.runCase(cs.Index, cs.Backend)
		r.Nontrivial("replay-a")
		r.Nontrivial("replay-b")
		return
	}

	n := r.N(3600, 160000)
	for i := 0; i < n; i++ {
		e.runCase(i, "")
	}
}

func jsonString(v interface{}) string {
	b, _ := json.Marshal(v)
	return string(b)
}

func excerpt(b []byte, n int) string {
	if len(b) > n {
		return string(b[:n]) + "…"
	}
	return string(b)
}
