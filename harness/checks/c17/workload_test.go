//go:build verif

package c17

import (
	"math"
	"math/rand"
	"sort"
	"strconv"
	"strings"
	"time"

	"github.com/atlassian/gostatsd"
	"github.com/atlassian/gostatsd/pkg/statsd"

	"verif/gen"
)

// pctVal is one percentile aggregation of a flushed timer.
type pctVal struct {
	Str   string  `json:"str"`
	Float float64 `json:"float"`
}

// series is the harness' snapshot of one series of the flushed map: everything a backend may read.
// It is taken before any backend sees the map, so a backend that scribbles on the map cannot move the oracle.
type series struct {
	Type   int      `json:"type"` // 1 counter 2 timer 3 gauge 4 set
	Name   string   `json:"name"`
	Tags   []string `json:"tags"` // in the order the map holds them
	Source string   `json:"source"`

	Counter   int64   `json:"counter,omitempty"`
	PerSecond float64 `json:"per_second,omitempty"`
	Gauge     float64 `json:"gauge,omitempty"`

	Members []string `json:"members,omitempty"`

	Values       []float64 `json:"values,omitempty"` // in map order
	Count        int       `json:"count,omitempty"`
	SampledCount float64   `json:"sampled_count,omitempty"`
	Mean         float64   `json:"mean,omitempty"`
	Median       float64   `json:"median,omitempty"`
	Min          float64   `json:"min,omitempty"`
	Max          float64   `json:"max,omitempty"`
	StdDev       float64   `json:"std_dev,omitempty"`
	Sum          float64   `json:"sum,omitempty"`
	SumSquares   float64   `json:"sum_squares,omitempty"`
	Pcts         []pctVal  `json:"pcts,omitempty"`
	// IsHist / Hist / histF are the STATEMENT's view of a histogram timer, computed by histModel from the
	// gsd_histogram: tag, the values and the configured bucket limit - never from the flushed struct.
	IsHist bool            `json:"is_hist,omitempty"`
	Hist   map[string]int  `json:"hist,omitempty"` // threshold (formatted 'f', "+Inf") -> cumulative count
	histF  map[float64]int // same, keyed by the float
	// RealHistNil / RealHist are what the real aggregator left in Timer.Histogram; only buildMap reads them, so
	// that the backends see the flushed struct exactly as it is.
	RealHistNil bool           `json:"real_hist_nil,omitempty"`
	RealHist    map[string]int `json:"real_hist,omitempty"`
	realHistF   map[float64]int
	Timestamp   int64  `json:"-"`
	TagsKey     string `json:"-"`
}

func fmtBound(b float64) string {
	if math.IsInf(b, 1) {
		return "+Inf"
	}
	return strconv.FormatFloat(b, 'f', -1, 64)
}

// histModel is the statement about histogram timers: a timer carrying a gsd_histogram:<t1>_<t2>_... tag reports
// per-bucket cumulative counts only - the first `limit` parsable thresholds plus +Inf, count(bucket) = number of
// values <= threshold - and nothing at all when the limit is 0.
func histModel(s *series, limit uint32) {
	const prefix = "gsd_histogram:"
	tag := ""
	for _, t := range s.Tags {
		if strings.HasPrefix(t, prefix) {
			tag = t
			break
		}
	}
	if tag == "" {
		return
	}
	s.IsHist = true
	s.Hist = map[string]int{}
	s.histF = map[float64]int{}
	if limit == 0 {
		return
	}
	var bounds []float64
	for _, f := range strings.Split(tag[len(prefix):], "_") {
		if b, err := strconv.ParseFloat(f, 64); err == nil && uint32(len(bounds)) < limit {
			bounds = append(bounds, b)
		}
	}
	bounds = append(bounds, math.Inf(1))
	for _, b := range bounds {
		n := 0
		for _, v := range s.Values {
			if v <= b {
				n++
			}
		}
		s.Hist[fmtBound(b)] = n
		s.histF[b] = n
	}
}

// snapshot flattens a flushed map, ordered deterministically.
func snapshot(mm *gostatsd.MetricMap, histLimit uint32) []*series {
	var out []*series
	mm.Counters.Each(func(name, tk string, c gostatsd.Counter) {
		out = append(out, &series{Type: 1, Name: name, Tags: append([]string(nil), c.Tags...), Source: string(c.Source), Counter: c.Value, PerSecond: c.PerSecond, Timestamp: int64(c.Timestamp), TagsKey: tk})
	})
	mm.Timers.Each(func(name, tk string, t gostatsd.Timer) {
		s := &series{Type: 2, Name: name, Tags: append([]string(nil), t.Tags...), Source: string(t.Source), Values: append([]float64(nil), t.Values...),
			Count: t.Count, SampledCount: t.SampledCount, PerSecond: t.PerSecond, Mean: t.Mean, Median: t.Median, Min: t.Min, Max: t.Max, StdDev: t.StdDev, Sum: t.Sum, SumSquares: t.SumSquares,
			Timestamp: int64(t.Timestamp), TagsKey: tk}
		for _, p := range t.Percentiles {
			s.Pcts = append(s.Pcts, pctVal{Str: p.Str, Float: p.Float})
		}
		s.RealHistNil = t.Histogram == nil
		if t.Histogram != nil {
			s.RealHist = map[string]int{}
			s.realHistF = map[float64]int{}
			for b, n := range t.Histogram {
				s.RealHist[fmtBound(float64(b))] = n
				s.realHistF[float64(b)] = n
			}
		}
		histModel(s, histLimit)
		out = append(out, s)
	})
	mm.Gauges.Each(func(name, tk string, g gostatsd.Gauge) {
		out = append(out, &series{Type: 3, Name: name, Tags: append([]string(nil), g.Tags...), Source: string(g.Source), Gauge: g.Value, Timestamp: int64(g.Timestamp), TagsKey: tk})
	})
	mm.Sets.Each(func(name, tk string, st gostatsd.Set) {
		s := &series{Type: 4, Name: name, Tags: append([]string(nil), st.Tags...), Source: string(st.Source), Timestamp: int64(st.Timestamp), TagsKey: tk}
		for m := range st.Values {
			s.Members = append(s.Members, m)
		}
		sort.Strings(s.Members)
		out = append(out, s)
	})
	sort.Slice(out, func(i, j int) bool {
		a, b := out[i], out[j]
		if a.Type != b.Type {
			return a.Type < b.Type
		}
		if a.Name != b.Name {
			return a.Name < b.Name
		}
		return a.TagsKey < b.TagsKey
	})
	return out
}

// buildMap makes a private deep copy of the snapshot as a MetricMap, one per backend under test.
func buildMap(ss []*series) *gostatsd.MetricMap {
	mm := gostatsd.NewMetricMap(false)
	for _, s := range ss {
		tags := append(gostatsd.Tags(nil), s.Tags...)
		switch s.Type {
		case 1:
			if mm.Counters[s.Name] == nil {
				mm.Counters[s.Name] = map[string]gostatsd.Counter{}
			}
			mm.Counters[s.Name][s.TagsKey] = gostatsd.Counter{PerSecond: s.PerSecond, Value: s.Counter, Timestamp: gostatsd.Nanotime(s.Timestamp), Source: gostatsd.Source(s.Source), Tags: tags}
		case 2:
			t := gostatsd.Timer{Count: s.Count, SampledCount: s.SampledCount, PerSecond: s.PerSecond, Mean: s.Mean, Median: s.Median, Min: s.Min, Max: s.Max, StdDev: s.StdDev, Sum: s.Sum, SumSquares: s.SumSquares,
				Values: append([]float64(nil), s.Values...), Timestamp: gostatsd.Nanotime(s.Timestamp), Source: gostatsd.Source(s.Source), Tags: tags}
			for _, p := range s.Pcts {
				t.Percentiles = append(t.Percentiles, gostatsd.Percentile{Float: p.Float, Str: p.Str})
			}
			if !s.RealHistNil {
				t.Histogram = map[gostatsd.HistogramThreshold]int{}
				for b, n := range s.realHistF {
					t.Histogram[gostatsd.HistogramThreshold(b)] = n
				}
			}
			if mm.Timers[s.Name] == nil {
				mm.Timers[s.Name] = map[string]gostatsd.Timer{}
			}
			mm.Timers[s.Name][s.TagsKey] = t
		case 3:
			if mm.Gauges[s.Name] == nil {
				mm.Gauges[s.Name] = map[string]gostatsd.Gauge{}
			}
			mm.Gauges[s.Name][s.TagsKey] = gostatsd.Gauge{Value: s.Gauge, Timestamp: gostatsd.Nanotime(s.Timestamp), Source: gostatsd.Source(s.Source), Tags: tags}
		case 4:
			vals := map[string]struct{}{}
			for _, m := range s.Members {
				vals[m] = struct{}{}
			}
			if mm.Sets[s.Name] == nil {
				mm.Sets[s.Name] = map[string]gostatsd.Set{}
			}
			mm.Sets[s.Name][s.TagsKey] = gostatsd.Set{Values: vals, Timestamp: gostatsd.Nanotime(s.Timestamp), Source: gostatsd.Source(s.Source), Tags: tags}
		}
	}
	return mm
}

// workload is one generated aggregate state plus the knobs that produced it.
type workload struct {
	Percentiles []float64              `json:"percentiles"`
	Disabled    gostatsd.TimerSubtypes `json:"disabled"`
	MaskKind    string                 `json:"mask_kind"`
	HistLimit   uint32                 `json:"hist_limit"`
	Rounds      int                    `json:"rounds"`
	IntervalS   float64                `json:"interval_s"`
	EdgeTags    bool                   `json:"edge_tags"`    // tags with an empty key or an empty value are present
	EscapeTags  bool                   `json:"escape_tags"`  // InfluxDB-only family: tags containing space, comma, equals
	GiantName   bool                   `json:"giant_name"`   // one name longer than a UDP datagram
	HashCollide bool                   `json:"hash_collide"` // two series whose OTLP resource tags concatenate to the same bytes
	Series      []*series              `json:"series"`
}

// reserved attribute names of the New Relic payloads: a tag with such a key would overwrite a field of the
// payload (the backend keeps tags and fields in one JSON object). Not generated; see "not asserted".
var reservedKeys = map[string]bool{
	"name": true, "type": true, "value": true, "timestamp": true, "interval": true, "integration_version": true, "event_type": true, "eventType": true,
	"per_second": true, "min": true, "max": true, "count": true, "mean": true, "median": true, "std_dev": true, "sum": true, "sum_squares": true,
	"statsdType": true, "statsdSource": true, "percentile": true, "s": true, "le": true, "unnamed": true, "unknown": true, "gsd_histogram": true, "host": true,
	"m_name": true, "m_type": true, "m_value": true, "m_ps": true, "t_min": true, "t_max": true, "t_count": true, "t_mean": true, "t_median": true, "t_std": true, "t_sum": true, "t_sumsq": true,
}

func tagKey(t string) string {
	if i := strings.IndexByte(t, ':'); i >= 0 {
		return t[:i]
	}
	return t
}

func isPctName(k string) bool {
	for _, p := range []string{"count_", "mean_", "sum_", "sum_squares_", "upper_", "lower_"} {
		if strings.HasPrefix(k, p) {
			return true
		}
	}
	return false
}

// plainTag draws a tag from [A-Za-z0-9_.:/-] whose key is non-empty, whose value (if any) is non-empty and whose
// key does not collide with a payload field name.
func plainTag(rng *rand.Rand) string {
	for {
		t := gen.Tag(rng, gen.LineOpts{Plain: true})
		k := tagKey(t)
		if k == "" || reservedKeys[k] || isPctName(k) || strings.IndexByte(t, ':') == len(t)-1 {
			continue
		}
		return t
	}
}

const nameChars = "abcdefghijklmnopqrstuvwxyzABCDEFGHIJKLMNOPQRSTUVWXYZ0123456789._-"
const memberChars = "abcdefghijklmnopqrstuvwxyzABCDEFGHIJKLMNOPQRSTUVWXYZ0123456789_.:/-"

func plainName(rng *rand.Rand, n int) string {
	b := make([]byte, n)
	for i := range b {
		b[i] = nameChars[rng.Intn(len(nameChars))]
		if i == 0 && (b[i] == '_' || b[i] == '.' || b[i] == '-') {
			b[i] = 'n'
		}
	}
	s := string(b)
	if strings.HasPrefix(s, "statsd.") {
		s = "x" + s[1:]
	}
	return s
}

func member(rng *rand.Rand) string {
	n := 1 + rng.Intn(10)
	b := make([]byte, n)
	for i := range b {
		b[i] = memberChars[rng.Intn(len(memberChars))]
	}
	return string(b)
}

// sixDecimals returns a finite value with at most six decimals that is the nearest double to its decimal text.
func sixDecimals(rng *rand.Rand) float64 {
	switch rng.Intn(8) {
	case 0:
		return 0
	case 1:
		return float64(rng.Intn(2001) - 1000)
	case 2:
		return float64(rng.Int63n(2_000_000_000_001)-1_000_000_000_000) / 1e6
	case 3:
		return float64(rng.Intn(2_000_001)-1_000_000) / 1e6 // |v| <= 1
	default:
		return float64(rng.Intn(200_000_001)-100_000_000) / 1e3
	}
}

var sources = []string{"", "", "10.0.0.1", "10.0.0.2", "host-a", "ns/pod-1", "i-0abc"}
var histTags = []string{"gsd_histogram:1_5_10", "gsd_histogram:0.5_2.5_100_1000", "gsd_histogram:-1_0_250.75", "gsd_histogram:10", "gsd_histogram:-1000_-10_0_10_1000_100000"}
var pctLists = [][]float64{nil, {90}, {50, 99}, {95, -10}, {99.9}}

// maskFromBits: bit i set = sub-metric i disabled; bits 0..8 are the nine plain aggregations, 9..14 the
// percentile-derived ones.
func maskFromBits(b uint) gostatsd.TimerSubtypes {
	on := func(i uint) bool { return b&(1<<i) != 0 }
	return gostatsd.TimerSubtypes{Lower: on(0), Upper: on(1), Count: on(2), CountPerSecond: on(3), Mean: on(4), Median: on(5), StdDev: on(6), Sum: on(7), SumSquares: on(8),
		LowerPct: on(9), UpperPct: on(10), CountPct: on(11), MeanPct: on(12), SumPct: on(13), SumSquaresPct: on(14)}
}

const (
	plainBits = uint(0x1ff)
	pctBits   = uint(0x3f) << 9
	allBits   = plainBits | pctBits
)

// randomMask draws a disabled-sub-metrics mask and names its kind. Next to no mask and independent coin flips it
// produces the extreme masks: everything off, every plain aggregation off with the percentile-derived ones on
// (all or some of them), every percentile-derived one off, exactly one sub-metric on, exactly one off.
func randomMask(rng *rand.Rand) (gostatsd.TimerSubtypes, string) {
	switch k := rng.Intn(20); {
	case k < 5:
		return maskFromBits(0), "none"
	case k < 7:
		return maskFromBits(allBits), "all-off"
	case k < 10:
		return maskFromBits(plainBits), "plain-off/pct-on"
	case k < 12:
		// plain off, a non-empty proper subset of the percentile-derived ones on
		sub := uint(1+rng.Intn(62)) << 9
		return maskFromBits(plainBits | sub), "plain-off/some-pct-on"
	case k < 13:
		return maskFromBits(pctBits), "pct-off"
	case k < 15:
		i := uint(rng.Intn(15))
		kind := "one-plain-on"
		if i >= 9 {
			kind = "one-pct-on"
		}
		return maskFromBits(allBits &^ (1 << i)), kind
	case k < 16:
		return maskFromBits(1 << uint(rng.Intn(15))), "one-off"
	}
	p := []int{4, 2}[rng.Intn(2)]
	var b uint
	for i := uint(0); i < 15; i++ {
		if rng.Intn(p) == 0 {
			b |= 1 << i
		}
	}
	return maskFromBits(b), "random"
}

type dpoint struct {
	typ    int
	name   string
	tags   []string
	source string
	value  float64
	str    string
	rate   float64
	ts     int64
}

func (d dpoint) metric() *gostatsd.Metric {
	return &gostatsd.Metric{Name: d.name, Type: gostatsd.MetricType(d.typ), Value: d.value, StringValue: d.str, Rate: d.rate,
		Tags: append(gostatsd.Tags(nil), d.tags...), Source: gostatsd.Source(d.source), Timestamp: gostatsd.Nanotime(d.ts)}
}

// newWorkload generates datapoints, pushes them through the real MetricMap.Receive / MetricAggregator and snapshots
// the flushed map.
func newWorkload(rng *rand.Rand) *workload {
	w := &workload{Percentiles: pctLists[rng.Intn(len(pctLists))], Rounds: 1}
	w.Disabled, w.MaskKind = randomMask(rng)
	if strings.Contains(w.MaskKind, "pct-on") && len(w.Percentiles) == 0 {
		// a mask that leaves only percentile-derived sub-metrics needs percentiles to say something
		w.Percentiles = pctLists[1+rng.Intn(len(pctLists)-1)]
	}
	// bucket limit: 0, 1, 2, the default (MaxUint32) and a few in between
	w.HistLimit = []uint32{0, 0, 1, 1, 2, 2, math.MaxUint32, math.MaxUint32, 3, 5}[rng.Intn(10)]
	w.IntervalS = []float64{1, 10, 0.5, 60}[rng.Intn(4)]
	if rng.Intn(4) == 0 {
		w.Rounds = 2
	}
	switch k := rng.Intn(40); {
	case k == 0:
		w.EdgeTags = true
	case k == 1 || k == 2:
		w.EscapeTags = true
	case k == 3:
		w.HashCollide = true
	}
	w.GiantName = rng.Intn(60) == 0

	// pools: a few names and tags shared by many series so that one name carries several tag sets
	nNames := 1 + rng.Intn(5)
	names := make([]string, nNames)
	for i := range names {
		n := 1 + rng.Intn(14)
		if rng.Intn(15) == 0 {
			n = 40 + rng.Intn(160)
		}
		names[i] = plainName(rng, n)
	}
	if w.GiantName {
		names[0] = plainName(rng, 1480+rng.Intn(300))
	}
	nTags := 2 + rng.Intn(7)
	tags := make([]string, 0, nTags+4)
	for i := 0; i < nTags; i++ {
		tags = append(tags, plainTag(rng))
	}
	// duplicate keys with different values, a host: tag and numeric looking values are part of the pool
	if rng.Intn(2) == 0 {
		k := tagKey(tags[0])
		tags = append(tags, k+":"+member(rng)+"z", k+":"+member(rng)+"y")
	}
	if rng.Intn(3) == 0 {
		tags = append(tags, "host:tagged-"+plainName(rng, 3))
	}
	if rng.Intn(3) == 0 {
		tags = append(tags, "ver:"+[]string{"1", "1.0", "2e3", "0x10", "-7.25", "1_0", "007"}[rng.Intn(7)])
	}
	if rng.Intn(4) == 0 {
		tags = append(tags, "svc:web", "zone:a/1")
	}
	edgeTag := ""
	if w.EdgeTags {
		edgeTag = []string{":" + plainName(rng, 3), plainName(rng, 3) + ":", ":"}[rng.Intn(3)]
		tags = append(tags, edgeTag)
	}
	if w.EscapeTags {
		tags = append(tags, "k e y:v a l", "eq=k:v=w", "co,mma:x,y", "bare tag=x")
	}
	if w.HashCollide {
		// resource keys "svc" and "svcx" (see otlp configs): "svc:x1" and "svcx:1" concatenate to the same bytes
		tags = []string{"svc:x1", "svcx:1", "other:t"}
	}

	nSeries := 1 + rng.Intn(12)
	switch rng.Intn(6) {
	case 0:
		nSeries = 1 + rng.Intn(3)
	case 1:
		nSeries = 20 + rng.Intn(40)
	}
	types := [][]int{{1, 2, 3, 4}, {1, 2, 3, 4}, {1, 2, 3, 4}, {2}, {1}, {3, 4}, {1, 3}}[rng.Intn(7)]

	type skey struct {
		typ  int
		name string
		tk   string
	}
	var dps [][]dpoint // per round
	dps = make([][]dpoint, w.Rounds)
	mk := func(round int) {
		for i := 0; i < nSeries; i++ {
			var d dpoint
			d.typ = types[rng.Intn(len(types))]
			d.name = names[rng.Intn(len(names))]
			nt := rng.Intn(5)
			if rng.Intn(4) == 0 {
				nt = 0
			}
			if w.HashCollide {
				nt = 1
			}
			for j := 0; j < nt; j++ {
				d.tags = append(d.tags, tags[rng.Intn(len(tags))])
			}
			if edgeTag != "" && round == 0 && i == 0 {
				d.tags = append(d.tags, edgeTag) // the family always carries its tag on at least one series
			}
			if d.typ == 2 && rng.Intn(3) == 0 {
				d.tags = append(d.tags, histTags[rng.Intn(len(histTags))])
			}
			d.source = sources[rng.Intn(len(sources))]
			d.ts = int64(1 + rng.Intn(5))
			d.rate = 1
			reps := 1
			switch d.typ {
			case 1:
				d.rate = []float64{1, 1, 0.5, 0.1, 0.25}[rng.Intn(5)]
				d.value = float64(rng.Intn(2_000_001) - 1_000_000)
				if rng.Intn(5) == 0 {
					d.value = float64(rng.Intn(21) - 10)
				}
			case 2:
				d.rate = []float64{1, 1, 0.5, 0.1}[rng.Intn(4)]
				reps = 1 + rng.Intn(8)
			case 3:
				d.value = sixDecimals(rng)
			case 4:
				reps = 1 + rng.Intn(4)
			}
			for k := 0; k < reps; k++ {
				dd := d
				dd.tags = append([]string(nil), d.tags...)
				if d.typ == 2 {
					dd.value = sixDecimals(rng)
				}
				if d.typ == 4 {
					dd.str = member(rng)
				}
				dps[round] = append(dps[round], dd)
			}
		}
	}
	for round := 0; round < w.Rounds; round++ {
		mk(round)
		if round == 1 {
			// the second round touches only some of the series: the others stay in the aggregator as idle series
			if len(dps[1]) > 2 {
				dps[1] = dps[1][:len(dps[1])/2]
			}
		}
	}

	agg := statsd.NewMetricAggregator(w.Percentiles, 0, 0, 0, 0, w.Disabled, w.HistLimit)
	interval := time.Duration(w.IntervalS * float64(time.Second))
	for round := 0; round < w.Rounds; round++ {
		mm := gostatsd.NewMetricMap(false)
		for _, d := range dps[round] {
			mm.Receive(d.metric())
		}
		agg.ReceiveMap(mm)
		agg.Flush(interval)
		if round+1 < w.Rounds {
			agg.Reset()
		}
	}
	agg.Process(func(mm *gostatsd.MetricMap) {
		w.Series = snapshot(mm, w.HistLimit)
	})
	return w
}

// typeMix is a bitmask of the series types present, plus flags for histogram timers and idle timers.
func (w *workload) typeMix() (mix int, hist bool) {
	for _, s := range w.Series {
		mix |= 1 << uint(s.Type-1)
		if s.IsHist {
			hist = true
		}
	}
	return
}

// histClass describes the histogram side of the state for coverage accounting: bucket limit class, and whether a
// histogram timer with data / an idle one is present.
func (w *workload) histClass() string {
	data, idle := false, false
	for _, s := range w.Series {
		if s.IsHist {
			if len(s.Values) > 0 {
				data = true
			} else {
				idle = true
			}
		}
	}
	if !data && !idle {
		return "-"
	}
	l := "n"
	switch w.HistLimit {
	case 0, 1, 2:
		l = strconv.Itoa(int(w.HistLimit))
	case math.MaxUint32:
		l = "def"
	}
	d, i := 0, 0
	if data {
		d = 1
	}
	if idle {
		i = 1
	}
	return "L" + l + "/d" + strconv.Itoa(d) + "/i" + strconv.Itoa(i)
}
