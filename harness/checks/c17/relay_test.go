//go:build verif

package c17

import (
	"bytes"
	"context"
	"fmt"
	"math/rand"
	"sort"
	"strings"

	"github.com/atlassian/gostatsd"
	"github.com/atlassian/gostatsd/pkg/backends/statsdaemon"

	"verif/gen"
	"verif/ref"
)

type relayCfg struct {
	TCP         bool `json:"tcp"`
	DisableTags bool `json:"disable_tags"`
}

const udpPacketSize = 1472 // the relay's UDP datagram size (not configurable)

var typeNames = map[byte]string{'1': "counter", '2': "timer", '3': "gauge", '4': "set"}

// relayExpected is the reference aggregate the relay's lines have to fold back to: the same series names and
// tags, the source as an extra s: tag, counter totals, timer values, gauge values, set members.
func relayExpected(w *workload, c relayCfg) (*ref.Folded, map[string][]float64) {
	f := ref.NewFolded()
	gauges := map[string][]float64{}
	for _, s := range w.Series {
		var tags []string
		if !c.DisableTags {
			tags = append(tags, s.Tags...)
			if s.Source != "" {
				tags = append(tags, "s:"+s.Source)
			}
		}
		sort.Strings(tags)
		rs := &ref.Series{Type: s.Type, Name: s.Name, Tags: tags, TagsKey: ref.TagsKey(tags, "")}
		switch s.Type {
		case 1:
			if strings.HasPrefix(s.Name, "statsd.") {
				continue
			}
			rs.Counter = s.Counter
		case 2:
			if len(s.Values) == 0 {
				continue // nothing to relay for an idle timer
			}
			rs.Values = append([]float64(nil), s.Values...)
			ref.SortFloats(rs.Values)
			rs.SampledCount = float64(len(s.Values))
		case 3:
			rs.Gauge = s.Gauge
			k := ref.Key(3, s.Name, rs.TagsKey)
			gauges[k] = append(gauges[k], s.Gauge)
		case 4:
			if len(s.Members) == 0 {
				continue
			}
			rs.Members = append([]string(nil), s.Members...)
		}
		f.AddSeries(rs)
	}
	return f, gauges
}

func runRelay(e *env, cs *caseRef, w *workload, rng *rand.Rand) {
	c := relayCfg{TCP: rng.Intn(3) == 0, DisableTags: rng.Intn(4) == 0}
	cs.Config = c
	v := newCfg()
	v.Set("statsdaemon.address", "127.0.0.1:8125")
	if c.TCP {
		v.Set("statsdaemon.tcp_transport", true)
	}
	if c.DisableTags {
		v.Set("statsdaemon.disable_tags", true)
	}
	be, err := e.initBackend(cs, "statsdaemon", v, rng)
	if err != nil {
		e.r.Inconclusive("statsdaemon:factory-error")
		return
	}
	client := be.(*statsdaemon.Client)
	recd := &connRecorder{}
	client.VerifSetConnFactory(recd.factory)
	ctx, cancel := context.WithCancel(context.Background())
	defer cancel()
	go client.Run(ctx)

	want, wantGauges := relayExpected(w, c)
	mm := buildMap(w.Series)
	e.r.Case("statsdaemon case=%d cfg=%s series=%d", cs.Index, jsonString(c), len(w.Series))
	errs, ok := e.send(ctx, be, mm)
	if !ok {
		e.r.Inconclusive("statsdaemon:no-callback")
		return
	}
	if len(errs) > 0 {
		e.r.Inconclusive("statsdaemon:send-error")
		return
	}
	writes := recd.take()

	// units to parse: every datagram on its own for UDP, the whole stream for TCP
	units := writes
	if c.TCP {
		var stream []byte
		for _, wr := range writes {
			stream = append(stream, wr...)
		}
		units = [][]byte{stream}
		if len(stream) == 0 {
			units = nil
		}
	}
	got := ref.NewFolded()
	gotGauges := map[string][]float64{}
	lines := 0
	malformed := false
	for _, u := range units {
		if len(u) == 0 {
			// an empty Write (the overflow handler fired on an empty buffer): no line, nothing to parse
			e.r.Event("empty-datagrams:statsdaemon", 1)
			continue
		}
		if u[len(u)-1] != '\n' {
			e.r.Violation("statsdaemon:malformed:line-split-across-datagrams", fmt.Sprintf("a datagram / the stream does not end in a newline: %q", excerpt(u, 300)), cs)
			malformed = true
			continue
		}
		ls := bytes.Split(u[:len(u)-1], []byte{'\n'})
		// hard limit (2): a UDP datagram stays within the packet size unless it is a single line
		if !c.TCP && len(u) > udpPacketSize && len(ls) > 1 {
			e.r.Violation("statsdaemon:datagram-over-packet-size", fmt.Sprintf("a datagram of %d bytes holds %d lines; the packet size is %d", len(u), len(ls), udpPacketSize), cs)
		}
		for _, l := range ls {
			lines++
			m, ev, err := e.lexer.Run(append([]byte(nil), l...), "")
			if err != nil || m == nil || ev != nil {
				e.r.Violation("statsdaemon:malformed:line-rejected-by-lexer", fmt.Sprintf("gostatsd's own lexer rejects relayed line %q: %v", l, err), cs)
				malformed = true
				continue
			}
			d := ref.Datapoint{Type: int(m.Type), Name: m.Name, Tags: append([]string(nil), m.Tags...), Source: string(m.Source), Value: m.Value, Str: m.StringValue, Rate: m.Rate}
			if m.Type == gostatsd.GAUGE {
				k := ref.Key(3, m.Name, ref.TagsKey(d.Tags, d.Source))
				gotGauges[k] = append(gotGauges[k], m.Value)
			}
			got.AddDatapoint(d)
			m.Done()
		}
	}
	if !malformed {
		diffs := ref.Diff(got.Series, want.Series, ref.DiffOpts{IgnoreTimestamp: true, IgnoreGauge: true})
		for _, d := range diffs {
			e.r.Violation("statsdaemon:roundtrip:"+relayDiffClass(d), "relayed lines do not fold back to the aggregate state: "+d, cs)
		}
		for k, wv := range wantGauges {
			gv := append([]float64(nil), gotGauges[k]...)
			wv = append([]float64(nil), wv...)
			sort.Float64s(gv)
			sort.Float64s(wv)
			if fmt.Sprint(gv) != fmt.Sprint(wv) {
				e.r.Violation("statsdaemon:roundtrip:gauge-values", fmt.Sprintf("gauge %q relayed with value(s) %v, the aggregate state says %v", k, gv, wv), cs)
			}
		}
	}
	over := 0
	for _, u := range units {
		if len(u) > udpPacketSize {
			over++
		}
	}
	if over > 0 && !c.TCP {
		e.r.Event("single-line-datagrams-over-packet-size:statsdaemon", over)
	}
	cls := fmt.Sprintf("tcp=%v/tags=%v/giant=%v", c.TCP, !c.DisableTags, over > 0)
	e.account("statsdaemon", cls, w, len(writes), lines, func() interface{} {
		first := ""
		if len(writes) > 0 {
			first = excerpt(writes[0], 300)
		}
		return map[string]interface{}{"backend": "statsdaemon", "config": c, "series": len(w.Series), "datagrams": len(writes), "lines": lines, "first_datagram": first}
	})

	// events: what SendEvent writes parses back to the same event fields
	nEvents := 1 + rng.Intn(2)
	for i := 0; i < nEvents; i++ {
		o := gen.LineOpts{Plain: true}
		if rng.Intn(2) == 0 {
			o = gen.LineOpts{UTF8Only: true}
		}
		d := gen.Event(rng, o)
		ev := &gostatsd.Event{Title: d.Title, Text: d.Text, DateHappened: d.DateHappened, AggregationKey: d.AggregationKey, SourceTypeName: d.SourceTypeName,
			Tags: append(gostatsd.Tags(nil), d.Tags...), Source: gostatsd.Source(d.Hostname), Priority: gostatsd.Priority(d.Priority), AlertType: gostatsd.AlertType(d.AlertType)}
		ecs := &caseRef{Index: cs.Index, Backend: "statsdaemon", Config: map[string]interface{}{"relay": c, "event": ev}}
		e.r.Case("statsdaemon event case=%d %q", cs.Index, d.Line)
		if err := be.SendEvent(ctx, ev); err != nil {
			e.r.Inconclusive("statsdaemon:send-event-error")
			continue
		}
		ws := recd.take()
		e.r.Eval(1)
		e.r.Event("events:statsdaemon", 1)
		e.r.Nontrivial("statsdaemon|event|" + d.Shape + fmt.Sprintf("|nl=%v|plain=%v", strings.Contains(d.Text, "\n"), o.Plain))
		if len(ws) != 1 {
			e.r.Violation("statsdaemon:event:write-count", fmt.Sprintf("SendEvent wrote %d datagrams for one event", len(ws)), ecs)
			continue
		}
		line := bytes.TrimSuffix(ws[0], []byte{'\n'})
		if bytes.IndexByte(line, '\n') >= 0 {
			e.r.Violation("statsdaemon:event:malformed:raw-newline", fmt.Sprintf("event datagram contains a raw newline: %q", ws[0]), ecs)
			continue
		}
		m, pe, err := e.lexer.Run(append([]byte(nil), line...), "")
		if err != nil || pe == nil || m != nil {
			e.r.Violation("statsdaemon:event:malformed:rejected-by-lexer", fmt.Sprintf("gostatsd's own lexer rejects relayed event %q: %v", line, err), ecs)
			continue
		}
		var bad []string
		chk := func(field string, got, want interface{}) {
			if fmt.Sprint(got) != fmt.Sprint(want) {
				bad = append(bad, fmt.Sprintf("%s %q want %q", field, got, want))
			}
		}
		chk("title", pe.Title, ev.Title)
		chk("text", pe.Text, ev.Text)
		chk("date", pe.DateHappened, ev.DateHappened)
		chk("hostname", string(pe.Source), string(ev.Source))
		chk("aggregation-key", pe.AggregationKey, ev.AggregationKey)
		chk("source-type", pe.SourceTypeName, ev.SourceTypeName)
		chk("priority", int(pe.Priority), int(ev.Priority))
		chk("alert-type", int(pe.AlertType), int(ev.AlertType))
		chk("tags", strings.Join(pe.Tags, ","), strings.Join(ev.Tags, ","))
		if len(bad) > 0 {
			e.r.Violation("statsdaemon:event:field:"+strings.SplitN(bad[0], " ", 2)[0], fmt.Sprintf("event relayed as %q parses back with %s", line, strings.Join(bad, "; ")), ecs)
		}
	}
}

// relayDiffClass maps a ref.Diff message to a stable class.
func relayDiffClass(d string) string {
	typ := func(prefix string) string {
		rest := strings.TrimPrefix(d, prefix)
		rest = strings.TrimPrefix(rest, "\"")
		if len(rest) > 0 {
			if n, ok := typeNames[rest[0]]; ok {
				return n
			}
		}
		return "unknown"
	}
	switch {
	case strings.HasPrefix(d, "missing series "):
		return "missing-series:" + typ("missing series ")
	case strings.HasPrefix(d, "unexpected series "):
		return "unexpected-series:" + typ("unexpected series ")
	case strings.HasPrefix(d, "duplicate"):
		return "duplicate-series"
	case strings.Contains(d, ": tags "):
		return "tags"
	case strings.Contains(d, "source "):
		return "source"
	case strings.Contains(d, "counter "):
		return "counter-total"
	case strings.Contains(d, "timer "), strings.Contains(d, "sampled count"):
		return "timer-values"
	case strings.Contains(d, "set members"):
		return "set-members"
	}
	return "other"
}
