//go:build verif

package c17

import (
	"bytes"
	"context"
	"io"
	"net"
	"net/http"
	"net/http/httptest"
	"runtime/pprof"
	"strings"
	"sync"
	"time"

	"github.com/aws/aws-sdk-go-v2/service/cloudwatch"
	"github.com/sirupsen/logrus"
)

// httpReq is one request captured at the local sink.
type httpReq struct {
	Method string
	Path   string
	Query  string
	Header http.Header
	Body   []byte
}

// httpSink is the httptest server every HTTP backend is pointed at. It records complete requests and answers
// 200 with an empty body (a valid, empty protobuf response for OTLP).
type httpSink struct {
	srv  *httptest.Server
	mu   sync.Mutex
	reqs []httpReq
}

func newHTTPSink() *httpSink {
	s := &httpSink{}
	s.srv = httptest.NewServer(http.HandlerFunc(func(w http.ResponseWriter, r *http.Request) {
		body, _ := io.ReadAll(r.Body)
		s.mu.Lock()
		s.reqs = append(s.reqs, httpReq{Method: r.Method, Path: r.URL.Path, Query: r.URL.RawQuery, Header: r.Header.Clone(), Body: body})
		s.mu.Unlock()
		w.WriteHeader(http.StatusOK)
	}))
	return s
}

func (s *httpSink) take() []httpReq {
	s.mu.Lock()
	defer s.mu.Unlock()
	out := s.reqs
	s.reqs = nil
	return out
}

func (s *httpSink) url() string { return s.srv.URL }
func (s *httpSink) close()      { s.srv.Close() }

// recConn is a scripted net.Conn handed to the socket based backends through VerifSetConnFactory: every Write is
// recorded as one unit (one datagram for UDP, one segment of the stream for TCP).
type recConn struct {
	rec *connRecorder
}

type connRecorder struct {
	mu     sync.Mutex
	writes [][]byte
	dials  int
}

func (c *connRecorder) factory() (net.Conn, error) {
	c.mu.Lock()
	c.dials++
	c.mu.Unlock()
	return &recConn{rec: c}, nil
}

func (c *connRecorder) take() [][]byte {
	c.mu.Lock()
	defer c.mu.Unlock()
	out := c.writes
	c.writes = nil
	return out
}

func (c *recConn) Write(b []byte) (int, error) {
	c.rec.mu.Lock()
	c.rec.writes = append(c.rec.writes, append([]byte(nil), b...))
	c.rec.mu.Unlock()
	return len(b), nil
}
func (c *recConn) Read(b []byte) (int, error)         { return 0, io.EOF }
func (c *recConn) Close() error                       { return nil }
func (c *recConn) LocalAddr() net.Addr                { return &net.TCPAddr{IP: net.IPv4(127, 0, 0, 1), Port: 1} }
func (c *recConn) RemoteAddr() net.Addr               { return &net.TCPAddr{IP: net.IPv4(127, 0, 0, 1), Port: 2} }
func (c *recConn) SetDeadline(t time.Time) error      { return nil }
func (c *recConn) SetReadDeadline(t time.Time) error  { return nil }
func (c *recConn) SetWriteDeadline(t time.Time) error { return nil }

// cwMock implements cloudwatch.CloudwatchClient and records every PutMetricData input.
type cwMock struct {
	mu     sync.Mutex
	inputs []*cloudwatch.PutMetricDataInput
}

func (m *cwMock) PutMetricData(ctx context.Context, in *cloudwatch.PutMetricDataInput, _ ...func(*cloudwatch.Options)) (*cloudwatch.PutMetricDataOutput, error) {
	m.mu.Lock()
	m.inputs = append(m.inputs, in)
	m.mu.Unlock()
	return &cloudwatch.PutMetricDataOutput{}, nil
}

func (m *cwMock) take() []*cloudwatch.PutMetricDataInput {
	m.mu.Lock()
	defer m.mu.Unlock()
	out := m.inputs
	m.inputs = nil
	return out
}

// stdoutCapture receives what the stdout backend prints. The backend writes to logrus.StandardLogger().Writer(),
// a pipe whose lines a goroutine (logrus.(*Entry).writerScanner) logs at info level; the hook sees every such line.
type stdoutCapture struct {
	mu    sync.Mutex
	lines []string
}

func (c *stdoutCapture) Levels() []logrus.Level { return logrus.AllLevels }
func (c *stdoutCapture) Fire(e *logrus.Entry) error {
	c.mu.Lock()
	c.lines = append(c.lines, e.Message)
	c.mu.Unlock()
	return nil
}

func (c *stdoutCapture) take() []string {
	c.mu.Lock()
	defer c.mu.Unlock()
	out := c.lines
	c.lines = nil
	return out
}

func installStdoutCapture() *stdoutCapture {
	c := &stdoutCapture{}
	logrus.StandardLogger().SetOutput(io.Discard)
	logrus.StandardLogger().SetLevel(logrus.InfoLevel)
	logrus.StandardLogger().AddHook(c)
	return c
}

// scannersRunning reports whether a logrus writerScanner goroutine is alive, i.e. whether some line written by
// the stdout backend may not have reached the hook yet. The goroutine ends after the pipe is closed and every
// line was logged, so "no such goroutine" is the logical end of a stdout flush.
func scannersRunning() bool {
	var buf bytes.Buffer
	_ = pprof.Lookup("goroutine").WriteTo(&buf, 1)
	return strings.Contains(buf.String(), "writerScanner")
}
