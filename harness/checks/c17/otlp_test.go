//go:build verif

package c17

import (
	"context"
	"fmt"
	"math"
	"math/rand"
	"sort"
	"strings"

	v1export "go.opentelemetry.io/proto/otlp/collector/metrics/v1"
	v1common "go.opentelemetry.io/proto/otlp/common/v1"
	v1metrics "go.opentelemetry.io/proto/otlp/metrics/v1"
	"google.golang.org/protobuf/proto"

	"github.com/atlassian/gostatsd"
)

type otlpCfg struct {
	Conversion   string   `json:"conversion"` // "" = default (AsGauge)
	Compress     *bool    `json:"compress"`
	MPB          int      `json:"metrics_per_batch"` // 0 = default (1000)
	ResourceKeys []string `json:"resource_keys"`
}

// otlpKV models the attribute map of the backend: key:value tags become key -> value, value-only tags key -> "";
// several values of one key are kept as a set (the backend sends an array); an empty value next to non-empty
// ones is not significant (whether it survives depends on the order of insertion).
func otlpKV(tags []string) string {
	m := map[string]map[string]bool{}
	for _, t := range tags {
		k, v := t, ""
		if i := strings.IndexByte(t, ':'); i >= 0 {
			k, v = t[:i], t[i+1:]
		}
		if m[k] == nil {
			m[k] = map[string]bool{}
		}
		m[k][v] = true
	}
	return canonSets(m)
}

func canonSets(m map[string]map[string]bool) string {
	keys := make([]string, 0, len(m))
	for k := range m {
		keys = append(keys, k)
	}
	sort.Strings(keys)
	var b strings.Builder
	for i, k := range keys {
		if i > 0 {
			b.WriteByte('\x02')
		}
		b.WriteString(k)
		b.WriteByte('\x03')
		vals := make([]string, 0, len(m[k]))
		for v := range m[k] {
			if v == "" && len(m[k]) > 1 {
				continue
			}
			vals = append(vals, v)
		}
		sort.Strings(vals)
		b.WriteString(strings.Join(vals, "\x04"))
	}
	return b.String()
}

// otlpTags splits the tags (plus host:<source> unless a host: tag exists) into resource attributes (tags whose
// key is one of the resource keys) and datapoint attributes.
func otlpTags(tags []string, source string, resourceKeys []string, extra ...string) string {
	all := append([]string(nil), tags...)
	haveHost := false
	for _, t := range tags {
		if strings.HasPrefix(t, "host:") {
			haveHost = true
		}
	}
	if !haveHost && source != "" {
		all = append(all, "host:"+source)
	}
	var res, attr []string
	for _, t := range all {
		matched := false
		for _, k := range resourceKeys {
			if strings.HasPrefix(t, k+":") {
				matched = true
			}
		}
		if matched {
			res = append(res, t)
		} else {
			attr = append(attr, t)
		}
	}
	attr = append(attr, extra...)
	return "R{" + otlpKV(res) + "}A{" + otlpKV(attr) + "}"
}

func otlpExpected(w *workload, c otlpCfg) []rec {
	var out []rec
	asGauge := c.Conversion != "AsHistogram"
	for i, s := range w.Series {
		tg := otlpTags(s.Tags, s.Source, c.ResourceKeys)
		add := func(name, tags string, v float64, class string) {
			out = append(out, rec{Name: name, Tags: tags, Val: v, Class: class, Ser: i})
		}
		switch s.Type {
		case 1:
			add(s.Name, tg, s.PerSecond, "counter.rate")
			add(s.Name+".count", tg, float64(s.Counter), "counter.count")
		case 3:
			add(s.Name, tg, s.Gauge, "gauge")
		case 4:
			add(s.Name, tg, float64(len(s.Members)), "set")
		case 2:
			if asGauge {
				if s.IsHist {
					for b, cnt := range s.histF {
						add(s.Name+".histogram", otlpTags(s.Tags, s.Source, c.ResourceKeys, "le:"+fmtBound(b)), float64(cnt), "timer.histogram")
					}
					for _, suffix := range allTimerSubs() {
						out = append(out, rec{Name: s.Name + "." + suffix, Tags: tg, Class: gsdClass(s), Ser: i, Forbidden: true})
					}
					continue
				}
				for _, sm := range stdTimerSubs(s, w.Disabled) {
					add(s.Name+"."+sm.Suffix, tg, sm.Val, sm.Class)
				}
				continue
			}
			// AsHistogram: one histogram datapoint per timer with count, sum, min, max of the values received and,
			// for a histogram timer, per-bucket (non cumulative) counts.
			// class prefix: histogram datapoint of a plain timer / of a gsd_histogram timer (whose values the
			// aggregator leaves unsorted)
			hc := "timer.hist."
			if s.IsHist {
				hc = "timer.gsdhist."
				if len(s.histF) == 0 {
					// bucket limit 0: nothing at all, in particular no bucket-less histogram datapoint
					for _, field := range []string{"count", "sum", "min", "max"} {
						out = append(out, rec{Name: s.Name + "\x01" + field, Tags: tg, Class: "timer.gsdhist-limit0-datapoint", Ser: i, Forbidden: true})
					}
					continue
				}
			}
			add(s.Name+"\x01count", tg, float64(len(s.Values)), hc+"count")
			sum, mn, mx := 0.0, math.Inf(1), math.Inf(-1)
			for _, v := range s.Values {
				sum += v
				mn = math.Min(mn, v)
				mx = math.Max(mx, v)
			}
			add(s.Name+"\x01sum", tg, sum, hc+"sum")
			if len(s.Values) > 0 {
				add(s.Name+"\x01min", tg, mn, hc+"min")
				add(s.Name+"\x01max", tg, mx, hc+"max")
			}
			prev := 0
			for _, b := range sortedBounds(s) {
				add(s.Name+"\x01bucket<="+fmtBound(b), tg, float64(s.histF[b]-prev), hc+"bucket")
				prev = s.histF[b]
			}
		}
	}
	return out
}

func otlpDecodeKV(kvs []*v1common.KeyValue) (string, string) {
	m := map[string]map[string]bool{}
	for _, kv := range kvs {
		if kv == nil || kv.Value == nil {
			return "", "attribute-without-value"
		}
		if _, dup := m[kv.Key]; dup {
			return "", "duplicate-attribute-key"
		}
		set := map[string]bool{}
		switch x := kv.Value.Value.(type) {
		case *v1common.AnyValue_StringValue:
			set[x.StringValue] = true
		case *v1common.AnyValue_ArrayValue:
			if x.ArrayValue == nil || len(x.ArrayValue.Values) == 0 {
				return "", "empty-attribute-array"
			}
			for _, el := range x.ArrayValue.Values {
				sv, ok := el.GetValue().(*v1common.AnyValue_StringValue)
				if !ok {
					return "", "attribute-array-element-not-a-string"
				}
				set[sv.StringValue] = true
			}
		default:
			return "", "attribute-value-kind"
		}
		m[kv.Key] = set
	}
	return canonSets(m), ""
}

func numberValue(dp *v1metrics.NumberDataPoint) (float64, bool) {
	switch x := dp.Value.(type) {
	case *v1metrics.NumberDataPoint_AsDouble:
		return x.AsDouble, true
	case *v1metrics.NumberDataPoint_AsInt:
		return float64(x.AsInt), true
	}
	return 0, false
}

// decodeOTLP is the strict decoder of one ExportMetricsServiceRequest.
func decodeOTLP(body []byte) (recs []rec, metrics int, malformed string) {
	var req v1export.ExportMetricsServiceRequest
	if err := proto.Unmarshal(body, &req); err != nil {
		return nil, 0, "protobuf"
	}
	if len(req.ProtoReflect().GetUnknown()) != 0 {
		return nil, 0, "unknown-fields"
	}
	for _, rm := range req.ResourceMetrics {
		var res string
		if rm.Resource != nil {
			r, bad := otlpDecodeKV(rm.Resource.Attributes)
			if bad != "" {
				return recs, metrics, "resource-" + bad
			}
			res = r
		}
		for _, sm := range rm.ScopeMetrics {
			for _, m := range sm.Metrics {
				metrics++
				if m.Name == "" {
					return recs, metrics, "metric-without-name"
				}
				one := func(attrs []*v1common.KeyValue) (string, string) {
					a, bad := otlpDecodeKV(attrs)
					return "R{" + res + "}A{" + a + "}", bad
				}
				switch d := m.Data.(type) {
				case *v1metrics.Metric_Gauge:
					if d.Gauge == nil || len(d.Gauge.DataPoints) != 1 {
						return recs, metrics, "gauge-datapoint-count"
					}
					dp := d.Gauge.DataPoints[0]
					v, ok := numberValue(dp)
					if !ok {
						return recs, metrics, "datapoint-without-value"
					}
					tg, bad := one(dp.Attributes)
					if bad != "" {
						return recs, metrics, bad
					}
					recs = append(recs, rec{Name: m.Name, Tags: tg, Val: v})
				case *v1metrics.Metric_Sum:
					if d.Sum == nil || len(d.Sum.DataPoints) != 1 {
						return recs, metrics, "sum-datapoint-count"
					}
					if d.Sum.AggregationTemporality == v1metrics.AggregationTemporality_AGGREGATION_TEMPORALITY_UNSPECIFIED {
						return recs, metrics, "sum-without-temporality"
					}
					dp := d.Sum.DataPoints[0]
					v, ok := numberValue(dp)
					if !ok {
						return recs, metrics, "datapoint-without-value"
					}
					tg, bad := one(dp.Attributes)
					if bad != "" {
						return recs, metrics, bad
					}
					recs = append(recs, rec{Name: m.Name, Tags: tg, Val: v})
				case *v1metrics.Metric_Histogram:
					if d.Histogram == nil || len(d.Histogram.DataPoints) != 1 {
						return recs, metrics, "histogram-datapoint-count"
					}
					if d.Histogram.AggregationTemporality == v1metrics.AggregationTemporality_AGGREGATION_TEMPORALITY_UNSPECIFIED {
						return recs, metrics, "histogram-without-temporality"
					}
					dp := d.Histogram.DataPoints[0]
					tg, bad := one(dp.Attributes)
					if bad != "" {
						return recs, metrics, bad
					}
					recs = append(recs, rec{Name: m.Name + "\x01count", Tags: tg, Val: float64(dp.Count)})
					if dp.Sum != nil {
						recs = append(recs, rec{Name: m.Name + "\x01sum", Tags: tg, Val: *dp.Sum})
					}
					if dp.Min != nil {
						recs = append(recs, rec{Name: m.Name + "\x01min", Tags: tg, Val: *dp.Min})
					}
					if dp.Max != nil {
						recs = append(recs, rec{Name: m.Name + "\x01max", Tags: tg, Val: *dp.Max})
					}
					if len(dp.BucketCounts) > 0 || len(dp.ExplicitBounds) > 0 {
						if len(dp.BucketCounts) != len(dp.ExplicitBounds)+1 {
							return recs, metrics, "histogram-bucket-shape"
						}
						var total uint64
						for i, n := range dp.BucketCounts {
							total += n
							b := math.Inf(1)
							if i < len(dp.ExplicitBounds) {
								b = dp.ExplicitBounds[i]
								if i > 0 && !(dp.ExplicitBounds[i-1] < b) {
									return recs, metrics, "histogram-bounds-not-ascending"
								}
							}
							recs = append(recs, rec{Name: m.Name + "\x01bucket<=" + fmtBound(b), Tags: tg, Val: float64(n)})
						}
						if total != dp.Count {
							return recs, metrics, "histogram-bucket-sum"
						}
					}
				default:
					return recs, metrics, "metric-without-data"
				}
			}
		}
	}
	return recs, metrics, ""
}

func setOTLPDisabled(v *cfg, d gostatsd.TimerSubtypes) {
	set := func(k string, b bool) {
		if b {
			v.Set("otlp.disabled_timer_aggregations."+k, true)
		}
	}
	set("lower", d.Lower)
	set("lowerpct", d.LowerPct)
	set("upper", d.Upper)
	set("upperpct", d.UpperPct)
	set("count", d.Count)
	set("countpct", d.CountPct)
	set("countpersecond", d.CountPerSecond)
	set("mean", d.Mean)
	set("meanpct", d.MeanPct)
	set("median", d.Median)
	set("stddev", d.StdDev)
	set("sum", d.Sum)
	set("sumpct", d.SumPct)
	set("sumsquares", d.SumSquares)
	set("sumsquarespct", d.SumSquaresPct)
}

func runOTLP(e *env, cs *caseRef, w *workload, rng *rand.Rand) {
	var c otlpCfg
	c.Conversion = []string{"", "AsGauge", "AsHistogram", "AsHistogram"}[rng.Intn(4)]
	switch rng.Intn(3) {
	case 0:
		b := false
		c.Compress = &b
	case 1:
		b := true
		c.Compress = &b
	}
	c.MPB = randomMPB(rng)
	switch rng.Intn(5) {
	case 0:
	case 1:
		c.ResourceKeys = []string{"svc"}
	case 2:
		c.ResourceKeys = []string{"host", "zone"}
	default:
		// keys that occur in this state
		seen := map[string]bool{}
		for _, s := range w.Series {
			for _, t := range s.Tags {
				if i := strings.IndexByte(t, ':'); i > 0 && !seen[t[:i]] && t[:i] != "gsd_histogram" && len(c.ResourceKeys) < 3 && rng.Intn(2) == 0 {
					seen[t[:i]] = true
					c.ResourceKeys = append(c.ResourceKeys, t[:i])
				}
			}
		}
	}
	if w.HashCollide {
		c.ResourceKeys = []string{"svc", "svcx"}
	}
	cs.Config = c
	v := newCfg()
	v.Set("otlp.metrics_endpoint", e.sink.url()+"/v1/metrics")
	v.Set("otlp.logs_endpoint", e.sink.url()+"/v1/logs")
	if c.Conversion != "" {
		v.Set("otlp.conversion", c.Conversion)
	}
	if c.Compress != nil {
		v.Set("otlp.compress_payload", *c.Compress)
	}
	if c.MPB != 0 {
		v.Set("otlp.metrics_per_batch", c.MPB)
	}
	if len(c.ResourceKeys) > 0 {
		v.Set("otlp.resource_keys", c.ResourceKeys)
	}
	setOTLPDisabled(v, w.Disabled)
	be, err := e.initBackend(cs, "otlp", v, rng)
	if err != nil {
		e.r.Inconclusive("otlp:factory-error")
		return
	}
	want := otlpExpected(w, c)
	mm := buildMap(w.Series)
	e.sink.take()
	ctx, cancel := context.WithCancel(context.Background())
	defer cancel()
	e.r.Case("otlp case=%d cfg=%s series=%d", cs.Index, jsonString(c), len(w.Series))
	errs, ok := e.send(ctx, be, mm)
	if !ok {
		e.r.Inconclusive("otlp:no-callback")
		return
	}
	if len(errs) > 0 {
		e.r.Inconclusive("otlp:send-error")
		return
	}
	reqs := e.sink.take()
	compress := c.Compress == nil || *c.Compress
	limit := c.MPB
	if limit == 0 {
		limit = 1000
	}
	var got []rec
	malformed := false
	nonEmpty := 0
	for _, rq := range reqs {
		if rq.Method != "POST" || rq.Path != "/v1/metrics" || rq.Header.Get("Content-Type") != "application/x-protobuf" {
			e.r.Violation("otlp:malformed:request", fmt.Sprintf("%s %s headers %v", rq.Method, rq.Path, rq.Header), cs)
			malformed = true
		}
		body := rq.Body
		if enc := rq.Header.Get("Content-Encoding"); enc == "gzip" {
			if !compress {
				e.r.Violation("otlp:malformed:gzip-although-disabled", "Content-Encoding gzip with compress_payload=false", cs)
			}
			b, err := gunzip(body)
			if err != nil {
				e.r.Violation("otlp:malformed:gzip", fmt.Sprintf("body is not a valid gzip stream: %v", err), cs)
				malformed = true
				continue
			}
			body = b
		} else if compress || enc != "" {
			e.r.Violation("otlp:malformed:content-encoding", fmt.Sprintf("Content-Encoding %q with compress_payload=%v", enc, compress), cs)
			malformed = true
		}
		r, n, bad := decodeOTLP(body)
		if bad != "" {
			e.r.Violation("otlp:malformed:"+bad, fmt.Sprintf("the strict OTLP decoder rejects a request body (%s) after %d metrics", bad, n), cs)
			malformed = true
		}
		// hard limit; the unit of metrics_per_batch is the OTLP Metric (one per sub-metric / per histogram)
		if n > limit {
			e.r.Violation("otlp:batch-over-limit", fmt.Sprintf("a request carries %d metrics, metrics_per_batch is %d", n, limit), cs)
		}
		if n > 0 {
			nonEmpty++
		}
		got = append(got, r...)
	}
	if !malformed {
		fs := diffRecords("otlp", want, got, relTol)
		if w.HashCollide && len(fs) > 0 {
			// family built so that the resource tags of two series concatenate to the same bytes: one class
			e.r.Violation("otlp:wrong-resource:hash-collision", fmt.Sprintf("resource keys %v: series with different resource tags share one Resource (%d discrepancies); first: %s", c.ResourceKeys, len(fs), fs[0].detail), cs)
		} else {
			for _, f := range fs {
				e.r.Violation(f.sig, f.detail, cs)
			}
		}
	}
	conv := c.Conversion
	if conv == "" {
		conv = "default"
	}
	e.account("otlp", fmt.Sprintf("%s/gz=%v/mpb=%s/rk=%d", conv, compress, mpbClass(c.MPB), len(c.ResourceKeys)), w, nonEmpty, len(got), func() interface{} {
		return map[string]interface{}{"backend": "otlp", "config": c, "series": len(w.Series), "requests": len(reqs), "records": len(got)}
	})
}
