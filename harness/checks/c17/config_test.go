//go:build verif

package c17

import (
	"bytes"
	"encoding/json"
	"fmt"
	"math/rand"
	"sort"
	"strconv"
	"strings"

	"github.com/spf13/viper"

	"github.com/atlassian/gostatsd"
	"github.com/atlassian/gostatsd/pkg/backends"
)

// cfg collects the documented configuration keys of one backend under test. The backend is not built from Go
// arguments: the keys are rendered as configuration TEXT (toml, yaml or json, as gostatsd's --config-path accepts),
// read back through viper.ReadConfig and handed to backends.InitBackend, i.e. the same factory table and
// NewClientFromViper wiring the daemon uses.
type cfg struct {
	root map[string]interface{}
	Text string // the rendered text, for witnesses
	Kind string
}

func newCfg() *cfg { return &cfg{root: map[string]interface{}{}} }

// Set stores a value under a dotted key ("influxdb.api-version").
func (c *cfg) Set(key string, v interface{}) {
	parts := strings.Split(key, ".")
	m := c.root
	for _, p := range parts[:len(parts)-1] {
		sub, ok := m[p].(map[string]interface{})
		if !ok {
			sub = map[string]interface{}{}
			m[p] = sub
		}
		m = sub
	}
	m[parts[len(parts)-1]] = v
}

func tomlValue(v interface{}) string {
	switch x := v.(type) {
	case string:
		return strconv.Quote(x) // basic string; our values are printable ASCII
	case bool:
		return strconv.FormatBool(x)
	case int:
		return strconv.Itoa(x)
	case []string:
		q := make([]string, len(x))
		for i, s := range x {
			q[i] = strconv.Quote(s)
		}
		return "[" + strings.Join(q, ", ") + "]"
	}
	return fmt.Sprintf("%q", fmt.Sprint(v))
}

func renderTOML(b *bytes.Buffer, path string, m map[string]interface{}) {
	keys := make([]string, 0, len(m))
	for k := range m {
		keys = append(keys, k)
	}
	sort.Strings(keys)
	// scalars of this table first, sub-tables afterwards
	if path != "" {
		fmt.Fprintf(b, "[%s]\n", path)
	}
	for _, k := range keys {
		if _, ok := m[k].(map[string]interface{}); !ok {
			fmt.Fprintf(b, "%s = %s\n", k, tomlValue(m[k]))
		}
	}
	for _, k := range keys {
		if sub, ok := m[k].(map[string]interface{}); ok {
			p := k
			if path != "" {
				p = path + "." + k
			}
			b.WriteByte('\n')
			renderTOML(b, p, sub)
		}
	}
}

// load renders the keys in a random format and reads them back the way cmd/gostatsd reads its config file.
func (c *cfg) load(rng *rand.Rand) (*viper.Viper, error) {
	var b bytes.Buffer
	switch rng.Intn(3) {
	case 0:
		c.Kind = "toml"
		renderTOML(&b, "", c.root)
	case 1:
		c.Kind = "json"
		j, _ := json.MarshalIndent(c.root, "", " ")
		b.Write(j)
	default:
		c.Kind = "yaml" // JSON documents are YAML flow documents
		j, _ := json.Marshal(c.root)
		b.Write(j)
	}
	c.Text = b.String()
	v := viper.New()
	v.SetConfigType(c.Kind)
	if err := v.ReadConfig(bytes.NewReader(b.Bytes())); err != nil {
		return nil, err
	}
	return v, nil
}

// initBackend builds the named backend from the configuration text through backends.InitBackend.
func (e *env) initBackend(cs *caseRef, name string, c *cfg, rng *rand.Rand) (gostatsd.Backend, error) {
	v, err := c.load(rng)
	cs.ConfigText = c.Text
	if err != nil {
		return nil, err
	}
	be, err := backends.InitBackend(name, v, e.logger, e.pool)
	if err != nil {
		return nil, err
	}
	if be == nil || be.Name() != name {
		return nil, fmt.Errorf("InitBackend(%q) returned %v", name, be)
	}
	e.r.Event("built-from-config-text:"+c.Kind, 1)
	return be, nil
}
