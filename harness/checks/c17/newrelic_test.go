//go:build verif

package c17

import (
	"context"
	"encoding/json"
	"fmt"
	"math"
	"math/rand"
	"sort"
	"strconv"
	"strings"
)

type nrCfg struct {
	FlushType string `json:"flush_type"` // infra | insights | metrics
	MPB       int    `json:"metrics_per_batch"`
	TagPrefix string `json:"tag_prefix"`
	Renamed   bool   `json:"renamed"`
}

type nrFields struct {
	name, typ, value, perSecond, min, max, count, mean, median, stddev, sum, sumsq string
}

func (c nrCfg) fields() nrFields {
	if c.Renamed {
		return nrFields{"m_name", "m_type", "m_value", "m_ps", "t_min", "t_max", "t_count", "t_mean", "t_median", "t_std", "t_sum", "t_sumsq"}
	}
	return nrFields{"name", "type", "value", "per_second", "min", "max", "count", "mean", "median", "std_dev", "sum", "sum_squares"}
}

func nrNum(f float64) string { return "N:" + strconv.FormatFloat(f, 'g', -1, 64) }

// nrAttrs models how tags become attributes of the JSON object: key:value -> attribute key (with the tag prefix),
// a value that reads as a finite number becomes a JSON number, a value-only tag becomes "true"; a later tag with
// the same key replaces an earlier one; the source travels as statsdSource unless such a tag exists.
func nrAttrs(prefix string, tags []string, source string) map[string]string {
	all := append([]string(nil), tags...)
	if source != "" {
		have := false
		for _, t := range tags {
			if strings.HasPrefix(t, "statsdSource:") {
				have = true
			}
		}
		if !have {
			all = append(all, "statsdSource:"+source)
		}
	}
	m := map[string]string{}
	for _, t := range all {
		if i := strings.IndexByte(t, ':'); i >= 0 {
			k, v := t[:i], t[i+1:]
			if f, err := strconv.ParseFloat(v, 64); err == nil && !math.IsInf(f, 0) && !math.IsNaN(f) {
				m[prefix+k] = nrNum(f)
			} else {
				m[prefix+k] = "S:" + v
			}
		} else {
			m[prefix+t] = "S:true"
		}
	}
	return m
}

func canonAttrs(m map[string]string) string {
	keys := make([]string, 0, len(m))
	for k := range m {
		keys = append(keys, k)
	}
	sort.Strings(keys)
	var b strings.Builder
	for i, k := range keys {
		if i > 0 {
			b.WriteByte('\x02')
		}
		b.WriteString(k)
		b.WriteByte('\x03')
		b.WriteString(m[k])
	}
	return b.String()
}

func nrLeTag(bound float64) string {
	if math.IsInf(bound, 1) {
		return "le:infinity"
	}
	return "le:" + fmtBound(bound)
}

// nrExpected builds the expected records of the three flush types (BACKENDS.md for the field names, source for
// the rest). perSeries counts the entries the client appends to its batch per map entry.
func nrExpected(w *workload, c nrCfg) (out []rec, perSeries []int) {
	f := c.fields()
	d := w.Disabled
	perSeries = make([]int, len(w.Series))
	for i, s := range w.Series {
		if c.FlushType == "metrics" {
			add := func(name string, tags []string, statsdType string, extra map[string]string, field string, v float64, class string) {
				a := nrAttrs(c.TagPrefix, tags, s.Source)
				a["statsdType"] = "S:" + statsdType
				for k, x := range extra {
					a[k] = x
				}
				n := name
				if field != "" {
					n += "\x01" + field
				}
				out = append(out, rec{Name: n, Tags: canonAttrs(a), Val: v, Class: class, Ser: i})
			}
			switch s.Type {
			case 1:
				add(s.Name+".per_second", s.Tags, "gauge", nil, "", s.PerSecond, "counter.rate")
				add(s.Name, s.Tags, "counter", nil, "", float64(s.Counter), "counter.count")
				perSeries[i] = 2
			case 2:
				if s.IsHist {
					for b, cnt := range s.histF {
						tags := append(append([]string(nil), s.Tags...), nrLeTag(b))
						add(s.Name+".histogram.per_second", tags, "gauge", nil, "", 0, "timer.histogram.rate")
						add(s.Name+".histogram", tags, "counter", nil, "", float64(cnt), "timer.histogram")
						perSeries[i] += 2
					}
					forbid := func(name, statsdType, field string) {
						add(name, s.Tags, statsdType, nil, field, 0, gsdClass(s))
						out[len(out)-1].Forbidden = true
					}
					for _, suffix := range []string{"per_second", "mean", "median", "std_dev", "sum_squares"} {
						forbid(s.Name+"."+suffix, "gauge", "")
					}
					for _, field := range []string{"count", "sum", "min", "max"} {
						forbid(s.Name+".summary", "timer", field)
					}
					continue
				}
				g := func(disabled bool, suffix string, v float64) {
					if !disabled {
						add(s.Name+"."+suffix, s.Tags, "gauge", nil, "", v, "timer."+suffix)
						perSeries[i]++
					}
				}
				g(d.CountPerSecond, "per_second", s.PerSecond)
				g(d.Mean, "mean", s.Mean)
				g(d.Median, "median", s.Median)
				g(d.StdDev, "std_dev", s.StdDev)
				g(d.SumSquares, "sum_squares", s.SumSquares)
				for _, p := range s.Pcts {
					j := strings.LastIndex(p.Str, "_")
					num, err := strconv.ParseFloat(p.Str[j+1:], 64)
					if err != nil {
						continue
					}
					add(s.Name+"."+p.Str[:j]+".percentiles", s.Tags, "gauge", map[string]string{"percentile": nrNum(num)}, "", p.Float, "timer.pct")
					perSeries[i]++
				}
				// the summary always carries count, sum, min, max
				add(s.Name+".summary", s.Tags, "timer", nil, "count", float64(s.Count), "timer.summary.count")
				add(s.Name+".summary", s.Tags, "timer", nil, "sum", s.Sum, "timer.summary.sum")
				add(s.Name+".summary", s.Tags, "timer", nil, "min", s.Min, "timer.summary.min")
				add(s.Name+".summary", s.Tags, "timer", nil, "max", s.Max, "timer.summary.max")
				perSeries[i]++
			case 3:
				add(s.Name, s.Tags, "gauge", nil, "", s.Gauge, "gauge")
				perSeries[i] = 1
			case 4:
				add(s.Name, s.Tags, "set", nil, "", float64(len(s.Members)), "set")
				perSeries[i] = 1
			}
			continue
		}
		// infra / insights: one JSON object per map entry (per bucket for histogram timers)
		add := func(name string, tags []string, field string, v float64, class string) {
			out = append(out, rec{Name: name + "\x01" + field, Tags: canonAttrs(nrAttrs(c.TagPrefix, tags, s.Source)), Val: v, Class: class, Ser: i})
		}
		switch s.Type {
		case 1:
			add(s.Name, s.Tags, f.value, float64(s.Counter), "counter.count")
			add(s.Name, s.Tags, f.perSecond, s.PerSecond, "counter.rate")
			perSeries[i] = 1
		case 2:
			if s.IsHist {
				for b, cnt := range s.histF {
					tags := append(append([]string(nil), s.Tags...), nrLeTag(b))
					add(s.Name+".histogram", tags, f.value, float64(cnt), "timer.histogram")
					add(s.Name+".histogram", tags, f.perSecond, 0, "timer.histogram.rate")
					perSeries[i]++
				}
				for _, field := range []string{f.value, f.min, f.max, f.count, f.sum, f.perSecond, f.mean, f.median, f.stddev, f.sumsq} {
					add(s.Name, s.Tags, field, 0, gsdClass(s))
					out[len(out)-1].Forbidden = true
				}
				continue
			}
			add(s.Name, s.Tags, f.value, float64(s.Count), "timer.value")
			t := func(disabled bool, field string, v float64, class string) {
				if !disabled {
					add(s.Name, s.Tags, field, v, class)
				}
			}
			t(d.Lower, f.min, s.Min, "timer.lower")
			t(d.Upper, f.max, s.Max, "timer.upper")
			t(d.Count, f.count, float64(s.Count), "timer.count")
			t(d.Sum, f.sum, s.Sum, "timer.sum")
			t(d.CountPerSecond, f.perSecond, s.PerSecond, "timer.count_ps")
			t(d.Mean, f.mean, s.Mean, "timer.mean")
			t(d.Median, f.median, s.Median, "timer.median")
			t(d.StdDev, f.stddev, s.StdDev, "timer.std")
			t(d.SumSquares, f.sumsq, s.SumSquares, "timer.sum_squares")
			for _, p := range s.Pcts {
				add(s.Name, s.Tags, p.Str, p.Float, "timer.pct")
			}
			perSeries[i] = 1
		case 3:
			add(s.Name, s.Tags, f.value, s.Gauge, "gauge")
			perSeries[i] = 1
		case 4:
			add(s.Name, s.Tags, f.value, float64(len(s.Members)), "set")
			perSeries[i] = 1
		}
	}
	return out, perSeries
}

func nrAttrValue(v interface{}) (string, bool) {
	switch x := v.(type) {
	case string:
		return "S:" + x, true
	case float64:
		return nrNum(x), true
	}
	return "", false
}

// decodeNRMetricSets decodes the event objects of the infra / insights flush types.
func decodeNRMetricSets(sets []map[string]interface{}, c nrCfg) (recs []rec, malformed string) {
	f := c.fields()
	eventKey := "event_type"
	if c.FlushType == "insights" {
		eventKey = "eventType"
	}
	numeric := map[string]bool{f.value: true, f.perSecond: true, f.min: true, f.max: true, f.count: true, f.mean: true, f.median: true, f.stddev: true, f.sum: true, f.sumsq: true}
	for _, m := range sets {
		name, ok := m[f.name].(string)
		if !ok || name == "" {
			return recs, "object-without-name"
		}
		if t, ok := m[f.typ].(string); !ok || (t != "gauge" && t != "counter" && t != "set" && t != "timer") {
			return recs, "object-without-type"
		}
		if et, ok := m[eventKey].(string); !ok || et != "GoStatsD" {
			return recs, "object-without-event-type"
		}
		for _, k := range []string{"timestamp", "interval"} {
			if _, ok := m[k].(float64); !ok {
				return recs, "object-without-" + k
			}
		}
		if _, ok := m[f.value].(float64); !ok {
			return recs, "object-without-value"
		}
		attrs := map[string]string{}
		type fv struct {
			field string
			v     float64
		}
		var fields []fv
		for k, v := range m {
			switch {
			case k == f.name, k == f.typ, k == eventKey, k == "timestamp", k == "interval", k == "integration_version":
			case numeric[k] || isPctName(k):
				x, ok := v.(float64)
				if !ok {
					return recs, "field-not-a-number"
				}
				fields = append(fields, fv{k, x})
			default:
				a, ok := nrAttrValue(v)
				if !ok {
					return recs, "attribute-not-string-or-number"
				}
				attrs[k] = a
			}
		}
		tg := canonAttrs(attrs)
		for _, x := range fields {
			recs = append(recs, rec{Name: name + "\x01" + x.field, Tags: tg, Val: x.v})
		}
	}
	return recs, ""
}

type nrMetric struct {
	Name       *string                `json:"name"`
	Value      json.RawMessage        `json:"value"`
	Type       string                 `json:"type"`
	Timestamp  *int64                 `json:"timestamp"`
	Attributes map[string]interface{} `json:"attributes"`
	IntervalMs *float64               `json:"interval.ms"`
}

type nrMetricsPayload struct {
	Common struct {
		Attributes map[string]interface{} `json:"attributes"`
		IntervalMs *float64               `json:"interval.ms"`
	} `json:"common"`
	Metrics []nrMetric `json:"metrics"`
}

// decodeNRMetrics decodes a Metric API payload. noValue lists the statsdType of metrics that carry no value.
func decodeNRMetrics(body []byte) (recs []rec, entries int, noValue []string, malformed string) {
	var p []nrMetricsPayload
	if err := strictJSON(body, &p); err != nil {
		return nil, 0, nil, "json"
	}
	if len(p) != 1 {
		return nil, 0, nil, "payload-count"
	}
	if p[0].Common.IntervalMs == nil || p[0].Common.Attributes == nil {
		return nil, 0, nil, "common-block"
	}
	for _, m := range p[0].Metrics {
		entries++
		if m.Name == nil || *m.Name == "" {
			return recs, entries, noValue, "metric-without-name"
		}
		if m.Timestamp == nil {
			return recs, entries, noValue, "metric-without-timestamp"
		}
		attrs := map[string]string{}
		for k, v := range m.Attributes {
			a, ok := nrAttrValue(v)
			if !ok {
				return recs, entries, noValue, "attribute-not-string-or-number"
			}
			attrs[k] = a
		}
		tg := canonAttrs(attrs)
		if len(m.Value) == 0 {
			st, _ := m.Attributes["statsdType"].(string)
			noValue = append(noValue, st)
			recs = append(recs, rec{Name: *m.Name, Tags: tg, AnyVal: true})
			continue
		}
		switch m.Type {
		case "gauge", "count":
			var v float64
			if err := json.Unmarshal(m.Value, &v); err != nil {
				return recs, entries, noValue, "value-not-a-number"
			}
			recs = append(recs, rec{Name: *m.Name, Tags: tg, Val: v})
		case "summary":
			var v map[string]float64
			if err := json.Unmarshal(m.Value, &v); err != nil {
				return recs, entries, noValue, "summary-value"
			}
			for _, k := range []string{"count", "sum", "min", "max"} {
				x, ok := v[k]
				if !ok {
					return recs, entries, noValue, "summary-without-" + k
				}
				recs = append(recs, rec{Name: *m.Name + "\x01" + k, Tags: tg, Val: x})
			}
			if len(v) != 4 {
				return recs, entries, noValue, "summary-extra-field"
			}
		default:
			return recs, entries, noValue, "metric-type"
		}
	}
	return recs, entries, noValue, ""
}

func runNewRelic(e *env, cs *caseRef, w *workload, rng *rand.Rand) {
	c := nrCfg{FlushType: []string{"infra", "insights", "metrics"}[rng.Intn(3)], MPB: randomMPB(rng)}
	if rng.Intn(6) == 0 {
		c.MPB = 21 + rng.Intn(10)
	}
	if rng.Intn(2) == 0 {
		c.TagPrefix = "tag_"
	}
	c.Renamed = rng.Intn(3) == 0
	cs.Config = c
	f := c.fields()
	v := newCfg()
	v.Set("newrelic.flush-type", c.FlushType)
	switch c.FlushType {
	case "infra":
		v.Set("newrelic.address", e.sink.url()+"/v1/data")
	case "insights":
		v.Set("newrelic.address", e.sink.url()+"/v1/accounts/1/events")
		v.Set("newrelic.api-key", "k3y")
	case "metrics":
		v.Set("newrelic.address", e.sink.url()+"/v1/accounts/1/events")
		v.Set("newrelic.address-metrics", e.sink.url()+"/metric/v1")
		v.Set("newrelic.api-key", "k3y")
	}
	if c.MPB != 0 {
		v.Set("newrelic.metrics-per-batch", c.MPB)
	}
	if c.TagPrefix != "" {
		v.Set("newrelic.tag-prefix", c.TagPrefix)
	}
	if c.Renamed {
		v.Set("newrelic.metric-name", f.name)
		v.Set("newrelic.metric-type", f.typ)
		v.Set("newrelic.value", f.value)
		v.Set("newrelic.per-second", f.perSecond)
		v.Set("newrelic.timer-min", f.min)
		v.Set("newrelic.timer-max", f.max)
		v.Set("newrelic.timer-count", f.count)
		v.Set("newrelic.timer-mean", f.mean)
		v.Set("newrelic.timer-median", f.median)
		v.Set("newrelic.timer-stddev", f.stddev)
		v.Set("newrelic.timer-sum", f.sum)
		v.Set("newrelic.timer-sumsquare", f.sumsq)
	}
	v.Set("flush-interval", "10s")
	setDisabled(v, w.Disabled)
	be, err := e.initBackend(cs, "newrelic", v, rng)
	if err != nil {
		e.r.Inconclusive("newrelic:factory-error")
		return
	}
	want, perSeries := nrExpected(w, c)
	mm := buildMap(w.Series)
	e.sink.take()
	ctx, cancel := context.WithCancel(context.Background())
	defer cancel()
	e.r.Case("newrelic case=%d cfg=%s series=%d", cs.Index, jsonString(c), len(w.Series))
	errs, ok := e.send(ctx, be, mm)
	if !ok {
		e.r.Inconclusive("newrelic:no-callback")
		return
	}
	if len(errs) > 0 {
		e.r.Inconclusive("newrelic:send-error")
		return
	}
	reqs := e.sink.take()
	mpb := c.MPB
	if mpb == 0 {
		mpb = 1000
	}
	// Same batching contract as the Datadog client: the unit is the entry appended to the batch (one JSON object
	// per map entry for infra/insights, one Metric API metric per sub-metric for metrics).
	soft := mpb - 21
	if soft < 0 {
		soft = 0
	}
	soft += maxInt(perSeries)
	var got []rec
	malformed := false
	for _, rq := range reqs {
		wantPath := map[string]string{"infra": "/v1/data", "insights": "/v1/accounts/1/events", "metrics": "/metric/v1"}[c.FlushType]
		if rq.Method != "POST" || rq.Path != wantPath || rq.Header.Get("Content-Type") != "application/json" {
			e.r.Violation("newrelic:malformed:request", fmt.Sprintf("%s %s headers %v", rq.Method, rq.Path, rq.Header), cs)
			malformed = true
		}
		body := rq.Body
		gz := c.FlushType != "infra"
		if enc := rq.Header.Get("Content-Encoding"); enc == "gzip" && gz {
			b, err := gunzip(body)
			if err != nil {
				e.r.Violation("newrelic:malformed:gzip", fmt.Sprintf("body is not a valid gzip stream: %v", err), cs)
				malformed = true
				continue
			}
			body = b
			if rq.Header.Get("X-Insert-Key") != "k3y" {
				e.r.Violation("newrelic:malformed:insert-key", "X-Insert-Key header missing", cs)
			}
		} else if gz || enc != "" {
			e.r.Violation("newrelic:malformed:content-encoding", fmt.Sprintf("Content-Encoding %q for flush-type %s", enc, c.FlushType), cs)
			malformed = true
		}
		var r []rec
		var bad string
		entries := 0
		switch c.FlushType {
		case "infra":
			var p struct {
				Name               *string `json:"name"`
				ProtocolVersion    *string `json:"protocol_version"`
				IntegrationVersion *string `json:"integration_version"`
				Data               []struct {
					Metrics []map[string]interface{} `json:"metrics"`
				} `json:"data"`
			}
			if err := strictJSON(body, &p); err != nil {
				bad = "json"
			} else if p.Name == nil || *p.Name != "com.newrelic.gostatsd" || p.ProtocolVersion == nil || *p.ProtocolVersion != "2" || p.IntegrationVersion == nil || len(p.Data) != 1 {
				bad = "infra-envelope"
			} else {
				entries = len(p.Data[0].Metrics)
				r, bad = decodeNRMetricSets(p.Data[0].Metrics, c)
			}
		case "insights":
			var p []map[string]interface{}
			if err := strictJSON(body, &p); err != nil {
				bad = "json"
			} else {
				entries = len(p)
				r, bad = decodeNRMetricSets(p, c)
			}
		case "metrics":
			var noValue []string
			r, entries, noValue, bad = decodeNRMetrics(body)
			for _, st := range noValue {
				e.r.Violation("newrelic:metric-without-value:"+st, fmt.Sprintf("flush-type metrics: a metric with statsdType %q is sent without \"value\" and without \"type\" (the Metric API requires a value); body starts %q", st, excerpt(body, 500)), cs)
			}
		}
		if bad != "" {
			e.r.Violation("newrelic:malformed:"+bad, fmt.Sprintf("the strict %s decoder rejects a request body (%s); body starts %q", c.FlushType, bad, excerpt(body, 600)), cs)
			malformed = true
		}
		if entries > soft {
			e.r.Violation("newrelic:batch-over-limit", fmt.Sprintf("a request carries %d entries; metrics-per-batch=%d allows at most %d for this state", entries, mpb, soft), cs)
		}
		got = append(got, r...)
	}
	if !malformed {
		e.compare(cs, "newrelic", want, got, exactTol)
	}
	e.account("newrelic", fmt.Sprintf("%s/mpb=%s/pfx=%v/ren=%v", c.FlushType, mpbClass(c.MPB), c.TagPrefix != "", c.Renamed), w, len(reqs), len(got), func() interface{} {
		return map[string]interface{}{"backend": "newrelic", "config": c, "series": len(w.Series), "requests": len(reqs), "records": len(got)}
	})
}
