//go:build verif

package c17

import (
	"bytes"
	"compress/zlib"
	"context"
	"encoding/json"
	"fmt"
	"io"
	"math"
	"math/rand"
	"net/url"
	"sort"
	"strings"
)

type datadogCfg struct {
	Compress *bool `json:"compress"`
	MPB      int   `json:"metrics_per_batch"` // 0 = default (1000)
}

func sortedJoin(tags []string, sep string) string {
	t := append([]string(nil), tags...)
	sort.Strings(t)
	return strings.Join(t, sep)
}

// datadogExpected (from the source): counter -> <name> (rate, per second) and <name>.count; timer ->
// <name>.<sub-metric>; histogram timer -> <name>.histogram with an le:<bound> tag per bucket; gauge -> <name>;
// set -> <name> (cardinality). Tags are passed through as a list, the source is the host field.
func datadogExpected(w *workload) (out []rec, perSeries []int) {
	perSeries = make([]int, len(w.Series))
	for i, s := range w.Series {
		tg := sortedJoin(s.Tags, ",")
		add := func(name, tags string, v float64, class string) {
			out = append(out, rec{Name: name, Tags: tags, Host: s.Source, Val: v, Class: class, Ser: i})
			perSeries[i]++
		}
		switch s.Type {
		case 1:
			add(s.Name, tg, s.PerSecond, "counter.rate")
			add(s.Name+".count", tg, float64(s.Counter), "counter.count")
		case 2:
			if s.IsHist {
				for b, cnt := range s.histF {
					add(s.Name+".histogram", sortedJoin(append(append([]string(nil), s.Tags...), leTag(b)), ","), float64(cnt), "timer.histogram")
				}
				for _, suffix := range allTimerSubs() {
					out = append(out, rec{Name: s.Name + "." + suffix, Tags: tg, Host: s.Source, Class: gsdClass(s), Ser: i, Forbidden: true})
				}
				continue
			}
			for _, sm := range stdTimerSubs(s, w.Disabled) {
				add(s.Name+"."+sm.Suffix, tg, sm.Val, sm.Class)
			}
		case 3:
			add(s.Name, tg, s.Gauge, "gauge")
		case 4:
			add(s.Name, tg, float64(len(s.Members)), "set")
		}
	}
	return out, perSeries
}

type ddSeries struct {
	Series []struct {
		Host     string      `json:"host"`
		Interval *float64    `json:"interval"`
		Metric   *string     `json:"metric"`
		Points   [][]float64 `json:"points"`
		Tags     []string    `json:"tags"`
		Type     string      `json:"type"`
	} `json:"series"`
}

func strictJSON(body []byte, dst interface{}) error {
	dec := json.NewDecoder(bytes.NewReader(body))
	dec.DisallowUnknownFields()
	if err := dec.Decode(dst); err != nil {
		return err
	}
	if _, err := dec.Token(); err != io.EOF {
		return fmt.Errorf("trailing data after the JSON document")
	}
	return nil
}

func decodeDatadog(body []byte) (recs []rec, malformed string) {
	var p ddSeries
	if err := strictJSON(body, &p); err != nil {
		return nil, "json"
	}
	if p.Series == nil {
		return nil, "no-series-member"
	}
	for _, m := range p.Series {
		if m.Metric == nil || *m.Metric == "" {
			return recs, "metric-without-name"
		}
		if len(m.Points) != 1 || len(m.Points[0]) != 2 {
			return recs, "points-shape"
		}
		switch m.Type {
		case "gauge", "rate", "count":
		default:
			return recs, "metric-type"
		}
		if math.IsNaN(m.Points[0][1]) || math.IsInf(m.Points[0][1], 0) {
			return recs, "non-finite-value"
		}
		recs = append(recs, rec{Name: *m.Metric, Tags: sortedJoin(m.Tags, ","), Host: m.Host, Val: m.Points[0][1]})
	}
	return recs, ""
}

func inflate(b []byte) ([]byte, error) {
	zr, err := zlib.NewReader(bytes.NewReader(b))
	if err != nil {
		return nil, err
	}
	out, err := io.ReadAll(zr)
	if err != nil {
		return nil, err
	}
	return out, zr.Close()
}

func maxInt(xs []int) int {
	m := 0
	for _, x := range xs {
		if x > m {
			m = x
		}
	}
	return m
}

func runDatadog(e *env, cs *caseRef, w *workload, rng *rand.Rand) {
	var c datadogCfg
	switch rng.Intn(3) {
	case 0:
		b := false
		c.Compress = &b
	case 1:
		b := true
		c.Compress = &b
	}
	c.MPB = randomMPB(rng)
	if rng.Intn(6) == 0 {
		c.MPB = 21 + rng.Intn(10) // just above the client's look-ahead of 20
	}
	cs.Config = c
	v := newCfg()
	v.Set("datadog.api_endpoint", e.sink.url())
	v.Set("datadog.api_key", "k3y")
	if c.Compress != nil {
		v.Set("datadog.compress_payload", *c.Compress)
	}
	if c.MPB != 0 {
		v.Set("datadog.metrics_per_batch", c.MPB)
	}
	v.Set("flush-interval", "1s")
	setDisabled(v, w.Disabled)
	be, err := e.initBackend(cs, "datadog", v, rng)
	if err != nil {
		e.r.Inconclusive("datadog:factory-error")
		return
	}
	want, perSeries := datadogExpected(w)
	mm := buildMap(w.Series)
	e.sink.take()
	ctx, cancel := context.WithCancel(context.Background())
	defer cancel()
	e.r.Case("datadog case=%d cfg=%s series=%d", cs.Index, jsonString(c), len(w.Series))
	errs, ok := e.send(ctx, be, mm)
	if !ok {
		e.r.Inconclusive("datadog:no-callback")
		return
	}
	if len(errs) > 0 {
		e.r.Inconclusive("datadog:send-error")
		return
	}
	reqs := e.sink.take()
	compress := c.Compress == nil || *c.Compress
	mpb := c.MPB
	if mpb == 0 {
		mpb = 1000
	}
	// The client's unit of batching is the Datadog series (one per sub-metric); it emits the open batch after a
	// map entry once fewer than 20 free slots remain, so a request holds at most max(mpb-21,0) series plus those
	// of one map entry. (Datadog is not among the hard limits the property names; this is the tree's contract.)
	soft := mpb - 21
	if soft < 0 {
		soft = 0
	}
	soft += maxInt(perSeries)
	var got []rec
	malformed := false
	for _, rq := range reqs {
		q, _ := url.ParseQuery(rq.Query)
		if rq.Method != "POST" || rq.Path != "/api/v1/series" || q.Get("api_key") != "k3y" || rq.Header.Get("Content-Type") != "application/json" {
			e.r.Violation("datadog:malformed:request", fmt.Sprintf("%s %s?%s headers %v", rq.Method, rq.Path, rq.Query, rq.Header), cs)
			malformed = true
		}
		body := rq.Body
		if enc := rq.Header.Get("Content-Encoding"); enc == "deflate" {
			if !compress {
				e.r.Violation("datadog:malformed:deflate-although-disabled", "Content-Encoding deflate with compress_payload=false", cs)
			}
			b, err := inflate(body)
			if err != nil {
				e.r.Violation("datadog:malformed:deflate", fmt.Sprintf("body is not a valid zlib stream: %v", err), cs)
				malformed = true
				continue
			}
			body = b
		} else if compress || enc != "" {
			e.r.Violation("datadog:malformed:content-encoding", fmt.Sprintf("Content-Encoding %q with compress_payload=%v", enc, compress), cs)
			malformed = true
		}
		r, bad := decodeDatadog(body)
		if bad != "" {
			e.r.Violation("datadog:malformed:"+bad, fmt.Sprintf("the strict JSON decoder rejects a request body (%s); body starts %q", bad, excerpt(body, 600)), cs)
			malformed = true
		}
		if len(r) > soft {
			e.r.Violation("datadog:batch-over-limit", fmt.Sprintf("a request carries %d series; metrics_per_batch=%d allows at most %d for this state", len(r), mpb, soft), cs)
		}
		got = append(got, r...)
	}
	if !malformed {
		e.compare(cs, "datadog", want, got, exactTol)
	}
	e.account("datadog", fmt.Sprintf("z=%v/mpb=%s", compress, mpbClass(c.MPB)), w, len(reqs), len(got), func() interface{} {
		return map[string]interface{}{"backend": "datadog", "config": c, "series": len(w.Series), "requests": len(reqs), "records": len(got)}
	})
}
