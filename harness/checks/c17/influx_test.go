//go:build verif

package c17

import (
	"bytes"
	"compress/gzip"
	"context"
	"fmt"
	"io"
	"math"
	"math/rand"
	"net/url"
	"sort"
	"strconv"
	"strings"

	"github.com/atlassian/gostatsd"
)

type influxCfg struct {
	Version  int    `json:"version"` // 0 = default (2)
	Compress *bool  `json:"compress"`
	MPB      int    `json:"metrics_per_batch"` // 0 = default (5000)
	Database string `json:"database,omitempty"`
	RP       string `json:"retention_policy,omitempty"`
	Bucket   string `json:"bucket,omitempty"`
	Org      string `json:"org,omitempty"`
	Creds    string `json:"credentials,omitempty"`
}

// influxTags is the documented tag normalisation: value-only tags become unnamed:value, duplicate keys have their
// sorted values joined by "__", keys are sorted.
func influxTags(tags []string) string {
	m := map[string][]string{}
	for _, t := range tags {
		k, v := "unnamed", t
		if i := strings.IndexByte(t, ':'); i >= 0 {
			k, v = t[:i], t[i+1:]
		}
		m[k] = append(m[k], v)
	}
	keys := make([]string, 0, len(m))
	for k := range m {
		keys = append(keys, k)
		sort.Strings(m[k])
	}
	sort.Strings(keys)
	var b strings.Builder
	for i, k := range keys {
		if i > 0 {
			b.WriteByte('\x02')
		}
		b.WriteString(k)
		b.WriteByte('\x03')
		b.WriteString(strings.Join(m[k], "__"))
	}
	return b.String()
}

// influxExpected: one point per series, one record per field. BACKENDS.md: counter count,rate; gauge value; set
// count; timer lower,upper,count,rate,mean,median,stddev,sum,sum_squares + percentile fields; histogram le.<bound>.
func influxExpected(w *workload) (out []rec, points int) {
	d := w.Disabled
	var forbidden []rec
	for i, s := range w.Series {
		tg := influxTags(s.Tags)
		before := len(out)
		add := func(field string, v float64, class string) {
			out = append(out, rec{Name: s.Name + "\x01" + field, Tags: tg, Val: v, Class: class, Ser: i})
		}
		switch s.Type {
		case 1:
			add("count", float64(s.Counter), "counter.count")
			add("rate", s.PerSecond, "counter.rate")
		case 2:
			if s.IsHist {
				for b, cnt := range s.histF {
					add("le."+fmtBound(b), float64(cnt), "timer.histogram")
				}
				for _, field := range []string{"lower", "upper", "count", "rate", "mean", "median", "stddev", "sum", "sum_squares"} {
					forbidden = append(forbidden, rec{Name: s.Name + "\x01" + field, Tags: tg, Class: gsdClass(s), Ser: i, Forbidden: true})
				}
				break
			}
			f := func(disabled bool, field string, v float64) {
				if !disabled {
					add(field, v, "timer."+field)
				}
			}
			f(d.Lower, "lower", s.Min)
			f(d.Upper, "upper", s.Max)
			f(d.Count, "count", float64(s.Count))
			f(d.CountPerSecond, "rate", s.PerSecond)
			f(d.Mean, "mean", s.Mean)
			f(d.Median, "median", s.Median)
			f(d.StdDev, "stddev", s.StdDev)
			f(d.Sum, "sum", s.Sum)
			f(d.SumSquares, "sum_squares", s.SumSquares)
			for _, p := range s.Pcts {
				add(p.Str, p.Float, "timer.pct")
			}
		case 3:
			add("value", s.Gauge, "gauge")
		case 4:
			add("count", float64(len(s.Members)), "set")
		}
		if len(out) > before {
			points++
		}
	}
	return append(out, forbidden...), points
}

// lpToken reads an escaped token of the line protocol up to one of the unescaped stop bytes. A backslash escapes
// comma, space, equals and backslash; before any other byte it is literal.
func lpToken(s string, pos int, stops string) (tok string, next int, stop byte) {
	var b strings.Builder
	i := pos
	for i < len(s) {
		c := s[i]
		if c == '\\' && i+1 < len(s) && strings.IndexByte(", =\\", s[i+1]) >= 0 {
			b.WriteByte(s[i+1])
			i += 2
			continue
		}
		if strings.IndexByte(stops, c) >= 0 {
			return b.String(), i + 1, c
		}
		b.WriteByte(c)
		i++
	}
	return b.String(), i, 0
}

// decodeInfluxLine is the strict decoder of one point: measurement[,k=v]* field=number[,field=number]* timestamp.
func decodeInfluxLine(line string) (recs []rec, malformed string) {
	if strings.ContainsAny(line, "\t\r\x00") {
		return nil, "control-character"
	}
	meas, pos, stop := lpToken(line, 0, ", ")
	if meas == "" {
		return nil, "empty-measurement"
	}
	if stop == 0 {
		return nil, "no-field-set"
	}
	tags := map[string]string{}
	for stop == ',' {
		var k, v string
		k, pos, stop = lpToken(line, pos, "=, ")
		if stop != '=' {
			return nil, "tag-without-equals"
		}
		if k == "" {
			return nil, "empty-tag-key"
		}
		v, pos, stop = lpToken(line, pos, ", =")
		if stop == '=' {
			return nil, "unescaped-equals-in-tag-value"
		}
		if v == "" {
			return nil, "empty-tag-value"
		}
		if _, dup := tags[k]; dup {
			return nil, "duplicate-tag-key"
		}
		tags[k] = v
	}
	if stop != ' ' {
		return nil, "no-field-set"
	}
	keys := make([]string, 0, len(tags))
	for k := range tags {
		keys = append(keys, k)
	}
	sort.Strings(keys)
	var tb strings.Builder
	for i, k := range keys {
		if i > 0 {
			tb.WriteByte('\x02')
		}
		tb.WriteString(k)
		tb.WriteByte('\x03')
		tb.WriteString(tags[k])
	}
	seen := map[string]bool{}
	for {
		var k, v string
		k, pos, stop = lpToken(line, pos, "=, ")
		if stop != '=' || k == "" {
			return nil, "field-without-key-or-equals"
		}
		v, pos, stop = lpToken(line, pos, ", =")
		if stop == '=' {
			return nil, "unescaped-equals-in-field-value"
		}
		f, err := strconv.ParseFloat(v, 64)
		if err != nil || math.IsNaN(f) || math.IsInf(f, 0) {
			return nil, "field-value-not-a-finite-number"
		}
		if seen[k] {
			return nil, "duplicate-field-key"
		}
		seen[k] = true
		recs = append(recs, rec{Name: meas + "\x01" + k, Tags: tb.String(), Val: f})
		if stop == ',' {
			continue
		}
		break
	}
	if stop != ' ' {
		return nil, "no-timestamp"
	}
	if ts, err := strconv.ParseInt(line[pos:], 10, 64); err != nil || ts <= 0 {
		return nil, "bad-timestamp"
	}
	return recs, ""
}

func decodeInfluxBody(body []byte) (recs []rec, points int, malformed string) {
	if len(body) == 0 {
		return nil, 0, "empty-body"
	}
	if body[len(body)-1] != '\n' {
		return nil, 0, "unterminated-last-line"
	}
	for _, line := range strings.Split(string(body[:len(body)-1]), "\n") {
		r, bad := decodeInfluxLine(line)
		if bad != "" {
			return recs, points, bad
		}
		recs = append(recs, r...)
		points++
	}
	return recs, points, ""
}

func gunzip(b []byte) ([]byte, error) {
	zr, err := gzip.NewReader(bytes.NewReader(b))
	if err != nil {
		return nil, err
	}
	out, err := io.ReadAll(zr)
	if err != nil {
		return nil, err
	}
	return out, zr.Close()
}

func randomMPB(rng *rand.Rand) int {
	switch rng.Intn(10) {
	case 0:
		return 0 // default
	case 1, 2:
		return 1
	case 3:
		return 2
	case 4:
		return 50
	}
	return 1 + rng.Intn(50)
}

func runInflux(e *env, cs *caseRef, w *workload, rng *rand.Rand) {
	var c influxCfg
	c.Version = []int{0, 1, 2}[rng.Intn(3)]
	switch rng.Intn(3) {
	case 0:
		b := false
		c.Compress = &b
	case 1:
		b := true
		c.Compress = &b
	}
	c.MPB = randomMPB(rng)
	if c.Version == 1 {
		c.Database = "db" + strconv.Itoa(rng.Intn(10))
		if rng.Intn(2) == 0 {
			c.RP = "rp"
		}
	} else {
		c.Bucket = "bucket/" + strconv.Itoa(rng.Intn(10))
		c.Org = "org" + strconv.Itoa(rng.Intn(10))
	}
	if rng.Intn(3) == 0 {
		c.Creds = "user:secret"
	}
	cs.Config = c
	v := newCfg()
	v.Set("influxdb.api-endpoint", e.sink.url())
	if c.Version != 0 {
		v.Set("influxdb.api-version", c.Version)
	}
	if c.Compress != nil {
		v.Set("influxdb.compress-payload", *c.Compress)
	}
	if c.MPB != 0 {
		v.Set("influxdb.metrics-per-batch", c.MPB)
	}
	if c.Version == 1 {
		v.Set("influxdb.database", c.Database)
		if c.RP != "" {
			v.Set("influxdb.retention-policy", c.RP)
		}
	} else {
		v.Set("influxdb.bucket", c.Bucket)
		v.Set("influxdb.org", c.Org)
	}
	if c.Creds != "" {
		v.Set("influxdb.credentials", c.Creds)
	}
	setDisabled(v, w.Disabled)
	be, err := e.initBackend(cs, "influxdb", v, rng)
	if err != nil {
		e.r.Inconclusive("influxdb:factory-error")
		return
	}
	want, _ := influxExpected(w)
	mm := buildMap(w.Series)
	e.sink.take()
	ctx, cancel := context.WithCancel(context.Background())
	defer cancel()
	e.r.Case("influxdb case=%d cfg=%s series=%d", cs.Index, jsonString(c), len(w.Series))
	errs, ok := e.send(ctx, be, mm)
	if !ok {
		e.r.Inconclusive("influxdb:no-callback")
		return
	}
	if len(errs) > 0 {
		e.r.Inconclusive("influxdb:send-error")
		return
	}
	reqs := e.sink.take()
	compress := c.Compress == nil || *c.Compress
	limit := c.MPB
	if limit == 0 {
		limit = 5000
	}
	var got []rec
	malformed := false
	for _, rq := range reqs {
		if bad := influxRequestLine(rq, c); bad != "" {
			e.r.Violation("influxdb:malformed:request:"+bad, fmt.Sprintf("%s %s?%s headers %v", rq.Method, rq.Path, rq.Query, rq.Header), cs)
			malformed = true
		}
		body := rq.Body
		if enc := rq.Header.Get("Content-Encoding"); enc == "gzip" {
			if !compress {
				e.r.Violation("influxdb:malformed:gzip-although-disabled", "Content-Encoding gzip with compress-payload=false", cs)
			}
			b, err := gunzip(body)
			if err != nil {
				e.r.Violation("influxdb:malformed:gzip", fmt.Sprintf("body is not a valid gzip stream: %v", err), cs)
				malformed = true
				continue
			}
			body = b
		} else if compress || enc != "identity" {
			e.r.Violation("influxdb:malformed:content-encoding", fmt.Sprintf("Content-Encoding %q with compress-payload=%v", enc, compress), cs)
			malformed = true
		}
		r, n, bad := decodeInfluxBody(body)
		if bad != "" {
			e.r.Violation("influxdb:malformed:"+bad, fmt.Sprintf("the strict line protocol decoder rejects a request body (%s); body starts %q", bad, excerpt(body, 600)), cs)
			malformed = true
		}
		// hard limit; the unit of metrics-per-batch is the point (one line per series)
		if n > limit {
			e.r.Violation("influxdb:batch-over-limit", fmt.Sprintf("a request carries %d points, metrics-per-batch is %d", n, limit), cs)
		}
		got = append(got, r...)
	}
	if !malformed {
		e.compare(cs, "influxdb", want, got, exactTol)
	}
	cls := fmt.Sprintf("v%d/gz=%v/mpb=%s/esc=%v", c.Version, compress, mpbClass(c.MPB), w.EscapeTags)
	e.account("influxdb", cls, w, len(reqs), len(got), func() interface{} {
		return map[string]interface{}{"backend": "influxdb", "config": c, "series": len(w.Series), "requests": len(reqs), "records": len(got)}
	})
}

func mpbClass(n int) string {
	switch {
	case n == 0:
		return "default"
	case n == 1:
		return "1"
	case n <= 5:
		return "2-5"
	case n <= 20:
		return "6-20"
	}
	return "21-50"
}

// influxRequestLine checks method, path and query of a write request against the documented API versions.
func influxRequestLine(rq httpReq, c influxCfg) string {
	if rq.Method != "POST" {
		return "method"
	}
	q, err := url.ParseQuery(rq.Query)
	if err != nil {
		return "query"
	}
	if q.Get("precision") != "s" {
		return "precision"
	}
	if c.Version == 1 {
		if rq.Path != "/write" {
			return "path-v1"
		}
		if q.Get("database") != c.Database || q.Get("rp") != c.RP {
			return "query-v1"
		}
	} else {
		if rq.Path != "/api/v2/write" {
			return "path-v2"
		}
		if q.Get("bucket") != c.Bucket || q.Get("org") != c.Org {
			return "query-v2"
		}
	}
	want := ""
	if c.Creds != "" {
		want = "Token " + c.Creds
	}
	if rq.Header.Get("Authorization") != want {
		return "authorization"
	}
	return ""
}

var _ = gostatsd.TimerSubtypes{}
