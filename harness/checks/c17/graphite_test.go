//go:build verif

package c17

import (
	"context"
	"fmt"
	"math"
	"math/rand"
	"sort"
	"strconv"
	"strings"

	"github.com/atlassian/gostatsd/pkg/backends/graphite"
)

type graphiteCfg struct {
	Mode          string `json:"mode"` // "" = default (tags)
	Defaults      bool   `json:"defaults"`
	GlobalPrefix  string `json:"global_prefix"`
	PrefixCounter string `json:"prefix_counter"`
	PrefixTimer   string `json:"prefix_timer"`
	PrefixGauge   string `json:"prefix_gauge"`
	PrefixSet     string `json:"prefix_set"`
	GlobalSuffix  string `json:"global_suffix"`
}

var graphitePrefixes = []string{"", "stats", "my.pre", ".dotted.", "sp ace", "a/b", "bad!ch@rs", "stats.prod.", "x"}
var graphiteSuffixes = []string{"", "", "sfx", ".end.", "s p", "p/q", "w!z"}

// graphiteNorm is BACKENDS.md / the doc comment of normalizeMetricName: whitespace runs become "_", "/" becomes
// "-", anything else outside [a-zA-Z0-9_.-] is deleted.
func graphiteNorm(s string) string {
	var b strings.Builder
	inSpace := false
	for i := 0; i < len(s); i++ {
		c := s[i]
		if c == ' ' || c == '\t' || c == '\n' || c == '\f' || c == '\r' {
			if !inSpace {
				b.WriteByte('_')
			}
			inSpace = true
			continue
		}
		inSpace = false
		switch {
		case c == '/':
			b.WriteByte('-')
		case c >= 'a' && c <= 'z', c >= 'A' && c <= 'Z', c >= '0' && c <= '9', c == '_', c == '.', c == '-':
			b.WriteByte(c)
		}
	}
	return b.String()
}

func graphiteCombine(prefix, suffix string) string {
	prefix = strings.Trim(prefix, ".")
	suffix = strings.Trim(suffix, ".")
	switch {
	case prefix != "" && suffix != "":
		return prefix + "." + suffix
	case prefix != "":
		return prefix
	}
	return suffix
}

type graphiteNames struct {
	counter, counterLegacyCount, timer, gauge, set, suffix string
	legacy, tags                                           bool
}

func (c graphiteCfg) names() graphiteNames {
	mode := c.Mode
	if mode == "" {
		mode = "tags"
	}
	gp, pc, pt, pg, ps, sfx := c.GlobalPrefix, c.PrefixCounter, c.PrefixTimer, c.PrefixGauge, c.PrefixSet, c.GlobalSuffix
	if c.Defaults {
		gp, pc, pt, pg, ps, sfx = "stats", "counters", "timers", "gauges", "sets", ""
	}
	n := graphiteNames{legacy: mode == "legacy", tags: mode == "tags"}
	n.suffix = graphiteNorm(strings.Trim(sfx, "."))
	if n.legacy {
		n.counter, n.counterLegacyCount, n.timer, n.gauge, n.set = "stats", "stats_counts", "stats.timers", "stats.gauges", "stats.sets"
		return n
	}
	n.counter = graphiteNorm(graphiteCombine(gp, pc))
	n.timer = graphiteNorm(graphiteCombine(gp, pt))
	n.gauge = graphiteNorm(graphiteCombine(gp, pg))
	n.set = graphiteNorm(graphiteCombine(gp, ps))
	return n
}

// path is `[namespace.]<metricname>[.aggregation_suffix][.global_suffix]`.
func (n graphiteNames) path(ns, name, agg string) string {
	p := graphiteNorm(name)
	if ns != "" {
		p = ns + "." + p
	}
	if agg != "" {
		p += "." + agg
	}
	if n.suffix != "" {
		p += "." + n.suffix
	}
	return p
}

// graphiteTags: `key:value` -> `key=value`, `value` -> `unnamed=value`, plus host=<source> unless a host: tag exists.
func graphiteTags(tags []string, source string, enabled bool) string {
	if !enabled {
		return ""
	}
	var out []string
	haveHost := false
	for _, t := range tags {
		if i := strings.IndexByte(t, ':'); i >= 0 {
			out = append(out, t[:i]+"="+t[i+1:])
		} else {
			out = append(out, "unnamed="+t)
		}
		if strings.HasPrefix(t, "host:") {
			haveHost = true
		}
	}
	if !haveHost && source != "" {
		out = append(out, "host="+source)
	}
	sort.Strings(out)
	return strings.Join(out, ";")
}

func graphiteExpected(w *workload, c graphiteCfg) []rec {
	n := c.names()
	var out []rec
	for i, s := range w.Series {
		tg := graphiteTags(s.Tags, s.Source, n.tags)
		add := func(path string, v float64, class string) {
			out = append(out, rec{Name: path, Tags: tg, Val: v, Class: class, Ser: i})
		}
		switch s.Type {
		case 1:
			if n.legacy {
				add(n.path(n.counterLegacyCount, s.Name, ""), float64(s.Counter), "counter.count")
				add(n.path(n.counter, s.Name, ""), s.PerSecond, "counter.rate")
			} else {
				add(n.path(n.counter, s.Name, "count"), float64(s.Counter), "counter.count")
				add(n.path(n.counter, s.Name, "rate"), s.PerSecond, "counter.rate")
			}
		case 2:
			if s.IsHist {
				for b, cnt := range s.histF {
					out = append(out, rec{Name: n.path(n.counter, s.Name, "histogram"), Tags: graphiteTags(append(append([]string(nil), s.Tags...), leTag(b)), s.Source, n.tags), Val: float64(cnt), Class: "timer.histogram", Ser: i})
				}
				for _, suffix := range allTimerSubs() {
					out = append(out, rec{Name: n.path(n.timer, s.Name, suffix), Tags: tg, Class: gsdClass(s), Ser: i, Forbidden: true})
				}
				continue
			}
			for _, sm := range stdTimerSubs(s, w.Disabled) {
				add(n.path(n.timer, s.Name, sm.Suffix), sm.Val, sm.Class)
			}
		case 3:
			add(n.path(n.gauge, s.Name, ""), s.Gauge, "gauge")
		case 4:
			add(n.path(n.set, s.Name, ""), float64(len(s.Members)), "set")
		}
	}
	return out
}

// decodeGraphite is the strict decoder of the plaintext protocol with tags: `path[;k=v]* value timestamp\n`.
func decodeGraphite(payload []byte) (recs []rec, malformed string) {
	if len(payload) == 0 {
		return nil, ""
	}
	if payload[len(payload)-1] != '\n' {
		return nil, "unterminated-last-line"
	}
	for _, line := range strings.Split(string(payload[:len(payload)-1]), "\n") {
		f := strings.Split(line, " ")
		if len(f) != 3 || f[0] == "" {
			return recs, "not-three-fields"
		}
		v, err := strconv.ParseFloat(f[1], 64)
		if err != nil || math.IsNaN(v) || math.IsInf(v, 0) {
			return recs, "value-not-a-finite-number"
		}
		if ts, err := strconv.ParseInt(f[2], 10, 64); err != nil || ts <= 0 {
			return recs, "bad-timestamp"
		}
		parts := strings.Split(f[0], ";")
		if parts[0] == "" {
			return recs, "empty-path"
		}
		for i := 0; i < len(parts[0]); i++ {
			c := parts[0][i]
			if !(c >= 'a' && c <= 'z' || c >= 'A' && c <= 'Z' || c >= '0' && c <= '9' || c == '_' || c == '.' || c == '-') {
				return recs, "path-character-outside-class"
			}
		}
		tags := append([]string(nil), parts[1:]...)
		for _, t := range tags {
			i := strings.IndexByte(t, '=')
			switch {
			case i < 0:
				return recs, "tag-without-equals"
			case i == 0:
				return recs, "empty-tag-name"
			case i == len(t)-1:
				return recs, "empty-tag-value"
			case strings.ContainsAny(t[:i], "!^"):
				return recs, "tag-name-character"
			case t[i+1] == '~':
				return recs, "tag-value-starts-with-tilde"
			}
		}
		sort.Strings(tags)
		recs = append(recs, rec{Name: parts[0], Tags: strings.Join(tags, ";"), Val: v})
	}
	return recs, ""
}

func runGraphite(e *env, cs *caseRef, w *workload, rng *rand.Rand) {
	var c graphiteCfg
	c.Mode = []string{"", "tags", "tags", "basic", "legacy"}[rng.Intn(5)]
	if rng.Intn(3) == 0 {
		c.Defaults = true
	} else {
		pick := func(pool []string) string { return pool[rng.Intn(len(pool))] }
		c.GlobalPrefix, c.PrefixCounter, c.PrefixTimer, c.PrefixGauge, c.PrefixSet = pick(graphitePrefixes), pick(graphitePrefixes), pick(graphitePrefixes), pick(graphitePrefixes), pick(graphitePrefixes)
		c.GlobalSuffix = pick(graphiteSuffixes)
	}
	if w.EdgeTags && c.Mode != "" {
		c.Mode = "tags" // the family is about how tags are written
	}
	cs.Config = c
	v := newCfg()
	v.Set("graphite.address", "127.0.0.1:2003")
	if c.Mode != "" {
		v.Set("graphite.mode", c.Mode)
	}
	if !c.Defaults {
		v.Set("graphite.global_prefix", c.GlobalPrefix)
		v.Set("graphite.prefix_counter", c.PrefixCounter)
		v.Set("graphite.prefix_timer", c.PrefixTimer)
		v.Set("graphite.prefix_gauge", c.PrefixGauge)
		v.Set("graphite.prefix_set", c.PrefixSet)  // the key the code reads
		v.Set("graphite.prefix_sets", c.PrefixSet) // the key BACKENDS.md documents
		v.Set("graphite.global_suffix", c.GlobalSuffix)
	}
	setDisabled(v, w.Disabled)
	be, err := e.initBackend(cs, "graphite", v, rng)
	if err != nil {
		e.r.Inconclusive("graphite:factory-error")
		return
	}
	client := be.(*graphite.Client)
	recd := &connRecorder{}
	client.VerifSetConnFactory(recd.factory)
	ctx, cancel := context.WithCancel(context.Background())
	defer cancel()
	go client.Run(ctx)

	want := graphiteExpected(w, c)
	mm := buildMap(w.Series)
	e.r.Case("graphite case=%d cfg=%s series=%d", cs.Index, jsonString(c), len(w.Series))
	errs, ok := e.send(ctx, be, mm)
	if !ok {
		e.r.Inconclusive("graphite:no-callback")
		return
	}
	if len(errs) > 0 {
		e.r.Inconclusive("graphite:send-error")
		return
	}
	writes := recd.take()
	var stream []byte
	for _, wr := range writes {
		stream = append(stream, wr...)
	}
	got, bad := decodeGraphite(stream)
	if bad != "" {
		e.r.Violation("graphite:malformed:"+bad, fmt.Sprintf("the strict Graphite decoder rejects the payload (%s) after %d records; payload starts %q", bad, len(got), excerpt(stream, 600)), cs)
	} else {
		e.compare(cs, "graphite", want, got, f6Tol)
	}
	mode := c.Mode
	if mode == "" {
		mode = "default"
	}
	e.account("graphite", fmt.Sprintf("%s/def=%v/sfx=%v", mode, c.Defaults, c.GlobalSuffix != ""), w, len(writes), len(got), func() interface{} {
		return map[string]interface{}{"backend": "graphite", "config": c, "series": len(w.Series), "records": len(got), "payload_excerpt": excerpt(stream, 300)}
	})
}
