//go:build verif

package c17

import (
	"context"
	"fmt"
	"math"
	"math/rand"
	"sort"
	"strconv"
	"strings"

	"github.com/atlassian/gostatsd/pkg/backends/cloudwatch"

	"verif/mon"
)

// ---- CloudWatch ---------------------------------------------------------------------------------------------

type cwCfg struct {
	Namespace string `json:"namespace"`
}

// cwDims: key:value -> dimension key=value, value-only tag -> dimension tag=set.
func cwDims(tags []string) string {
	var out []string
	for _, t := range tags {
		if i := strings.IndexByte(t, ':'); i >= 0 {
			out = append(out, t[:i]+"\x03"+t[i+1:])
		} else {
			out = append(out, t+"\x03set")
		}
	}
	sort.Strings(out)
	return strings.Join(out, "\x02")
}

// cwExpected (from the source): stats.counter.<name>.count / .per_second, stats.timers.<name>.<sub-metric>,
// stats.timers.<name>.histogram + le dimension, stats.gauge.<name>, stats.set.<name>. The source is not carried.
func cwExpected(w *workload) []rec {
	var out []rec
	for i, s := range w.Series {
		tg := cwDims(s.Tags)
		add := func(name, tags string, v float64, class string) {
			out = append(out, rec{Name: name, Tags: tags, Val: v, Class: class, Ser: i})
		}
		switch s.Type {
		case 1:
			add("stats.counter."+s.Name+".count", tg, float64(s.Counter), "counter.count")
			add("stats.counter."+s.Name+".per_second", tg, s.PerSecond, "counter.rate")
		case 2:
			if s.IsHist {
				for b, cnt := range s.histF {
					add("stats.timers."+s.Name+".histogram", cwDims(append(append([]string(nil), s.Tags...), leTag(b))), float64(cnt), "timer.histogram")
				}
				for _, suffix := range allTimerSubs() {
					out = append(out, rec{Name: "stats.timers." + s.Name + "." + suffix, Tags: tg, Class: gsdClass(s), Ser: i, Forbidden: true})
				}
				continue
			}
			for _, sm := range stdTimerSubs(s, w.Disabled) {
				add("stats.timers."+s.Name+"."+sm.Suffix, tg, sm.Val, sm.Class)
			}
		case 3:
			add("stats.gauge."+s.Name, tg, s.Gauge, "gauge")
		case 4:
			add("stats.set."+s.Name, tg, float64(len(s.Members)), "set")
		}
	}
	return out
}

func runCloudwatch(e *env, cs *caseRef, w *workload, rng *rand.Rand) {
	c := cwCfg{Namespace: []string{"StatsD", "ns/" + strconv.Itoa(rng.Intn(10))}[rng.Intn(2)]}
	cs.Config = c
	// cloudwatch.NewClientFromViper cannot load an AWS configuration in this sandbox (AWS_CA_BUNDLE); the verif
	// constructor builds the same Client around the recording API.
	e.cw.take()
	be := cloudwatch.VerifNewClient(e.cw, c.Namespace, w.Disabled, e.logger)
	want := cwExpected(w)
	mm := buildMap(w.Series)
	ctx, cancel := context.WithCancel(context.Background())
	defer cancel()
	e.r.Case("cloudwatch case=%d cfg=%s series=%d", cs.Index, jsonString(c), len(w.Series))
	errs, ok := e.send(ctx, be, mm)
	if !ok {
		e.r.Inconclusive("cloudwatch:no-callback")
		return
	}
	if len(errs) > 0 {
		e.r.Inconclusive("cloudwatch:send-error")
		return
	}
	inputs := e.cw.take()
	var got []rec
	malformed := false
	for _, in := range inputs {
		if in == nil || in.Namespace == nil || *in.Namespace != c.Namespace {
			e.r.Violation("cloudwatch:malformed:namespace", "PutMetricDataInput without the configured namespace", cs)
			malformed = true
			continue
		}
		// hard limit: 20 data per call
		if len(in.MetricData) > 20 {
			e.r.Violation("cloudwatch:batch-over-limit", fmt.Sprintf("a PutMetricData call carries %d data, the limit is 20", len(in.MetricData)), cs)
		}
		if len(in.MetricData) == 0 {
			e.r.Violation("cloudwatch:malformed:empty-call", "a PutMetricData call without data", cs)
			malformed = true
		}
		for _, d := range in.MetricData {
			if d.MetricName == nil || *d.MetricName == "" || d.Value == nil || d.Timestamp == nil {
				e.r.Violation("cloudwatch:malformed:datum", "MetricDatum without name, value or timestamp", cs)
				malformed = true
				continue
			}
			if math.IsNaN(*d.Value) || math.IsInf(*d.Value, 0) {
				e.r.Violation("cloudwatch:malformed:non-finite-value", "MetricDatum with a non-finite value", cs)
				malformed = true
				continue
			}
			var dims []string
			bad := ""
			for _, dm := range d.Dimensions {
				switch {
				case dm.Name == nil || dm.Value == nil:
					bad = "dimension-without-name-or-value"
				case *dm.Name == "":
					bad = "empty-dimension-name"
				case *dm.Value == "":
					bad = "empty-dimension-value"
				default:
					dims = append(dims, *dm.Name+"\x03"+*dm.Value)
				}
			}
			if bad != "" {
				e.r.Violation("cloudwatch:malformed:"+bad, fmt.Sprintf("MetricDatum %q has a dimension the API rejects (%s)", *d.MetricName, bad), cs)
				malformed = true
				continue
			}
			sort.Strings(dims)
			got = append(got, rec{Name: *d.MetricName, Tags: strings.Join(dims, "\x02"), Val: *d.Value})
		}
	}
	if !malformed {
		e.compare(cs, "cloudwatch", want, got, exactTol)
	}
	e.account("cloudwatch", "ns="+strconv.FormatBool(c.Namespace == "StatsD"), w, len(inputs), len(got), func() interface{} {
		return map[string]interface{}{"backend": "cloudwatch", "config": c, "series": len(w.Series), "calls": len(inputs), "records": len(got)}
	})
}

// ---- stdout -------------------------------------------------------------------------------------------------

// stdoutName (from the source): the key followed by every tag of the series key (tags, then s:<source>) with
// ':' replaced by '.', joined by '.'.
func stdoutName(s *series) string {
	name := s.Name
	tags := append([]string(nil), s.Tags...)
	sort.Strings(tags)
	if s.Source != "" {
		tags = append(tags, "s:"+s.Source)
	}
	for _, t := range tags {
		if t != "" {
			name += "." + strings.ReplaceAll(t, ":", ".")
		}
	}
	return name
}

func stdoutExpected(w *workload) []rec {
	var out []rec
	for i, s := range w.Series {
		nk := stdoutName(s)
		add := func(name string, v float64, class string) {
			out = append(out, rec{Name: name, Val: v, Class: class, Ser: i})
		}
		switch s.Type {
		case 1:
			add("stats.counter."+nk+".count", float64(s.Counter), "counter.count")
			add("stats.counter."+nk+".per_second", s.PerSecond, "counter.rate")
		case 2:
			if s.IsHist {
				for b, cnt := range s.histF {
					add("stats.timers."+nk+".histogram."+leTag(b), float64(cnt), "timer.histogram")
				}
				for _, suffix := range allTimerSubs() {
					out = append(out, rec{Name: "stats.timers." + nk + "." + suffix, Class: gsdClass(s), Ser: i, Forbidden: true})
				}
				continue
			}
			for _, sm := range stdTimerSubs(s, w.Disabled) {
				add("stats.timers."+nk+"."+sm.Suffix, sm.Val, sm.Class)
			}
		case 3:
			add("stats.gauge."+nk, s.Gauge, "gauge")
		case 4:
			add("stats.set."+nk, float64(len(s.Members)), "set")
		}
	}
	return out
}

// decodeStdoutLine: `<name> <value> <timestamp>`.
func decodeStdoutLine(line string) (rec, string) {
	f := strings.Split(line, " ")
	if len(f) != 3 || f[0] == "" {
		return rec{}, "not-three-fields"
	}
	if !strings.HasPrefix(f[0], "stats.") {
		return rec{}, "name-without-stats-prefix"
	}
	v, err := strconv.ParseFloat(f[1], 64)
	if err != nil || math.IsNaN(v) || math.IsInf(v, 0) {
		return rec{}, "value-not-a-finite-number"
	}
	if ts, err := strconv.ParseInt(f[2], 10, 64); err != nil || ts <= 0 {
		return rec{}, "bad-timestamp"
	}
	return rec{Name: f[0], Val: v}, ""
}

func runStdout(e *env, cs *caseRef, w *workload, rng *rand.Rand) {
	v := newCfg()
	setDisabled(v, w.Disabled)
	be, err := e.initBackend(cs, "stdout", v, rng)
	if err != nil {
		e.r.Inconclusive("stdout:factory-error")
		return
	}
	want := stdoutExpected(w)
	mm := buildMap(w.Series)
	e.stdout.take()
	ctx, cancel := context.WithCancel(context.Background())
	defer cancel()
	e.r.Case("stdout case=%d series=%d", cs.Index, len(w.Series))
	errs, ok := e.send(ctx, be, mm)
	if !ok {
		e.r.Inconclusive("stdout:no-callback")
		return
	}
	if len(errs) > 0 {
		e.r.Inconclusive("stdout:send-error")
		return
	}
	// the flush is complete when the logrus goroutine that turns the written bytes into log lines has ended
	if !mon.WaitUntil(watchdog, func() bool { return !scannersRunning() }) {
		e.r.Inconclusive("stdout:writer-goroutine-still-running")
		return
	}
	lines := e.stdout.take()
	var got []rec
	malformed := false
	for _, l := range lines {
		r, bad := decodeStdoutLine(l)
		if bad != "" {
			e.r.Violation("stdout:malformed:"+bad, fmt.Sprintf("line %q is not `<name> <value> <timestamp>` (%s)", l, bad), cs)
			malformed = true
			continue
		}
		got = append(got, r)
	}
	if !malformed {
		e.compare(cs, "stdout", want, got, f6Tol)
	}
	e.account("stdout", "text", w, 1, len(got), func() interface{} {
		first := ""
		if len(lines) > 0 {
			first = lines[0]
		}
		return map[string]interface{}{"backend": "stdout", "series": len(w.Series), "lines": len(lines), "first_line": first}
	})
}
