//go:build verif

// C02 — the line parser accepts exactly the documented grammar and extracts its fields.
package c02

import (
	"fmt"
	"math"
	"math/rand"
	"strings"
	"testing"

	"github.com/atlassian/gostatsd"
	"github.com/atlassian/gostatsd/pkg/statsd"

	"verif/gen"
	"verif/mon"
)

type lexCase struct {
	Kind      string `json:"kind"`
	Line      string `json:"line"`
	LineHex   string `json:"line_hex"`
	Namespace string `json:"namespace"`
}

func mkCase(kind string, line []byte, ns string) lexCase {
	return lexCase{Kind: kind, Line: string(line), LineHex: fmt.Sprintf("%x", line), Namespace: ns}
}

var namespaces = []string{"", "", "", "ns", "a.b", "stats_-x"}

func sameFloat(a, b float64) bool {
	return a == b && math.Signbit(a) == math.Signbit(b)
}

func tagsEqual(a []string, b gostatsd.Tags) bool {
	if len(a) != len(b) {
		return false
	}
	for i := range a {
		if a[i] != b[i] {
			return false
		}
	}
	return true
}

// wellFormed checks the implications that hold for everything accepted.
func wellFormed(m *gostatsd.Metric, e *gostatsd.Event) string {
	var tags gostatsd.Tags
	if m != nil {
		if m.Name == "" {
			return "empty-name"
		}
		if m.Type != gostatsd.SET && math.IsNaN(m.Value) {
			return "nan-value"
		}
		if !(m.Rate > 0) || math.IsInf(m.Rate, 0) {
			return "bad-rate"
		}
		if m.Type < gostatsd.COUNTER || m.Type > gostatsd.SET {
			return "bad-type"
		}
		tags = m.Tags
	} else {
		tags = e.Tags
	}
	for _, t := range tags {
		if t == "" {
			return "empty-tag"
		}
		if strings.ContainsAny(t, ",|") {
			return "tag-with-separator"
		}
	}
	return ""
}

type checker struct {
	r  *mon.Run
	lx *statsd.VerifLexer
}

// run lexes a copy of line and applies the oracles that hold for every byte string.
func (c *checker) run(kind string, line []byte, ns string) (*gostatsd.Metric, *gostatsd.Event, error) {
	buf := append([]byte(nil), line...)
	var (
		m   *gostatsd.Metric
		e   *gostatsd.Event
		err error
	)
	cs := mkCase(kind, line, ns)
	if c.r.Guard("lexer-panic", cs, func() { m, e, err = c.lx.Run(buf, ns) }) {
		return nil, nil, fmt.Errorf("panicked")
	}
	c.r.Eval(1)
	if err == nil {
		if (m == nil) == (e == nil) {
			c.r.Violation("accepted-without-result", fmt.Sprintf("line %q: metric=%v event=%v err=nil", line, m, e), cs)
			return m, e, err
		}
		if why := wellFormed(m, e); why != "" {
			c.r.Violation("accepted-malformed:"+why, fmt.Sprintf("line %q (ns %q) accepted as %+v %+v", line, ns, m, e), cs)
		}
		if reason := gen.Reject(line); reason != "" {
			c.r.Violation("accepted-must-reject:"+reason, fmt.Sprintf("line %q accepted as %+v although the grammar requires rejection (%s)", line, m, reason), cs)
		}
		c.r.Event("accepted", 1)
	} else {
		c.r.Event("rejected", 1)
	}
	return m, e, err
}

func (c *checker) derivedMetric(rng *rand.Rand, o gen.LineOpts) {
	d := gen.Metric(rng, o)
	ns := namespaces[rng.Intn(len(namespaces))]
	m, _, err := c.run("derived-metric", []byte(d.Line), ns)
	cs := mkCase("derived-metric", []byte(d.Line), ns)
	if err != nil || m == nil {
		c.r.Violation("derived-metric-rejected", fmt.Sprintf("grammar-derived line %q rejected: %v", d.Line, err), cs)
		return
	}
	wantName := d.Name
	if ns != "" {
		wantName = ns + "." + d.Name
	}
	var bad []string
	if m.Name != wantName {
		bad = append(bad, fmt.Sprintf("name %q want %q", m.Name, wantName))
	}
	if int(m.Type) != d.Type {
		bad = append(bad, fmt.Sprintf("type %v want %d", m.Type, d.Type))
	}
	if d.Type == gen.Set {
		if m.StringValue != d.StrValue {
			bad = append(bad, fmt.Sprintf("set value %q want %q", m.StringValue, d.StrValue))
		}
	} else if !sameFloat(m.Value, d.Value) {
		bad = append(bad, fmt.Sprintf("value %v want %v", m.Value, d.Value))
	}
	if !sameFloat(m.Rate, d.Rate) {
		bad = append(bad, fmt.Sprintf("rate %v want %v", m.Rate, d.Rate))
	}
	if !tagsEqual(d.Tags, m.Tags) {
		bad = append(bad, fmt.Sprintf("tags %q want %q", m.Tags, d.Tags))
	}
	if m.Source != "" || m.Timestamp != 0 {
		bad = append(bad, "source/timestamp set by lexer")
	}
	if len(bad) > 0 {
		c.r.Violation("derived-metric-field:"+strings.SplitN(bad[0], " ", 2)[0], fmt.Sprintf("line %q ns %q: %s", d.Line, ns, strings.Join(bad, "; ")), cs)
	}
	if len(d.Shape) > 1 {
		c.r.Nontrivial("m:" + d.Shape + ":" + fmt.Sprint(ns != ""))
	}
	if c.r.WantSample() && len(d.Shape) > 2 {
		c.r.Sample(map[string]interface{}{"line": d.Line, "namespace": ns, "expected": d})
	}
	m.Done()
}

func (c *checker) derivedEvent(rng *rand.Rand, o gen.LineOpts) {
	d := gen.Event(rng, o)
	ns := namespaces[rng.Intn(len(namespaces))]
	_, e, err := c.run("derived-event", []byte(d.Line), ns)
	cs := mkCase("derived-event", []byte(d.Line), ns)
	if err != nil || e == nil {
		c.r.Violation("derived-event-rejected", fmt.Sprintf("grammar-derived event %q rejected: %v", d.Line, err), cs)
		return
	}
	var bad []string
	if e.Title != d.Title {
		bad = append(bad, fmt.Sprintf("title %q want %q", e.Title, d.Title))
	}
	if e.Text != d.Text {
		bad = append(bad, fmt.Sprintf("text %q want %q", e.Text, d.Text))
	}
	if e.DateHappened != d.DateHappened {
		bad = append(bad, fmt.Sprintf("date %d want %d", e.DateHappened, d.DateHappened))
	}
	if string(e.Source) != d.Hostname {
		bad = append(bad, fmt.Sprintf("hostname %q want %q", e.Source, d.Hostname))
	}
	if e.AggregationKey != d.AggregationKey {
		bad = append(bad, fmt.Sprintf("aggregation-key %q want %q", e.AggregationKey, d.AggregationKey))
	}
	if int(e.Priority) != d.Priority {
		bad = append(bad, fmt.Sprintf("priority %d want %d", e.Priority, d.Priority))
	}
	if e.SourceTypeName != d.SourceTypeName {
		bad = append(bad, fmt.Sprintf("source-type %q want %q", e.SourceTypeName, d.SourceTypeName))
	}
	if int(e.AlertType) != d.AlertType {
		bad = append(bad, fmt.Sprintf("alert-type %d want %d", e.AlertType, d.AlertType))
	}
	if !tagsEqual(d.Tags, e.Tags) {
		bad = append(bad, fmt.Sprintf("tags %q want %q", e.Tags, d.Tags))
	}
	if len(bad) > 0 {
		c.r.Violation("derived-event-field:"+strings.SplitN(bad[0], " ", 2)[0], fmt.Sprintf("line %q: %s", d.Line, strings.Join(bad, "; ")), cs)
	}
	if len(d.Shape) > 1 {
		c.r.Nontrivial(d.Shape)
	}
	if c.r.WantSample() && len(d.Shape) > 3 {
		c.r.Sample(map[string]interface{}{"line": d.Line, "expected": d})
	}
}

// mutate applies one single-point mutation to a derived line: delete / duplicate / replace a byte,
// preferring structural bytes.
func mutate(rng *rand.Rand, line []byte) []byte {
	if len(line) == 0 {
		return line
	}
	structural := []int{}
	for i, b := range line {
		switch b {
		case ':', '|', '@', '#', ',', '{', '}', '_':
			structural = append(structural, i)
		}
	}
	i := rng.Intn(len(line))
	if len(structural) > 0 && rng.Intn(4) != 0 {
		i = structural[rng.Intn(len(structural))]
	}
	out := append([]byte(nil), line...)
	switch rng.Intn(4) {
	case 0: // delete
		out = append(out[:i], out[i+1:]...)
	case 1: // duplicate
		out = append(out[:i+1], append([]byte{line[i]}, out[i+1:]...)...)
	case 2: // replace by a structural or odd byte
		out[i] = []byte{':', '|', '@', '#', ',', 'x', '0', ' ', '.', '-', 'e', 's', 'm', '_', '{', 0xff}[rng.Intn(16)]
	default: // truncate
		out = out[:i]
	}
	// no NUL, no newline in this property's quantifier
	for j := range out {
		if out[j] == 0 || out[j] == '\n' {
			out[j] = '.'
		}
	}
	return out
}

var boundaryCorpus = []string{
	"x:1|c|@0", "x:1|c|@-0", "x:1|c|@-0.5", "x:1|c|@nan", "x:1|c|@NaN", "x:1|c|@inf", "x:1|c|@-inf", "x:1|c|@+Inf", "x:1|c|@1e-400", "x:1|c|@1e400",
	"x:1|c|@0x1p-2", "x:1|c|@1_0", "x:1|c|@", "x:1|c|@ 1", "x:1|c|@0.5|@0", "x:1|c|@0|@0.5", "x:1|ms|@0.0", "x:1|g|@1e-324", "x:1|h|@-1e-324",
	"x:inf|c", "x:-inf|g", "x:nan|ms", "x:NaN|g", "x:+nan|c", "x:-nan|c", "x:1e400|c", "x:|c", "x:|s", "x: 1|c", "x:1 |c", "x:0x|c", "x:1_0|c", "x:--1|c",
	"x", "x:", "x:1", "x:1|", "x:1|x", "x:1|m", "x:1|mss", "x:1|cc", "x:1|C", "x:1|S", "x:1|h|", "x:1|c|#", "x:1|c|#,", "x:1|c|#,,a,,", "x:1|c||#a", "x:1|c|#a||@0",
	":1|c", "::1|c", "!!!:1|c", "/:1|c", " :1|c", "_:1|c", "_x:1|c", "__e:1|c", "-:1|c", ".:1|c", "a:b:1|c", "a:1:2|s", "a|b:1|c", "a#b:1|c", "a@b:1|c|@0.5",
	"_e", "_e{", "_e{}", "_e{,}", "_e{1,1}", "_e{1,1}:", "_e{1,1}:a", "_e{1,1}:a|", "_e{1,1}:a|b", "_e{0,0}:|", "_e{0,0}:||", "_e{1,1}:a|b|", "_e{1,1}:a|b|d:", "_e{1,1}:a|b|d:x",
	"_e{1,1}:a|b|d:18446744073709551615", "_e{1,1}:a|b|d:9223372036854775807", "_e{1,1}:a|b|d:9223372036854775808", "_e{1,1}:a|b|p:high", "_e{1,1}:a|b|t:fatal", "_e{1,1}:a|b|p", "_e{1,1}:a|b|#,,",
	"_e{1,1}:a|b|h", "_e{2,1}:a|b", "_e{1,2}:a|b", "_e{01,01}:a|b", "_e{+1,1}:a|b", "_e{1, 1}:a|b", "_e{1,1} :a|b", "_f{1,1}:a|b", "_e{4294967295,0}:a|", "_e{0,4294967295}:|a",
	"_e{4294967296,1}:a|b", "_e{5,4294967290}:abcde|xyz", "_e{2,4294967295}:ab|b", "_e{18446744073709551616,1}:a|b", "_e{1,1}:a|b|x", "_e{1,1}:a|b|c:foo|#t", "_e{3,5}:a|b|c\\nd",
}

func TestCheck(t *testing.T) {
	r := mon.Start(t, "C02")
	defer r.Finish()
	r.Rule("cases: (a) derivations of an independent generator of the documented grammar (metric lines with all five type letters, rate/tag/unknown sections in any order and repeated, names needing normalisation, namespaces; event lines with every attribute in any order) checked for exact field equality; (b) single-point mutations of (a); (c) structure-aware random byte strings without NUL/newline; (d) a fixed boundary corpus; (b)-(d) checked against an independent recogniser of the five must-reject clauses and the well-formedness predicate on everything accepted. Non-trivial: a derivation with at least one attribute section or a normalised name; distinct by (derivation shape incl. section order, namespace present) for derivations and by (accept/reject, reject reason) for the rest.")
	r.Assume("strconv.ParseFloat defines what a parsable number is")
	c := &checker{r: r, lx: statsd.VerifNewLexer(0)}

	if p := r.ReplayPayload(); p != nil {
		replay(t, r, c, p)
		return
	}

	rng := r.Rand("c02")
	nDerived := r.N(200000, 150000000)
	nOther := r.N(200000, 150000000)
	opts := []gen.LineOpts{{}, {}, {Plain: true}, {UTF8Only: true}, {DyadicRates: true, SmallInts: true}}
	for i := 0; i < nDerived; i++ {
		o := opts[i%len(opts)]
		if i%4 == 3 {
			c.derivedEvent(rng, o)
		} else {
			c.derivedMetric(rng, o)
		}
	}
	for i := 0; i < nOther; i++ {
		var line []byte
		kind := ""
		switch i % 3 {
		case 0, 1:
			kind = "mutation"
			if rng.Intn(4) == 0 {
				line = mutate(rng, []byte(gen.Event(rng, gen.LineOpts{}).Line))
			} else {
				line = mutate(rng, []byte(gen.Metric(rng, gen.LineOpts{}).Line))
			}
			if rng.Intn(4) == 0 {
				line = mutate(rng, line)
			}
		default:
			kind = "random"
			line = gen.RandomLine(rng, false)
		}
		ns := namespaces[rng.Intn(len(namespaces))]
		r.Case("%s %x", kind, line)
		m, e, err := c.run(kind, line, ns)
		class := "accept"
		if err != nil {
			// strconv errors quote the offending text; keep the error kind only
			msg := err.Error()
			if i := strings.Index(msg, "\""); i >= 0 {
				j := strings.LastIndex(msg, "\"")
				msg = msg[:i] + msg[j+1:]
			}
			class = "reject:" + msg
		}
		r.Nontrivial(kind + ":" + class + ":" + gen.Reject(line))
		if m != nil {
			m.Done()
		}
		_ = e
	}
	if s, _ := r.Shard(); s == 0 {
		for _, l := range boundaryCorpus {
			for _, ns := range []string{"", "ns"} {
				_, _, err := c.run("boundary", []byte(l), ns)
				r.Nontrivial(fmt.Sprintf("boundary:%v:%s", err == nil, gen.Reject([]byte(l))))
			}
		}
		r.Event("boundary_corpus", len(boundaryCorpus))
	}
}

func replay(t *testing.T, r *mon.Run, c *checker, p []byte) {
	cs, ok := mon.ReplayCase(p, &lexCase{}).(*lexCase)
	if !ok || cs == nil {
		t.Skip("no case in replay file")
	}
	var line []byte
	fmt.Sscanf(cs.LineHex, "%x", &line)
	c.run(cs.Kind, line, cs.Namespace)
	if strings.HasPrefix(cs.Kind, "derived") {
		t.Logf("derived cases replay by seed; only the universal oracles were re-applied to %q", line)
	}
	r.Nontrivial("replay-a")
	r.Nontrivial("replay-b")
}
